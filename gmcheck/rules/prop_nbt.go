package rules

import (
	"strings"

	"gmcheck/core"

	"golang.org/x/tools/go/ssa"
)

func filterObs(obs []core.Ob, keep func(o core.Ob) bool) []core.Ob {
	var out []core.Ob
	for _, o := range obs {
		if keep(o) {
			out = append(out, o)
		}
	}
	return out
}

func init() {
	Props["C01"] = PropDef{
		Explanation: "R-NOBUF: from Decode/NewDecoder/RawMessage/StringifiedMessage/dynbt.Value no buffering reader or read-to-EOF is reachable and NewDecoder installs the one-byte adapter (necessary for 'consumes exactly the document'). T-ENDIAN: every fixed-width reader/writer uses the big-endian (byte index, shift) table. T-DISPATCH: every full tag dispatch covers the 12 value tags, rejects unknown ids and a bare TagEnd. T-KIND: the encoder's kind->tag table is the documented one and every mapped kind is accepted by the decoder's case for that tag. R-RAWREAD for the byte adapter. Not decided: decoded values for arbitrary documents, struct-tag semantics (typeFields), exact skip lengths.",
		Run: func(c *Ctx) []core.Ob {
			obs := c.NoReadAhead()
			obs = append(obs, c.Endian()...)
			obs = append(obs, c.TagDispatch("nbt", "nbt/dynbt")...)
			obs = append(obs, c.KindTables()...)
			obs = append(obs, c.NaturalTypes()...)
			obs = append(obs, c.OmitEmptyTestsField()...)
			obs = append(obs, c.EmptinessCoversKinds()...)
			obs = append(obs, c.AppendOwnership("nbt", "nbt/dynbt")...)
			obs = append(obs, c.TagWidths("nbt", "nbt/dynbt")...)
			obs = append(obs, c.ClauseConsistency("nbt", "nbt/dynbt")...)
			obs = append(obs, c.BitFields("nbt", "nbt/dynbt")...)
			obs = append(obs, filterObs(c.RawRead(), func(o core.Ob) bool { return strings.HasPrefix(o.Key, "nbt.") || strings.HasPrefix(o.Key, "nbt/") })...)
			return obs
		},
	}
	Props["C02"] = PropDef{
		Explanation: "R-REFLKIND: every kind-restricted reflect accessor in the encoder's writeValue is valid for every kind the tag table routes into that case (refined by switch val.Kind()). T-KIND: no asymmetric failure by kind between encoder and decoder (scalars and typed-array element kinds). R-NOMUT: encoding performs no reflect Set* on the caller's value. R-MARSHALER: custom marshalers write payload only; delegating unmarshalers re-inject the tag. R-NOALIAS: an append onto a slice held by another object (the index path of an embedding struct in the field cache) puts its result back there and is not kept under a second name. Not decided: equality of values after the round trip, root-name propagation, byte-exactness of carriers in every position.",
		Run: func(c *Ctx) []core.Ob {
			obs := c.ReflKind()
			obs = append(obs, c.KindTables()...)
			obs = append(obs, c.NoMutation()...)
			obs = append(obs, c.NaturalTypes()...)
			obs = append(obs, filterObs(c.MarshalerContract(), func(o core.Ob) bool { return strings.HasPrefix(o.Key, "nbt") })...)
			obs = append(obs, c.AppendOwnership("nbt", "nbt/dynbt")...)
			obs = append(obs, c.FreshElements("nbt", "nbt/dynbt")...)
			obs = append(obs, c.FixedBufferCopies("nbt", "nbt/dynbt")...)
			obs = append(obs, c.TagWidths("nbt", "nbt/dynbt")...)
			return obs
		},
	}
	Props["C04"] = PropDef{
		Explanation: "T-SNBTSUF: every numeric suffix and typed-array prefix the text writer emits is classified back to the same tag by the parser's literal classifier (isIntegerType/isFloatType evaluated per emitted character; suffix->tag switches compared as tables), and TagType() agrees with the parser on the array prefixes. T-DISPATCH for the binary->text dispatcher. R-PANIC: explicit panics reachable from the text entry points are triaged. R-TLG: binary->text loops are bounded by sign-checked counts. Not decided: the accepted language of the hand-written scanner, float formatting exactness, quoting decisions.",
		Run: func(c *Ctx) []core.Ob {
			obs := c.SNBTSuffix()
			obs = append(obs, c.SNBTLiteralWidths()...)
			obs = append(obs, c.RuneTruncation("nbt")...)
			obs = append(obs, c.ScannerDetours("nbt")...)
			obs = append(obs, c.StringIndexGuards(pkgPred("nbt"))...)
			obs = append(obs, filterObs(c.TagDispatch("nbt"), func(o core.Ob) bool { return strings.Contains(o.Key, "StringifiedMessage") })...)
			// scope: what the exported text entry points reach inside package nbt (call graph, not names)
			var rootNames []string
			for _, fn := range c.Funcs() {
				n := core.FnName(fn)
				if inPkgs(fn, "nbt") && fn.Parent() == nil && fn.Object() != nil && fn.Object().Exported() &&
					(recvTypeName(n) == "StringifiedMessage" || n == "nbt.(RawMessage).String") {
					rootNames = append(rootNames, n)
				}
			}
			in := c.reachPred(rootNames, "nbt")
			var roots []*ssa.Function
			for _, r := range c.DecoderRoots() {
				n := core.FnName(r)
				if strings.Contains(n, "StringifiedMessage") || n == "nbt.(RawMessage).String" {
					roots = append(roots, r)
				}
			}
			pk := pkgPred("nbt")
			obs = append(obs, c.Panics(c.Verif, roots, pk, pk)...)
			obs = append(obs, c.TLGObs(in, in, true)...)
			return obs
		},
	}
	Props["C10"] = PropDef{
		Explanation: "R-ORIGIN: Conn.SetCipher installs the decrypt stream on the reader side and the encrypt stream on the writer side over the socket, and both call sites (bot, server/auth) pass (NewCFB8Encrypt, NewCFB8Decrypt) built over the same block and IV - necessary for an encrypted connection to be transparent. R-NOALIAS: the CFB8 constructors keep no memory of their slice parameters. Not decided: that XORKeyStream computes AES-CFB8 for every call pattern (byte values from ring-buffer index arithmetic with unsafe aliasing tests: no static argument in reach).",
		Run: func(c *Ctx) []core.Ob {
			obs := c.CipherWiring()
			obs = append(obs, c.NoRetainedParamSlices("net/CFB8")...)
			obs = append(obs, c.BlockSlices("net/CFB8")...)
			obs = append(obs, c.ConnInit()...)
			return obs
		},
	}
	Props["C11"] = PropDef{
		Explanation: "R-GUARD (via the R-TLG abstract interpreter): at every access of the packed longs in Get/Set/Swap the index is proven in [0, length-1] and at every store the value in [0, mask]; with 0 bits the methods return before calcIndex divides. R-ORDER: Fix returns nil only for 0 bits or after the raw-length comparison; NewBitStorage checks the length before copying. R-WIRESYM + R-TLG for ReadFrom/WriteTo. Not decided: the packing arithmetic itself (index -> long/offset, neighbours untouched).",
		Run: func(c *Ctx) []core.Ob {
			obs := c.BitStorageGuards()
			obs = append(obs, c.BitStorageFixSibling()...)
			obs = append(obs, c.BitWidthInverse()...)
			obs = append(obs, c.BitStorageReadLength()...)
			obs = append(obs, c.wireObs(func(p, t string) bool { return p == "level" && t == "BitStorage" })...)
			in := c.reachFromTypes("level", []string{"BitStorage"}, "NewBitStorage")
			obs = append(obs, c.TLGObs(in, in, false)...)
			return obs
		},
	}
}
