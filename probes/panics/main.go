package main

import (
	"bytes"
	"context"
	"fmt"

	"github.com/Tnze/go-mc/level"
	pk "github.com/Tnze/go-mc/net/packet"
	"github.com/Tnze/go-mc/server/command"
)

func try(name string, f func() error) {
	defer func() {
		if r := recover(); r != nil {
			fmt.Printf("%-28s PANIC %v\n", name, r)
		}
	}()
	err := f()
	fmt.Printf("%-28s err=%v\n", name, err)
}

func main() {
	try("Execute empty line", func() error {
		g := command.NewGraph()
		g.AppendLiteral(g.Literal("me").HandleFunc(func(ctx context.Context, args []command.ParsedData) error { return nil }))
		return g.Execute(context.Background(), "")
	})
	try("Chunk heightmap 3 longs", func() error {
		c := level.EmptyChunk(24)
		var buf bytes.Buffer
		pk.Tuple{
			pk.NBT(struct {
				MotionBlocking []uint64 `nbt:"MOTION_BLOCKING"`
			}{MotionBlocking: []uint64{1, 2, 3}}),
			pk.ByteArray(nil),
			pk.VarInt(0),
		}.WriteTo(&buf)
		buf.Write(make([]byte, 64))
		_, err := c.ReadFrom(&buf)
		return err
	})
}
