package main

import (
	"bytes"
	"fmt"

	pk "github.com/Tnze/go-mc/net/packet"
)

func main() {
	var v pk.VarInt
	n, err := v.ReadFrom(bytes.NewReader([]byte{0x80, 0x80, 0x80, 0x80, 0x80, 0x01}))
	fmt.Println("6-byte VarInt:", v, n, err)
}
