// gmcheck decides the go-mc properties C01..C20 by static analysis of the
// working tree of the repository (see /verif/DESIGN.md).
package main

import (
	"flag"
	"fmt"
	"os"
	"path/filepath"
	"strconv"
	"strings"
	"time"

	"gmcheck/core"
	"gmcheck/rules"
)

func main() {
	prop := flag.String("property", "", "property id (C01..C20)")
	tier := flag.String("tier", "", "quick|thorough (default: $VERIF_TIER or quick)")
	repo := flag.String("repo", "/repo", "repository working tree to analyse")
	verif := flag.String("verif", "/verif", "verification directory (tables, evidence, replay)")
	only := flag.String("only", "", "print only the obligation with this rule|key (replay)")
	dump := flag.Bool("dump", false, "print every obligation")
	replay := flag.String("replay", "", "replay file written by a previous VIOLATION")
	noFixtures := flag.Bool("nofixtures", false, "skip the positive/negative control fixtures")
	flag.Parse()

	if *replay != "" {
		var r struct {
			Property   string  `json:"property"`
			Obligation core.Ob `json:"obligation"`
		}
		if err := core.ReadJSON(*replay, &r); err != nil || r.Property == "" {
			fmt.Fprintf(os.Stderr, "gmcheck: cannot read replay file %s: %v\n", *replay, err)
			os.Exit(2)
		}
		*prop = r.Property
		*only = r.Obligation.ID()
	}
	if *tier == "" {
		*tier = os.Getenv("VERIF_TIER")
	}
	if *tier == "" {
		*tier = "quick"
	}
	seed := int64(0)
	if s := os.Getenv("VERIF_SEED"); s != "" {
		seed, _ = strconv.ParseInt(s, 10, 64)
	}
	def, ok := rules.Props[*prop]
	if !ok {
		fmt.Fprintf(os.Stderr, "gmcheck: unknown property %q\n", *prop)
		os.Exit(2)
	}
	code := run(def, *prop, *tier, seed, *repo, *verif, *only, *dump, *noFixtures)
	os.Exit(code)
}

func run(def rules.PropDef, prop, tier string, seed int64, repo, verif, only string, dump, noFixtures bool) (code int) {
	start := time.Now()
	defer func() {
		if r := recover(); r != nil {
			// an analyser panic is a failure of the check (undecided), never a pass
			fmt.Printf("gmcheck: analyser panic: %v\n", r)
			fmt.Printf("VIOLATION property=%s replay=%s\n", prop, filepath.Join(verif, "replay", prop, "analyser-panic"))
			panic(r)
		}
	}()
	configs := [][2]string{{"", ""}}
	if tier == "thorough" {
		// word size (int is 32 bits on 386) and OS-tagged files
		configs = [][2]string{{"linux", "amd64"}, {"linux", "386"}, {"windows", "amd64"}, {"darwin", "arm64"}}
	}
	rep := &core.Report{Property: prop, Tier: tier, Seed: seed, Start: start, Counts: map[string]int{}, Extra: map[string]any{},
		Explanation: def.Explanation, Assumptions: def.Assumptions,
		TrustedBase: []string{"go/packages + go/types (type information, constant values)", "go/ssa construction (x/tools v0.29.0)",
			"VTA call graph over-approximation of interface calls", "contracts of io.ReadFull, io.CopyN, binary.Read, sync.Cond, sort.SliceStable",
			"gmcheck rule implementations and the frozen tables under /verif/rules"}}
	var cfgNames []string
	for ci, cf := range configs {
		p, err := core.Load(core.LoadOpts{Dir: repo, GOOS: cf[0], GOARCH: cf[1]})
		if err != nil {
			fmt.Printf("gmcheck: %v\n", err)
			fmt.Printf("VIOLATION property=%s replay=%s\n", prop, filepath.Join(verif, "replay", prop, "load-failure"))
			return 1
		}
		ctx := rules.NewCtx(p)
		ctx.Verif = verif
		obs := def.Run(ctx)
		name := cf[0] + "/" + cf[1]
		if cf[0] == "" {
			name = "default"
		}
		cfgNames = append(cfgNames, name)
		if ci == 0 {
			rep.Counts["packages"] = len(p.Pkgs)
			rep.Counts["functions"] = len(ctx.Funcs())
			rep.Add(obs...)
		} else {
			// other build configurations: only obligations that differ from the
			// first configuration (new keys or a different status) are added
			base := map[string]core.Status{}
			for _, o := range rep.Obs {
				base[o.ID()] = o.Status
			}
			for _, o := range obs {
				if st, ok := base[o.ID()]; !ok || st != o.Status {
					o.Key = o.Key + "@" + name
					rep.Add(o)
				}
			}
		}
		rep.Notes = append(rep.Notes, fmt.Sprintf("config %s: %d packages, %d functions, %d obligations", name, len(p.Pkgs), len(ctx.Funcs()), len(obs)))
		rep.Notes = append(rep.Notes, ctx.Notes...)
	}
	rep.Extra["build_configurations"] = cfgNames
	if tier == "thorough" && os.Getenv("GMCHECK_NO_MUTANTS") == "" {
		// kill matrix: guards the checker itself; the verdict of the run is the unmodified tree's
		ms := runMutants(prop, repo, verif)
		killed, total, regress, lines := summarizeMutants(ms)
		rep.Extra["mutants"] = ms
		rep.Extra["mutants_killed"] = killed
		rep.Extra["mutants_total"] = total
		rep.Extra["mutants_expected_but_missed"] = regress
		for _, l := range lines {
			fmt.Fprintln(os.Stderr, l)
		}
		nRef, nSilent := 0, 0
		for _, m := range ms {
			if m.Expected == "silent" {
				nRef++
				if m.Result == "survived" {
					nSilent++
				}
			}
		}
		rep.Extra["refactorings_total"] = nRef
		rep.Extra["refactorings_silent"] = nSilent
		rep.Notes = append(rep.Notes, fmt.Sprintf("kill matrix: %d/%d registered breaking changes reported; silent on %d/%d behaviour-preserving refactorings (%d deviations from the recorded expectations); each applied to a scratch copy, type-checked and analysed, never executed", killed, total, nSilent, nRef, regress))
	}
	// positive / negative controls
	if !noFixtures {
		fobs, ferr := rules.RunFixtures(verif, def)
		if ferr != nil {
			fmt.Printf("gmcheck: fixtures: %v\n", ferr)
			fmt.Printf("VIOLATION property=%s replay=%s\n", prop, filepath.Join(verif, "replay", prop, "fixture-failure"))
			return 1
		}
		rep.Add(fobs...)
	}
	if dump || only != "" {
		for _, o := range rep.Obs {
			if only != "" && o.ID() != only && !strings.HasPrefix(o.ID(), only) {
				continue
			}
			arm := "armed"
			if !o.Armed {
				arm = "info"
			}
			fmt.Printf("%-10s %-5s %-10s %s  %s\n      want: %s\n      got:  %s\n", o.Status, arm, o.Rule, o.Key, o.Pos, o.Want, o.Got)
			for _, p := range o.Path {
				fmt.Printf("        | %s\n", p)
			}
		}
	}
	var anchors map[string]*core.Anchors
	if err := core.ReadJSON(filepath.Join(verif, "rules", "anchors.json"), &anchors); err != nil {
		fmt.Printf("gmcheck: anchors: %v\n", err)
		return 2
	}
	var allow []core.Allow
	if err := core.ReadJSON(filepath.Join(verif, "rules", "allow.json"), &allow); err != nil {
		fmt.Printf("gmcheck: allow: %v\n", err)
		return 2
	}
	ff, err := core.LoadFindings(filepath.Join(verif, "known_findings.json"))
	if err != nil {
		fmt.Printf("gmcheck: known findings: %v\n", err)
		return 2
	}
	return rep.Finish(verif, anchors[prop], allow, ff, "/verif/bin/gmcheck -property "+prop+" -tier "+tier)
}
