package main

import (
	"bytes"
	"fmt"

	pk "github.com/Tnze/go-mc/net/packet"
)

func main() {
	dst := []pk.VarInt{7, 8, 9}
	_, err := pk.Array(&dst).ReadFrom(bytes.NewReader([]byte{1, 42}))
	fmt.Println(err, dst, "(want [42])")
}
