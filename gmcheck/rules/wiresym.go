package rules

import (
	"go/types"
	"sort"

	"gmcheck/core"
)

// wirePair is a module type with both WriteTo and ReadFrom.
type wirePair struct {
	named *types.Named
	w, r  *wireMethod
	name  string
}

func (c *Ctx) wirePairs(x *wireX) []wirePair {
	var out []wirePair
	for _, pk := range c.P.Pkgs {
		sc := pk.Types.Scope()
		for _, n := range sc.Names() {
			tn, ok := sc.Lookup(n).(*types.TypeName)
			if !ok || tn.IsAlias() {
				continue
			}
			named, ok := tn.Type().(*types.Named)
			if !ok {
				continue
			}
			wm, rm := x.methodOf(named, "WriteTo"), x.methodOf(named, "ReadFrom")
			if wm == nil || rm == nil {
				continue
			}
			if streamParam(wm) == nil || streamParam(rm) == nil {
				continue
			}
			out = append(out, wirePair{named: named, w: wm, r: rm, name: core.Rel(pk.PkgPath) + "." + n})
		}
	}
	sort.Slice(out, func(i, j int) bool { return out[i].name < out[j].name })
	return out
}

// pkLeafInline: net/packet types whose byte-level form is compared by inlining
// nested field types down to Raw(n) widths. VarInt/VarLong stay atoms (their
// length function is decided by T-VARLEN), NBT is an atom.
func pkLeafInline(n *types.Named) bool {
	o := n.Obj()
	if o.Pkg() == nil || o.Pkg().Path() != pkPath {
		return false
	}
	switch o.Name() {
	case "VarInt", "VarLong", "NBTField", "Tuple", "Ary", "Opt", "Option", "OptionEncoder", "OptionDecoder":
		return false
	}
	return true
}

// wireAtoms: types whose two methods are not comparable at the wire-kind
// level by construction; each is decided by another rule.
var wireAtoms = map[string]string{
	"net/packet.VarInt":   "variable-length atom: writer emits vi[:n], reader loops over ReadByte; length function decided by T-VARLEN (C05)",
	"net/packet.VarLong":  "variable-length atom, see VarInt",
	"net/packet.NBTField": "NBT document atom: a nil value is written as the single TagEnd byte, which the reader accepts as an (empty) document (ErrEND branch)",
}

// WireSym implements R-WIRESYM.
func (c *Ctx) WireSym(armed func(pkgRel string, typeName string) bool) []core.Ob {
	x := c.newWireX()
	var obs []core.Ob
	for _, p := range c.wirePairs(x) {
		pkgRel := core.Rel(p.named.Obj().Pkg().Path())
		x.inline = nil
		if p.named.Obj().Pkg().Path() == pkPath {
			x.inline = pkLeafInline
		}
		ws, rs := foldSet(x.methodSig(p.w)), foldSet(x.methodSig(p.r))
		ob := core.Ob{Rule: "R-WIRESYM", Key: p.name, Pos: c.P.Pos(p.w.decl.Pos()), Func: p.name + ".WriteTo/ReadFrom",
			Armed: armed(pkgRel, p.named.Obj().Name()),
			Want:  "the sequence of wire kinds WriteTo produces equals the sequence ReadFrom consumes"}
		wr, rr := ws.render(), rs.render()
		if reason, skip := wireAtoms[p.name]; skip {
			ob.Status = core.Allowed
			ob.Reason = reason
			ob.Got = "writer " + wr + " ; reader " + rr
		} else if wr == rr {
			ob.Status = core.OK
			ob.Got = wr
		} else {
			ob.Status = core.Violated
			ob.Got = "writer " + wr + "  !=  reader " + rr
		}
		obs = append(obs, ob)
	}
	return obs
}
