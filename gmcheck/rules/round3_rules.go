package rules

// Rules added after the third round of independently seeded changes. Each one
// is a structural necessary condition of the property it is bound to; none of
// them mentions the text of a seeded change.

import (
	"fmt"
	"go/ast"
	"go/constant"
	"go/token"
	"go/types"
	"math/big"
	"sort"
	"strings"

	"gmcheck/core"

	"golang.org/x/tools/go/ssa"
)

// ---------------------------------------------------------------------------
// T-TAGWIDTH: payload widths of the fixed-width NBT tags.
//
// The format fixes them: Byte 1, Short 2, Int 4, Long 8, Float 4, Double 8.
// (a) a clause of a switch over tag constants that belongs to one of these
// tags and performs stream I/O of a constant size performs it with that size;
// (b) a constant table indexed by tag (array/slice literal of 7..13 small
// integers whose entries 1..6 are all powers of two up to 8, or a map literal
// keyed by Tag constants) lists those widths.

var nbtFixedWidth = map[int64]int64{1: 1, 2: 2, 3: 4, 4: 8, 5: 4, 6: 8}

// ioWidth: the number of bytes a call moves when that is a constant visible at the call (0: not such a call).
func ioWidth(info *types.Info, call *ast.CallExpr) int64 {
	constLenOf := func(e ast.Expr) int64 {
		e = ast.Unparen(e)
		switch x := e.(type) {
		case *ast.SliceExpr:
			lo := int64(0)
			if x.Low != nil {
				tv, ok := info.Types[x.Low]
				if !ok || tv.Value == nil {
					return 0
				}
				lo, _ = constant.Int64Val(tv.Value)
			}
			if x.High != nil {
				tv, ok := info.Types[x.High]
				if !ok || tv.Value == nil {
					return 0
				}
				hi, _ := constant.Int64Val(tv.Value)
				return hi - lo
			}
			if tv, ok := info.Types[x.X]; ok {
				if at, ok := deref(tv.Type).Underlying().(*types.Array); ok {
					return at.Len() - lo
				}
			}
		case *ast.CompositeLit:
			if tv, ok := info.Types[x]; ok {
				if _, isSl := tv.Type.Underlying().(*types.Slice); isSl {
					for _, el := range x.Elts {
						if _, kv := el.(*ast.KeyValueExpr); kv {
							return 0
						}
					}
					return int64(len(x.Elts))
				}
			}
		}
		return 0
	}
	sizeOfType := func(t types.Type) int64 {
		if p, ok := t.Underlying().(*types.Pointer); ok {
			t = p.Elem()
		}
		if b, ok := t.Underlying().(*types.Basic); ok {
			switch b.Kind() {
			case types.Int8, types.Uint8, types.Bool:
				return 1
			case types.Int16, types.Uint16:
				return 2
			case types.Int32, types.Uint32, types.Float32:
				return 4
			case types.Int64, types.Uint64, types.Float64:
				return 8
			}
		}
		return 0
	}
	sel, _ := ast.Unparen(call.Fun).(*ast.SelectorExpr)
	if sel == nil {
		return 0
	}
	fo, _ := info.Uses[sel.Sel].(*types.Func)
	if fo == nil {
		return 0
	}
	pkg := ""
	if fo.Pkg() != nil {
		pkg = fo.Pkg().Path()
	}
	sig, _ := fo.Type().(*types.Signature)
	isMethod := sig != nil && sig.Recv() != nil
	switch {
	case pkg == "io" && !isMethod && (fo.Name() == "ReadFull" || fo.Name() == "ReadAtLeast") && len(call.Args) >= 2:
		return constLenOf(call.Args[1])
	case pkg == "io" && !isMethod && fo.Name() == "CopyN" && len(call.Args) == 3:
		if tv, ok := info.Types[call.Args[2]]; ok && tv.Value != nil {
			n, _ := constant.Int64Val(tv.Value)
			return n
		}
	case pkg == "encoding/binary" && !isMethod && (fo.Name() == "Read" || fo.Name() == "Write") && len(call.Args) == 3:
		if tv, ok := info.Types[call.Args[2]]; ok {
			return sizeOfType(tv.Type)
		}
	case isMethod && (fo.Name() == "ReadByte" || fo.Name() == "WriteByte"):
		return 1
	case isMethod && (fo.Name() == "Read" || fo.Name() == "Write") && len(call.Args) == 1:
		return constLenOf(call.Args[0])
	}
	return 0
}

func (c *Ctx) TagWidths(pkgs ...string) []core.Ob {
	var obs []core.Ob
	// (a) clauses
	for _, ts := range c.tagSwitches(pkgs...) {
		vals := make([]int64, 0, len(ts.cases))
		for v := range ts.cases {
			vals = append(vals, v)
		}
		sort.Slice(vals, func(i, j int) bool { return vals[i] < vals[j] })
		for _, v := range vals {
			want, fixed := nbtFixedWidth[v]
			if !fixed {
				continue
			}
			cc := ts.cases[v]
			seen := map[int64]token.Pos{}
			for _, hb := range c.withHelpers(ts.pkg, cc, ts.decl, 1) {
				// a helper that itself dispatches on something is not a fixed-size reader
				if hb.decl != nil {
					branching := false
					ast.Inspect(hb.node, func(n ast.Node) bool {
						switch n.(type) {
						case *ast.SwitchStmt, *ast.TypeSwitchStmt, *ast.ForStmt, *ast.RangeStmt:
							branching = true
						}
						return !branching
					})
					if branching {
						continue
					}
				}
				ast.Inspect(hb.node, func(n ast.Node) bool {
					if call, ok := n.(*ast.CallExpr); ok {
						if w := ioWidth(hb.pk.TypesInfo, call); w > 0 {
							if _, dup := seen[w]; !dup {
								seen[w] = call.Pos()
							}
						}
					}
					return true
				})
			}
			if len(seen) == 0 {
				continue
			}
			o := core.Ob{Rule: "T-TAGWIDTH", Key: fmt.Sprintf("%s#%d:%s", ts.fn, ts.ordinal, ts.names[v]), Pos: c.P.Pos(cc.Pos()), Func: ts.fn, Armed: true, Status: core.OK,
				Want: fmt.Sprintf("the clause for %s moves %d byte(s) of payload", ts.names[v], want)}
			var got []string
			for w := range seen {
				if w != want {
					got = append(got, fmt.Sprintf("%d bytes at %s", w, c.P.Pos(seen[w])))
				}
			}
			sort.Strings(got)
			if len(got) > 0 {
				o.Status = core.Violated
				o.Got = "constant-size stream I/O of " + strings.Join(got, ", ")
			}
			obs = append(obs, o)
		}
	}
	// (b) tables
	ntab := 0
	for _, pk := range c.P.Pkgs {
		rel := core.Rel(pk.PkgPath)
		in := false
		for _, p := range pkgs {
			in = in || rel == p
		}
		if !in {
			continue
		}
		info := pk.TypesInfo
		for _, f := range pk.Syntax {
			ast.Inspect(f, func(n ast.Node) bool {
				cl, ok := n.(*ast.CompositeLit)
				if !ok {
					return true
				}
				tv, ok := info.Types[cl]
				if !ok {
					return true
				}
				entries := map[int64]int64{}
				isInt := func(t types.Type) bool {
					b, ok := t.Underlying().(*types.Basic)
					return ok && b.Info()&types.IsInteger != 0
				}
				byTagKey := false
				switch tt := tv.Type.Underlying().(type) {
				case *types.Array, *types.Slice:
					var el types.Type
					if a, ok := tt.(*types.Array); ok {
						el = a.Elem()
					} else {
						el = tt.(*types.Slice).Elem()
					}
					if !isInt(el) {
						return true
					}
					idx := int64(0)
					for _, e := range cl.Elts {
						val := e
						if kv, ok := e.(*ast.KeyValueExpr); ok {
							ktv, ok := info.Types[kv.Key]
							if !ok || ktv.Value == nil {
								return true
							}
							idx, _ = constant.Int64Val(ktv.Value)
							if _, _, isTag := tagConst(info, kv.Key); isTag {
								byTagKey = true
							}
							val = kv.Value
						}
						vtv, ok := info.Types[val]
						if !ok || vtv.Value == nil {
							return true
						}
						x, _ := constant.Int64Val(vtv.Value)
						entries[idx] = x
						idx++
					}
					if !byTagKey {
						if idx < 7 || idx > 13 {
							return true
						}
						for t := int64(1); t <= 6; t++ {
							if x := entries[t]; x != 1 && x != 2 && x != 4 && x != 8 {
								return true
							}
						}
					}
				case *types.Map:
					if !isInt(tt.Elem()) {
						return true
					}
					for _, e := range cl.Elts {
						kv, ok := e.(*ast.KeyValueExpr)
						if !ok {
							return true
						}
						_, k, isTag := tagConst(info, kv.Key)
						if !isTag {
							return true
						}
						vtv, ok := info.Types[kv.Value]
						if !ok || vtv.Value == nil {
							return true
						}
						x, _ := constant.Int64Val(vtv.Value)
						entries[k] = x
						byTagKey = true
					}
				default:
					return true
				}
				if byTagKey {
					// a table keyed by tag constants is a width table only if it looks like one
					nfixed := 0
					for t := int64(1); t <= 6; t++ {
						if x, ok := entries[t]; ok && (x == 1 || x == 2 || x == 4 || x == 8) {
							nfixed++
						}
					}
					if nfixed < 3 {
						return true
					}
				}
				ntab++
				o := core.Ob{Rule: "T-TAGWIDTH", Key: fmt.Sprintf("%s#table%d", rel, ntab), Pos: c.P.Pos(cl.Pos()), Armed: true, Status: core.OK,
					Want: "a table of payload widths indexed by tag lists Byte 1, Short 2, Int 4, Long 8, Float 4, Double 8"}
				var bad []string
				for t := int64(1); t <= 6; t++ {
					if x, ok := entries[t]; ok && x != nbtFixedWidth[t] {
						bad = append(bad, fmt.Sprintf("tag %d -> %d (want %d)", t, x, nbtFixedWidth[t]))
					}
				}
				if len(bad) > 0 {
					o.Status = core.Violated
					o.Got = strings.Join(bad, ", ")
				}
				obs = append(obs, o)
				return true
			})
		}
	}
	return obs
}

// ---------------------------------------------------------------------------
// R-ORDER[palette-read:fresh-palette]: PaletteContainer.ReadFrom decodes the
// palette into a palette object created in that same call: on every path to
// the call of ReadFrom on the receiver's palette field, that field has been
// assigned the result of a call (config.create) before. A palette kept from
// an earlier decode is refilled by appending (linear) or keeps entries (hash).

func (c *Ctx) PaletteReadResets() []core.Ob {
	o := core.Ob{Rule: "R-ORDER", Key: "palette-read:fresh-palette", Armed: true, Status: core.OK,
		Want: "PaletteContainer.ReadFrom assigns a newly created palette to the container on every path before it decodes the palette entries into it"}
	fn := c.Fn("level.(*PaletteContainer).ReadFrom")
	if fn == nil {
		o.Status, o.Got = core.Violated, "level.(*PaletteContainer).ReadFrom not found"
		return []core.Ob{o}
	}
	o.Pos, o.Func = c.P.Pos(fn.Pos()), core.FnName(fn)
	v := c.inlineView(fn, 2)
	n := 0
	for _, nd := range v.nodes {
		call, ok := nd.in.(*ssa.Call)
		if !ok || !call.Common().IsInvoke() || call.Common().Method.Name() != "ReadFrom" {
			continue
		}
		// the decoded object: a field of the receiver, possibly handed through a helper or closure parameter,
		// or one of the entries of a small literal list the method loops over
		cands := []ssa.Value{call.Common().Value}
		if elems := localArrayElems(call.Common().Value); len(elems) > 0 {
			cands = elems
		}
		for _, cand := range cands {
			val, fr := nd.frame.resolve(cand)
			for {
				switch x := val.(type) {
				case *ssa.MakeInterface:
					val = x.X
					continue
				case *ssa.ChangeInterface:
					val = x.X
					continue
				}
				break
			}
			ld, ok := val.(*ssa.UnOp)
			if !ok || ld.Op != token.MUL || fr == nil {
				continue
			}
			f := v.fieldInFrame(fr, ld.X)
			if f == "" || strings.Contains(f, ".") {
				continue
			}
			if _, isIface := ld.Type().Underlying().(*types.Interface); !isIface {
				continue // (the packed data is a concrete object that is re-filled in place)
			}
			n++
			fresh := false
			var stores []int
			for _, m := range v.nodes {
				st, ok := m.in.(*ssa.Store)
				if !ok || v.recvField(m, st.Addr) != f {
					continue
				}
				stores = append(stores, m.id)
				if !v.dominates(m.id, nd.id) && v.reachAvoidingErrAware(v.entry, nd.id, []int{m.id}) {
					continue
				}
				val := st.Val
				for {
					switch x := val.(type) {
					case *ssa.MakeInterface:
						val = x.X
						continue
					case *ssa.ChangeInterface:
						val = x.X
						continue
					}
					break
				}
				switch val.(type) {
				case *ssa.Call, *ssa.Alloc:
					fresh = true
				}
			}
			if !fresh {
				o.Status = core.Violated
				o.Got = fmt.Sprintf("the decode into field %s at %s is not preceded on every path by an assignment of a newly created value to that field: entries of an earlier decode survive", f, c.P.Pos(call.Pos()))
			}
		}
	}
	if n == 0 {
		o.Status, o.Got = core.Violated, "no decode into an interface-typed field of the receiver found"
	}
	return []core.Ob{o}
}

// ---------------------------------------------------------------------------
// T-HEIGHTMAP[network]: Chunk.ReadFrom fills each height-map field of the chunk
// from the decoded field of the same name (or nbt key); no two chunk fields
// are filled from the same decoded field.

func normName(s string) string {
	var b strings.Builder
	for _, r := range strings.ToLower(s) {
		if r >= 'a' && r <= 'z' || r >= '0' && r <= '9' {
			b.WriteRune(r)
		}
	}
	return b.String()
}

// srcFields: the fields of local (non-receiver) structs whose loaded values may flow into v.
func (c *Ctx) srcFields(v ssa.Value, bind map[*ssa.Parameter]ssa.Value, depth int, out map[string]*types.Var) {
	if depth > 6 || v == nil {
		return
	}
	switch x := v.(type) {
	case *ssa.UnOp:
		if x.Op == token.MUL {
			if fa, ok := x.X.(*ssa.FieldAddr); ok {
				if st, ok := deref(fa.X.Type()).Underlying().(*types.Struct); ok {
					// a field of a local variable (or of a captured one)
					base := fa.X
					if ld, ok := base.(*ssa.UnOp); ok {
						base = ld.X
					}
					switch base.(type) {
					case *ssa.Alloc, *ssa.FreeVar:
						out[st.Field(fa.Field).Name()] = st.Field(fa.Field)
						return
					}
				}
			}
			c.srcFields(x.X, bind, depth+1, out)
		}
	case *ssa.Parameter:
		if a, ok := bind[x]; ok {
			c.srcFields(a, bind, depth+1, out)
		}
	case *ssa.Extract:
		c.srcFields(x.Tuple, bind, depth+1, out)
	case *ssa.Phi:
		for _, e := range x.Edges {
			c.srcFields(e, bind, depth+1, out)
		}
	case *ssa.MakeInterface:
		c.srcFields(x.X, bind, depth+1, out)
	case *ssa.ChangeType:
		c.srcFields(x.X, bind, depth+1, out)
	case *ssa.Convert:
		c.srcFields(x.X, bind, depth+1, out)
	case *ssa.Slice:
		c.srcFields(x.X, bind, depth+1, out)
	case *ssa.Call:
		for _, a := range x.Common().Args {
			c.srcFields(a, bind, depth+1, out)
		}
		if g := x.Common().StaticCallee(); g != nil && len(g.Blocks) > 0 && g.Parent() != nil {
			// a local closure: what it returns, with its parameters bound to the arguments
			nb := map[*ssa.Parameter]ssa.Value{}
			for k, val := range bind {
				nb[k] = val
			}
			for i, p := range g.Params {
				if i < len(x.Common().Args) {
					nb[p] = x.Common().Args[i]
				}
			}
			for _, b := range g.Blocks {
				if ret, ok := b.Instrs[len(b.Instrs)-1].(*ssa.Return); ok {
					for _, r := range ret.Results {
						if !types.Identical(r.Type(), errType) {
							c.srcFields(r, nb, depth+1, out)
						}
					}
				}
			}
		}
	}
}

func (c *Ctx) HeightMapNetwork() []core.Ob {
	fn := c.Fn("level.(*Chunk).ReadFrom")
	if fn == nil {
		return []core.Ob{{Rule: "T-HEIGHTMAP", Key: "network:anchors", Armed: true, Status: core.Violated, Want: "level.(*Chunk).ReadFrom exists", Got: "not found"}}
	}
	type asg struct {
		dst  string
		pos  token.Pos
		srcs map[string]*types.Var
	}
	var as []asg
	dests := map[string]bool{}
	for _, g := range c.withPkgCallees(fn, 1) {
		for _, b := range g.Blocks {
			for _, in := range b.Instrs {
				st, ok := in.(*ssa.Store)
				if !ok {
					continue
				}
				fa, ok := st.Addr.(*ssa.FieldAddr)
				if !ok {
					continue
				}
				outer, ok := fa.X.(*ssa.FieldAddr)
				if !ok {
					continue
				}
				if p, isP := outer.X.(*ssa.Parameter); !isP || len(g.Params) == 0 || p != g.Params[0] {
					if _, isFV := outer.X.(*ssa.FreeVar); !isFV {
						continue
					}
				}
				stt, ok := deref(fa.X.Type()).Underlying().(*types.Struct)
				if !ok || !isNamed(deref(stt.Field(fa.Field).Type()), core.ModPath+"/level", "BitStorage") {
					continue
				}
				a := asg{dst: stt.Field(fa.Field).Name(), pos: st.Pos(), srcs: map[string]*types.Var{}}
				c.srcFields(st.Val, nil, 0, a.srcs)
				as = append(as, a)
				for i := 0; i < stt.NumFields(); i++ {
					dests[normName(stt.Field(i).Name())] = true
				}
			}
		}
	}
	var obs []core.Ob
	usedBy := map[string]string{}
	for _, a := range as {
		o := core.Ob{Rule: "T-HEIGHTMAP", Key: "network:" + a.dst, Pos: c.P.Pos(a.pos), Func: core.FnName(fn), Armed: true, Status: core.OK,
			Want: "the chunk's " + a.dst + " height map is built from the decoded field of that name, and from no field another height map is built from"}
		var names []string
		for s := range a.srcs {
			names = append(names, s)
		}
		sort.Strings(names)
		o.Got = "from " + strings.Join(names, ",")
		for _, s := range names {
			fv := a.srcs[s]
			cands := []string{normName(s)}
			_ = fv
			if other, dup := usedBy[s]; dup && other != a.dst {
				o.Status, o.Got = core.Violated, fmt.Sprintf("built from decoded field %s, which %s is also built from", s, other)
			}
			usedBy[s] = a.dst
			for _, cn := range cands {
				if cn != normName(a.dst) && dests[cn] {
					o.Status, o.Got = core.Violated, fmt.Sprintf("built from decoded field %s, the data of another height map", s)
				}
			}
		}
		obs = append(obs, o)
	}
	n := core.Ob{Rule: "T-HEIGHTMAP", Key: "network:count", Pos: c.P.Pos(fn.Pos()), Func: core.FnName(fn), Armed: true, Status: core.OK,
		Want: "Chunk.ReadFrom fills at least two height-map fields of the chunk from decoded data"}
	if len(as) < 2 {
		n.Status, n.Got = core.Violated, fmt.Sprintf("%d assignments found", len(as))
	}
	return append(obs, n)
}

// ---------------------------------------------------------------------------
// T-BITFIELD: where a word is packed as an OR of shifted fields, the bit ranges
// the fields can occupy are pairwise disjoint. The range of a field is computed
// from the expression alone: masks (x & const), the width of unsigned types,
// shifts by constants; a signed value that is widened or shifted without a
// mask may be negative and then occupies every bit above its position.

type bitRange struct{ lo, hi int } // [lo, hi)

func typeBits(t types.Type) (bits int, signed bool) {
	b, ok := t.Underlying().(*types.Basic)
	if !ok {
		return 64, true
	}
	switch b.Kind() {
	case types.Int8:
		return 8, true
	case types.Int16:
		return 16, true
	case types.Int32:
		return 32, true
	case types.Int64, types.Int:
		return 64, true
	case types.Uint8:
		return 8, false
	case types.Uint16:
		return 16, false
	case types.Uint32:
		return 32, false
	case types.Uint64, types.Uint, types.Uintptr:
		return 64, false
	case types.Bool:
		return 1, false
	}
	return 64, true
}

func bitLen(x int64) int {
	n := 0
	for ; x > 0; x >>= 1 {
		n++
	}
	return n
}

// bitsOf: the bit positions v may have set, as one range (over-approximation).
// shiftOverflows: somewhere in the term a left shift by a constant moves bits of its operand beyond
// the width of the type the shift is done in (for int / uint: beyond 32 bits, the width they have
// on the 32-bit platforms). "" if not.
func shiftOverflows(v ssa.Value, depth int, eval func(ssa.Value) AV) string {
	if depth > 8 {
		return ""
	}
	switch x := v.(type) {
	case *ssa.BinOp:
		if x.Op == token.SHL {
			if k, ok := constIntVal(x.Y); ok && k > 0 {
				a := bitsOf(x.X, depth+1)
				// what the interval analysis knows about the operand here (a range check before the packing)
				if all := eval(x.X).all(); all != nil && all.Lo != nil && all.Hi != nil && all.Lo.Sign() >= 0 && all.Hi.IsInt64() {
					a.hi = min(a.hi, bitLen(all.Hi.Int64()))
				}
				width, _ := typeBits(x.Type())
				name := ""
				if bt, ok := x.Type().Underlying().(*types.Basic); ok {
					switch bt.Kind() {
					case types.Int, types.Uint, types.Uintptr:
						width, name = 32, bt.Name()
					}
				}
				if a.lo < a.hi && a.hi+int(k) > width {
					if name != "" {
						return fmt.Sprintf("bits [%d,%d) are shifted left by %d in type %s, which has 32 bits on 32-bit platforms: the upper bits are lost there (convert to a 64-bit type before shifting)", a.lo, a.hi, k, name)
					}
					return fmt.Sprintf("bits [%d,%d) are shifted left by %d in a %d-bit type: the upper bits are lost", a.lo, a.hi, k, width)
				}
			}
		}
		if why := shiftOverflows(x.X, depth+1, eval); why != "" {
			return why
		}
		return shiftOverflows(x.Y, depth+1, eval)
	case *ssa.Convert:
		return shiftOverflows(x.X, depth+1, eval)
	case *ssa.ChangeType:
		return shiftOverflows(x.X, depth+1, eval)
	}
	return ""
}

func bitsOf(v ssa.Value, depth int) bitRange {
	tb, signed := typeBits(v.Type())
	full := bitRange{0, tb}
	if depth > 8 {
		return full
	}
	switch x := v.(type) {
	case *ssa.Const:
		if k, ok := constIntVal(x); ok && k >= 0 {
			lo := 0
			for k != 0 && (k>>uint(lo))&1 == 0 {
				lo++
			}
			return bitRange{lo, bitLen(k)}
		}
		return full
	case *ssa.BinOp:
		switch x.Op {
		case token.AND:
			a, b := bitsOf(x.X, depth+1), bitsOf(x.Y, depth+1)
			// a negative operand has all upper bits: the other operand bounds the result
			r := bitRange{max(a.lo, b.lo), min(a.hi, b.hi)}
			return r
		case token.OR, token.XOR:
			a, b := bitsOf(x.X, depth+1), bitsOf(x.Y, depth+1)
			return bitRange{min(a.lo, b.lo), max(a.hi, b.hi)}
		case token.SHL:
			if k, ok := constIntVal(x.Y); ok && k >= 0 {
				a := bitsOf(x.X, depth+1)
				return bitRange{min(a.lo+int(k), tb), min(a.hi+int(k), tb)}
			}
			return full
		case token.SHR:
			if k, ok := constIntVal(x.Y); ok && k >= 0 {
				a := bitsOf(x.X, depth+1)
				_, sg := typeBits(x.X.Type())
				if sg && a.hi >= tb {
					return full // arithmetic shift of a possibly negative value
				}
				return bitRange{max(a.lo-int(k), 0), max(a.hi-int(k), 0)}
			}
			return full
		case token.REM:
			if k, ok := constIntVal(x.Y); ok && k > 0 && !signed {
				return bitRange{0, bitLen(k - 1)}
			}
		}
		return full
	case *ssa.Convert:
		a := bitsOf(x.X, depth+1)
		sb, ssg := typeBits(x.X.Type())
		if ssg && a.hi >= sb {
			// possibly negative: sign extension fills every bit above
			return bitRange{a.lo, tb}
		}
		return bitRange{min(a.lo, tb), min(a.hi, tb)}
	case *ssa.ChangeType:
		return bitsOf(x.X, depth+1)
	case *ssa.Phi:
		r := bitRange{tb, 0}
		for _, e := range x.Edges {
			if e == ssa.Value(x) {
				continue
			}
			a := bitsOf(e, depth+3)
			r = bitRange{min(r.lo, a.lo), max(r.hi, a.hi)}
		}
		if r.hi < r.lo {
			return full
		}
		return r
	}
	return full
}

func orTerms(v ssa.Value, out *[]ssa.Value) {
	if bo, ok := v.(*ssa.BinOp); ok && bo.Op == token.OR {
		orTerms(bo.X, out)
		orTerms(bo.Y, out)
		return
	}
	*out = append(*out, v)
}

func (c *Ctx) BitFields(pkgs ...string) []core.Ob {
	var obs []core.Ob
	t := c.TLG()
	for _, fn := range c.Funcs() {
		if !inPkgs(fn, pkgs...) {
			continue
		}
		var roots []*ssa.BinOp
		for _, b := range fn.Blocks {
			for _, in := range b.Instrs {
				or, ok := in.(*ssa.BinOp)
				if !ok || or.Op != token.OR {
					continue
				}
				// a root: not itself an operand of another OR
				isRoot := true
				if refs := or.Referrers(); refs != nil {
					for _, r := range *refs {
						if p, ok := r.(*ssa.BinOp); ok && p.Op == token.OR {
							isRoot = false
						}
					}
				}
				if !isRoot {
					continue
				}
				var terms []ssa.Value
				orTerms(or, &terms)
				shifted := 0
				acc := false
				for _, tm := range terms {
					if r := bitsOf(tm, 0); r.lo > 0 {
						if _, isK := tm.(*ssa.Const); !isK {
							shifted++
						}
					}
					// a loop accumulator (x = x<<7 | b) packs one field per iteration: not a fixed layout
					if hasPhiOperand(tm, 0) {
						acc = true
					}
				}
				if len(terms) < 2 || shifted < 1 || acc {
					continue // flag setting, not packing
				}
				roots = append(roots, or)
			}
		}
		if len(roots) == 0 {
			continue
		}
		k := 0
		t.Probe(fn, func(in ssa.Instruction, eval func(ssa.Value) AV, _ func(string) (AV, bool)) {
			or, ok := in.(*ssa.BinOp)
			if !ok {
				return
			}
			isRoot := false
			for _, r := range roots {
				isRoot = isRoot || r == or
			}
			if !isRoot {
				return
			}
			var terms []ssa.Value
			orTerms(or, &terms)
			k++
			o := core.Ob{Rule: "T-BITFIELD", Key: fmt.Sprintf("%s#pack%d", core.FnName(fn), k), Pos: c.P.Pos(or.Pos()), Func: core.FnName(fn), Armed: true, Status: core.OK,
				Want: "the fields OR-ed into one word occupy pairwise disjoint bit ranges (each field is masked, typed or range-checked to the width of its slot)"}
			rs := make([]bitRange, len(terms))
			var desc []string
			for i, tm := range terms {
				rs[i] = bitsOf(tm, 0)
				// what the interval analysis knows about the field's value at this point
				if all := eval(tm).all(); all != nil && all.Lo != nil && all.Hi != nil && all.Lo.Sign() >= 0 && all.Hi.IsInt64() {
					rs[i].hi = min(rs[i].hi, bitLen(all.Hi.Int64()))
				}
				desc = append(desc, fmt.Sprintf("[%d,%d)", rs[i].lo, rs[i].hi))
			}
			o.Got = strings.Join(desc, " ")
			// a field is shifted into place in a type that has room for it on every platform: a shift
			// done in int / uint moves at most 32 bits reliably (int is 32 bits wide on 386, arm, wasm)
			for i, tm := range terms {
				if why := shiftOverflows(tm, 0, eval); why != "" {
					o.Status = core.Violated
					o.Got = fmt.Sprintf("field %d: %s", i+1, why)
				}
			}
			for i := range rs {
				for j := i + 1; j < len(rs); j++ {
					if rs[i].lo < rs[j].hi && rs[j].lo < rs[i].hi && rs[i].lo < rs[i].hi && rs[j].lo < rs[j].hi {
						o.Status = core.Violated
						o.Got = fmt.Sprintf("fields %d and %d may overlap: bit ranges %s (a value wider than its slot, or negative, spills into the neighbouring field)", i+1, j+1, strings.Join(desc, " "))
					}
				}
			}
			// (the fixpoint visits an instruction several times: the last visit is the stable state)
			for i := range obs {
				if obs[i].Key == o.Key {
					obs[i] = o
					return
				}
			}
			obs = append(obs, o)
		})
	}
	return obs
}

func hasPhiOperand(v ssa.Value, d int) bool {
	if d > 6 {
		return false
	}
	switch x := v.(type) {
	case *ssa.Phi:
		return true
	case *ssa.BinOp:
		return hasPhiOperand(x.X, d+1) || hasPhiOperand(x.Y, d+1)
	case *ssa.Convert:
		return hasPhiOperand(x.X, d+1)
	case *ssa.ChangeType:
		return hasPhiOperand(x.X, d+1)
	}
	return false
}

// ---------------------------------------------------------------------------
// R-COUNT[counting-wrapper]: a type that wraps a reader and keeps a byte
// counter (a struct with a reader-typed field and an integer field that one of
// its methods adds to) updates the counter in EVERY method that consumes from
// the wrapped reader, on every path from the consuming call to a return.

func (c *Ctx) CountingWrappers(pkgs ...string) []core.Ob {
	var obs []core.Ob
	byType := map[*types.Named][]*ssa.Function{}
	for _, fn := range c.Funcs() {
		if !inPkgs(fn, pkgs...) || fn.Signature.Recv() == nil || fn.Parent() != nil {
			continue
		}
		if n, ok := types.Unalias(deref(fn.Signature.Recv().Type())).(*types.Named); ok {
			byType[n] = append(byType[n], fn)
		}
	}
	var named []*types.Named
	for n := range byType {
		named = append(named, n)
	}
	sort.Slice(named, func(i, j int) bool { return named[i].String() < named[j].String() })
	for _, n := range named {
		st, ok := n.Underlying().(*types.Struct)
		if !ok {
			continue
		}
		reader, counter := "", ""
		for i := 0; i < st.NumFields(); i++ {
			f := st.Field(i)
			if it, ok := f.Type().Underlying().(*types.Interface); ok {
				for j := 0; j < it.NumMethods(); j++ {
					if it.Method(j).Name() == "Read" {
						reader = f.Name()
					}
				}
			}
			if b, ok := f.Type().Underlying().(*types.Basic); ok && b.Info()&types.IsInteger != 0 {
				counter = f.Name()
			}
		}
		if reader == "" || counter == "" {
			continue
		}
		type site struct {
			fn   *ssa.Function
			v    *iview
			node *inode
		}
		var sites []site
		counts := false
		for _, fn := range byType[n] {
			if len(fn.Params) == 0 {
				continue
			}
			v := c.inlineView(fn, 0)
			fromReader := func(x ssa.Value) bool {
				for d := 0; d < 4; d++ {
					switch y := x.(type) {
					case *ssa.TypeAssert:
						x = y.X
						continue
					case *ssa.Extract:
						x = y.Tuple
						continue
					case *ssa.ChangeInterface:
						x = y.X
						continue
					case *ssa.MakeInterface:
						x = y.X
						continue
					}
					break
				}
				ld, ok := x.(*ssa.UnOp)
				return ok && ld.Op == token.MUL && rootFieldOfAddr(ld.X, fn.Params[0]) == reader
			}
			for _, nd := range v.nodes {
				switch x := nd.in.(type) {
				case *ssa.Store:
					if rootFieldOfAddr(x.Addr, fn.Params[0]) == counter {
						counts = true
					}
				case *ssa.Call:
					cc := x.Common()
					uses := cc.IsInvoke() && fromReader(cc.Value)
					for _, a := range cc.Args {
						uses = uses || fromReader(a)
					}
					if uses {
						sites = append(sites, site{fn, v, nd})
					}
				}
			}
		}
		if !counts || len(sites) == 0 {
			continue
		}
		per := map[string]int{}
		for _, s := range sites {
			fname := core.FnName(s.fn)
			per[fname]++
			o := core.Ob{Rule: "R-COUNT", Key: fmt.Sprintf("%s#wrapped-read%d", fname, per[fname]), Pos: c.P.Pos(s.node.in.Pos()), Func: fname, Armed: true, Status: core.OK,
				Want: "after consuming from the wrapped reader, the method adds to the counter field " + counter + " on every path to its return"}
			recv := s.fn.Params[0]
			if !s.v.mustFollow(s.node.id, func(m *inode) bool {
				st, ok := m.in.(*ssa.Store)
				return ok && rootFieldOfAddr(st.Addr, recv) == counter
			}) {
				o.Status, o.Got = core.Violated, "a path from this read reaches a return without updating "+counter+": the bytes it consumed are missing from every count derived from the wrapper"
			}
			obs = append(obs, o)
		}
	}
	return obs
}

// ---------------------------------------------------------------------------
// R-ORDER[unpack:assigns-both]: every exit of Packet.UnPack (with the helpers
// it is split into) that may return a nil error has, on every path to it,
// stored the receiver's ID and Data: a packet reported as read never carries
// the previous packet's id or payload.

func (c *Ctx) UnpackAssigns() []core.Ob {
	o := core.Ob{Rule: "R-ORDER", Key: "unpack:success-assigns-id-and-data", Armed: true, Status: core.OK,
		Want: "every exit of Packet.UnPack that may report success is dominated by stores to the packet's ID and Data (a reused Packet never keeps the previous payload)"}
	fn := c.Fn("net/packet.(*Packet).UnPack")
	if fn == nil {
		o.Status, o.Got = core.Violated, "net/packet.(*Packet).UnPack not found"
		return []core.Ob{o}
	}
	o.Pos, o.Func = c.P.Pos(fn.Pos()), core.FnName(fn)
	v := c.inlineView(fn, 6)
	st, _ := deref(fn.Params[0].Type()).Underlying().(*types.Struct)
	if st == nil {
		o.Status, o.Got = core.Violated, "receiver is not a struct"
		return []core.Ob{o}
	}
	stores := map[string][]int{}
	for _, n := range v.nodes {
		if s, ok := n.in.(*ssa.Store); ok {
			if f := v.recvField(n, s.Addr); f != "" && !strings.Contains(f, ".") {
				stores[f] = append(stores[f], n.id)
			}
		}
	}
	// exit frames: the root, and an inlined callee whose result the root (or another exit frame) returns directly
	exitFrame := map[*iframe]bool{}
	for _, n := range v.nodes {
		if n.frame.parent == nil {
			exitFrame[n.frame] = true
		}
	}
	for changed := true; changed; {
		changed = false
		for _, n := range v.nodes {
			ret, ok := n.in.(*ssa.Return)
			if !ok || !exitFrame[n.frame] || len(ret.Results) == 0 {
				continue
			}
			last := directlyReturnedCall(ret)
			if cl, ok := last.(*ssa.Call); ok {
				for _, m := range v.nodes {
					if m.frame.call == ssa.CallInstruction(cl) && m.frame.parent == n.frame && !exitFrame[m.frame] {
						exitFrame[m.frame] = true
						changed = true
					}
				}
			}
		}
	}
	inlinedCall := func(fr *iframe, cl *ssa.Call) bool {
		for _, m := range v.nodes {
			if m.frame.call == ssa.CallInstruction(cl) && m.frame.parent == fr {
				return true
			}
		}
		return false
	}
	nExit := 0
	for _, n := range v.nodes {
		ret, ok := n.in.(*ssa.Return)
		if !ok || len(ret.Results) == 0 || !exitFrame[n.frame] {
			continue
		}
		// success exits: the error operand is nil, or a value not known to be non-nil here
		last := ret.Results[len(ret.Results)-1]
		if !types.Identical(last.Type(), errType) {
			continue
		}
		if cl, ok := directlyReturnedCall(ret).(*ssa.Call); ok && inlinedCall(n.frame, cl) {
			continue // decided inside the callee's frame
		}
		if errKnownNonNil(last, ret.Block()) {
			continue
		}
		if v.idom[n.id] < 0 {
			continue
		}
		nExit++
		for i := 0; i < st.NumFields(); i++ {
			f := st.Field(i).Name()
			dom := false
			for _, s := range stores[f] {
				if v.dominates(s, n.id) {
					dom = true
				}
			}
			// a set of stores may cover the exit jointly (one per branch): then no path avoids all of them
			if !dom && len(stores[f]) > 0 {
				dom = !v.reachAvoiding(v.entry, n.id, stores[f])
			}
			if !dom {
				o.Status = core.Violated
				o.Got = fmt.Sprintf("the success exit at %s is reachable without a store to the packet's %s: the field keeps what the previous read left there", c.P.Pos(ret.Pos()), f)
			}
		}
	}
	if nExit == 0 {
		o.Status, o.Got = core.Violated, "no success exit found in UnPack"
	}
	return []core.Ob{o}
}

// reachAvoiding: a path from a to b exists that passes none of the nodes in avoid.
func (v *iview) reachAvoiding(a, b int, avoid []int) bool {
	blocked := map[int]bool{}
	for _, x := range avoid {
		blocked[x] = true
	}
	if blocked[a] {
		return false
	}
	seen := map[int]bool{a: true}
	work := []int{a}
	for len(work) > 0 {
		x := work[len(work)-1]
		work = work[:len(work)-1]
		if x == b {
			return true
		}
		for _, s := range v.nodes[x].succs {
			if !seen[s] && !blocked[s] {
				seen[s] = true
				work = append(work, s)
			}
		}
	}
	return false
}

// ---------------------------------------------------------------------------
// R-NOALIAS[fresh-element]: inside a decoding loop, the reflect value handed to
// SetMapIndex / reflect.Append as the new element comes from a reflect.New /
// MakeSlice / MakeMap / Zero executed in that same iteration. SetMapIndex and
// Append copy the element shallowly: with one scratch value for all iterations
// the slices, maps and pointers inside the stored elements share memory and the
// next decode overwrites what the previous entry holds.

func (c *Ctx) FreshElements(pkgs ...string) []core.Ob {
	var obs []core.Ob
	for _, fn := range c.Funcs() {
		if !inPkgs(fn, pkgs...) {
			continue
		}
		loops := naturalLoops(fn)
		if len(loops) == 0 {
			continue
		}
		k := 0
		for _, b := range fn.Blocks {
			for _, in := range b.Instrs {
				call, ok := in.(*ssa.Call)
				if !ok {
					continue
				}
				nm := calleeName(call.Common())
				var elem ssa.Value
				switch nm {
				case "reflect.(Value).SetMapIndex":
					if len(call.Common().Args) == 3 {
						elem = call.Common().Args[2]
					}
				case "reflect.Append":
					if len(call.Common().Args) == 2 {
						// variadic: the elements are packed into a slice literal; take the single stored element
						elem = singleVariadic(call.Common().Args[1])
					}
				}
				if elem == nil {
					continue
				}
				// innermost loop containing the call
				var lp *loopInfo
				for i := range loops {
					if loops[i].body[b] && (lp == nil || len(loops[i].body) < len(lp.body)) {
						lp = &loops[i]
					}
				}
				if lp == nil {
					continue
				}
				// origin of the element
				org := elem
				for d := 0; d < 6; d++ {
					oc, ok := org.(*ssa.Call)
					if !ok {
						break
					}
					on := calleeName(oc.Common())
					if on == "reflect.(Value).Elem" || on == "reflect.Indirect" || on == "reflect.(Value).Convert" {
						org = oc.Common().Args[0]
						continue
					}
					break
				}
				oc, ok := org.(*ssa.Call)
				if !ok {
					continue
				}
				switch calleeName(oc.Common()) {
				case "reflect.New", "reflect.MakeSlice", "reflect.MakeMap", "reflect.MakeMapWithSize", "reflect.Zero":
				default:
					continue
				}
				k++
				o := core.Ob{Rule: "R-NOALIAS", Key: fmt.Sprintf("%s#fresh-element%d", core.FnName(fn), k), Pos: c.P.Pos(call.Pos()), Func: core.FnName(fn), Armed: true, Status: core.OK,
					Want: "the element stored into the container in a decoding loop is created in the same iteration (one scratch value for all iterations makes the stored elements share slices, maps and pointers)"}
				if !lp.body[oc.Block()] {
					o.Status = core.Violated
					o.Got = fmt.Sprintf("the element comes from %s at %s, outside the loop: every entry stored by this call is a shallow copy of the same scratch value", calleeName(oc.Common()), c.P.Pos(oc.Pos()))
				}
				obs = append(obs, o)
			}
		}
	}
	return obs
}

// singleVariadic: the one element of the slice literal the compiler builds for f(xs...) with a single value.
func singleVariadic(v ssa.Value) ssa.Value {
	sl, ok := v.(*ssa.Slice)
	if !ok {
		return nil
	}
	al, ok := sl.X.(*ssa.Alloc)
	if !ok || al.Referrers() == nil {
		return nil
	}
	var out ssa.Value
	n := 0
	for _, r := range *al.Referrers() {
		if ia, ok := r.(*ssa.IndexAddr); ok && ia.Referrers() != nil {
			for _, u := range *ia.Referrers() {
				if st, ok := u.(*ssa.Store); ok {
					out = st.Val
					n++
				}
			}
		}
	}
	if n != 1 {
		return nil
	}
	return out
}

// ---------------------------------------------------------------------------
// R-GUARD[sign-check-before-success]: a length decoded from the stream that the
// function tests for a negative value is tested on EVERY path from the place it
// was read to an exit that reports success. (An early `return nil` between the
// read and the test accepts a document with a negative length.)

func (c *Ctx) SignCheckBeforeSuccess(include func(*ssa.Function) bool) []core.Ob {
	var obs []core.Ob
	for _, fn := range c.Funcs() {
		if !include(fn) || len(fn.Blocks) == 0 || !hasErrorResult(fn) {
			continue
		}
		k := 0
		for _, b := range fn.Blocks {
			for _, in := range b.Instrs {
				v, ok := in.(ssa.Value)
				if !ok {
					continue
				}
				// a signed integer obtained from a call that can fail (a read from the stream)
				ex, isEx := v.(*ssa.Extract)
				if !isEx {
					continue
				}
				cl, isCall := ex.Tuple.(*ssa.Call)
				if !isCall || errResultIndex(cl) < 0 || errResultIndex(cl) == ex.Index {
					continue
				}
				bt, isB := ex.Type().Underlying().(*types.Basic)
				if !isB || bt.Info()&types.IsInteger == 0 || bt.Info()&types.IsUnsigned != 0 {
					continue
				}
				if g := cl.Common().StaticCallee(); g == nil || !c.P.InModule(g) {
					continue
				}
				// its sign checks
				var checks []*ssa.BasicBlock
				var walk func(x ssa.Value, d int)
				seen := map[ssa.Value]bool{}
				walk = func(x ssa.Value, d int) {
					if d > 3 || seen[x] || x.Referrers() == nil {
						return
					}
					seen[x] = true
					for _, r := range *x.Referrers() {
						switch y := r.(type) {
						case *ssa.Convert:
							walk(y, d+1)
						case *ssa.ChangeType:
							walk(y, d+1)
						case *ssa.BinOp:
							other := y.Y
							if y.Y == x {
								other = y.X
							}
							kv, isK := constIntVal(other)
							if !isK || !(kv == 0 || kv == -1) {
								continue
							}
							// the edge on which the value is negative: n < 0 / n <= -1 (true edge), n >= 0 / n > -1
							// (false edge); with the constant on the left the comparison is mirrored. `n > 0` with a
							// failing true edge (a non-empty list of TAG_End is refused) is no sign test.
							op := y.Op
							if y.Y == x { // constant on the left: c OP n  ==  n OP' c
								switch op {
								case token.LSS:
									op = token.GTR
								case token.GTR:
									op = token.LSS
								case token.LEQ:
									op = token.GEQ
								case token.GEQ:
									op = token.LEQ
								}
							}
							negEdge := -1
							switch {
							case op == token.LSS && kv == 0, op == token.LEQ && kv == -1:
								negEdge = 0
							case op == token.GEQ && kv == 0, op == token.GTR && kv == -1:
								negEdge = 1
							}
							if negEdge >= 0 && y.Referrers() != nil {
								for _, u := range *y.Referrers() {
									// a sign TEST: the negative side of the branch fails
									if iff, isIf := u.(*ssa.If); isIf && failsOnly(iff.Block().Succs[negEdge]) {
										checks = append(checks, y.Block())
									}
								}
							}
						}
					}
				}
				walk(ex, 0)
				if len(checks) == 0 {
					continue
				}
				k++
				o := core.Ob{Rule: "R-GUARD", Key: fmt.Sprintf("%s#sign-check%d", core.FnName(fn), k), Pos: c.P.Pos(cl.Pos()), Func: core.FnName(fn), Armed: true, Status: core.OK,
					Want: "the sign test of this decoded length lies on every path from the read to an exit that returns a nil error"}
				blocked := map[*ssa.BasicBlock]bool{}
				for _, cb := range checks {
					blocked[cb] = true
				}
				if !blocked[b] {
					seenB := map[*ssa.BasicBlock]bool{b: true}
					work := []*ssa.BasicBlock{b}
					for len(work) > 0 && o.Status == core.OK {
						x := work[len(work)-1]
						work = work[:len(work)-1]
						if ret, ok := x.Instrs[len(x.Instrs)-1].(*ssa.Return); ok && len(ret.Results) > 0 && x != b {
							if kc, ok := ret.Results[len(ret.Results)-1].(*ssa.Const); ok && kc.IsNil() {
								o.Status = core.Violated
								o.Got = "the success exit at " + c.P.Pos(ret.Pos()) + " is reachable from the read without passing the sign test: a negative length is accepted"
							}
						}
						for _, s := range x.Succs {
							if !seenB[s] && !blocked[s] {
								seenB[s] = true
								work = append(work, s)
							}
						}
					}
				}
				obs = append(obs, o)
			}
		}
	}
	return obs
}

// ---------------------------------------------------------------------------
// T-OPTFLAG: a writer that announces an optional pointer-typed field with a
// boolean written to the stream, and writes the field when that boolean is
// true, computes the boolean as exactly `field != nil`. Any further condition
// means a non-nil value is not written (it decodes as nil: lost); a weaker one
// means a nil pointer is written through.

func (c *Ctx) OptFlags(pkgs ...string) []core.Ob {
	var obs []core.Ob
	for _, fn := range c.Funcs() {
		if !inPkgs(fn, pkgs...) || len(fn.Params) == 0 || fn.Signature.Recv() == nil {
			continue
		}
		recv := fn.Params[0]
		k := 0
		for _, b := range fn.Blocks {
			iff, ok := b.Instrs[len(b.Instrs)-1].(*ssa.If)
			if !ok {
				continue
			}
			flag := iff.Cond
			// the flag as a value of a named boolean type that is also written out
			named := flag
			if _, isNamed := types.Unalias(named.Type()).(*types.Named); !isNamed {
				// `if bool(flag)`: the named value is the operand
				if ct, ok := flag.(*ssa.ChangeType); ok {
					named = ct.X
				}
			}
			if _, isNamed := types.Unalias(named.Type()).(*types.Named); !isNamed {
				continue
			}
			written := false
			if refs := named.Referrers(); refs != nil {
				for _, r := range *refs {
					if cl, ok := r.(*ssa.Call); ok && strings.HasSuffix(calleeName(cl.Common()), ".WriteTo") {
						written = true
					}
					// spilled receiver: the value is stored to a temporary whose address is the receiver
					if st, ok := r.(*ssa.Store); ok && st.Val == named {
						if al, ok := st.Addr.(*ssa.Alloc); ok && al.Referrers() != nil {
							for _, u := range *al.Referrers() {
								if cl, ok := u.(*ssa.Call); ok && strings.HasSuffix(calleeName(cl.Common()), ".WriteTo") {
									written = true
								}
							}
						}
					}
				}
			}
			if !written {
				continue
			}
			// the guarded branch writes a pointer-typed field of the receiver
			var field string
			tb := b.Succs[0]
			for _, in := range tb.Instrs {
				cl, ok := in.(*ssa.Call)
				if !ok || !strings.HasSuffix(calleeName(cl.Common()), ".WriteTo") || len(cl.Common().Args) == 0 {
					continue
				}
				rv := cl.Common().Args[0]
				if cl.Common().IsInvoke() {
					rv = cl.Common().Value
				}
				// the pointer held in the field, or the value it points to (value receiver)
				for d := 0; d < 2; d++ {
					ld, ok := rv.(*ssa.UnOp)
					if !ok || ld.Op != token.MUL {
						break
					}
					if _, isPtr := ld.Type().Underlying().(*types.Pointer); isPtr {
						if _, isFA := ld.X.(*ssa.FieldAddr); isFA {
							field = rootFieldOfAddr(ld.X, recv)
						}
						break
					}
					rv = ld.X
				}
			}
			if field == "" {
				continue
			}
			k++
			o := core.Ob{Rule: "T-OPTFLAG", Key: fmt.Sprintf("%s#%s", core.FnName(fn), field), Pos: c.P.Pos(fn.Pos()), Func: core.FnName(fn), Armed: true, Status: core.OK,
				Want: "the presence flag written before the optional field " + field + " is exactly `" + field + " != nil`"}
			def := named
			for {
				if ct, ok := def.(*ssa.ChangeType); ok {
					def = ct.X
					continue
				}
				if cv, ok := def.(*ssa.Convert); ok {
					def = cv.X
					continue
				}
				break
			}
			okDef := false
			if cmp, ok := def.(*ssa.BinOp); ok && cmp.Op == token.NEQ {
				for _, pr := range [][2]ssa.Value{{cmp.X, cmp.Y}, {cmp.Y, cmp.X}} {
					if ld, ok := pr[0].(*ssa.UnOp); ok && ld.Op == token.MUL && rootFieldOfAddr(ld.X, recv) == field && isNilConst(pr[1]) {
						okDef = true
					}
				}
			}
			if !okDef {
				o.Status, o.Got = core.Violated, "the flag is computed from more (or less) than the nil test of "+field+": a value that is present is not announced, or an absent one is"
			}
			obs = append(obs, o)
		}
		_ = k
	}
	return obs
}

// ---------------------------------------------------------------------------
// R-TRUNC[rune-to-byte]: a rune obtained by ranging over a string (or by
// decoding UTF-8) is not narrowed to a byte unless a comparison on the path has
// bounded it below 256: byte(r) keeps the low 8 bits, so U+0141 is classified
// (quoted, escaped, looked up in a table) as 'A'.

func (c *Ctx) RuneTruncation(pkgs ...string) []core.Ob {
	var obs []core.Ob
	nRanges := 0
	for _, fn := range c.Funcs() {
		if !inPkgs(fn, pkgs...) {
			continue
		}
		k := 0
		for _, b := range fn.Blocks {
			for _, in := range b.Instrs {
				cv, ok := in.(*ssa.Convert)
				if !ok {
					continue
				}
				bt, ok := cv.Type().Underlying().(*types.Basic)
				if !ok || !(bt.Kind() == types.Uint8 || bt.Kind() == types.Int8) {
					continue
				}
				src := cv.X
				if !isRuneSource(src, 0) {
					continue
				}
				k++
				o := core.Ob{Rule: "R-TRUNC", Key: fmt.Sprintf("%s#rune-to-byte%d", core.FnName(fn), k), Pos: c.P.Pos(cv.Pos()), Func: core.FnName(fn), Armed: true, Status: core.OK,
					Want: "a rune from a string is narrowed to a byte only after a comparison bounded it below 256"}
				// a dominating comparison of the rune with a constant <= 256
				bounded := false
				if refs := src.Referrers(); refs != nil {
					for _, r := range *refs {
						cmp, ok := r.(*ssa.BinOp)
						if !ok {
							continue
						}
						other := cmp.Y
						if cmp.Y == src {
							other = cmp.X
						}
						kv, isK := constIntVal(other)
						if !isK || kv > 256 {
							continue
						}
						switch cmp.Op {
						case token.LSS, token.LEQ, token.GTR, token.GEQ:
							if cmp.Block().Dominates(cv.Block()) && cmp.Block() != cv.Block() {
								bounded = true
							}
						}
					}
				}
				if !bounded {
					o.Status, o.Got = core.Violated, "byte(r) of an unbounded rune: every code point above 255 is taken for the byte with its low 8 bits"
				}
				obs = append(obs, o)
			}
			for _, in := range b.Instrs {
				if rg, ok := in.(*ssa.Range); ok {
					if bt, ok := rg.X.Type().Underlying().(*types.Basic); ok && bt.Info()&types.IsString != 0 {
						nRanges++
					}
				}
			}
		}
	}
	obs = append(obs, core.Ob{Rule: "R-TRUNC", Key: "scope", Armed: true, Status: core.OK,
		Want: "loops over the runes of a string were looked at", Got: fmt.Sprintf("%d range-over-string loops in %s", nRanges, strings.Join(pkgs, ","))})
	return obs
}

func isRuneSource(v ssa.Value, d int) bool {
	if d > 4 {
		return false
	}
	switch x := v.(type) {
	case *ssa.Extract:
		if nx, ok := x.Tuple.(*ssa.Next); ok && nx.IsString && x.Index == 2 {
			return true
		}
		if cl, ok := x.Tuple.(*ssa.Call); ok && x.Index == 0 {
			switch calleeName(cl.Common()) {
			case "unicode/utf8.DecodeRuneInString", "unicode/utf8.DecodeRune", "unicode/utf8.DecodeLastRuneInString", "unicode/utf8.DecodeLastRune":
				return true
			}
		}
	case *ssa.Phi:
		for _, e := range x.Edges {
			if e != v && isRuneSource(e, d+1) {
				return true
			}
		}
	case *ssa.ChangeType:
		return isRuneSource(x.X, d+1)
	}
	return false
}

// ---------------------------------------------------------------------------
// R-GUARD[string-index]: s[k] with a constant k on a string whose length the
// function has not compared with anything panics on a short string. Accepted
// without a guard: constant strings, and the argument of a callback handed to
// (*regexp.Regexp).ReplaceAllStringFunc (the match has the pattern's length).

func (c *Ctx) StringIndexGuards(include func(*ssa.Function) bool) []core.Ob {
	var obs []core.Ob
	for _, fn := range c.Funcs() {
		if !include(fn) {
			continue
		}
		k := 0
		for _, b := range fn.Blocks {
			for _, in := range b.Instrs {
				lk, ok := in.(*ssa.Index)
				if !ok {
					continue
				}
				bt, ok := lk.X.Type().Underlying().(*types.Basic)
				if !ok || bt.Info()&types.IsString == 0 {
					continue
				}
				idx, isK := constIntVal(lk.Index)
				if !isK {
					continue
				}
				if _, isConst := lk.X.(*ssa.Const); isConst {
					continue
				}
				k++
				o := core.Ob{Rule: "R-GUARD", Key: fmt.Sprintf("%s#string-index%d", core.FnName(fn), k), Pos: c.P.Pos(lk.Pos()), Func: core.FnName(fn), Armed: true, Status: core.OK,
					Want: fmt.Sprintf("s[%d] is reached only after a comparison on len(s) (or s is a regexp match of known shape)", idx)}
				guarded := false
				// len(s) compared on a dominating block; s may be a slice s[a:b] of a longer string: then the bounds were compared
				bases := []ssa.Value{lk.X}
				if sl, ok := lk.X.(*ssa.Slice); ok {
					bases = append(bases, sl.X)
				}
				for _, base := range bases {
					if base.Referrers() == nil {
						continue
					}
					for _, r := range *base.Referrers() {
						cl, ok := r.(*ssa.Call)
						if !ok {
							continue
						}
						if bi, isB := cl.Common().Value.(*ssa.Builtin); !isB || bi.Name() != "len" || cl.Referrers() == nil {
							continue
						}
						for _, u := range *cl.Referrers() {
							cmp, ok := u.(*ssa.BinOp)
							if !ok {
								continue
							}
							switch cmp.Op {
							case token.LSS, token.LEQ, token.GTR, token.GEQ, token.EQL, token.NEQ:
								if cmp.Block() != lk.Block() && cmp.Block().Dominates(lk.Block()) {
									guarded = true
								}
							}
						}
					}
				}
				// s != "" / s == "" on a dominating block (enough for index 0)
				if !guarded && idx == 0 {
					for _, base := range bases {
						if base.Referrers() == nil {
							continue
						}
						for _, r := range *base.Referrers() {
							cmp, ok := r.(*ssa.BinOp)
							if !ok || (cmp.Op != token.EQL && cmp.Op != token.NEQ) {
								continue
							}
							other := cmp.Y
							if cmp.Y == base {
								other = cmp.X
							}
							if kc, ok := other.(*ssa.Const); ok && kc.Value != nil && kc.Value.Kind() == constant.String && constant.StringVal(kc.Value) == "" {
								if cmp.Block() != lk.Block() && cmp.Block().Dominates(lk.Block()) {
									guarded = true
								}
							}
						}
					}
				}
				// strings.HasPrefix(s, "x") && ... s[k] with k < len(prefix)
				if !guarded && lk.X.Referrers() != nil {
					for _, r := range *lk.X.Referrers() {
						cl, ok := r.(*ssa.Call)
						if !ok {
							continue
						}
						if nm := calleeName(cl.Common()); nm == "strings.HasPrefix" || nm == "strings.HasSuffix" {
							if pc, ok := cl.Common().Args[1].(*ssa.Const); ok && pc.Value != nil && int64(len(constant.StringVal(pc.Value))) > idx && cl.Block().Dominates(lk.Block()) {
								guarded = true
							}
						}
					}
				}
				if !guarded {
					if p, isParam := lk.X.(*ssa.Parameter); isParam && fn.Parent() != nil && len(fn.Params) == 1 && p == fn.Params[0] && closureGoesTo(fn, "regexp.(Regexp).ReplaceAllStringFunc") {
						guarded = true
						o.Got = "the callback's argument is a match of the pattern"
					}
				}
				// the string is the parameter of an unexported helper: compared with "" / by length at every call site
				if !guarded && idx == 0 {
					if p, isParam := lk.X.(*ssa.Parameter); isParam && fn.Parent() == nil && fn.Object() != nil && !fn.Object().Exported() {
						pi := -1
						for i, q := range fn.Params {
							if q == p {
								pi = i
							}
						}
						sites, ok := 0, true
						for _, g := range c.Funcs() {
							for _, ci := range callsIn(g, func(_ string, cc *ssa.CallCommon) bool {
								sc := cc.StaticCallee()
								return sc != nil && core.Origin(sc) == fn
							}) {
								sites++
								if pi < 0 || pi >= len(ci.Common().Args) || !nonEmptyAt(ci.Common().Args[pi], ci.Block()) {
									ok = false
								}
							}
						}
						if sites > 0 && ok {
							guarded = true
							o.Got = fmt.Sprintf("every one of the %d call sites of the helper lies behind a test of the argument against \"\" or of its length", sites)
						}
					}
				}
				if !guarded {
					o.Status, o.Got = core.Violated, "no comparison on the string's length dominates this index: an empty or short string panics here"
				}
				obs = append(obs, o)
			}
		}
	}
	return obs
}

// closureGoesTo: the closure fn is passed (as a MakeClosure or function value) to a call of the named function in its parent.
func closureGoesTo(fn *ssa.Function, callee string) bool {
	par := fn.Parent()
	if par == nil {
		return false
	}
	for _, b := range par.Blocks {
		for _, in := range b.Instrs {
			cl, ok := in.(*ssa.Call)
			if !ok || calleeName(cl.Common()) != callee {
				continue
			}
			for _, a := range cl.Common().Args {
				if mc, ok := a.(*ssa.MakeClosure); ok && mc.Fn == ssa.Value(fn) {
					return true
				}
				if f, ok := a.(*ssa.Function); ok && f == fn {
					return true
				}
			}
		}
	}
	return false
}

// ---------------------------------------------------------------------------
// T-FIELDCOVER: a Marshal* method of a struct type that, on some path, encodes
// a single field of the receiver instead of the whole value (a "short form")
// has looked at every other field of the struct on the way (in its own
// conditions or in the predicate helpers it calls): a field that is not tested
// is silently dropped whenever the short form is chosen.

func (c *Ctx) ShortFormCoversFields(pkgs ...string) []core.Ob {
	var obs []core.Ob
	nMeth := 0
	for _, pk := range c.P.Pkgs {
		rel := core.Rel(pk.PkgPath)
		in := false
		for _, p := range pkgs {
			in = in || rel == p
		}
		if !in {
			continue
		}
		info := pk.TypesInfo
		for _, f := range pk.Syntax {
			for _, d := range f.Decls {
				fd, ok := d.(*ast.FuncDecl)
				if !ok || fd.Body == nil || fd.Recv == nil || len(fd.Recv.List) != 1 || len(fd.Recv.List[0].Names) != 1 {
					continue
				}
				if !strings.HasPrefix(fd.Name.Name, "Marshal") && fd.Name.Name != "WriteTo" {
					continue
				}
				robj := info.Defs[fd.Recv.List[0].Names[0]]
				if robj == nil {
					continue
				}
				named, _ := types.Unalias(deref(robj.Type())).(*types.Named)
				if named == nil {
					continue
				}
				st, ok := named.Underlying().(*types.Struct)
				if !ok || st.NumFields() < 3 {
					continue
				}
				nMeth++
				// short forms: an encoder call whose value argument is one field of the receiver
				type short struct {
					field *types.Var
					pos   token.Pos
				}
				var shorts []short
				ast.Inspect(fd.Body, func(n ast.Node) bool {
					call, ok := n.(*ast.CallExpr)
					if !ok || len(call.Args) == 0 {
						return true
					}
					fo := calleeObj(info, call)
					if fo == nil || !(fo.Name() == "Marshal" || fo.Name() == "Encode" || fo.Name() == "MarshalIndent") {
						return true
					}
					arg := ast.Unparen(call.Args[0])
					if u, ok := arg.(*ast.UnaryExpr); ok && u.Op == token.AND {
						arg = ast.Unparen(u.X)
					}
					sel, ok := arg.(*ast.SelectorExpr)
					if !ok {
						return true
					}
					if id, ok := ast.Unparen(sel.X).(*ast.Ident); !ok || info.Uses[id] != robj {
						return true
					}
					if fv, ok := info.Uses[sel.Sel].(*types.Var); ok && fv.IsField() {
						shorts = append(shorts, short{fv, call.Pos()})
					}
					return true
				})
				if len(shorts) == 0 {
					continue
				}
				// fields of the struct mentioned in the method and in the helpers it calls
				seen := map[*types.Var]bool{}
				for _, hb := range c.withHelpers(pk, fd.Body, fd, 2) {
					hinfo := hb.pk.TypesInfo
					ast.Inspect(hb.node, func(n ast.Node) bool {
						sel, ok := n.(*ast.SelectorExpr)
						if !ok {
							return true
						}
						if s, ok := hinfo.Selections[sel]; ok && s.Kind() == types.FieldVal {
							if rn, _ := types.Unalias(deref(s.Recv())).(*types.Named); rn != nil && rn.Obj() == named.Obj() {
								if fv, ok := s.Obj().(*types.Var); ok {
									seen[fv] = true
								}
							}
						}
						return true
					})
				}
				for _, sh := range shorts {
					o := core.Ob{Rule: "T-FIELDCOVER", Key: fmt.Sprintf("%s.%s.%s#short-form:%s", rel, named.Obj().Name(), fd.Name.Name, sh.field.Name()), Pos: c.P.Pos(sh.pos), Func: rel + "." + named.Obj().Name() + "." + fd.Name.Name, Armed: true, Status: core.OK,
						Want: "before a value is encoded as its field " + sh.field.Name() + " alone, every other field of " + named.Obj().Name() + " has been looked at"}
					var missing []string
					for i := 0; i < st.NumFields(); i++ {
						fv := st.Field(i)
						if fv != sh.field && !seen[fv] {
							missing = append(missing, fv.Name())
						}
					}
					if len(missing) > 0 {
						o.Status, o.Got = core.Violated, "never looked at: "+strings.Join(missing, ", ")+" - a value with only these set is encoded as the bare "+sh.field.Name()+" and they are lost"
					}
					obs = append(obs, o)
				}
			}
		}
	}
	obs = append(obs, core.Ob{Rule: "T-FIELDCOVER", Key: "scope", Armed: true, Status: core.OK, Want: "Marshal*/WriteTo methods of struct types were looked at for short forms", Got: fmt.Sprintf("%d methods in %s", nMeth, strings.Join(pkgs, ","))})
	return obs
}

// errKnownNonNil: the error value is freshly built, or the block is entered only over the
// non-nil edge of a test of it.
func errKnownNonNil(e ssa.Value, b *ssa.BasicBlock) bool {
	switch x := e.(type) {
	case *ssa.Const:
		return false
	case *ssa.MakeInterface:
		return true
	case *ssa.Call:
		switch calleeName(x.Common()) {
		case "errors.New", "fmt.Errorf":
			return true
		}
	case *ssa.UnOp:
		if g, ok := x.X.(*ssa.Global); ok && x.Op == token.MUL && strings.HasPrefix(g.Name(), "Err") {
			return true
		}
		// a result slot (functions with a defer spill their results): what was stored last in this block
		if al, ok := x.X.(*ssa.Alloc); ok && x.Op == token.MUL {
			var last ssa.Value
			for _, in := range x.Block().Instrs {
				if in == ssa.Instruction(x) {
					break
				}
				if st, ok := in.(*ssa.Store); ok && st.Addr == ssa.Value(al) {
					last = st.Val
				}
			}
			if last != nil && last != e {
				return errKnownNonNil(last, b)
			}
		}
	}
	for d := b; d != nil; d = d.Idom() {
		if len(d.Preds) != 1 {
			continue
		}
		p := d.Preds[0]
		iff, ok := p.Instrs[len(p.Instrs)-1].(*ssa.If)
		if !ok {
			continue
		}
		cmp, ok := iff.Cond.(*ssa.BinOp)
		if !ok || !((cmp.X == e && isNilConst(cmp.Y)) || (cmp.Y == e && isNilConst(cmp.X))) {
			continue
		}
		if (cmp.Op == token.NEQ && p.Succs[0] == d) || (cmp.Op == token.EQL && p.Succs[1] == d) {
			return true
		}
	}
	return false
}

// directlyReturnedCall: `return f(...)`: the call whose results are exactly what the return hands back (nil otherwise).
func directlyReturnedCall(ret *ssa.Return) ssa.Value {
	if len(ret.Results) == 1 {
		// a function with a defer spills its result: `*slot = f(..); rundefers; return *slot`
		if ld, ok := ret.Results[0].(*ssa.UnOp); ok && ld.Op == token.MUL {
			if al, ok := ld.X.(*ssa.Alloc); ok {
				var last ssa.Value
				for _, in := range ret.Block().Instrs {
					if st, ok := in.(*ssa.Store); ok && st.Addr == ssa.Value(al) {
						last = st.Val
					}
				}
				if cl, ok := last.(*ssa.Call); ok && cl.Block() == ret.Block() {
					return cl
				}
			}
		}
		// (not `err := f(); if err != nil { return err }`: there the call is in an earlier block)
		if cl, ok := ret.Results[0].(*ssa.Call); ok && cl.Block() == ret.Block() {
			return cl
		}
		return nil
	}
	var call *ssa.Call
	for i, r := range ret.Results {
		ex, ok := r.(*ssa.Extract)
		if !ok || ex.Index != i {
			return nil
		}
		cl, ok := ex.Tuple.(*ssa.Call)
		if !ok || (call != nil && cl != call) {
			return nil
		}
		call = cl
	}
	if call == nil || call.Block() != ret.Block() {
		return nil
	}
	return call
}

// ---------------------------------------------------------------------------
// R-ORDER[ripple-carry]: a byte-wise increment that propagates a carry
// (x[i]++ under a carry flag, the flag recomputed from x[i]) computes the flag
// as "the byte was 0xff before the increment" or "the byte is 0 after it".
// Reading the byte on the other side of the increment store with the same
// constant stops (or continues) the carry one byte off.

func sameElem(a, b ssa.Value) bool {
	x, ok1 := a.(*ssa.IndexAddr)
	y, ok2 := b.(*ssa.IndexAddr)
	return ok1 && ok2 && x.X == y.X && x.Index == y.Index
}

func (c *Ctx) RippleCarry(pkgs ...string) []core.Ob {
	var obs []core.Ob
	for _, fn := range c.Funcs() {
		if !inPkgs(fn, pkgs...) {
			continue
		}
		k := 0
		for _, b := range fn.Blocks {
			// the increment store: x[i] = x[i] + 1
			incIdx := -1
			var addr ssa.Value
			for i, in := range b.Instrs {
				st, ok := in.(*ssa.Store)
				if !ok {
					continue
				}
				add, ok := st.Val.(*ssa.BinOp)
				if !ok || add.Op != token.ADD {
					continue
				}
				one, isK := constIntVal(add.Y)
				ld, isLd := add.X.(*ssa.UnOp)
				if !isK || one != 1 || !isLd || ld.Op != token.MUL || !sameElem(ld.X, st.Addr) {
					continue
				}
				if bt, ok := add.Type().Underlying().(*types.Basic); !ok || bt.Kind() != types.Uint8 {
					continue
				}
				incIdx, addr = i, st.Addr
			}
			if incIdx < 0 {
				continue
			}
			// the flag: a comparison of the same element with a constant in the same block, feeding a phi
			for i, in := range b.Instrs {
				cmp, ok := in.(*ssa.BinOp)
				if !ok || cmp.Op != token.EQL {
					continue
				}
				ld, isLd := cmp.X.(*ssa.UnOp)
				kv, isK := constIntVal(cmp.Y)
				if !isLd || !isK || ld.Op != token.MUL || !sameElem(ld.X, addr) {
					continue
				}
				feedsPhi := false
				if refs := cmp.Referrers(); refs != nil {
					for _, r := range *refs {
						if _, ok := r.(*ssa.Phi); ok {
							feedsPhi = true
						}
					}
				}
				if !feedsPhi {
					continue
				}
				// where the byte was read relative to the increment
				ldIdx := -1
				for j, x := range b.Instrs {
					if x == ssa.Instruction(ld) {
						ldIdx = j
					}
				}
				_ = i
				k++
				o := core.Ob{Rule: "R-ORDER", Key: fmt.Sprintf("ripple-carry:%s#%d", core.FnName(fn), k), Pos: c.P.Pos(cmp.Pos()), Func: core.FnName(fn), Armed: true, Status: core.OK,
					Want: "the carry out of a byte is `byte == 0xff` read before the increment, or `byte == 0` read after it"}
				before := ldIdx >= 0 && ldIdx < incIdx
				if (before && kv != 0xff) || (!before && kv != 0) {
					o.Status = core.Violated
					side := "after"
					if before {
						side = "before"
					}
					o.Got = fmt.Sprintf("the byte is read %s the increment and compared with %#x: the carry is propagated from the wrong bytes", side, kv)
				}
				obs = append(obs, o)
			}
		}
		// a loop that complements every byte of a slice in place is the first half of a multi-byte
		// negation (-x = ^x + 1): the +1 has to be able to travel through all bytes, so the function
		// also has a loop with a byte increment whose continuation hangs on a byte compared with
		// 0 / 0xff (the carry). Adding the one to the last byte only loses the carry out of it.
		loops := naturalLoops(fn)
		inLoop := func(b *ssa.BasicBlock) bool {
			for _, lp := range loops {
				if lp.body[b] {
					return true
				}
			}
			return false
		}
		var compl *ssa.Store
		carryLoop := false
		for _, lp := range loops {
			hasInc, hasCmp := false, false
			for b := range lp.body {
				for _, in := range b.Instrs {
					switch x := in.(type) {
					case *ssa.Store:
						if bt, ok := x.Val.Type().Underlying().(*types.Basic); !ok || bt.Kind() != types.Uint8 {
							continue
						}
						if _, isElem := x.Addr.(*ssa.IndexAddr); !isElem {
							continue
						}
						switch v := x.Val.(type) {
						case *ssa.UnOp:
							if ld, ok := v.X.(*ssa.UnOp); ok && v.Op == token.XOR && ld.Op == token.MUL && sameElem(ld.X, x.Addr) {
								compl = x
							}
						case *ssa.BinOp:
							ld, isLd := v.X.(*ssa.UnOp)
							kv, isK := constIntVal(v.Y)
							if isLd && isK && ld.Op == token.MUL && sameElem(ld.X, x.Addr) {
								if v.Op == token.XOR && kv == 0xff {
									compl = x
								}
								if v.Op == token.ADD && kv == 1 {
									hasInc = true
								}
							}
						}
					case *ssa.BinOp:
						if x.Op != token.EQL && x.Op != token.NEQ {
							continue
						}
						ld, isLd := x.X.(*ssa.UnOp)
						kv, isK := constIntVal(x.Y)
						if isLd && isK && ld.Op == token.MUL && (kv == 0 || kv == 0xff) {
							if _, isElem := ld.X.(*ssa.IndexAddr); isElem {
								hasCmp = true
							}
						}
					}
				}
			}
			if hasInc && hasCmp {
				carryLoop = true
			}
		}
		if compl != nil && inLoop(compl.Block()) {
			o := core.Ob{Rule: "R-ORDER", Key: "ripple-carry:" + core.FnName(fn) + "#negation", Pos: c.P.Pos(compl.Pos()), Func: core.FnName(fn), Armed: true, Status: core.OK,
				Want: "a byte-wise negation (complement every byte, add one) lets the one carry through the bytes: a loop increments a byte and goes on according to a byte compared with 0 or 0xff"}
			if !carryLoop {
				o.Status, o.Got = core.Violated, "every byte is complemented in a loop but no loop propagates the added one from byte to byte: the carry out of the lowest byte is lost (digests ending in a zero byte)"
			}
			obs = append(obs, o)
		}
	}
	return obs
}

// ---------------------------------------------------------------------------
// R-GUARD[block-slices]: in the CFB8 stream, a slice expression on a parameter
// Q whose bound is the cipher's block size (Q[:bs], Q[bs:]) is covered by a
// length gate: a dominating branch taken only when len(P) exceeds an expression
// over the block size, where P is Q itself or the function has refused
// len(Q) < len(P) before (so len(Q) >= len(P) > bs). A gate on a different
// slice says nothing about Q.

func (c *Ctx) BlockSlices(pkg string) []core.Ob {
	var obs []core.Ob
	for _, root := range c.Funcs() {
		// the exported stream methods; the slices and the gate may live in helpers of the package
		if !inPkgs(root, pkg) || len(root.Params) < 2 || root.Signature.Recv() == nil || root.Parent() != nil || root.Object() == nil || !root.Object().Exported() {
			continue
		}
		v := c.inlineView(root, 2)
		rootParam := func(n *inode, x ssa.Value) *ssa.Parameter {
			val, fr := n.frame.resolve(stripConv(x))
			if p, ok := val.(*ssa.Parameter); ok && fr != nil && fr.parent == nil && p != root.Params[0] {
				return p
			}
			return nil
		}
		isBS := func(n *inode, x ssa.Value) bool {
			val, fr := n.frame.resolve(stripConv(x))
			val = stripConv(val)
			ld, ok := val.(*ssa.UnOp)
			if !ok || ld.Op != token.MUL || fr == nil {
				return false
			}
			f := v.fieldInFrame(fr, ld.X)
			if f == "" || strings.Contains(f, ".") {
				return false
			}
			bt, ok := ld.Type().Underlying().(*types.Basic)
			return ok && bt.Info()&types.IsInteger != 0
		}
		var mentionsBS func(n *inode, x ssa.Value, d int) bool
		mentionsBS = func(n *inode, x ssa.Value, d int) bool {
			if d > 4 {
				return false
			}
			if isBS(n, x) {
				return true
			}
			if bo, ok := stripConv(x).(*ssa.BinOp); ok {
				return mentionsBS(n, bo.X, d+1) || mentionsBS(n, bo.Y, d+1)
			}
			return false
		}
		lenOf := func(n *inode, x ssa.Value) *ssa.Parameter {
			cl, ok := stripConv(x).(*ssa.Call)
			if !ok {
				return nil
			}
			if bi, isB := cl.Common().Value.(*ssa.Builtin); !isB || bi.Name() != "len" {
				return nil
			}
			return rootParam(n, cl.Common().Args[0])
		}
		gates := map[*ssa.Parameter][]int{} // P -> nodes entered when len(P) exceeds the block size expression
		type rel struct{ q, p *ssa.Parameter }
		geq := map[rel][]int{} // len(Q) >= len(P) holds from these nodes on
		for _, n := range v.nodes {
			iff, ok := n.in.(*ssa.If)
			if !ok || len(n.succs) != 2 {
				continue
			}
			cmp, ok := iff.Cond.(*ssa.BinOp)
			if !ok {
				continue
			}
			x, y, op := cmp.X, cmp.Y, cmp.Op
			tSucc, fSucc := n.succs[0], n.succs[1]
			switch op {
			case token.LSS:
				x, y, op = y, x, token.GTR
			case token.LEQ:
				x, y, op = y, x, token.GEQ
			}
			if op != token.GTR && op != token.GEQ {
				continue
			}
			// x > y (x >= y) on tSucc ; y >= x (y > x) on fSucc
			if p := lenOf(n, x); p != nil && mentionsBS(n, y, 0) {
				gates[p] = append(gates[p], tSucc)
			}
			if p := lenOf(n, y); p != nil && mentionsBS(n, x, 0) && op == token.GEQ {
				// E >= len(P) true -> not enough; the false side has len(P) > E
				gates[p] = append(gates[p], fSucc)
			}
			if p, q := lenOf(n, x), lenOf(n, y); p != nil && q != nil && op == token.GTR {
				// len(P) > len(Q) leads to a refusal: afterwards len(Q) >= len(P)
				if _, isPanic := v.nodes[tSucc].in.Block().Instrs[len(v.nodes[tSucc].in.Block().Instrs)-1].(*ssa.Panic); isPanic {
					geq[rel{q, p}] = append(geq[rel{q, p}], fSucc)
				}
			}
		}
		k := 0
		for _, n := range v.nodes {
			sl, ok := n.in.(*ssa.Slice)
			if !ok {
				continue
			}
			q := rootParam(n, sl.X)
			if q == nil {
				continue
			}
			if !((sl.Low != nil && isBS(n, sl.Low)) || (sl.High != nil && isBS(n, sl.High))) {
				continue
			}
			k++
			o := core.Ob{Rule: "R-GUARD", Key: fmt.Sprintf("%s#block-slice%d", core.FnName(root), k), Pos: c.P.Pos(sl.Pos()), Func: core.FnName(root), Armed: true, Status: core.OK,
				Want: "slicing " + q.Name() + " by the block size is covered by a gate on len(" + q.Name() + ") (or on a slice " + q.Name() + " was checked to be at least as long as)"}
			covered := false
			if g := gates[q]; len(g) > 0 && !v.reachAvoidingErrAware(v.entry, n.id, g) {
				covered = true
			}
			for r, from := range geq {
				if r.q != q {
					continue
				}
				if g := gates[r.p]; len(g) > 0 && !v.reachAvoidingErrAware(v.entry, n.id, g) && !v.reachAvoidingErrAware(v.entry, n.id, from) {
					covered = true
				}
			}
			if !covered {
				o.Status, o.Got = core.Violated, "some path reaches this slice expression without a gate that bounds len("+q.Name()+") from below by the block size: a short "+q.Name()+" makes it panic (or the fast path run on too little input)"
			}
			obs = append(obs, o)
		}
	}
	return obs
}

// ---------------------------------------------------------------------------
// T-DISPATCH[clause-consistent]: inside the clause of a switch over tag
// constants, a comparison of the switched variable with a tag constant that
// the clause does not list can never be true (or never false): the code holds
// two contradictory beliefs about the tag, one of them is a slip (TagInt for
// TagIntArray).

func (c *Ctx) ClauseConsistency(pkgs ...string) []core.Ob {
	var obs []core.Ob
	for _, ts := range c.tagSwitches(pkgs...) {
		id, ok := ast.Unparen(ts.sw.Tag).(*ast.Ident)
		if !ok {
			continue
		}
		info := ts.pkg.TypesInfo
		tagObj := info.Uses[id]
		if tagObj == nil {
			continue
		}
		seenCC := map[*ast.CaseClause]bool{}
		var vals []int64
		for v := range ts.cases {
			vals = append(vals, v)
		}
		sort.Slice(vals, func(i, j int) bool { return vals[i] < vals[j] })
		for _, v := range vals {
			cc := ts.cases[v]
			if seenCC[cc] {
				continue
			}
			seenCC[cc] = true
			listed := map[int64]bool{}
			for _, e := range cc.List {
				if _, tv, ok := tagConst(info, e); ok {
					listed[tv] = true
				}
			}
			// the variable must not be reassigned inside the clause
			reassigned := false
			ast.Inspect(cc, func(n ast.Node) bool {
				if as, ok := n.(*ast.AssignStmt); ok {
					for _, l := range as.Lhs {
						if li, ok := ast.Unparen(l).(*ast.Ident); ok && (info.Uses[li] == tagObj || info.Defs[li] == tagObj) {
							reassigned = true
						}
					}
				}
				return true
			})
			if reassigned {
				continue
			}
			k := 0
			check := func(e ast.Expr, pos token.Pos) {
				name, tv, ok := tagConst(info, e)
				if !ok {
					return
				}
				k++
				o := core.Ob{Rule: "T-DISPATCH", Key: fmt.Sprintf("%s#switch%d:%s:inner-compare%d", ts.fn, ts.ordinal, ts.names[v], k), Pos: c.P.Pos(pos), Func: ts.fn, Armed: true, Status: core.OK,
					Want: "inside the clause for " + clauseNames(ts, cc) + " the tag is only compared with the tags that clause lists"}
				if !listed[tv] {
					o.Status, o.Got = core.Violated, "compared with "+name+", which this clause never sees: the comparison has a fixed outcome"
				}
				obs = append(obs, o)
			}
			for _, s := range cc.Body {
				ast.Inspect(s, func(n ast.Node) bool {
					switch x := n.(type) {
					case *ast.FuncLit:
						return false
					case *ast.BinaryExpr:
						if x.Op != token.EQL && x.Op != token.NEQ {
							return true
						}
						for _, pr := range [][2]ast.Expr{{x.X, x.Y}, {x.Y, x.X}} {
							if li, ok := ast.Unparen(pr[0]).(*ast.Ident); ok && info.Uses[li] == tagObj {
								check(pr[1], x.Pos())
							}
						}
					case *ast.SwitchStmt:
						if x.Tag != nil {
							if li, ok := ast.Unparen(x.Tag).(*ast.Ident); ok && info.Uses[li] == tagObj {
								for _, cs := range x.Body.List {
									for _, e := range cs.(*ast.CaseClause).List {
										check(e, e.Pos())
									}
								}
							}
						}
					}
					return true
				})
			}
		}
	}
	return obs
}

func clauseNames(ts *tagSwitch, cc *ast.CaseClause) string {
	var ns []string
	for v, x := range ts.cases {
		if x == cc {
			ns = append(ns, ts.names[v])
		}
	}
	sort.Strings(ns)
	return strings.Join(ns, "/")
}

// ---------------------------------------------------------------------------
// R-GUARD[len-minus-k]: an index or slice bound of the form L-k (k >= 1), where
// L is len(x) or x.Len(), is reached only over a branch that compared a length
// of the same x with something (L > 0, L >= k, L != 0 ...): with L == 0 the
// bound is negative and the expression panics.

func lengthOf(v ssa.Value) (obj ssa.Value, ok bool) {
	cl, isCall := stripConv(v).(*ssa.Call)
	if !isCall {
		return nil, false
	}
	if bi, isB := cl.Common().Value.(*ssa.Builtin); isB {
		if bi.Name() == "len" && len(cl.Common().Args) == 1 {
			return cl.Common().Args[0], true
		}
		return nil, false
	}
	if g := cl.Common().StaticCallee(); g != nil && g.Name() == "Len" && len(cl.Common().Args) == 1 {
		return cl.Common().Args[0], true
	}
	if cl.Common().IsInvoke() && cl.Common().Method.Name() == "Len" {
		return cl.Common().Value, true
	}
	return nil, false
}

func (c *Ctx) LenMinusGuards(include func(*ssa.Function) bool) []core.Ob {
	var obs []core.Ob
	for _, fn := range c.Funcs() {
		if !include(fn) {
			continue
		}
		k := 0
		for _, b := range fn.Blocks {
			for _, in := range b.Instrs {
				var bounds []ssa.Value
				switch x := in.(type) {
				case *ssa.Slice:
					bounds = []ssa.Value{x.Low, x.High}
				case *ssa.Index:
					bounds = []ssa.Value{x.Index}
				case *ssa.IndexAddr:
					bounds = []ssa.Value{x.Index}
				}
				for _, bd := range bounds {
					if bd == nil {
						continue
					}
					sub, ok := stripConv(bd).(*ssa.BinOp)
					if !ok || sub.Op != token.SUB {
						continue
					}
					kv, isK := constIntVal(sub.Y)
					obj, isLen := lengthOf(sub.X)
					if !isK || kv < 1 || !isLen {
						continue
					}
					k++
					o := core.Ob{Rule: "R-GUARD", Key: fmt.Sprintf("%s#len-minus%d", core.FnName(fn), k), Pos: c.P.Pos(in.Pos()), Func: core.FnName(fn), Armed: true, Status: core.OK,
						Want: fmt.Sprintf("the bound len-%d is used only after a comparison on the length of the same object", kv)}
					guarded := false
					// loops `for i := len(x)-1; i >= 0; i--` index with the counter, not with len-k: not this pattern.
					for _, g := range fn.Blocks {
						iff, ok := g.Instrs[len(g.Instrs)-1].(*ssa.If)
						if !ok || g == b || !g.Dominates(b) {
							continue
						}
						cmp, ok := iff.Cond.(*ssa.BinOp)
						if !ok {
							continue
						}
						for _, op := range []ssa.Value{cmp.X, cmp.Y} {
							if o2, ok := lengthOf(op); ok && sameObject(o2, obj) {
								// one side of the branch must lead here exclusively
								for _, s := range g.Succs {
									if (s == b || s.Dominates(b)) && len(s.Preds) == 1 {
										guarded = true
									}
								}
							}
						}
					}
					if !guarded {
						o.Status, o.Got = core.Violated, "no branch on the length of the same object dominates this use: with an empty one the bound is negative"
					}
					obs = append(obs, o)
				}
			}
		}
	}
	return obs
}

// sameObject: both values denote the same slice/string/receiver (the same SSA value, or loads of the same address).
func sameObject(a, b ssa.Value) bool {
	if a == b {
		return true
	}
	la, ok1 := a.(*ssa.UnOp)
	lb, ok2 := b.(*ssa.UnOp)
	if ok1 && ok2 && la.Op == token.MUL && lb.Op == token.MUL {
		return addrKey(la.X) == addrKey(lb.X)
	}
	return false
}

// ---------------------------------------------------------------------------
// T-SCANSTATE[detour-returns]: in the SNBT scanner's state machine (functions
// stored into the scanner's step field), a state that is entered from exactly
// one state and continues into exactly one state is a detour (an escape inside
// a quoted string) and returns to the state it came from: after `\'` inside a
// single-quoted string the scanner is inside the single-quoted string again.

func (c *Ctx) ScannerDetours(pkg string) []core.Ob {
	var obs []core.Ob
	succ := map[*ssa.Function]map[*ssa.Function]bool{}
	pred := map[*ssa.Function]map[*ssa.Function]bool{}
	isState := map[*ssa.Function]bool{}
	setters := map[*ssa.Function]int{}
	for _, fn := range c.Funcs() {
		if !inPkgs(fn, pkg) {
			continue
		}
		for _, b := range fn.Blocks {
			for _, in := range b.Instrs {
				st, ok := in.(*ssa.Store)
				if !ok {
					continue
				}
				fa, ok := st.Addr.(*ssa.FieldAddr)
				if !ok {
					continue
				}
				stt, ok := deref(fa.X.Type()).Underlying().(*types.Struct)
				if !ok {
					continue
				}
				if _, isSig := stt.Field(fa.Field).Type().Underlying().(*types.Signature); !isSig {
					continue
				}
				if p, isParam := st.Val.(*ssa.Parameter); isParam {
					// a setter helper: s.setStep(next) - its call sites are the transitions
					for i, q := range fn.Params {
						if q == p {
							setters[fn] = i
						}
					}
					continue
				}
				tgt, ok := st.Val.(*ssa.Function)
				if !ok {
					continue
				}
				isState[tgt] = true
				if succ[fn] == nil {
					succ[fn] = map[*ssa.Function]bool{}
				}
				succ[fn][tgt] = true
				if pred[tgt] == nil {
					pred[tgt] = map[*ssa.Function]bool{}
				}
				pred[tgt][fn] = true
			}
		}
	}
	// transitions made through a setter helper
	if len(setters) > 0 {
		for _, fn := range c.Funcs() {
			if !inPkgs(fn, pkg) {
				continue
			}
			for _, b := range fn.Blocks {
				for _, in := range b.Instrs {
					ci, ok := in.(ssa.CallInstruction)
					if !ok {
						continue
					}
					g := ci.Common().StaticCallee()
					idx, isSetter := setters[g]
					if g == nil || !isSetter || idx >= len(ci.Common().Args) {
						continue
					}
					tgt, ok := ci.Common().Args[idx].(*ssa.Function)
					if !ok {
						continue
					}
					isState[tgt] = true
					if succ[fn] == nil {
						succ[fn] = map[*ssa.Function]bool{}
					}
					succ[fn][tgt] = true
					if pred[tgt] == nil {
						pred[tgt] = map[*ssa.Function]bool{}
					}
					pred[tgt][fn] = true
				}
			}
		}
	}
	// a state that hands the character on to another state function by calling it continues there too
	var stateSig types.Type
	for f := range isState {
		stateSig = f.Signature
		break
	}
	for _, fn := range c.Funcs() {
		if !inPkgs(fn, pkg) || stateSig == nil || !types.Identical(fn.Signature, stateSig) {
			continue
		}
		for _, b := range fn.Blocks {
			for _, in := range b.Instrs {
				if ci, ok := in.(ssa.CallInstruction); ok {
					if g := ci.Common().StaticCallee(); g != nil && g != fn && types.Identical(g.Signature, stateSig) {
						if succ[fn] == nil {
							succ[fn] = map[*ssa.Function]bool{}
						}
						succ[fn][g] = true
					}
				}
			}
		}
	}
	var states []*ssa.Function
	for f := range isState {
		states = append(states, f)
	}
	sort.Slice(states, func(i, j int) bool { return core.FnName(states[i]) < core.FnName(states[j]) })
	n := 0
	for _, e := range states {
		// direct calls of the state function (delegation) count as entries too
		if len(pred[e]) != 1 || len(succ[e]) != 1 || c.calledDirectly(e) {
			continue
		}
		var p, t *ssa.Function
		for x := range pred[e] {
			p = x
		}
		for x := range succ[e] {
			t = x
		}
		if !isState[p] {
			continue
		}
		n++
		o := core.Ob{Rule: "T-SCANSTATE", Key: core.FnName(e) + ":detour-returns", Pos: c.P.Pos(e.Pos()), Func: core.FnName(e), Armed: true, Status: core.OK,
			Want: "a scanner state entered only from " + p.Name() + " and continuing into a single state returns to " + p.Name()}
		if t != p {
			o.Status, o.Got = core.Violated, "continues in "+t.Name()+": after the detour the scanner is in a different construct than before it"
		}
		obs = append(obs, o)
	}
	obs = append(obs, core.Ob{Rule: "T-SCANSTATE", Key: "scope", Armed: true, Status: core.OK, Want: "the scanner's state functions were found", Got: fmt.Sprintf("%d state functions, %d detours", len(states), n)})
	return obs
}

// calledDirectly: some function of the module calls fn by name (not through the step field).
func (c *Ctx) calledDirectly(fn *ssa.Function) bool {
	if n := c.P.CallGraph().Nodes[fn]; n != nil {
		for _, e := range n.In {
			if e.Site != nil && e.Site.Common().StaticCallee() == fn {
				return true
			}
		}
	}
	return false
}

// ---------------------------------------------------------------------------
// T-KIND[emptiness-covers]: the emptiness test behind `omitempty` decides every
// kind the encoder's kind->tag table accepts (other than Struct, which is never
// empty): a kind it does not mention falls to its default answer "not empty",
// and zero values of that kind are written although the tag says to omit them.

func (c *Ctx) EmptinessCoversKinds() []core.Ob {
	o := core.Ob{Rule: "T-KIND", Key: "omitempty:emptiness-covers-encodable-kinds", Armed: true, Status: core.OK,
		Want: "the emptiness test used for omitempty mentions (in a Kind switch or through CanInt/CanUint/CanFloat) every reflect kind the encoder maps to a tag, Struct excepted"}
	kinds, _, _, why := c.encoderKindTable()
	if kinds == nil {
		o.Status, o.Got = core.Violated, "encoder kind table: "+why
		return []core.Ob{o}
	}
	var fn *ssa.Function
	if ws := c.encoderDispatch(); ws != nil {
		fn = c.Fn(ws.fn)
	}
	if fn == nil {
		o.Status, o.Got = core.Violated, "encoder dispatch not found"
		return []core.Ob{o}
	}
	var pred *ssa.Function
	for _, g := range c.withPkgCallees(fn, 2) {
		for _, ci := range callsIn(g, func(n string, cc *ssa.CallCommon) bool {
			sc := cc.StaticCallee()
			if sc == nil || !inPkgs(sc, "nbt") || len(sc.Params) != 1 || sc.Params[0].Type().String() != "reflect.Value" || sc.Signature.Results().Len() != 1 {
				return false
			}
			b, ok := sc.Signature.Results().At(0).Type().Underlying().(*types.Basic)
			return ok && b.Kind() == types.Bool
		}) {
			pred = ci.Common().StaticCallee()
		}
	}
	if pred == nil {
		o.Status, o.Got = core.Violated, "no emptiness test (func(reflect.Value) bool) reached from the encoder"
		return []core.Ob{o}
	}
	o.Pos, o.Func = c.P.Pos(pred.Pos()), core.FnName(pred)
	fd, pk := c.astFuncDecl(pred)
	if fd == nil {
		o.Status, o.Got = core.Violated, "no syntax for "+core.FnName(pred)
		return []core.Ob{o}
	}
	seen := map[string]bool{}
	for _, hb := range c.withHelpers(pk, fd.Body, fd, 1) {
		for k := range kindsIn(hb.pk.TypesInfo, hb.node) {
			seen[k] = true
		}
		// range tests: k >= reflect.Int && k <= reflect.Int64
		ast.Inspect(hb.node, func(n ast.Node) bool {
			be, ok := n.(*ast.BinaryExpr)
			if !ok || be.Op != token.LAND {
				return true
			}
			lo, hi := int64(-1), int64(-1)
			for _, side := range []ast.Expr{be.X, be.Y} {
				r, ok := ast.Unparen(side).(*ast.BinaryExpr)
				if !ok {
					continue
				}
				for _, pr := range [][2]ast.Expr{{r.X, r.Y}, {r.Y, r.X}} {
					if _, isKind := reflectKindName(hb.pk.TypesInfo, pr[1]); !isKind {
						continue
					}
					tv, ok := hb.pk.TypesInfo.Types[pr[1]]
					if !ok || tv.Value == nil {
						continue
					}
					kv, _ := constant.Int64Val(tv.Value)
					op := r.Op
					if pr[0] == r.Y { // const on the left: flip
						switch op {
						case token.LSS:
							op = token.GTR
						case token.LEQ:
							op = token.GEQ
						case token.GTR:
							op = token.LSS
						case token.GEQ:
							op = token.LEQ
						}
					}
					switch op {
					case token.GEQ:
						lo = kv
					case token.GTR:
						lo = kv + 1
					case token.LEQ:
						hi = kv
					case token.LSS:
						hi = kv - 1
					}
				}
			}
			if lo >= 0 && hi >= lo {
				for kname := range kinds {
					if kv, ok := reflectKindValue[kname]; ok && kv >= lo && kv <= hi {
						seen[kname] = true
					}
				}
			}
			return true
		})
		ast.Inspect(hb.node, func(n ast.Node) bool {
			call, ok := n.(*ast.CallExpr)
			if !ok {
				return true
			}
			if fo := calleeObj(hb.pk.TypesInfo, call); fo != nil && fo.Pkg() != nil && fo.Pkg().Path() == "reflect" {
				switch fo.Name() {
				case "CanInt":
					for _, k := range []string{"Int", "Int8", "Int16", "Int32", "Int64"} {
						seen[k] = true
					}
				case "CanUint":
					for _, k := range []string{"Uint", "Uint8", "Uint16", "Uint32", "Uint64", "Uintptr"} {
						seen[k] = true
					}
				case "CanFloat":
					seen["Float32"], seen["Float64"] = true, true
				case "IsZero":
					for k := range kinds {
						seen[k] = true
					}
				}
			}
			return true
		})
	}
	var missing []string
	for k := range kinds {
		if k != "Struct" && !seen[k] {
			missing = append(missing, k)
		}
	}
	sort.Strings(missing)
	if len(missing) > 0 {
		o.Status, o.Got = core.Violated, "not decided for kind(s) "+strings.Join(missing, ", ")+": their zero values are never omitted"
	}
	return []core.Ob{o}
}

// ---------------------------------------------------------------------------
// T-BITFIELD[group-order]: where a word is assembled from 7-bit groups of one
// value ((x>>s)&0x7F, possibly |0x80) shifted to byte positions, the groups
// appear in the word in the order LEB128 prescribes for a big-endian store:
// the group with source shift s = 7j sits at destination shift 8*(W-1-j) for a
// word of W groups. Two groups with exchanged byte positions keep every range
// disjoint and every length right, and decode to a different number.

type groupTerm struct {
	src, dst int64
	base     ssa.Value
}

func groupOf(v ssa.Value) (groupTerm, bool) {
	g := groupTerm{}
	v = stripConv(v)
	if sh, ok := v.(*ssa.BinOp); ok && sh.Op == token.SHL {
		k, isK := constIntVal(sh.Y)
		if !isK {
			return g, false
		}
		g.dst = k
		v = stripConv(sh.X)
	}
	// optional | 0x80
	if or, ok := v.(*ssa.BinOp); ok && or.Op == token.OR {
		if k, isK := constIntVal(or.Y); isK && k == 0x80 {
			v = stripConv(or.X)
		} else if k, isK := constIntVal(or.X); isK && k == 0x80 {
			v = stripConv(or.Y)
		} else {
			return g, false
		}
	}
	// optional & 0x7F
	if and, ok := v.(*ssa.BinOp); ok && and.Op == token.AND {
		if k, isK := constIntVal(and.Y); isK && k == 0x7F {
			v = stripConv(and.X)
		} else {
			return g, false
		}
	}
	if sh, ok := v.(*ssa.BinOp); ok && sh.Op == token.SHR {
		k, isK := constIntVal(sh.Y)
		if !isK || k%7 != 0 {
			return g, false
		}
		g.src = k
		v = stripConv(sh.X)
	}
	g.base = v
	return g, true
}

func (c *Ctx) GroupOrder(pkgs ...string) []core.Ob {
	var obs []core.Ob
	for _, fn := range c.Funcs() {
		if !inPkgs(fn, pkgs...) {
			continue
		}
		k := 0
		for _, b := range fn.Blocks {
			for _, in := range b.Instrs {
				or, ok := in.(*ssa.BinOp)
				if !ok || or.Op != token.OR {
					continue
				}
				isRoot := true
				if refs := or.Referrers(); refs != nil {
					for _, r := range *refs {
						if p, ok := r.(*ssa.BinOp); ok && p.Op == token.OR {
							isRoot = false
						}
						// the OR with the continuation bit inside one group is not a word
						if p, ok := r.(*ssa.BinOp); ok && p.Op == token.SHL {
							isRoot = false
						}
					}
				}
				if !isRoot {
					continue
				}
				var terms []ssa.Value
				topTerms(or, &terms)
				if len(terms) < 2 {
					continue
				}
				var gs []groupTerm
				okAll := true
				for _, t := range terms {
					g, ok := groupOf(t)
					if !ok || (len(gs) > 0 && g.base != gs[0].base) {
						okAll = false
						break
					}
					gs = append(gs, g)
				}
				if !okAll {
					continue
				}
				// is this really a split into 7-bit groups? distinct source shifts that are multiples of 7
				srcs := map[int64]bool{}
				for _, g := range gs {
					srcs[g.src] = true
				}
				if len(srcs) != len(gs) {
					continue
				}
				k++
				o := core.Ob{Rule: "T-BITFIELD", Key: fmt.Sprintf("%s#groups%d", core.FnName(fn), k), Pos: c.P.Pos(or.Pos()), Func: core.FnName(fn), Armed: true, Status: core.OK,
					Want: "the 7-bit group taken at source shift 7j is stored at byte W-1-j of the W-byte big-endian word (least significant group first on the wire)"}
				w := int64(len(gs))
				var bad []string
				for _, g := range gs {
					want := 8 * (w - 1 - g.src/7)
					if g.dst != want {
						bad = append(bad, fmt.Sprintf("group >>%d at <<%d (want <<%d)", g.src, g.dst, want))
					}
				}
				if len(bad) > 0 {
					sort.Strings(bad)
					o.Status, o.Got = core.Violated, strings.Join(bad, ", ")
				}
				obs = append(obs, o)
			}
		}
	}
	return obs
}

// topTerms: the operands of an OR tree, not descending into an OR that only adds the constant 0x80 (a group's continuation bit).
func topTerms(v ssa.Value, out *[]ssa.Value) {
	if bo, ok := v.(*ssa.BinOp); ok && bo.Op == token.OR {
		if k, isK := constIntVal(bo.Y); isK && k == 0x80 {
			*out = append(*out, v)
			return
		}
		topTerms(bo.X, out)
		topTerms(bo.Y, out)
		return
	}
	*out = append(*out, v)
}

// ---------------------------------------------------------------------------
// T-CONNINIT: every place in package net that builds a Conn around a socket
// (a composite literal that sets Socket) gives the reader and the writer side
// that very socket - no buffering layer in between, SetCipher later wraps the
// socket itself and whatever a buffer already holds would be lost - and starts
// with threshold -1 (compression off until the peer says otherwise).

func (c *Ctx) ConnInit() []core.Ob {
	var obs []core.Ob
	n := 0
	ifaceOrigin := func(v ssa.Value) ssa.Value {
		for {
			switch x := v.(type) {
			case *ssa.MakeInterface:
				v = x.X
				continue
			case *ssa.ChangeInterface:
				v = x.X
				continue
			}
			return v
		}
	}
	for _, fn := range c.Funcs() {
		if !inPkgs(fn, "net") {
			continue
		}
		k := 0
		for _, b := range fn.Blocks {
			for _, in := range b.Instrs {
				al, ok := in.(*ssa.Alloc)
				if !ok {
					continue
				}
				named, ok := types.Unalias(deref(al.Type())).(*types.Named)
				if !ok || named.Obj().Name() != "Conn" || named.Obj().Pkg() == nil || core.Rel(named.Obj().Pkg().Path()) != "net" {
					continue
				}
				st, ok := named.Underlying().(*types.Struct)
				if !ok || al.Referrers() == nil {
					continue
				}
				fields := map[string]ssa.Value{}
				for _, r := range *al.Referrers() {
					fa, ok := r.(*ssa.FieldAddr)
					if !ok || fa.Referrers() == nil {
						continue
					}
					for _, u := range *fa.Referrers() {
						if s, ok := u.(*ssa.Store); ok && s.Addr == ssa.Value(fa) {
							fields[st.Field(fa.Field).Name()] = s.Val
						}
					}
				}
				sock, has := fields["Socket"]
				if !has {
					continue
				}
				n++
				k++
				o := core.Ob{Rule: "T-CONNINIT", Key: fmt.Sprintf("%s#Conn%d", core.FnName(fn), k), Pos: c.P.Pos(al.Pos()), Func: core.FnName(fn), Armed: true, Status: core.OK,
					Want: "a Conn built around a socket reads from and writes to that socket directly and starts with threshold -1"}
				var bad []string
				for _, side := range []string{"Reader", "Writer"} {
					if v, ok := fields[side]; !ok {
						bad = append(bad, side+" not set")
					} else if ifaceOrigin(v) != ifaceOrigin(sock) {
						bad = append(bad, side+" is not the socket itself (a layer in between keeps bytes that SetCipher, which wraps the socket, never sees)")
					}
				}
				if v, ok := fields["threshold"]; !ok {
					bad = append(bad, "threshold not set (0: every frame is in the compressed format)")
				} else if kv, isK := constIntVal(v); !isK || kv != -1 {
					bad = append(bad, "threshold is not the constant -1")
				}
				if len(bad) > 0 {
					o.Status, o.Got = core.Violated, strings.Join(bad, "; ")
				}
				obs = append(obs, o)
			}
		}
	}
	s := core.Ob{Rule: "T-CONNINIT", Key: "count", Armed: true, Status: core.OK, Want: "some function of package net builds a Conn around a socket", Got: fmt.Sprintf("%d", n)}
	if n < 1 {
		s.Status = core.Violated
	}
	return append(obs, s)
}

// ---------------------------------------------------------------------------
// T-BSINV: the width recovered from (number of values, number of longs) packs
// as many values into a long as the width the longs were sized for. Both
// functions are pure integer code; their skeletons are evaluated (Appendix D)
// for the two container sizes in use (64 biomes, 4096 block states) and every
// width an indirect palette of that many values can have (1..6, 1..12): calcBitsPerValue(n, calcBitStorageSize(b, n)) must have the same
// values-per-long as b. (Necessary for reading saved data back with the layout
// it was written with; the stride itself is not recoverable for widths that
// share a values-per-long count and is not demanded.)

func (c *Ctx) BitWidthInverse() []core.Ob {
	var obs []core.Ob
	size := c.Fn("level.calcBitStorageSize")
	var inv *ssa.Function
	// the inverse: the function of package level with two int parameters and an int result that the
	// WithData constructors call (found through them, not by name)
	for _, ctor := range []string{"level.NewStatesPaletteContainerWithData", "level.NewBiomesPaletteContainerWithData"} {
		if f := c.Fn(ctor); f != nil {
			for _, ci := range callsIn(f, func(_ string, cc *ssa.CallCommon) bool {
				g := cc.StaticCallee()
				return g != nil && inPkgs(g, "level") && g != size && g.Signature.Params().Len() == 2 && g.Signature.Results().Len() == 1 && g.Signature.Recv() == nil &&
					types.Identical(g.Signature.Results().At(0).Type(), types.Typ[types.Int]) && types.Identical(g.Signature.Params().At(0).Type(), types.Typ[types.Int])
			}) {
				inv = ci.Common().StaticCallee()
			}
		}
	}
	if size == nil || inv == nil {
		return []core.Ob{{Rule: "T-BSINV", Key: "anchors", Armed: true, Status: core.Violated, Want: "the storage size function and the width recovery used by the WithData constructors exist", Got: "not found"}}
	}
	sizes := c.TLG().sizesOf(size)
	for _, n := range []int64{64, 4096} {
		// the widths saved data can have: an indirect palette of a container of n values has at most n entries
		maxBits := int64(bitLen(n - 1))
		for b := int64(1); b <= maxBits; b++ {
			o := core.Ob{Rule: "T-BSINV", Key: fmt.Sprintf("values=%d:bits=%d", n, b), Pos: c.P.Pos(inv.Pos()), Func: core.FnName(inv), Armed: true, Status: core.OK,
				Want: fmt.Sprintf("%s(%d, %s(%d, %d)) packs as many values per long as %d bits do", inv.Name(), n, size.Name(), b, n, b)}
			ev := &skelEval{c: c, sizes: sizes}
			longs, err := ev.run(size, []*big.Int{bi(b), bi(n)})
			if err != nil || longs == nil {
				o.Status, o.Got = core.Violated, fmt.Sprintf("%s(%d, %d) cannot be evaluated: %v", size.Name(), b, n, err)
				obs = append(obs, o)
				continue
			}
			ev2 := &skelEval{c: c, sizes: sizes}
			got, err := ev2.run(inv, []*big.Int{bi(n), longs})
			switch {
			case err != nil || got == nil:
				o.Status, o.Got = core.Violated, fmt.Sprintf("%s(%d, %s) cannot be evaluated: %v", inv.Name(), n, longs, err)
			case got.Sign() <= 0 || got.Cmp(bi(64)) > 0:
				o.Status, o.Got = core.Violated, fmt.Sprintf("%s longs of %d-bit values are taken for %s-bit values", longs, b, got)
			case 64/got.Int64() != 64/b:
				o.Status, o.Got = core.Violated, fmt.Sprintf("%s longs holding %d values of %d bits (%d per long) are read back as %s-bit values (%d per long)", longs, n, b, 64/b, got, 64/got.Int64())
			default:
				o.Got = fmt.Sprintf("%s longs -> %s bits", longs, got)
			}
			obs = append(obs, o)
		}
	}
	// The direct class: a container that has outgrown its indirect palettes stores registry ids with
	// the registry width W (a start-up value, bits.Len of the registry size); ChunkToSave copies those
	// longs as they are. Reading them back needs W exactly - the stride, not only the count per long -
	// so the constructor takes the width of this class from the configuration, or the recovery
	// returns W for the longs W-bit values need. W is determined from the tree (registryWidth).
	for _, k := range []struct {
		ctor string
		n    int64
	}{{"level.NewStatesPaletteContainerWithData", 4096}, {"level.NewBiomesPaletteContainerWithData", 64}} {
		ctor := c.Fn(k.ctor)
		bitsFn, _ := c.paletteCfgFns(ctor)
		o := core.Ob{Rule: "T-BSINV", Key: fmt.Sprintf("values=%d:direct", k.n), Armed: true, Status: core.OK,
			Want: fmt.Sprintf("longs holding %d registry ids of the direct width are read back by %s with that width", k.n, k.ctor)}
		if ctor == nil || bitsFn == nil {
			o.Status, o.Got = core.Violated, "the constructor or its configuration's width method was not found"
			obs = append(obs, o)
			continue
		}
		o.Pos, o.Func = c.P.Pos(ctor.Pos()), core.FnName(ctor)
		// the registry width variable: what bits(n) returns for a large n
		var g *ssa.Global
		{
			ev := &skelEval{c: c, sizes: c.TLG().sizesOf(bitsFn)}
			ev.onInstr = func(in ssa.Instruction, get func(ssa.Value) *big.Int) {
				if r, ok := in.(*ssa.Return); ok && len(r.Results) == 1 && get(r.Results[0]) == nil {
					if ld, ok := stripConv(r.Results[0]).(*ssa.UnOp); ok && ld.Op == token.MUL {
						g, _ = ld.X.(*ssa.Global)
					}
				}
			}
			args := make([]*big.Int, len(bitsFn.Params))
			args[len(args)-1] = bi(1000)
			if v, err := ev.run(bitsFn, args); err == nil && v != nil {
				// a constant direct width
				g = nil
				o.Got = fmt.Sprintf("constant direct width %s", v)
			}
		}
		var w int64
		if g != nil {
			rw, err := c.registryWidth(g)
			if err != nil {
				o.Status, o.Got = core.Violated, "the direct width cannot be determined from the tree: "+err.Error()
				obs = append(obs, o)
				continue
			}
			w = rw.bits
			o.Got = fmt.Sprintf("direct width %s = %d (%s)", g.String(), w, rw.how)
		} else {
			ev := &skelEval{c: c, sizes: c.TLG().sizesOf(bitsFn)}
			args := make([]*big.Int, len(bitsFn.Params))
			args[len(args)-1] = bi(1000)
			v, err := ev.run(bitsFn, args)
			if err != nil || v == nil {
				o.Status, o.Got = core.Violated, "the direct width is neither a number nor a registry width"
				obs = append(obs, o)
				continue
			}
			w = v.Int64()
		}
		// does the constructor take the storage width from the configuration? (the width argument of the
		// storage constructor has a leaf that is the registry variable or a call of the width method)
		fromCfg := false
		for _, b := range ctor.Blocks {
			for _, in := range b.Instrs {
				call, ok := in.(*ssa.Call)
				if !ok || len(call.Call.Args) != 3 {
					continue
				}
				callee := call.Call.StaticCallee()
				if callee == nil || !inPkgs(callee, "level") || callee == inv || callee == size {
					continue
				}
				seen := map[ssa.Value]bool{}
				var walk func(v ssa.Value)
				walk = func(v ssa.Value) {
					v = stripConv(v)
					if seen[v] {
						return
					}
					seen[v] = true
					switch x := v.(type) {
					case *ssa.Phi:
						for _, e := range x.Edges {
							walk(e)
						}
					case *ssa.UnOp:
						if x.Op == token.MUL && g != nil && x.X == ssa.Value(g) {
							fromCfg = true
						}
					case *ssa.Call:
						if x.Call.StaticCallee() == bitsFn {
							fromCfg = true
						}
					}
				}
				walk(call.Call.Args[0])
			}
		}
		// the saved longs and the width go into the storage constructor together, and it panics when
		// they disagree: the width is recovered from the number of longs (so they cannot), or the
		// number of longs is checked before the call
		{
			p := core.Ob{Rule: "T-BSINV", Key: fmt.Sprintf("values=%d:width-fits-saved-longs", k.n), Pos: c.P.Pos(ctor.Pos()), Func: core.FnName(ctor), Armed: true, Status: core.OK,
				Want: "the width handed to the storage constructor with the saved longs is recovered from their number (or their number is checked first): the constructor panics on a mismatch"}
			for _, b := range ctor.Blocks {
				for _, in := range b.Instrs {
					call, ok := in.(*ssa.Call)
					if !ok || len(call.Call.Args) != 3 {
						continue
					}
					callee := call.Call.StaticCallee()
					if callee == nil || !inPkgs(callee, "level") || callee == inv || callee == size || isNilConst(call.Call.Args[2]) {
						continue
					}
					if _, isSl := call.Call.Args[2].Type().Underlying().(*types.Slice); !isSl {
						continue
					}
					// every source of the width is the recovery applied to len(data), or a constant (the
					// normalised width of a class)
					fromInv, other := false, false
					seen := map[ssa.Value]bool{}
					var walk func(v ssa.Value)
					walk = func(v ssa.Value) {
						v = stripConv(v)
						if seen[v] {
							return
						}
						seen[v] = true
						switch x := v.(type) {
						case *ssa.Phi:
							for _, e := range x.Edges {
								walk(e)
							}
						case *ssa.Const:
						case *ssa.Extract:
							walk(x.Tuple)
						case *ssa.Call:
							ok := false
							if x.Call.StaticCallee() == inv {
								for _, a := range x.Call.Args {
									if isLenOf(a, call.Call.Args[2]) {
										ok = true
									}
								}
							} else if g := x.Call.StaticCallee(); g != nil && inPkgs(g, "level") && g != size {
								// a helper of the package that normalises the recovered width (statesPaletteFor(n, pat)):
								// its integer arguments are the sources
								for _, a := range x.Call.Args {
									if bt, isB := a.Type().Underlying().(*types.Basic); isB && bt.Info()&types.IsInteger != 0 {
										walk(a)
									}
								}
								return
							}
							if ok {
								fromInv = true
							} else {
								other = true
							}
						default:
							other = true
						}
					}
					walk(call.Call.Args[0])
					fromInv = fromInv && !other
					if !fromInv && !lenGuarded(ctor, b, call.Call.Args[2]) {
						p.Status, p.Got = core.Violated, "the width passed at "+c.P.Pos(call.Pos())+" does not come from the number of saved longs and that number is not checked: saved data whose length does not fit the chosen width panics in "+callee.Name()
					}
				}
			}
			obs = append(obs, p)
		}
		if fromCfg {
			o.Got += "; the constructor takes the width from the configuration"
			obs = append(obs, o)
			continue
		}
		ev := &skelEval{c: c, sizes: sizes}
		longs, err := ev.run(size, []*big.Int{bi(w), bi(k.n)})
		if err != nil || longs == nil {
			o.Status, o.Got = core.Violated, fmt.Sprintf("%s(%d, %d) cannot be evaluated: %v", size.Name(), w, k.n, err)
			obs = append(obs, o)
			continue
		}
		ev2 := &skelEval{c: c, sizes: sizes}
		got, err := ev2.run(inv, []*big.Int{bi(k.n), longs})
		switch {
		case err != nil || got == nil:
			o.Status, o.Got = core.Violated, fmt.Sprintf("%s(%d, %s) cannot be evaluated: %v", inv.Name(), k.n, longs, err)
		case got.Int64() != w:
			o.Status, o.Got = core.Violated, fmt.Sprintf("%s; the %s longs that hold %d ids of %d bits are read back as %s-bit values: every position of a section that uses direct ids comes back wrong", o.Got, longs, k.n, w, got)
		default:
			o.Got += fmt.Sprintf("; %s longs -> %s bits", longs, got)
		}
		obs = append(obs, o)
	}
	return obs
}

// ---------------------------------------------------------------------------
// R-ORDER[bitstorage-read:exact-length]: BitStorage.ReadFrom gives the packed
// array exactly the announced length on every path before it reads the longs
// into it (a make or a re-slice stored into the field). A buffer that is only
// ever grown keeps stale longs behind a shorter wire form, and Fix then judges
// the length of the old contents.

func (c *Ctx) BitStorageReadLength() []core.Ob {
	o := core.Ob{Rule: "R-ORDER", Key: "bitstorage-read:exact-length", Armed: true, Status: core.OK,
		Want: "on every path from the entry of BitStorage.ReadFrom to its element loop the packed array field is assigned (make or re-slice to the announced length)"}
	fn := c.Fn("level.(*BitStorage).ReadFrom")
	lay := c.bitStorageLayout()
	if fn == nil || lay.data == "" {
		o.Status, o.Got = core.Violated, "level.(*BitStorage).ReadFrom or the packed array field not found"
		return []core.Ob{o}
	}
	o.Pos, o.Func = c.P.Pos(fn.Pos()), core.FnName(fn)
	v := c.inlineView(fn, 1)
	var stores []int
	for _, n := range v.nodes {
		if st, ok := n.in.(*ssa.Store); ok && v.recvField(n, st.Addr) == lay.data {
			// the stored value is sized by something decoded here: make(_, n) or x[:n]
			switch x := st.Val.(type) {
			case *ssa.MakeSlice:
				stores = append(stores, n.id)
			case *ssa.Slice:
				if x.High != nil {
					stores = append(stores, n.id)
				}
			case *ssa.Call:
				stores = append(stores, n.id)
			}
		}
	}
	// the element reads: stream reads inside a loop (of ReadFrom itself or of a helper it was moved to),
	// or one bulk binary.Read
	found := false
	loopBlocks := map[*ssa.Function]map[*ssa.BasicBlock]bool{}
	inLoop := func(f *ssa.Function, b *ssa.BasicBlock) bool {
		if loopBlocks[f] == nil {
			loopBlocks[f] = map[*ssa.BasicBlock]bool{}
			for _, lp := range naturalLoops(f) {
				for x := range lp.body {
					loopBlocks[f][x] = true
				}
			}
		}
		return loopBlocks[f][b]
	}
	for _, n := range v.nodes {
		ci, ok := n.in.(ssa.CallInstruction)
		if !ok {
			continue
		}
		nm := calleeName(ci.Common())
		isRead := strings.HasSuffix(nm, ".ReadFrom") || nm == "io.ReadFull"
		if nm == "encoding/binary.Read" {
			// a bulk read into the packed array
			isRead = true
		} else if !inLoop(n.frame.fn, n.in.Block()) {
			isRead = false
		}
		if !isRead {
			continue
		}
		// (reads nested inside an inlined reader of one element are covered by the outer one)
		if n.frame.depth > 1 {
			continue
		}
		found = true
		if len(stores) == 0 || v.reachAvoidingErrAware(v.entry, n.id, stores) {
			o.Status, o.Got = core.Violated, "the element read at "+c.P.Pos(n.in.Pos())+" is reachable without the packed array having been given the announced length: longs of an earlier, longer decode stay behind the new ones"
		}
	}
	if !found {
		o.Status, o.Got = core.Violated, "no element read found in BitStorage.ReadFrom"
	}
	return []core.Ob{o}
}

// ---------------------------------------------------------------------------
// T-REGIDX[slot-offsets]: the header writer puts the location word at byte
// 4*(32*major+minor) and the timestamp at 4096 + 4*(32*major+minor). The
// offsets it passes to its positioned writes are obtained by evaluating its
// integer skeleton (Appendix D) for a few coordinates.

func (c *Ctx) RegionSlotOffsets() []core.Ob {
	o := core.Ob{Rule: "T-REGIDX", Key: "setHead:slot-offsets", Armed: true, Status: core.OK,
		Want: "for chunk (x, z) the header writer writes at 4*(32*z+x) (location) and at 4096+4*(32*z+x) (timestamp)"}
	sh := c.regionHeaderWriter()
	if sh == nil {
		o.Status, o.Got = core.Violated, "header writer not found"
		return []core.Ob{o}
	}
	o.Pos, o.Func = c.P.Pos(sh.Pos()), core.FnName(sh)
	// which parameter is multiplied by 32
	major, minor := -1, -1
	for _, b := range sh.Blocks {
		for _, in := range b.Instrs {
			if bo, ok := in.(*ssa.BinOp); ok && bo.Op == token.MUL {
				for _, pr := range [][2]ssa.Value{{bo.X, bo.Y}, {bo.Y, bo.X}} {
					if k, ok := constIntVal(pr[1]); ok && k == 32 {
						for i, p := range sh.Params {
							if stripConv(pr[0]) == ssa.Value(p) {
								major = i
							}
						}
					}
				}
			}
		}
	}
	for i := 1; i < len(sh.Params); i++ {
		if i != major {
			if b, ok := sh.Params[i].Type().Underlying().(*types.Basic); ok && b.Kind() == types.Int {
				minor = i
				break
			}
		}
	}
	if major < 1 || minor < 1 {
		o.Status, o.Got = core.Violated, "coordinates of the header writer not identified"
		return []core.Ob{o}
	}
	sizes := c.TLG().sizesOf(sh)
	for _, pr := range [][2]int64{{0, 0}, {1, 0}, {0, 1}, {5, 7}, {31, 31}} {
		ev := &skelEval{c: c, sizes: sizes, deep: true}
		got := map[string]bool{}
		ev.onInstr = func(in ssa.Instruction, get func(ssa.Value) *big.Int) {
			ci, ok := in.(ssa.CallInstruction)
			if !ok {
				return
			}
			nm := calleeName(ci.Common())
			// the positioned write itself: WriterAt.WriteAt / Seek of the standard library
			if !(strings.HasSuffix(nm, ".WriteAt") || strings.HasSuffix(nm, ".Seek")) || !ci.Common().IsInvoke() {
				// ... or the module's own positioned-write helper, when its body cannot be followed
				if g := ci.Common().StaticCallee(); g == nil || !c.P.InModule(g) || !positionedWriter(g) {
					return
				}
			}
			for _, a := range ci.Common().Args {
				if bt, ok := a.Type().Underlying().(*types.Basic); ok && bt.Kind() == types.Int64 {
					if v := get(a); v != nil {
						got[v.String()] = true
					} else {
						got["?"] = true
					}
				}
			}
		}
		// follow the path on which every write succeeds
		ev.preset = map[ssa.Value]*big.Int{}
		for _, b := range sh.Blocks {
			for _, in := range b.Instrs {
				if cmp, ok := in.(*ssa.BinOp); ok && (isNilConst(cmp.X) || isNilConst(cmp.Y)) {
					if cmp.Op == token.NEQ {
						ev.preset[cmp] = bi(0)
					} else if cmp.Op == token.EQL {
						ev.preset[cmp] = bi(1)
					}
				}
			}
		}
		args := make([]*big.Int, len(sh.Params))
		args[major], args[minor] = bi(pr[0]), bi(pr[1])
		_, _ = ev.run(sh, args)
		w1 := 4 * (32*pr[0] + pr[1])
		want := map[string]bool{fmt.Sprint(w1): true, fmt.Sprint(4096 + w1): true}
		// (a Seek with whence 0 also passes the constant 0 as an int: only int64 arguments were collected)
		ok := len(got) == len(want)
		for k := range want {
			ok = ok && got[k]
		}
		if !ok {
			var gs []string
			for k := range got {
				gs = append(gs, k)
			}
			sort.Strings(gs)
			o.Status = core.Violated
			o.Got = fmt.Sprintf("for (major, minor) = (%d, %d) the positioned writes go to offsets {%s}, want {%d, %d}", pr[0], pr[1], strings.Join(gs, ", "), w1, 4096+w1)
			break
		}
	}
	obs := []core.Ob{o}
	// Any other method of the region that computes a header position from two coordinates (a
	// timestamp-only writer, say): called from an exported method with that method's (x, z), every
	// write it places inside the 8 KiB header goes to one of the chunk's own two slots.
	for _, m := range methodsOfType(c, "save/region.Region") {
		if m == sh || len(m.Params) < 3 || (m.Object() != nil && m.Object().Exported()) {
			continue
		}
		mul := false
		for _, b := range m.Blocks {
			for _, in := range b.Instrs {
				if bo, ok := in.(*ssa.BinOp); ok && (bo.Op == token.MUL || bo.Op == token.SHL) {
					for _, pr := range [][2]ssa.Value{{bo.X, bo.Y}, {bo.Y, bo.X}} {
						k, isK := constIntVal(pr[1])
						if _, isP := stripConv(pr[0]).(*ssa.Parameter); isP && isK && (k == 32 && bo.Op == token.MUL || k == 5 && bo.Op == token.SHL && pr[0] == bo.X) {
							mul = true
						}
					}
				}
			}
		}
		if !mul {
			continue
		}
		// the roles of its parameters, from a call site in an exported method (x, z int, ...)
		px, pz := -1, -1
		for _, caller := range methodsOfType(c, "save/region.Region") {
			if caller.Object() == nil || !caller.Object().Exported() || len(caller.Params) < 3 {
				continue
			}
			for _, ci := range callsIn(caller, func(_ string, cc *ssa.CallCommon) bool {
				g := cc.StaticCallee()
				return g != nil && core.Origin(g) == m
			}) {
				for i, a := range ci.Common().Args {
					switch stripConv(a) {
					case ssa.Value(caller.Params[1]):
						px = i
					case ssa.Value(caller.Params[2]):
						pz = i
					}
				}
			}
		}
		if px < 1 || pz < 1 {
			continue
		}
		p := core.Ob{Rule: "T-REGIDX", Key: m.Name() + ":slot-offsets", Pos: c.P.Pos(m.Pos()), Func: core.FnName(m), Armed: true, Status: core.OK,
			Want: "called for chunk (x, z), " + m.Name() + " writes inside the header only at 4*(32*z+x) or 4096+4*(32*z+x)"}
		msizes := c.TLG().sizesOf(m)
		for _, pr := range [][2]int64{{0, 0}, {1, 0}, {0, 1}, {5, 7}, {31, 30}} {
			ev := &skelEval{c: c, sizes: msizes, deep: true}
			var got []int64
			ev.onInstr = func(in ssa.Instruction, get func(ssa.Value) *big.Int) {
				ci, ok := in.(ssa.CallInstruction)
				if !ok {
					return
				}
				nm := calleeName(ci.Common())
				if !(strings.HasSuffix(nm, ".WriteAt") || strings.HasSuffix(nm, ".Seek")) || !ci.Common().IsInvoke() {
					if g := ci.Common().StaticCallee(); g == nil || !c.P.InModule(g) || !positionedWriter(g) {
						return
					}
				}
				for _, a := range ci.Common().Args {
					if bt, ok := a.Type().Underlying().(*types.Basic); ok && bt.Kind() == types.Int64 {
						if v := get(a); v != nil && v.IsInt64() {
							got = append(got, v.Int64())
						}
					}
				}
			}
			ev.preset = map[ssa.Value]*big.Int{}
			for _, b := range m.Blocks {
				for _, in := range b.Instrs {
					if cmp, ok := in.(*ssa.BinOp); ok && (isNilConst(cmp.X) || isNilConst(cmp.Y)) {
						if cmp.Op == token.NEQ {
							ev.preset[cmp] = bi(0)
						} else if cmp.Op == token.EQL {
							ev.preset[cmp] = bi(1)
						}
					}
				}
			}
			args := make([]*big.Int, len(m.Params))
			args[px], args[pz] = bi(pr[0]), bi(pr[1])
			_, _ = ev.run(m, args)
			w1 := 4 * (32*pr[1] + pr[0])
			for _, g := range got {
				if g >= 0 && g < 8192 && g != w1 && g != 4096+w1 {
					p.Status = core.Violated
					p.Got = fmt.Sprintf("for chunk (x, z) = (%d, %d) it writes at header offset %d; the chunk's own slots are %d and %d", pr[0], pr[1], g, w1, 4096+w1)
				}
			}
			if p.Status == core.Violated {
				break
			}
		}
		obs = append(obs, p)
	}
	return obs
}

// ---------------------------------------------------------------------------
// R-ORDER[table-loop-covers]: a counting loop that indexes one of the region's
// fixed-size tables with its counter runs over the whole dimension (its bound is
// the array length): a scan that stops one short leaves the last row or column
// out of the occupancy map.

func (c *Ctx) TableLoopsCover(pkg string) []core.Ob {
	var obs []core.Ob
	for _, fn := range c.Funcs() {
		if !inPkgs(fn, pkg) {
			continue
		}
		k := 0
		for _, lp := range naturalLoops(fn) {
			iff, ok := lp.header.Instrs[len(lp.header.Instrs)-1].(*ssa.If)
			if !ok {
				continue
			}
			cmp, ok := iff.Cond.(*ssa.BinOp)
			if !ok || cmp.Op != token.LSS {
				continue
			}
			bound, isK := constIntVal(cmp.Y)
			phi, isPhi := stripConv(cmp.X).(*ssa.Phi)
			if !isK || !isPhi || !isCounterPhi(phi) {
				continue
			}
			// arrays indexed by the counter inside the loop
			for b := range lp.body {
				for _, in := range b.Instrs {
					ia, ok := in.(*ssa.IndexAddr)
					if !ok || stripConv(ia.Index) != ssa.Value(phi) {
						continue
					}
					at, ok := deref(ia.X.Type()).Underlying().(*types.Array)
					if !ok {
						continue
					}
					k++
					o := core.Ob{Rule: "R-ORDER", Key: fmt.Sprintf("table-loop-covers:%s#%d", core.FnName(fn), k), Pos: c.P.Pos(ia.Pos()), Func: core.FnName(fn), Armed: true, Status: core.OK,
						Want: fmt.Sprintf("the loop that indexes this [%d]-element table with its counter counts up to %d", at.Len(), at.Len())}
					if bound != at.Len() {
						o.Status, o.Got = core.Violated, fmt.Sprintf("the loop stops at %d: entries %d..%d are never visited", bound, bound, at.Len()-1)
					}
					obs = append(obs, o)
				}
			}
		}
	}
	return obs
}

// ---------------------------------------------------------------------------
// R-TRUNC[signed-narrowing]: unpacking a field of a packed word by converting
// to a narrower SIGNED type (int8(x), int16(x)) sign-extends when the result is
// widened again: a byte-sized count of 128..255 comes out negative. Such a
// conversion is accepted only where the interval analysis bounds the operand
// inside the narrow type.

func (c *Ctx) SignedNarrowing(pkgs ...string) []core.Ob {
	var obs []core.Ob
	t := c.TLG()
	n := 0
	for _, fn := range c.Funcs() {
		if !inPkgs(fn, pkgs...) {
			continue
		}
		var sites []*ssa.Convert
		for _, b := range fn.Blocks {
			for _, in := range b.Instrs {
				cv, ok := in.(*ssa.Convert)
				if !ok {
					continue
				}
				db, sg := typeBits(cv.Type())
				sb, _ := typeBits(cv.X.Type())
				dt, ok1 := cv.Type().Underlying().(*types.Basic)
				st, ok2 := cv.X.Type().Underlying().(*types.Basic)
				if !ok1 || !ok2 || dt.Info()&types.IsInteger == 0 || st.Info()&types.IsInteger == 0 {
					continue
				}
				if !sg || db >= sb || db > 16 {
					continue
				}
				if _, isK := cv.X.(*ssa.Const); isK {
					continue
				}
				sites = append(sites, cv)
			}
		}
		if len(sites) == 0 {
			continue
		}
		k := 0
		done := map[*ssa.Convert]int{}
		t.Probe(fn, func(in ssa.Instruction, eval func(ssa.Value) AV, _ func(string) (AV, bool)) {
			cv, ok := in.(*ssa.Convert)
			if !ok {
				return
			}
			isSite := false
			for _, s := range sites {
				isSite = isSite || s == cv
			}
			if !isSite {
				return
			}
			db, _ := typeBits(cv.Type())
			lim := int64(1)<<uint(db-1) - 1
			all := eval(cv.X).all()
			fits := all != nil && all.Lo != nil && all.Hi != nil && all.Lo.Cmp(bi(-lim-1)) >= 0 && all.Hi.Cmp(bi(lim)) <= 0
			o := core.Ob{Rule: "R-TRUNC", Pos: c.P.Pos(cv.Pos()), Func: core.FnName(fn), Armed: true, Status: core.OK,
				Want: fmt.Sprintf("a conversion to the narrower signed %s is applied only to a value known to fit it (no sign flip of a field taken from a packed word)", cv.Type())}
			if !fits {
				o.Status, o.Got = core.Violated, "operand only known to be "+eval(cv.X).String()+": values with the top bit of the narrow type set turn negative"
			}
			if idx, seen := done[cv]; seen {
				o.Key = obs[idx].Key
				obs[idx] = o
				return
			}
			k++
			n++
			o.Key = fmt.Sprintf("%s#signed-narrowing%d", core.FnName(fn), k)
			done[cv] = len(obs)
			obs = append(obs, o)
		})
	}
	obs = append(obs, core.Ob{Rule: "R-TRUNC", Key: "scope:signed-narrowing", Armed: true, Status: core.OK, Want: "conversions to int8/int16 from wider integers were looked at", Got: fmt.Sprintf("%d in %s", n, strings.Join(pkgs, ","))})
	return obs
}

// ---------------------------------------------------------------------------
// R-INITORDER: a package-level variable's initialiser does not read a
// package-level map or slice of the same package that is only filled in an
// init() function: variable initialisers run before every init(), so the read
// sees the empty container (all lookups give the zero value).

func (c *Ctx) InitOrder(pkgs ...string) []core.Ob {
	var obs []core.Ob
	nInit := 0
	for _, pk := range c.P.Pkgs {
		rel := core.Rel(pk.PkgPath)
		in := false
		for _, p := range pkgs {
			in = in || rel == p
		}
		if !in {
			continue
		}
		sp := c.P.SSA.Package(pk.Types)
		if sp == nil {
			continue
		}
		initFn := sp.Func("init")
		if initFn == nil || len(initFn.Blocks) == 0 {
			continue
		}
		nInit++
		// globals written by the variable initialisers themselves (the synthetic init, before the init#k calls)
		// and globals filled only inside init#k functions
		filledInInit := map[*ssa.Global]bool{}
		for name, m := range sp.Members {
			f, ok := m.(*ssa.Function)
			if !ok || !strings.HasPrefix(name, "init#") {
				continue
			}
			for _, g := range c.withPkgCallees(f, 2) {
				for _, b := range g.Blocks {
					for _, in := range b.Instrs {
						switch x := in.(type) {
						case *ssa.Store:
							if gl, ok := x.Addr.(*ssa.Global); ok {
								filledInInit[gl] = true
							}
						case *ssa.MapUpdate:
							if ld, ok := x.Map.(*ssa.UnOp); ok {
								if gl, ok := ld.X.(*ssa.Global); ok {
									filledInInit[gl] = true
								}
							}
						}
					}
				}
			}
		}
		initialised := map[*ssa.Global]bool{}
		k := 0
		for _, b := range initFn.Blocks {
			for _, in := range b.Instrs {
				switch x := in.(type) {
				case *ssa.Store:
					if gl, ok := x.Addr.(*ssa.Global); ok {
						initialised[gl] = true
					}
				case *ssa.Lookup:
					ld, ok := x.X.(*ssa.UnOp)
					if !ok {
						continue
					}
					gl, ok := ld.X.(*ssa.Global)
					if !ok || gl.Pkg != sp {
						continue
					}
					k++
					o := core.Ob{Rule: "R-INITORDER", Key: fmt.Sprintf("%s#lookup%d:%s", rel, k, gl.Name()), Pos: c.P.Pos(x.Pos()), Armed: true, Status: core.OK,
						Want: "a variable initialiser reads " + gl.Name() + " only if its own initialiser has filled it (init() functions run later)"}
					if !initialised[gl] && filledInInit[gl] {
						o.Status, o.Got = core.Violated, gl.Name()+" is filled in an init() function, which runs after every variable initialiser: this lookup sees an empty map and yields the zero value"
					}
					obs = append(obs, o)
				}
			}
		}
	}
	obs = append(obs, core.Ob{Rule: "R-INITORDER", Key: "scope", Armed: true, Status: core.OK, Want: "package initialisers were looked at", Got: fmt.Sprintf("%d packages with initialisers", nInit)})
	return obs
}

// ---------------------------------------------------------------------------
// T-PALCFG[resize-width]: the container the palette resize builds records, as
// its bits-per-entry (the byte WriteTo sends), the very width it asked its
// configuration to create the new palette for.

func (c *Ctx) ResizeWidth() []core.Ob {
	o := core.Ob{Rule: "T-PALCFG", Key: "resize:recorded-width-is-created-width", Armed: true, Status: core.OK,
		Want: "in the resize, the width stored in the new container is the same value the new palette was created for (config.create(w))"}
	set := c.Fn("level.(*PaletteContainer).Set")
	if set == nil {
		o.Status, o.Got = core.Violated, "level.(*PaletteContainer).Set not found"
		return []core.Ob{o}
	}
	n := 0
	for _, fn := range c.withPkgCallees(set, 1) {
		for _, b := range fn.Blocks {
			for _, in := range b.Instrs {
				st, ok := in.(*ssa.Store)
				if !ok {
					continue
				}
				fa, ok := st.Addr.(*ssa.FieldAddr)
				if !ok {
					continue
				}
				al, ok := fa.X.(*ssa.Alloc)
				if !ok {
					continue
				}
				stt, ok := deref(al.Type()).Underlying().(*types.Struct)
				if !ok || !types.Identical(st.Val.Type(), types.Typ[types.Int]) {
					continue
				}
				// the created palette stored into the same literal
				var created ssa.Value
				if al.Referrers() != nil {
					for _, r := range *al.Referrers() {
						fa2, ok := r.(*ssa.FieldAddr)
						if !ok || fa2.Referrers() == nil {
							continue
						}
						for _, u := range *fa2.Referrers() {
							st2, ok := u.(*ssa.Store)
							if !ok {
								continue
							}
							if cl, ok := st2.Val.(*ssa.Call); ok && cl.Common().IsInvoke() && len(cl.Common().Args) == 1 && types.Identical(cl.Common().Args[0].Type(), types.Typ[types.Int]) {
								if _, isIface := cl.Type().Underlying().(*types.Interface); isIface {
									created = cl.Common().Args[0]
								}
							}
						}
					}
				}
				if created == nil {
					continue
				}
				n++
				o.Pos, o.Func = c.P.Pos(st.Pos()), core.FnName(fn)
				if st.Val != created {
					o.Status, o.Got = core.Violated, fmt.Sprintf("field %s is given %s, the palette is created for %s", stt.Field(fa.Field).Name(), st.Val.Name(), created.Name())
				}
			}
		}
	}
	if n == 0 {
		o.Status, o.Got = core.Violated, "no container literal with a created palette and a recorded width found in the resize"
	}
	return []core.Ob{o}
}

// ---------------------------------------------------------------------------
// R-GUARD[string-index-var]: s[e] with a computed index on a string is proven
// in bounds by the interval analysis (0 <= e < len(s) from the comparisons on
// the path). Hand-written scanners over peer-supplied text index one past the
// end when the end test is off by one.

func (c *Ctx) StringVarIndexGuards(include func(*ssa.Function) bool) []core.Ob {
	var obs []core.Ob
	t := c.TLG()
	for _, fn := range c.Funcs() {
		if !include(fn) {
			continue
		}
		var sites []*ssa.Index
		for _, b := range fn.Blocks {
			for _, in := range b.Instrs {
				ix, ok := in.(*ssa.Index)
				if !ok {
					continue
				}
				if bt, ok := ix.X.Type().Underlying().(*types.Basic); !ok || bt.Info()&types.IsString == 0 {
					continue
				}
				if _, isK := constIntVal(ix.Index); isK {
					continue
				}
				sites = append(sites, ix)
			}
		}
		if len(sites) == 0 {
			continue
		}
		idxOf := map[*ssa.Index]int{}
		k := 0
		t.Probe(fn, func(in ssa.Instruction, _ func(ssa.Value) AV, _ func(string) (AV, bool)) {
			ix, ok := in.(*ssa.Index)
			if !ok {
				return
			}
			isSite := false
			for _, s := range sites {
				isSite = isSite || s == ix
			}
			if !isSite {
				return
			}
			o := core.Ob{Rule: "R-GUARD", Pos: c.P.Pos(ix.Pos()), Func: core.FnName(fn), Armed: true, Status: core.OK,
				Want: "the computed index into the string is proven to lie in [0, len) on every path"}
			if ok, why := t.ProbeIndexInBounds(ix.Index, ix.X); !ok {
				o.Status, o.Got = core.Violated, why
			}
			if i, seen := idxOf[ix]; seen {
				o.Key = obs[i].Key
				obs[i] = o
				return
			}
			k++
			o.Key = fmt.Sprintf("%s#string-index-var%d", core.FnName(fn), k)
			idxOf[ix] = len(obs)
			obs = append(obs, o)
		})
	}
	return obs
}

// ---------------------------------------------------------------------------
// T-TAGS[converted-structs]: struct types that the package converts into one
// another (T2(v): identical fields, tags ignored by the conversion) name every
// field by the same key in each codec (`json:"k,..."`, `nbt:"k,..."`). The
// conversion exists to switch options (omitempty), not keys: a key spelled
// differently in one variant is written under a name no reader looks for.

func (c *Ctx) ConvertedStructTags(pkgs ...string) []core.Ob {
	var obs []core.Ob
	type pair struct{ a, b *types.Named }
	seen := map[[2]string]bool{}
	var pairs []pair
	for _, fn := range c.Funcs() {
		if !inPkgs(fn, pkgs...) {
			continue
		}
		for _, b := range fn.Blocks {
			for _, in := range b.Instrs {
				ct, ok := in.(*ssa.ChangeType)
				if !ok {
					continue
				}
				from, ok1 := types.Unalias(deref(ct.X.Type())).(*types.Named)
				to, ok2 := types.Unalias(deref(ct.Type())).(*types.Named)
				if !ok1 || !ok2 || from == to {
					continue
				}
				_, s1 := from.Underlying().(*types.Struct)
				_, s2 := to.Underlying().(*types.Struct)
				if !s1 || !s2 {
					continue
				}
				k := [2]string{from.String(), to.String()}
				if k[0] > k[1] {
					k[0], k[1] = k[1], k[0]
				}
				if seen[k] {
					continue
				}
				seen[k] = true
				pairs = append(pairs, pair{from, to})
			}
		}
	}
	sort.Slice(pairs, func(i, j int) bool {
		return pairs[i].a.String()+pairs[i].b.String() < pairs[j].a.String()+pairs[j].b.String()
	})
	keyOf := func(tag, codec string) string {
		v, ok := reflectTagLookup(tag, codec)
		if !ok {
			return "\x00absent"
		}
		name, _, _ := strings.Cut(v, ",")
		return name
	}
	for _, p := range pairs {
		sa, sb := p.a.Underlying().(*types.Struct), p.b.Underlying().(*types.Struct)
		o := core.Ob{Rule: "T-TAGS", Key: fmt.Sprintf("%s<->%s", p.a.Obj().Name(), p.b.Obj().Name()), Pos: c.P.Pos(p.b.Obj().Pos()), Armed: true, Status: core.OK,
			Want: "both struct types give every field the same json and nbt key"}
		var bad []string
		for i := 0; i < sa.NumFields() && i < sb.NumFields(); i++ {
			for _, codec := range []string{"json", "nbt"} {
				ka, kb := keyOf(sa.Tag(i), codec), keyOf(sb.Tag(i), codec)
				if ka != kb {
					bad = append(bad, fmt.Sprintf("field %s: %s key %q vs %q", sa.Field(i).Name(), codec, strings.TrimPrefix(ka, "\x00"), strings.TrimPrefix(kb, "\x00")))
				}
			}
		}
		if len(bad) > 0 {
			o.Status, o.Got = core.Violated, strings.Join(bad, "; ")
		}
		obs = append(obs, o)
	}
	return obs
}

// reflectTagLookup: reflect.StructTag.Lookup without importing reflect's parser quirks.
func reflectTagLookup(tag, key string) (string, bool) {
	for tag != "" {
		i := 0
		for i < len(tag) && tag[i] == ' ' {
			i++
		}
		tag = tag[i:]
		if tag == "" {
			break
		}
		i = 0
		for i < len(tag) && tag[i] > ' ' && tag[i] != ':' && tag[i] != '"' && tag[i] != 0x7f {
			i++
		}
		if i == 0 || i+1 >= len(tag) || tag[i] != ':' || tag[i+1] != '"' {
			break
		}
		name := tag[:i]
		tag = tag[i+1:]
		i = 1
		for i < len(tag) && tag[i] != '"' {
			if tag[i] == '\\' {
				i++
			}
			i++
		}
		if i >= len(tag) {
			break
		}
		qvalue := tag[:i+1]
		tag = tag[i+1:]
		if key == name {
			if len(qvalue) >= 2 {
				return qvalue[1 : len(qvalue)-1], true
			}
			return "", true
		}
	}
	return "", false
}

// ---------------------------------------------------------------------------
// T-SIGNED[array-targets]: the elements of NBT byte/int/long arrays are signed.
// A clause that handles one of the array tags and decodes into a local slice
// whose elements it then reads as numbers declares that slice with a signed
// element type of the tag's width (int8 / int32 / int64); with an unsigned
// element type -1 becomes 255.

func (c *Ctx) SignedArrayTargets(pkgs ...string) []core.Ob {
	var obs []core.Ob
	want := map[int64]types.BasicKind{7: types.Int8, 11: types.Int32, 12: types.Int64}
	for _, ts := range c.tagSwitches(pkgs...) {
		info := ts.pkg.TypesInfo
		for tag, kind := range want {
			cc := ts.cases[tag]
			if cc == nil {
				continue
			}
			k := 0
			// a generic decode helper instantiated for the element type: appendInts[int8](..)
			ast.Inspect(cc, func(n ast.Node) bool {
				call, ok := n.(*ast.CallExpr)
				if !ok {
					return true
				}
				ix, ok := ast.Unparen(call.Fun).(*ast.IndexExpr)
				if !ok {
					return true
				}
				tv, ok := info.Types[ix.Index]
				if !ok || !tv.IsType() {
					return true
				}
				eb, ok := tv.Type.Underlying().(*types.Basic)
				if !ok || eb.Info()&types.IsInteger == 0 {
					return true
				}
				k++
				o := core.Ob{Rule: "T-SIGNED", Key: fmt.Sprintf("%s#switch%d:%s:instance%d", ts.fn, ts.ordinal, ts.names[tag], k), Pos: c.P.Pos(call.Pos()), Func: ts.fn, Armed: true, Status: core.OK,
					Want: fmt.Sprintf("the element type the %s payload is decoded with is signed (%s)", ts.names[tag], types.Typ[kind])}
				if eb.Info()&types.IsUnsigned != 0 {
					o.Status, o.Got = core.Violated, "element type "+tv.Type.String()+" is unsigned: negative elements come out as large positive numbers"
				}
				obs = append(obs, o)
				return true
			})
			ast.Inspect(cc, func(n ast.Node) bool {
				id, ok := n.(*ast.Ident)
				if !ok {
					return true
				}
				v, ok := info.Defs[id].(*types.Var)
				if !ok || v.IsField() {
					return true
				}
				sl, ok := v.Type().Underlying().(*types.Slice)
				if !ok {
					return true
				}
				eb, ok := sl.Elem().Underlying().(*types.Basic)
				if !ok || eb.Info()&types.IsInteger == 0 {
					return true
				}
				// is it a decode target (its address is taken in the clause)?
				target := false
				ast.Inspect(cc, func(m ast.Node) bool {
					if u, ok := m.(*ast.UnaryExpr); ok && u.Op == token.AND {
						if uid, ok := ast.Unparen(u.X).(*ast.Ident); ok && info.Uses[uid] == types.Object(v) {
							target = true
						}
					}
					return true
				})
				if !target {
					return true
				}
				k++
				o := core.Ob{Rule: "T-SIGNED", Key: fmt.Sprintf("%s#switch%d:%s:%s", ts.fn, ts.ordinal, ts.names[tag], v.Name()), Pos: c.P.Pos(id.Pos()), Func: ts.fn, Armed: true, Status: core.OK,
					Want: fmt.Sprintf("the slice the %s payload is decoded into has signed elements (%s)", ts.names[tag], types.Typ[kind])}
				if eb.Info()&types.IsUnsigned != 0 {
					o.Status, o.Got = core.Violated, "element type "+sl.Elem().String()+" is unsigned: negative elements come out as large positive numbers"
				}
				obs = append(obs, o)
				return true
			})
		}
	}
	return obs
}

// ---------------------------------------------------------------------------
// R-ORIGIN[trust-anchor-immutable]: a package-level key that a signature
// verification uses as its public-key operand is assigned only while the
// package initialises. A decoder that stores the key it has just parsed into
// that variable replaces the trust anchor with peer-supplied material.

func (c *Ctx) TrustAnchorImmutable(pkgs ...string) []core.Ob {
	var obs []core.Ob
	anchors := map[*ssa.Global]token.Pos{}
	for _, fn := range c.Funcs() {
		if !inPkgs(fn, pkgs...) {
			continue
		}
		for _, ci := range callsIn(fn, func(n string, _ *ssa.CallCommon) bool {
			return n == "crypto/rsa.VerifyPKCS1v15" || n == "crypto/rsa.VerifyPSS" || n == "crypto/ecdsa.Verify" || n == "crypto/ecdsa.VerifyASN1" || n == "crypto/ed25519.Verify"
		}) {
			if len(ci.Common().Args) == 0 {
				continue
			}
			if ld, ok := ci.Common().Args[0].(*ssa.UnOp); ok && ld.Op == token.MUL {
				if g, ok := ld.X.(*ssa.Global); ok {
					anchors[g] = ci.Pos()
				}
			}
		}
	}
	var gs []*ssa.Global
	for g := range anchors {
		gs = append(gs, g)
	}
	sort.Slice(gs, func(i, j int) bool { return gs[i].String() < gs[j].String() })
	for _, g := range gs {
		o := core.Ob{Rule: "R-ORIGIN", Key: "trust-anchor-immutable:" + g.String(), Pos: c.P.Pos(anchors[g]), Armed: true, Status: core.OK,
			Want: "the package-level verification key " + g.Name() + " is assigned only during package initialisation"}
		for _, fn := range c.P.SrcFuncs() {
			top := fn
			for top.Parent() != nil {
				top = top.Parent()
			}
			if top.Name() == "init" || strings.HasPrefix(top.Name(), "init#") {
				continue
			}
			for _, b := range fn.Blocks {
				for _, in := range b.Instrs {
					if st, ok := in.(*ssa.Store); ok && st.Addr == ssa.Value(g) {
						o.Status = core.Violated
						o.Got = "assigned in " + core.FnName(fn) + " at " + c.P.Pos(st.Pos()) + ": whoever gets that code to run chooses the key signatures are checked against"
					}
				}
			}
		}
		obs = append(obs, o)
	}
	if len(gs) == 0 {
		obs = append(obs, core.Ob{Rule: "R-ORIGIN", Key: "trust-anchor-immutable:none", Armed: true, Status: core.Violated, Want: "a signature verification with a package-level key operand exists", Got: "none found in " + strings.Join(pkgs, ",")})
	}
	return obs
}

// ---------------------------------------------------------------------------
// R-TRUNC[copy-into-fixed]: copy(dst, src) where dst is (a slice of) a local
// fixed-size array and src is a string or slice parameter of the function (or
// derived from one by conversion / concatenation) silently drops what does
// not fit. It is accepted only behind a comparison of len(src) on the path.

func (c *Ctx) FixedBufferCopies(pkgs ...string) []core.Ob {
	var obs []core.Ob
	n := 0
	for _, fn := range c.Funcs() {
		if !inPkgs(fn, pkgs...) {
			continue
		}
		k := 0
		for _, b := range fn.Blocks {
			for _, in := range b.Instrs {
				call, ok := in.(*ssa.Call)
				if !ok {
					continue
				}
				bi, ok := call.Common().Value.(*ssa.Builtin)
				if !ok || bi.Name() != "copy" || len(call.Common().Args) != 2 {
					continue
				}
				n++
				dst, src := call.Common().Args[0], call.Common().Args[1]
				// dst: slice of a local array
				sl, ok := dst.(*ssa.Slice)
				if !ok {
					continue
				}
				al, ok := sl.X.(*ssa.Alloc)
				if !ok {
					continue
				}
				if _, isArr := deref(al.Type()).Underlying().(*types.Array); !isArr {
					continue
				}
				// src: derived from a parameter of variable length
				var param *ssa.Parameter
				var walk func(v ssa.Value, d int)
				walk = func(v ssa.Value, d int) {
					if d > 4 || param != nil {
						return
					}
					switch x := v.(type) {
					case *ssa.Parameter:
						switch x.Type().Underlying().(type) {
						case *types.Slice:
							param = x
						case *types.Basic:
							if x.Type().Underlying().(*types.Basic).Info()&types.IsString != 0 {
								param = x
							}
						}
					case *ssa.Convert:
						walk(x.X, d+1)
					case *ssa.ChangeType:
						walk(x.X, d+1)
					case *ssa.BinOp:
						walk(x.X, d+1)
						walk(x.Y, d+1)
					case *ssa.Slice:
						walk(x.X, d+1)
					}
				}
				walk(src, 0)
				if param == nil {
					continue
				}
				k++
				o := core.Ob{Rule: "R-TRUNC", Key: fmt.Sprintf("%s#copy-into-fixed%d", core.FnName(fn), k), Pos: c.P.Pos(call.Pos()), Func: core.FnName(fn), Armed: true, Status: core.OK,
					Want: "a copy of " + param.Name() + " into a fixed-size local array happens only after its length was compared with something"}
				guarded := false
				if param.Referrers() != nil {
					for _, r := range *param.Referrers() {
						lc, ok := r.(*ssa.Call)
						if !ok || lc.Referrers() == nil {
							continue
						}
						if lb, isB := lc.Common().Value.(*ssa.Builtin); !isB || lb.Name() != "len" {
							continue
						}
						// room in the destination: the array length less the constant offset of the slice
						room := int64(-1)
						if arr, isArr := deref(al.Type()).Underlying().(*types.Array); isArr {
							room = arr.Len()
							if sl.Low != nil {
								if lo, ok := constIntVal(sl.Low); ok {
									room -= lo
								} else {
									room = -1
								}
							}
						}
						for _, u := range *lc.Referrers() {
							if cmp, ok := u.(*ssa.BinOp); ok && cmp.Block() != b && cmp.Block().Dominates(b) {
								switch cmp.Op {
								case token.LSS, token.LEQ, token.GTR, token.GEQ:
									// a bound that is a constant has to be one the destination has room for
									// (a check against the 16-bit prefix limit says nothing about a 256-byte buffer)
									other := cmp.Y
									if other == ssa.Value(lc) {
										other = cmp.X
									}
									if kv, isK := constIntVal(other); isK && room >= 0 && kv > room+1 {
										continue
									}
									guarded = true
								}
							}
						}
					}
				}
				if !guarded {
					o.Status, o.Got = core.Violated, "no comparison of len("+param.Name()+") dominates the copy: input longer than the array is cut off without an error"
				}
				obs = append(obs, o)
			}
		}
	}
	obs = append(obs, core.Ob{Rule: "R-TRUNC", Key: "scope:copy", Armed: true, Status: core.OK, Want: "copy calls were looked at", Got: fmt.Sprintf("%d copy calls in %s", n, strings.Join(pkgs, ","))})
	return obs
}

// ---------------------------------------------------------------------------
// R-LENPREFIX: a field writer that sends a VarInt length followed by a raw
// write of bytes sends, as that length, the BYTE length of what it writes: the
// prefix is len(x) of the same string / slice (through string<->[]byte
// conversions) as the payload. A character count, a capacity or the length of
// something else makes the reader cut the payload short or run past it.

func payloadOrigin(v ssa.Value, d int) ssa.Value {
	for ; d < 6; d++ {
		switch x := v.(type) {
		case *ssa.Convert:
			v = x.X
			continue
		case *ssa.ChangeType:
			v = x.X
			continue
		case *ssa.MakeInterface:
			v = x.X
			continue
		}
		break
	}
	return v
}

func (c *Ctx) LengthPrefixes(pkgs ...string) []core.Ob {
	var obs []core.Ob
	for _, fn := range c.Funcs() {
		// (field writers and the helpers they share: any function of the package with the prefix-then-payload shape)
		if !inPkgs(fn, pkgs...) {
			continue
		}
		// raw payload writes: w.Write(p) / io.WriteString(w, s) with p, s not a local array
		var payloads []ssa.Value
		var prefixes []ssa.Value
		var prefixPos token.Pos
		for _, b := range fn.Blocks {
			for _, in := range b.Instrs {
				call, ok := in.(*ssa.Call)
				if !ok {
					continue
				}
				nm := calleeName(call.Common())
				switch {
				case call.Common().IsInvoke() && call.Common().Method.Name() == "Write" && len(call.Common().Args) == 1:
					p := payloadOrigin(call.Common().Args[0], 0)
					if sl, ok := p.(*ssa.Slice); ok {
						if _, isAl := sl.X.(*ssa.Alloc); isAl {
							continue // a scratch array (fixed-width field)
						}
					}
					payloads = append(payloads, p)
				case nm == "io.WriteString" && len(call.Common().Args) == 2:
					payloads = append(payloads, payloadOrigin(call.Common().Args[1], 0))
				case strings.HasSuffix(nm, "net/packet.(VarInt).WriteTo") && len(call.Common().Args) >= 1:
					prefixes = append(prefixes, call.Common().Args[0])
					prefixPos = call.Pos()
				}
			}
		}
		if len(prefixes) != 1 || len(payloads) != 1 {
			continue
		}
		// the payload is the value being encoded (the receiver or a parameter), not an assembled buffer
		if _, isParam := payloads[0].(*ssa.Parameter); !isParam {
			continue
		}
		o := core.Ob{Rule: "R-LENPREFIX", Key: core.FnName(fn), Pos: c.P.Pos(prefixPos), Func: core.FnName(fn), Armed: true, Status: core.OK,
			Want: "the VarInt written before the raw payload is len() of that payload (its byte length)"}
		pv := payloadOrigin(prefixes[0], 0)
		lc, isCall := pv.(*ssa.Call)
		isLen := false
		if isCall {
			if bi, ok := lc.Common().Value.(*ssa.Builtin); ok && bi.Name() == "len" {
				isLen = true
			}
		}
		switch {
		case !isLen:
			o.Status, o.Got = core.Violated, "the length sent is not len() of anything (a count in other units than bytes?)"
		case payloadOrigin(lc.Common().Args[0], 0) != payloads[0]:
			o.Status, o.Got = core.Violated, "the length sent is the length of a different value than the one written"
		}
		obs = append(obs, o)
	}
	return obs
}

// ---------------------------------------------------------------------------
// R-ORDER[drain-before-close]: a blocking Pull on a closable queue hands out
// what is queued before it honours the closed flag: every way out of its wait
// loop that depends on the flag lies behind the "queue is empty" edge. Testing
// the flag first drops every element that was queued before Close.

func (c *Ctx) DrainBeforeClose(pkg string) []core.Ob {
	var obs []core.Ob
	for _, fn := range c.Funcs() {
		if !inPkgs(fn, pkg) || fn.Signature.Recv() == nil || len(fn.Params) == 0 {
			continue
		}
		recv := fn.Params[0]
		// a method that waits on a condition variable in a loop
		for _, lp := range naturalLoops(fn) {
			waits := false
			for b := range lp.body {
				for _, in := range b.Instrs {
					if ci, ok := in.(ssa.CallInstruction); ok && strings.HasSuffix(calleeName(ci.Common()), "sync.(Cond).Wait") {
						waits = true
					}
				}
			}
			if !waits {
				continue
			}
			o := core.Ob{Rule: "R-ORDER", Key: "drain-before-close:" + core.FnName(fn), Pos: c.P.Pos(fn.Pos()), Func: core.FnName(fn), Armed: true, Status: core.OK,
				Want: "the wait loop is left because of the closed flag only where the queue was found empty"}
			// the emptiness test: a branch on `x != nil` / `x == nil` of a call result (Front()), or on Len()
			var emptyEdges []*ssa.BasicBlock
			for b := range lp.body {
				iff, ok := b.Instrs[len(b.Instrs)-1].(*ssa.If)
				if !ok {
					continue
				}
				// `v, ok := p.pop(); if ok ...`: the comma-ok result of a call; not-ok is "empty"
				{
					cond, neg := iff.Cond, false
					if u, isNot := cond.(*ssa.UnOp); isNot && u.Op == token.NOT {
						cond, neg = u.X, true
					}
					if ex, isEx := cond.(*ssa.Extract); isEx {
						if _, fromCall := ex.Tuple.(*ssa.Call); fromCall {
							if bt, isB := ex.Type().Underlying().(*types.Basic); isB && bt.Kind() == types.Bool {
								if neg {
									emptyEdges = append(emptyEdges, b.Succs[0])
								} else {
									emptyEdges = append(emptyEdges, b.Succs[1])
								}
							}
						}
					}
				}
				cmp, ok := iff.Cond.(*ssa.BinOp)
				if !ok {
					continue
				}
				if _, isCall := cmp.X.(*ssa.Call); !isCall {
					// `e := q.Front(); for e == nil && !closed { Wait(); e = q.Front() }`: the tested value is
					// the call result of whichever way the test was reached
					phi, isPhi := cmp.X.(*ssa.Phi)
					if !isPhi || len(phi.Edges) == 0 {
						continue
					}
					allCalls := true
					for _, e := range phi.Edges {
						if _, isCall := e.(*ssa.Call); !isCall {
							allCalls = false
						}
					}
					if !allCalls {
						continue
					}
				}
				switch {
				case cmp.Op == token.NEQ && isNilConst(cmp.Y):
					emptyEdges = append(emptyEdges, b.Succs[1])
				case cmp.Op == token.EQL && isNilConst(cmp.Y):
					emptyEdges = append(emptyEdges, b.Succs[0])
				case cmp.Op == token.EQL && isZeroConst(cmp.Y), cmp.Op == token.LEQ && isZeroConst(cmp.Y):
					emptyEdges = append(emptyEdges, b.Succs[0])
				case cmp.Op == token.GTR && isZeroConst(cmp.Y), cmp.Op == token.NEQ && isZeroConst(cmp.Y):
					emptyEdges = append(emptyEdges, b.Succs[1])
				}
			}
			n := 0
			for b := range lp.body {
				iff, ok := b.Instrs[len(b.Instrs)-1].(*ssa.If)
				if !ok {
					continue
				}
				// a branch on a boolean field of the receiver that leaves the loop
				cond := iff.Cond
				if u, ok := cond.(*ssa.UnOp); ok && u.Op == token.NOT {
					cond = u.X
				}
				ld, ok := cond.(*ssa.UnOp)
				if !ok || ld.Op != token.MUL || rootFieldOfAddr(ld.X, recv) == "" {
					continue
				}
				leaves := false
				for _, s := range b.Succs {
					if !lp.body[s] {
						leaves = true
					}
				}
				if !leaves {
					continue
				}
				n++
				behind := false
				for _, e := range emptyEdges {
					if (e == b || e.Dominates(b)) && len(e.Preds) == 1 {
						behind = true
					}
				}
				if !behind {
					o.Status, o.Got = core.Violated, "the loop is left on the flag "+rootFieldOfAddr(ld.X, recv)+" without the queue having been found empty: elements queued before Close are never handed out"
				}
			}
			if n == 0 {
				continue
			}
			obs = append(obs, o)
		}
	}
	return obs
}

func isZeroConst(v ssa.Value) bool {
	k, ok := constIntVal(v)
	return ok && k == 0
}

// ---------------------------------------------------------------------------
// R-NOMUT[cached-values]: a value kept in a process-wide sync.Map cache is
// shared by every goroutine that looks it up: after it has been stored, nothing
// writes through it. For each struct type whose values are put into a
// package-level sync.Map, a map update or element store through a field of a
// value of that type is allowed only in the function that builds the value
// (the one that returns a fresh value of the type without loading it from the
// cache).

func (c *Ctx) CachedValuesImmutable(pkgs ...string) []core.Ob {
	var obs []core.Ob
	// types stored into package-level sync.Maps
	cached := map[*types.Named]bool{}
	for _, fn := range c.Funcs() {
		if !inPkgs(fn, pkgs...) {
			continue
		}
		for _, ci := range callsIn(fn, func(n string, _ *ssa.CallCommon) bool {
			return n == "sync.(Map).Store" || n == "sync.(Map).LoadOrStore"
		}) {
			args := ci.Common().Args
			if len(args) < 3 {
				continue
			}
			if _, isG := args[0].(*ssa.Global); !isG {
				continue
			}
			if mi, ok := args[2].(*ssa.MakeInterface); ok {
				if n, ok := types.Unalias(deref(mi.X.Type())).(*types.Named); ok {
					if _, isSt := n.Underlying().(*types.Struct); isSt {
						cached[n] = true
					}
				}
			}
		}
	}
	var names []*types.Named
	for n := range cached {
		names = append(names, n)
	}
	sort.Slice(names, func(i, j int) bool { return names[i].String() < names[j].String() })
	for _, nt := range names {
		o := core.Ob{Rule: "R-NOMUT", Key: "cached-values:" + nt.Obj().Name(), Pos: c.P.Pos(nt.Obj().Pos()), Armed: true, Status: core.OK,
			Want: "values of " + nt.Obj().Name() + " (kept in a process-wide cache) are written only while they are built"}
		for _, fn := range c.Funcs() {
			if !inPkgs(fn, pkgs...) {
				continue
			}
			// the builder: returns the type and does not obtain it from a sync.Map
			builder := false
			if res := fn.Signature.Results(); res.Len() >= 1 {
				if rn, ok := types.Unalias(deref(res.At(0).Type())).(*types.Named); ok && rn == nt {
					builder = len(callsIn(fn, func(n string, _ *ssa.CallCommon) bool { return strings.HasPrefix(n, "sync.(Map).Load") })) == 0
				}
			}
			top := fn
			for top.Parent() != nil {
				top = top.Parent()
			}
			if builder || top != fn && func() bool {
				if res := top.Signature.Results(); res.Len() >= 1 {
					if rn, ok := types.Unalias(deref(res.At(0).Type())).(*types.Named); ok && rn == nt {
						return true
					}
				}
				return false
			}() {
				continue
			}
			throughCached := func(v ssa.Value) bool {
				// v: the map / slice operand; is it (a load of) a field of a value of the cached type?
				for d := 0; d < 6; d++ {
					switch x := v.(type) {
					case *ssa.UnOp:
						v = x.X
						continue
					case *ssa.IndexAddr:
						v = x.X
						continue
					case *ssa.FieldAddr:
						if n, ok := types.Unalias(deref(x.X.Type())).(*types.Named); ok && n == nt {
							return true
						}
						v = x.X
						continue
					case *ssa.Field:
						if n, ok := types.Unalias(x.X.Type()).(*types.Named); ok && n == nt {
							return true
						}
						v = x.X
						continue
					}
					break
				}
				return false
			}
			for _, b := range fn.Blocks {
				for _, in := range b.Instrs {
					switch x := in.(type) {
					case *ssa.MapUpdate:
						if throughCached(x.Map) {
							o.Status, o.Got = core.Violated, "map update through a cached "+nt.Obj().Name()+" in "+core.FnName(fn)+" at "+c.P.Pos(x.Pos())+": concurrent decoders of the same type race on it"
						}
					case *ssa.Store:
						if ia, ok := x.Addr.(*ssa.IndexAddr); ok && throughCached(ia.X) {
							// a store into an element reached through the cached value (not into a local copy)
							if _, isAl := ia.X.(*ssa.Alloc); !isAl {
								o.Status, o.Got = core.Violated, "element store through a cached "+nt.Obj().Name()+" in "+core.FnName(fn)+" at "+c.P.Pos(x.Pos())
							}
						}
					}
				}
			}
		}
		obs = append(obs, o)
	}
	return obs
}

// ---------------------------------------------------------------------------
// T-RCONFRAME[writer-limit]: if the RCON writer refuses over-long packets
// itself, the quantity it compares with the package-size limit is the declared
// length it is about to send (the reader compares exactly that): as a linear
// form a*len(payload)+b both must agree. A guard that counts the 4 bytes of
// the length field as well refuses payloads the reader would accept.

// linLen: v as a*len(x)+b for a string/slice parameter x of fn (ok=false if not of that shape).
func linLen(v ssa.Value, d int) (a, b int64, ok bool) {
	if d > 8 {
		return 0, 0, false
	}
	switch x := v.(type) {
	case *ssa.Const:
		if k, isK := constIntVal(x); isK {
			return 0, k, true
		}
	case *ssa.Convert:
		return linLen(x.X, d+1)
	case *ssa.ChangeType:
		return linLen(x.X, d+1)
	case *ssa.Call:
		if bi, isB := x.Common().Value.(*ssa.Builtin); isB && bi.Name() == "len" {
			return 1, 0, true
		}
	case *ssa.BinOp:
		a1, b1, ok1 := linLen(x.X, d+1)
		a2, b2, ok2 := linLen(x.Y, d+1)
		if !ok1 || !ok2 {
			return 0, 0, false
		}
		switch x.Op {
		case token.ADD:
			return a1 + a2, b1 + b2, true
		case token.SUB:
			return a1 - a2, b1 - b2, true
		}
	}
	return 0, 0, false
}

func (c *Ctx) RCONWriterLimit() []core.Ob {
	o := core.Ob{Rule: "T-RCONFRAME", Key: "writer:limit-is-on-the-declared-length", Armed: true, Status: core.OK,
		Want: "a size refusal in the writer compares the declared length (what the reader compares with the limit), not another count"}
	w := c.Fn("net.(*RCONConn).WritePacket")
	lim, okL := c.constValue("net", "MaxRCONPackageSize")
	if w == nil || !okL {
		o.Status, o.Got = core.Violated, "WritePacket or MaxRCONPackageSize not found"
		return []core.Ob{o}
	}
	o.Pos, o.Func = c.P.Pos(w.Pos()), core.FnName(w)
	limit, _ := new(big.Int).SetString(lim.String(), 10)
	// the declared length: the first 32-bit value of linear form a*len+b with a == 1 that is written
	var declA, declB int64
	haveDecl := false
	for _, f := range c.withPkgCallees(w, 2) {
		for _, b := range f.Blocks {
			for _, in := range b.Instrs {
				cv, ok := in.(*ssa.Convert)
				if !ok || haveDecl {
					continue
				}
				if bt, ok := cv.Type().Underlying().(*types.Basic); !ok || (bt.Kind() != types.Int32 && bt.Kind() != types.Uint32) {
					continue
				}
				if a, bb, ok := linLen(cv.X, 0); ok && a == 1 {
					declA, declB, haveDecl = a, bb, true
				}
			}
		}
	}
	n := 0
	for _, f := range c.withPkgCallees(w, 2) {
		for _, b := range f.Blocks {
			for _, in := range b.Instrs {
				cmp, ok := in.(*ssa.BinOp)
				if !ok {
					continue
				}
				switch cmp.Op {
				case token.GTR, token.GEQ, token.LSS, token.LEQ:
				default:
					continue
				}
				for _, pr := range [][2]ssa.Value{{cmp.X, cmp.Y}, {cmp.Y, cmp.X}} {
					k, isK := constIntVal(pr[1])
					if !isK || limit == nil || !limit.IsInt64() || k != limit.Int64() {
						continue
					}
					a, bb, ok := linLen(pr[0], 0)
					if !ok || a == 0 {
						continue
					}
					n++
					if !haveDecl {
						o.Status, o.Got = core.Violated, "the declared length written by the writer was not recognised"
					} else if a != declA || bb != declB {
						o.Status, o.Pos = core.Violated, c.P.Pos(cmp.Pos())
						o.Got = fmt.Sprintf("the writer compares %d*len%+d with the limit but declares %d*len%+d: payloads near the limit that the reader accepts are refused (or the reverse)", a, bb, declA, declB)
					}
				}
			}
		}
	}
	o.Got += fmt.Sprintf(" [%d writer-side limit test(s)]", n)
	return []core.Ob{o}
}

// reflectKindValue: the numeric values of reflect.Kind (fixed by the reflect package's API).
var reflectKindValue = map[string]int64{"Invalid": 0, "Bool": 1, "Int": 2, "Int8": 3, "Int16": 4, "Int32": 5, "Int64": 6, "Uint": 7, "Uint8": 8, "Uint16": 9, "Uint32": 10, "Uint64": 11, "Uintptr": 12,
	"Float32": 13, "Float64": 14, "Complex64": 15, "Complex128": 16, "Array": 17, "Chan": 18, "Func": 19, "Interface": 20, "Map": 21, "Pointer": 22, "Ptr": 22, "Slice": 23, "String": 24, "Struct": 25, "UnsafePointer": 26}

// fieldInFrame: the field of the ROOT's receiver that addr (a value of frame fr) denotes.
func (v *iview) fieldInFrame(fr *iframe, addr ssa.Value) string {
	if fr.parent == nil {
		if len(fr.fn.Params) > 0 {
			if f := rootFieldOfAddr(addr, fr.fn.Params[0]); f != "" {
				return f
			}
		}
		// a closure of the root: the receiver is a free variable
		return ""
	}
	if len(fr.fn.Params) == 0 || !fr.sameReceiver(v.root) {
		return v.freeVarField(fr, addr)
	}
	return rootFieldOfAddr(addr, fr.fn.Params[0])
}

// freeVarField: addr is a field of a captured receiver (closure of a method).
func (v *iview) freeVarField(fr *iframe, addr ssa.Value) string {
	for d := 0; d < 6; d++ {
		switch x := addr.(type) {
		case *ssa.FieldAddr:
			if st, ok := deref(x.X.Type()).Underlying().(*types.Struct); ok {
				base := x.X
				if ld, ok := base.(*ssa.UnOp); ok {
					base = ld.X
				}
				if _, isFV := base.(*ssa.FreeVar); isFV && len(v.root.Params) > 0 && types.Identical(deref(deref(base.Type())), deref(v.root.Params[0].Type())) {
					return st.Field(x.Field).Name()
				}
			}
			return ""
		case *ssa.UnOp:
			addr = x.X
		default:
			return ""
		}
	}
	return ""
}

// reachAvoidingErrAware is reachAvoiding with one correlation: when the path leaves an inlined callee
// through a return whose error operand is known to be non-nil (or is the nil constant), the caller's
// test of that call's error takes the matching side only.
func (v *iview) reachAvoidingErrAware(a, b int, avoid []int) bool {
	blocked := map[int]bool{}
	for _, x := range avoid {
		blocked[x] = true
	}
	if blocked[a] {
		return false
	}
	type state struct {
		node int
		call ssa.CallInstruction // pending: the call whose error is known ...
		nz   bool                // ... to be non-nil (true) / nil (false)
		phi  *ssa.Phi            // a boolean flag variable whose value on this path is known ...
		pv   bool                // ... to be this constant
	}
	seen := map[state]bool{}
	work := []state{{node: a}}
	for len(work) > 0 {
		s := work[len(work)-1]
		work = work[:len(work)-1]
		if seen[s] {
			continue
		}
		seen[s] = true
		if s.node == b {
			return true
		}
		nd := v.nodes[s.node]
		next := s
		// leaving a callee frame through a return with a decided error
		if ret, ok := nd.in.(*ssa.Return); ok && nd.frame.parent != nil && len(ret.Results) > 0 {
			last := ret.Results[len(ret.Results)-1]
			if types.Identical(last.Type(), errType) {
				if kc, isK := last.(*ssa.Const); isK && kc.IsNil() {
					next.call, next.nz = nd.frame.call, false
				} else if errKnownNonNil(last, ret.Block()) {
					next.call, next.nz = nd.frame.call, true
				} else {
					next.call = nil
				}
			} else if kc, isK := last.(*ssa.Const); isK && len(ret.Results) == 1 && kc.Value != nil && kc.Value.Kind() == constant.Bool {
				// a predicate helper returning a constant: the caller's branch on the call takes that side
				next.call, next.nz = nd.frame.call, constant.BoolVal(kc.Value)
			}
		}
		succs := nd.succs
		// a flag set on the way (ok := false; if cond { ok = ... }; if !ok { return }): the path that
		// carried the constant into the phi takes the matching side of a later test of the flag
		if iff, ok := nd.in.(*ssa.If); ok && s.phi != nil && len(nd.succs) == 2 {
			cond, neg := iff.Cond, false
			if u, ok := cond.(*ssa.UnOp); ok && u.Op == token.NOT {
				cond, neg = u.X, true
			}
			if cond == ssa.Value(s.phi) {
				if s.pv != neg {
					succs = nd.succs[:1]
				} else {
					succs = nd.succs[1:]
				}
			}
		}
		if iff, ok := nd.in.(*ssa.If); ok && s.call != nil && len(nd.succs) == 2 {
			// `if pred(..)` / `if !pred(..)`
			cond, neg := iff.Cond, false
			if u, ok := cond.(*ssa.UnOp); ok && u.Op == token.NOT {
				cond, neg = u.X, true
			}
			if ci, ok := cond.(ssa.CallInstruction); ok && ci == s.call && nd.frame == v.frameOfCall(s.call) {
				if s.nz != neg {
					succs = nd.succs[:1]
				} else {
					succs = nd.succs[1:]
				}
				next.call = nil
			}
		}
		if iff, ok := nd.in.(*ssa.If); ok && s.call != nil && next.call != nil && len(nd.succs) == 2 {
			if cmp, ok := iff.Cond.(*ssa.BinOp); ok && (cmp.Op == token.NEQ || cmp.Op == token.EQL) && (isNilConst(cmp.X) || isNilConst(cmp.Y)) {
				e := cmp.X
				if isNilConst(cmp.X) {
					e = cmp.Y
				}
				from := e
				if ex, ok := e.(*ssa.Extract); ok {
					from = ex.Tuple
				}
				if ci, ok := from.(ssa.CallInstruction); ok && ci == s.call && nd.frame == v.frameOfCall(s.call) {
					takeTrue := (cmp.Op == token.NEQ) == s.nz
					if takeTrue {
						succs = nd.succs[:1]
					} else {
						succs = nd.succs[1:]
					}
					next.call = nil
				}
			}
		}
		for _, x := range succs {
			if blocked[x] {
				continue
			}
			ns := state{node: x, call: next.call, nz: next.nz, phi: s.phi, pv: s.pv}
			// entering a block over one of its predecessor edges: boolean phis with a constant on that edge
			xn := v.nodes[x]
			if xb := xn.in.Block(); xb != nil && xn.frame == nd.frame && nd.in.Block() != xb && len(xb.Instrs) > 0 && xb.Instrs[0] == xn.in {
				for i, pb := range xb.Preds {
					if pb != nd.in.Block() {
						continue
					}
					for _, pin := range xb.Instrs {
						phi, isPhi := pin.(*ssa.Phi)
						if !isPhi {
							break
						}
						if kc, isK := phi.Edges[i].(*ssa.Const); isK && kc.Value != nil && kc.Value.Kind() == constant.Bool {
							ns.phi, ns.pv = phi, constant.BoolVal(kc.Value)
						} else if ns.phi == phi {
							ns.phi = nil
						}
					}
				}
			}
			work = append(work, ns)
		}
	}
	return false
}

// frameOfCall: the frame in which the call instruction that entered some inlined frame lives.
func (v *iview) frameOfCall(call ssa.CallInstruction) *iframe {
	for _, n := range v.nodes {
		if n.frame.call == call {
			return n.frame.parent
		}
	}
	return nil
}

// ---------------------------------------------------------------------------
// T-BITSETSIZE: the FixedBitSet constructor allocates exactly the bytes its
// accessors address for n bits. The accessors index byte i/d (d read from
// Get/Set); the constructor's make length L(n), obtained by evaluating its
// integer skeleton for n = 0..130, must be 0 for n = 0 and (n-1)/d+1 otherwise
// (the last addressable bit n-1 lies in the last byte, and no byte is added
// beyond it: an extra byte shifts every following field on the wire).

func (c *Ctx) FixedBitSetSize() []core.Ob {
	o := core.Ob{Rule: "T-BITSETSIZE", Key: "net/packet.NewFixedBitSet", Armed: true, Status: core.OK,
		Want: "NewFixedBitSet(n) allocates ceil(n/8) bytes: the bytes Get/Set address for bits 0..n-1, and not one more"}
	ctor := c.Fn("net/packet.NewFixedBitSet")
	get := c.Fn("net/packet.(FixedBitSet).Get")
	if ctor == nil || get == nil {
		o.Status, o.Got = core.Violated, "NewFixedBitSet or FixedBitSet.Get not found"
		return []core.Ob{o}
	}
	o.Pos, o.Func = c.P.Pos(ctor.Pos()), core.FnName(ctor)
	d := int64(0)
	for _, b := range get.Blocks {
		for _, in := range b.Instrs {
			if ia, ok := in.(*ssa.IndexAddr); ok {
				if q, ok := stripConv(ia.Index).(*ssa.BinOp); ok && q.Op == token.QUO {
					if k, ok := constIntVal(q.Y); ok && k > 0 {
						d = k
					}
				} else if q, ok := stripConv(ia.Index).(*ssa.BinOp); ok && q.Op == token.SHR {
					if k, ok := constIntVal(q.Y); ok && k > 0 && k < 8 {
						d = 1 << uint(k)
					}
				}
			}
		}
	}
	if d == 0 {
		o.Status, o.Got = core.Violated, "the byte index computation (index / d) of FixedBitSet.Get was not recognised"
		return []core.Ob{o}
	}
	sizes := c.TLG().sizesOf(ctor)
	for n := int64(0); n <= 130; n++ {
		ev := &skelEval{c: c, sizes: sizes}
		var got *big.Int
		ev.onInstr = func(in ssa.Instruction, get func(ssa.Value) *big.Int) {
			if ms, ok := in.(*ssa.MakeSlice); ok {
				got = get(ms.Len)
			}
		}
		_, _ = ev.run(ctor, []*big.Int{bi(n)})
		want := int64(0)
		if n > 0 {
			want = (n-1)/d + 1
		}
		if got == nil || !got.IsInt64() || got.Int64() != want {
			gs := "unknown"
			if got != nil {
				gs = got.String()
			}
			o.Status, o.Got = core.Violated, fmt.Sprintf("NewFixedBitSet(%d) allocates %s bytes, the accessors address %d (bit i lives in byte i/%d)", n, gs, want, d)
			break
		}
	}
	return []core.Ob{o}
}

// positionedWriter: a function of the module that hands one of its int64 parameters to
// WriterAt.WriteAt or Seek (the file-position helper of the region file).
func positionedWriter(g *ssa.Function) bool {
	for _, b := range g.Blocks {
		for _, in := range b.Instrs {
			ci, ok := in.(ssa.CallInstruction)
			if !ok || !ci.Common().IsInvoke() {
				continue
			}
			if m := ci.Common().Method.Name(); m != "WriteAt" && m != "Seek" {
				continue
			}
			for _, a := range ci.Common().Args {
				if p, ok := a.(*ssa.Parameter); ok {
					if bt, ok := p.Type().Underlying().(*types.Basic); ok && bt.Kind() == types.Int64 {
						return true
					}
				}
			}
		}
	}
	return false
}

// nonEmptyAt: a comparison of the string v with "" or of len(v) with something lies on a block that
// dominates at (or, for a switch that is lowered into a chain of tests, an earlier test of the chain).
func nonEmptyAt(v ssa.Value, at *ssa.BasicBlock) bool {
	if v.Referrers() == nil {
		return false
	}
	dom := func(b *ssa.BasicBlock) bool { return b != at && b.Dominates(at) }
	for _, r := range *v.Referrers() {
		switch x := r.(type) {
		case *ssa.BinOp:
			if x.Op != token.EQL && x.Op != token.NEQ {
				continue
			}
			other := x.Y
			if x.Y == v {
				other = x.X
			}
			if kc, ok := other.(*ssa.Const); ok && kc.Value != nil && kc.Value.Kind() == constant.String && constant.StringVal(kc.Value) == "" && dom(x.Block()) {
				return true
			}
		case *ssa.Call:
			if bi, isB := x.Common().Value.(*ssa.Builtin); isB && bi.Name() == "len" && x.Referrers() != nil {
				for _, u := range *x.Referrers() {
					if cmp, ok := u.(*ssa.BinOp); ok && dom(cmp.Block()) {
						switch cmp.Op {
						case token.LSS, token.LEQ, token.GTR, token.GEQ, token.EQL, token.NEQ:
							return true
						}
					}
				}
			}
		}
	}
	return false
}
