#!/bin/bash
# Runs every seeded change under /verif/seeded against the check of its property
# (scratch copies; /repo is never modified). Prints KILLED/SURVIVED lines.
cd /verif
jobs=${JOBS:-6}
ls -d seeded/*/ | sed 's#/$##' | xargs -P "$jobs" -I{} bash -c 'p=$(basename {} | cut -d- -f1); extra=$(cat {}/also.txt 2>/dev/null); out=$(tools/mutest.sh {}/patch.diff $p $extra 2>&1 | sed "s#patch.diff#$(basename {})#"); echo "$out"' | sort -k3
