package rules

import (
	"gmcheck/core"

	"golang.org/x/tools/go/ssa"
)

func init() {
	Props["XTLG"] = PropDef{Explanation: "debug: all R-TLG sinks", Run: func(c *Ctx) []core.Ob {
		all := func(*ssa.Function) bool { return true }
		return c.TLGObs(all, all, true)
	}}
}

func init() {
	Props["XPANIC"] = PropDef{Explanation: "debug: all reachable panics", Run: func(c *Ctx) []core.Ob {
		all := func(*ssa.Function) bool { return true }
		obs := c.Panics(c.Verif, c.DecoderRoots(), all, all)
		obs = append(obs, c.FuncFieldCalls(all, all)...)
		return obs
	}}
}

func init() {
	Props["XWIRE"] = PropDef{Explanation: "debug: all wire pairs", Run: func(c *Ctx) []core.Ob {
		return c.WireSym(func(string, string) bool { return true })
	}}
}

func init() {
	Props["XSCHEMA"] = PropDef{Explanation: "debug: schema", Run: func(c *Ctx) []core.Ob { return c.Schema() }}
}
