#!/usr/bin/env python3
"""Regenerates /verif/MANIFEST.json from tools/manifest_src.json (claimed checks) so
that the manifest is always schema-valid and not_applicable is always the complement."""
import json, sys
src = json.load(open('/verif/tools/manifest_src.json'))
props = [json.loads(l)['id'] for l in open('/verif/properties.jsonl')]
checks = []
for pid in props:
    c = src['checks'].get(pid)
    if not c:
        continue
    checks.append({
        "property_id": pid,
        "quick_cmd": f"/verif/bin/gmcheck -property {pid} -tier quick",
        "thorough_cmd": f"/verif/bin/gmcheck -property {pid} -tier thorough",
        "evidence_file": f"/verif/evidence/{pid}.json",
        "replay_cmd_template": "/verif/bin/gmcheck -replay {path}",
        "engine": "gmcheck",
        "level_claimed": {"category": "other", "text": c['text'], "design_ref": c.get('design_ref', 'DESIGN.md section 4 ' + pid)},
        "level_note": c['note'],
        "technique": c['technique'],
    })
na = [{"property_id": pid, "reason": src['not_applicable'].get(pid, "no static rule built for this property yet (see DESIGN.md section 8)")}
      for pid in props if pid not in src['checks']]
m = {
    "version": 1,
    "setup_cmd": "cd /verif/gmcheck && GOFLAGS=-mod=mod GOPROXY=off GOSUMDB=off GOTOOLCHAIN=local GOWORK=off go build -o /verif/bin/gmcheck ./cmd/gmcheck",
    "hooks": {
        "guard": "verif",
        "enable": "none needed: gmcheck is a static analyser that reads /repo's working tree; no instrumentation is compiled into go-mc",
        "baseline_off_cmd": "cd /repo && go build ./... && go test -vet=off -count=1 ./...",
        "source_commits": [],
        "add_only": True,
    },
    "engines": [{"name": "gmcheck", "path": "/verif/gmcheck", "serves_properties": [c['property_id'] for c in checks],
                 "kind_free_text": "repository-specific static analyser on go/packages + go/ssa + VTA call graph (x/tools v0.29.0): interval/taint dataflow, call-graph reachability, table extraction, typestate/lock rules"}],
    "checks": checks,
    "notes": src['notes'],
    "not_applicable": na,
}
json.dump(m, open('/verif/MANIFEST.json', 'w'), indent=1)
print(len(checks), "checks,", len(na), "not applicable")
