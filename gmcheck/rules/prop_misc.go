package rules

import (
	"strings"

	"gmcheck/core"

	"golang.org/x/tools/go/ssa"
)

func init() {
	Props["C05"] = PropDef{
		Explanation: "T-VARLEN decision-table extraction by evaluating the integer control skeleton at all breakpoints; T-BITFIELD disjoint ranges + group order of the 7-bit groups; loop-counter cap analysis; R-NOBUF; R-RAWREAD on everything the two decoders reach. Decided: Len() = bytes reported by WriteToBytes = LEB128 length for every value; the unrolled encoder places group j at byte j with disjoint fields; WriteTo emits vi[:n]; decoders read at most MaxVarIntLen/MaxVarLongLen bytes through a one-byte adapter with no read-ahead. The decoded value's arithmetic is not decided.",
		Run: func(c *Ctx) []core.Ob {
			obs := c.VarLen()
			obs = append(obs, filterObs(c.BitFields("net/packet"), func(o core.Ob) bool { return strings.Contains(o.Key, "VarInt") || strings.Contains(o.Key, "VarLong") })...)
			obs = append(obs, c.GroupOrder("net/packet")...)
			obs = append(obs, filterObs(c.NoReadAhead(), func(o core.Ob) bool { return strings.Contains(o.Key, "packet") || o.Key == "scope" })...)
			// the one-byte adapter the decoders read through: a direct Read in anything the two decoders
			// reach must look at its count (a (0, nil) read is not a zero byte)
			reach := c.Reach([]*ssa.Function{c.Fn("net/packet.(*VarInt).ReadFrom"), c.Fn("net/packet.(*VarLong).ReadFrom")}, pkgPred("net/packet"))
			names := map[string]bool{}
			for f := range reach {
				names[core.FnName(core.Origin(f))] = true
			}
			obs = append(obs, filterObs(c.RawRead(), func(o core.Ob) bool { return names[o.Func] })...)
			return obs
		},
	}
	Props["C14"] = PropDef{
		Explanation: "T-REGIDX index orientation and slot offsets; R-ORDER dominance / must-follow on an inlined view (refusal, header and occupancy mirroring, Load and table loops, free-space search); R-TLG; R-TRUNC signed narrowing; R-ERRFLOW; T-REGIDX slot offsets of every header-slot writer; T-REGIDX single-clock (file and memory time stamp from one clock reading); T-REGIDX stamp-mirrored. Decided: Index orientation agrees with the file layout and both header slots are written at their offsets; the over-limit refusal dominates all mutation and bounds the packed sector count; header and occupancy stay mirrored; Load and table loops cover every entry; location fields are not sign-extended. The time stamp on disk and the one in memory come from one clock reading. Disjointness over histories is not decided.",
		Run: func(c *Ctx) []core.Ob {
			obs := c.RegionIndex()
			obs = append(obs, c.RegionOrder()...)
			obs = append(obs, c.RegionFindSpace()...)
			obs = append(obs, c.RegionSlotOffsets()...)
			obs = append(obs, c.RegionSingleClock("save/region")...)
			obs = append(obs, c.TableLoopsCover("save/region")...)
			obs = append(obs, c.SignedNarrowing("save/region")...)
			in := pkgPred("save/region")
			obs = append(obs, c.TLGObs(in, in, false)...)
			obs = append(obs, c.ErrFlow(in, in)...)
			return obs
		},
	}
	Props["C15"] = PropDef{
		Explanation: "R-ORIGIN who-may-write + value-origin of the seek target; R-ORDER header / occupancy mirroring, Load, free-space search; Load gives up only on a failed read, not on what an entry says. Decided: No physical write of WriteSector is addressed by anything but this chunk's own slot and run; every change of the occupancy map is mirrored to the header. That the chosen run is free in every reachable state / crash prefix is not decided.",
		Run: func(c *Ctx) []core.Ob {
			obs := c.RegionOrigin()
			for _, o := range c.RegionOrder() {
				switch o.Key {
				case "region:setHead-own-coordinates", "region:header-mirrored", "region:load-visits-every-entry", "region:refusal-before-mutation", "region:occupancy-change-mirrored":
					obs = append(obs, o)
				}
			}
			obs = append(obs, c.RegionFindSpace()...)
			return obs
		},
	}
	Props["C16"] = PropDef{
		Explanation: "T-RCONFRAME / T-ENDIAN table agreement incl. writer-side limit; R-TLG bounds; R-POLARITY; R-ORIGIN request id; R-RAWREAD; R-NOBUF; R-ORIGIN rcon-verbatim; R-RAWREAD ReadAtLeast asks for exactly its buffer. Decided: Writer length constants = reader minimum / offsets / trailer, a writer-side limit is on the declared length, little-endian both sides, declared length proven in range, the body is read in full, login success only on the password-equal edge, responses under the current id.",
		Run: func(c *Ctx) []core.Ob {
			obs := c.RCONFrame()
			obs = append(obs, c.RCONPolarity()...)
			obs = append(obs, c.RCONReqID()...)
			obs = append(obs, c.RCONWriterLimit()...)
			obs = append(obs, c.RCONVerbatim()...)
			obs = append(obs, filterObs(c.RawRead(), func(o core.Ob) bool { return strings.HasPrefix(o.Key, "net.") })...)
			obs = append(obs, filterObs(c.NoReadAhead(), func(o core.Ob) bool { return o.Key != "scope" || true })...)
			in := c.reachFromTypes("net", []string{"RCONConn"}, "DialRCON")
			obs = append(obs, c.TLGObs(in, in, false)...)
			return obs
		},
	}
	Props["C18"] = PropDef{
		Explanation: "R-POLARITY; R-ORIGIN (embedded key, immutable trust anchor, NameToUUID inputs); R-ORDER writers closed inside-out, ripple carry; R-TRUNC copy-into-fixed; T-BITFIELD; R-ORDER negation carries through the bytes. Decided: A true verdict only when RSA verification succeeded against the embedded key, which nothing reassigns; the offline UUID hashes the whole name; the two's-complement carry is taken from the right side of the increment in both copies. Digest values are not decided.",
		Run: func(c *Ctx) []core.Ob {
			obs := c.SignaturePolarity()
			obs = append(obs, c.OfflineUUIDInputs()...)
			obs = append(obs, c.SignatureHashOrder()...)
			obs = append(obs, c.RippleCarry("bot", "server/auth")...)
			obs = append(obs, c.TrustAnchorImmutable("yggdrasil/user")...)
			obs = append(obs, c.FixedBufferCopies("offline", "yggdrasil/user", "bot", "server/auth")...)
			return obs
		},
	}
}
