#!/bin/bash
# usage: mutest.sh <patch.diff> <property> [<property>...]
# Applies the patch to a scratch copy of /repo (never to /repo), checks that the
# mutant still compiles, and runs the given property checks against the copy.
# Prints KILLED/SURVIVED per property. The copy is removed afterwards.
set -u
export GOFLAGS=-mod=mod GOPROXY=off GOSUMDB=off GOTOOLCHAIN=local GOWORK=off
patch=$(readlink -f "$1"); shift
scratch=$(mktemp -d "${TMPDIR:-/tmp}/gmcmut.XXXXXX")
[ -n "$scratch" ] && [ -d "$scratch" ] || { echo "NO-SCRATCH-DIR (disk full?)"; exit 9; }
case "$scratch" in /repo*|/verif*) echo "REFUSING scratch=$scratch"; exit 9;; esac
trap 'rm -rf "$scratch"' EXIT
mkdir -p "$scratch/repo" "$scratch/verif"
rsync -a --exclude .git /repo/ "$scratch/repo/"
cp -r /verif/rules /verif/known_findings.json "$scratch/verif/" 2>/dev/null
[ -d /verif/fixtures ] && cp -r /verif/fixtures "$scratch/verif/"
if ! (cd "$scratch/repo" && patch -p1 -s --batch < "$patch" >/dev/null 2>&1); then echo "PATCH-FAILED $patch"; exit 3; fi
# no separate go build: gmcheck type-checks the whole scratch module from source and fails
# the run ("load:") on any type error; building would fill the build cache with one copy of
# the module per scratch path.
rc=0
for p in "$@"; do
  out=$(${GMCHECK:-/verif/bin/gmcheck} -property "$p" -repo "$scratch/repo" -verif "$scratch/verif" -nofixtures 2>&1)
  if echo "$out" | grep -q "^gmcheck: load:"; then echo "MUTANT-DOES-NOT-COMPILE $p $(basename "$patch"): $(echo "$out" | grep "^gmcheck: load:" | head -1 | cut -c1-200)"; rc=4; continue; fi
  if ! echo "$out" | grep -q "^gmcheck $p tier="; then echo "CRASHED $p $(basename "$patch"): $(echo "$out" | grep -m1 -E '^(fatal error|panic|gmcheck:)' | cut -c1-200)"; rc=5; continue; fi
  if echo "$out" | grep -q "^VIOLATION property=$p"; then
    echo "KILLED $p $(basename "$patch"): $(echo "$out" | grep -B4 '^VIOLATION' | grep -E '^\S+:[0-9]+:[0-9]+ ' | head -3 | tr '\n' ';')"
  else
    echo "SURVIVED $p $(basename "$patch")"; rc=1
  fi
done
exit $rc
