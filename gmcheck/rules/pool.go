package rules

// R-POOL: typestate and non-escape of sync.Pool objects; no unsynchronised
// package-level mutable state in the shared codecs.

import (
	"fmt"
	"go/token"
	"go/types"
	"strings"

	"gmcheck/core"

	"golang.org/x/tools/go/ssa"
)

func poolOf(cc *ssa.CallCommon, method string) (*ssa.Global, bool) {
	if cc.IsInvoke() || calleeName(cc) != "sync.(Pool)."+method || len(cc.Args) == 0 {
		return nil, false
	}
	g, ok := cc.Args[0].(*ssa.Global)
	return g, ok
}

func stripIface(v ssa.Value) ssa.Value {
	for {
		switch x := v.(type) {
		case *ssa.MakeInterface:
			v = x.X
		case *ssa.TypeAssert:
			v = x.X
		case *ssa.ChangeType:
			v = x.X
		case *ssa.ChangeInterface:
			v = x.X
		default:
			return v
		}
	}
}

// poolGetter: fn only takes an object out of a pool and hands it to its caller
// (its first result is, on every return, the result of one pool.Get behind
// assertions and local variables); resets reports whether it Resets the object
// on the way; release is the index of a second result that is a closure putting
// the object back (buf, release := acquire(); defer release()), or -1. Calls of
// such a wrapper are the acquisitions the typestate is checked for, in the callers.
type poolWrapper struct {
	pool    *ssa.Global
	resets  bool
	release int
}

// objCells: local variables (Allocs) that only ever hold the given object - a
// variable captured by a closure, or a named result, lives in memory.
func objCells(fn *ssa.Function, direct func(ssa.Value) bool) map[*ssa.Alloc]bool {
	cells := map[*ssa.Alloc]bool{}
	isObj := func(v ssa.Value) bool {
		v = stripIface(v)
		if direct(v) {
			return true
		}
		if ld, ok := v.(*ssa.UnOp); ok && ld.Op == token.MUL {
			if al, ok := ld.X.(*ssa.Alloc); ok && cells[al] {
				return true
			}
		}
		return false
	}
	for changed := true; changed; {
		changed = false
		stores := map[*ssa.Alloc][]ssa.Value{}
		for _, b := range fn.Blocks {
			for _, in := range b.Instrs {
				if st, ok := in.(*ssa.Store); ok {
					if al, ok := st.Addr.(*ssa.Alloc); ok {
						stores[al] = append(stores[al], st.Val)
					}
				}
			}
		}
		for al, vs := range stores {
			if cells[al] {
				continue
			}
			all := len(vs) > 0
			for _, v := range vs {
				if !isObj(v) {
					// the zero value stored at declaration is not a different object
					if k, ok := v.(*ssa.Const); ok && k.IsNil() {
						continue
					}
					// x = x
					if ld, ok := stripIface(v).(*ssa.UnOp); ok && ld.Op == token.MUL && ld.X == ssa.Value(al) {
						continue
					}
					all = false
				}
			}
			if all {
				cells[al] = true
				changed = true
			}
		}
	}
	return cells
}

func (c *Ctx) poolGetter(fn *ssa.Function) (poolWrapper, bool) {
	if fn == nil || len(fn.Blocks) == 0 || !c.P.InModule(fn) {
		return poolWrapper{}, false
	}
	var get *ssa.Call
	var pool *ssa.Global
	for _, b := range fn.Blocks {
		for _, in := range b.Instrs {
			if x, ok := in.(*ssa.Call); ok {
				if p, ok := poolOf(x.Common(), "Get"); ok {
					if get != nil {
						return poolWrapper{}, false
					}
					get, pool = x, p
				}
			}
		}
	}
	if get == nil {
		return poolWrapper{}, false
	}
	cells := objCells(fn, func(v ssa.Value) bool { return v == ssa.Value(get) })
	isObj := func(v ssa.Value) bool {
		v = stripIface(v)
		if v == ssa.Value(get) {
			return true
		}
		if ld, ok := v.(*ssa.UnOp); ok && ld.Op == token.MUL {
			if al, ok := ld.X.(*ssa.Alloc); ok && cells[al] {
				return true
			}
		}
		return false
	}
	// a closure that puts the object back
	releaser := func(v ssa.Value) bool {
		if ld, ok := v.(*ssa.UnOp); ok && ld.Op == token.MUL {
			if al, ok := ld.X.(*ssa.Alloc); ok && al.Referrers() != nil {
				for _, r := range *al.Referrers() {
					if st, ok := r.(*ssa.Store); ok && st.Addr == ssa.Value(al) {
						v = st.Val
					}
				}
			}
		}
		mc, ok := v.(*ssa.MakeClosure)
		if !ok {
			return false
		}
		cf, ok := mc.Fn.(*ssa.Function)
		if !ok {
			return false
		}
		for _, b := range cf.Blocks {
			for _, in := range b.Instrs {
				ci, ok := in.(ssa.CallInstruction)
				if !ok {
					continue
				}
				if p, ok := poolOf(ci.Common(), "Put"); ok && p == pool && len(ci.Common().Args) > 1 {
					arg := stripIface(ci.Common().Args[1])
					if ld, ok := arg.(*ssa.UnOp); ok && ld.Op == token.MUL {
						if fv, ok := ld.X.(*ssa.FreeVar); ok {
							for i, f := range cf.FreeVars {
								if f == fv && i < len(mc.Bindings) {
									if al, ok := mc.Bindings[i].(*ssa.Alloc); ok && cells[al] {
										return true
									}
								}
							}
						}
					}
				}
			}
		}
		return false
	}
	resets := false
	for _, b := range fn.Blocks {
		for _, in := range b.Instrs {
			switch x := in.(type) {
			case *ssa.Call:
				if x == get {
					continue
				}
				cc := x.Common()
				if !cc.IsInvoke() && len(cc.Args) > 0 && cc.StaticCallee() != nil && cc.StaticCallee().Name() == "Reset" && isObj(cc.Args[0]) {
					resets = true
					continue
				}
				return poolWrapper{}, false // does something else: not a pure wrapper
			case *ssa.Store:
				if _, local := x.Addr.(*ssa.Alloc); !local {
					return poolWrapper{}, false
				}
			case *ssa.MapUpdate, *ssa.Send, *ssa.Go, *ssa.Defer:
				return poolWrapper{}, false
			}
		}
	}
	nret := 0
	w := poolWrapper{pool: pool, resets: resets, release: -1}
	for _, b := range fn.Blocks {
		if r, ok := b.Instrs[len(b.Instrs)-1].(*ssa.Return); ok {
			nret++
			if len(r.Results) == 0 || len(r.Results) > 2 || !isObj(r.Results[0]) {
				return poolWrapper{}, false
			}
			if len(r.Results) == 2 {
				if !releaser(r.Results[1]) {
					return poolWrapper{}, false
				}
				w.release = 1
			}
		}
	}
	if nret != 1 {
		w.resets = w.resets && len(fn.Blocks) == 1
	}
	return w, nret > 0
}

// poolPutter: fn puts its idx-th parameter back into a pool (a release wrapper).
func (c *Ctx) poolPutter(fn *ssa.Function, idx int) (*ssa.Global, bool) {
	if fn == nil || len(fn.Blocks) == 0 || !c.P.InModule(fn) || idx >= len(fn.Params) {
		return nil, false
	}
	for _, b := range fn.Blocks {
		for _, in := range b.Instrs {
			ci, ok := in.(ssa.CallInstruction)
			if !ok {
				continue
			}
			if p, ok := poolOf(ci.Common(), "Put"); ok && len(ci.Common().Args) > 1 && stripIface(ci.Common().Args[1]) == ssa.Value(fn.Params[idx]) {
				// on every path: the wrapper is straight-line or the Put is in the entry block / deferred
				if len(fn.Blocks) == 1 || b == fn.Blocks[0] {
					return p, true
				}
			}
		}
	}
	return nil, false
}

// Pools implements R-POOL over the given packages.
func (c *Ctx) Pools(pkgs ...string) []core.Ob {
	var obs []core.Ob
	nGets := 0
	for _, fn := range c.Funcs() {
		if !inPkgs(fn, pkgs...) {
			continue
		}
		if _, isWrapper := c.poolGetter(fn); isWrapper {
			// the acquisition is checked at the wrapper's call sites
			continue
		}
		k := 0
		for _, b := range fn.Blocks {
			for _, in := range b.Instrs {
				call, ok := in.(*ssa.Call)
				if !ok {
					continue
				}
				pool, ok := poolOf(call.Common(), "Get")
				resets := false
				var obj, release ssa.Value = call, nil
				if !ok {
					if w, isW := c.poolGetter(call.Common().StaticCallee()); isW {
						pool, resets, ok = w.pool, w.resets, true
						if call.Common().Signature().Results().Len() > 1 && call.Referrers() != nil {
							obj = nil
							for _, r := range *call.Referrers() {
								if ex, isEx := r.(*ssa.Extract); isEx {
									if ex.Index == 0 {
										obj = ex
									} else if ex.Index == w.release {
										release = ex
									}
								}
							}
							if obj == nil {
								continue // the object is dropped: nothing to track
							}
						}
					}
				}
				if !ok {
					continue
				}
				k++
				nGets++
				obs = append(obs, c.poolObject(fn, call, obj, release, pool, k, resets)...)
			}
		}
	}
	if nGets == 0 {
		obs = append(obs, core.Ob{Rule: "R-POOL", Key: "pool-gets", Status: core.Violated, Armed: true,
			Want: "the shared codec packages take scratch objects from sync.Pool (confirmed instances)", Got: "no sync.Pool.Get found in " + strings.Join(pkgs, ",")})
	}
	obs = append(obs, c.globalMutation(pkgs...)...)
	return obs
}

func (c *Ctx) poolObject(fn *ssa.Function, get *ssa.Call, objVal, release ssa.Value, pool *ssa.Global, ord int, resetByGetter bool) []core.Ob {
	base := fmt.Sprintf("%s#pool(%s)%d", core.FnName(fn), pool.Name(), ord)
	mk := func(kind, want string) core.Ob {
		return core.Ob{Rule: "R-POOL", Key: base + "." + kind, Pos: c.P.Pos(get.Pos()), Func: core.FnName(fn), Armed: true, Want: want, Status: core.OK}
	}
	// the pooled object: every value that is the Get result behind assertions, or a load of a
	// local variable that only ever holds it (a variable captured by a closure lives in memory)
	cells := objCells(fn, func(v ssa.Value) bool { return v == objVal })
	isObj := func(v ssa.Value) bool {
		v = stripIface(v)
		if v == objVal {
			return true
		}
		if ld, ok := v.(*ssa.UnOp); ok && ld.Op == token.MUL {
			if al, ok := ld.X.(*ssa.Alloc); ok && cells[al] {
				return true
			}
		}
		return false
	}
	// the release closure handed out together with the object (possibly kept in a local)
	isRelease := func(v ssa.Value) bool {
		if release == nil {
			return false
		}
		if v == release {
			return true
		}
		if ld, ok := v.(*ssa.UnOp); ok && ld.Op == token.MUL {
			if al, ok := ld.X.(*ssa.Alloc); ok && al.Referrers() != nil {
				for _, r := range *al.Referrers() {
					if st, ok := r.(*ssa.Store); ok && st.Addr == ssa.Value(al) && st.Val == release {
						return true
					}
				}
			}
		}
		return false
	}

	// ---- derived (aliasing) values
	derived := map[ssa.Value]bool{}
	allocHolds := map[*ssa.Alloc]bool{}
	for changed := true; changed; {
		changed = false
		mark := func(v ssa.Value) {
			// errors, numbers and booleans cannot alias the buffer
			if types.Identical(v.Type(), types.Universe.Lookup("error").Type()) {
				return
			}
			if _, basic := v.Type().Underlying().(*types.Basic); basic {
				return
			}
			if !derived[v] {
				derived[v] = true
				changed = true
			}
		}
		for _, b := range fn.Blocks {
			for _, in := range b.Instrs {
				switch x := in.(type) {
				case *ssa.Call:
					cc := x.Common()
					name := calleeName(cc)
					recvObj := !cc.IsInvoke() && len(cc.Args) > 0 && (isObj(cc.Args[0]) || derived[cc.Args[0]])
					switch {
					case recvObj && (name == "bytes.(Buffer).Bytes" || name == "bytes.(Buffer).Next" || name == "bytes.(Buffer).AvailableBuffer"):
						mark(x)
					default:
						// any call that receives the pooled object (or an alias) may hand an
						// alias back in a composite result (reader wrappers, pb.Packet(), ...)
						_ = name
						args := cc.Args
						if cc.IsInvoke() {
							args = append([]ssa.Value{cc.Value}, args...)
						}
						for _, a := range args {
							if derived[a] || isObj(a) {
								mark(x)
							}
						}
					}
				case *ssa.FieldAddr:
					if derived[x.X] || isObj(x.X) {
						mark(x)
					}
				case *ssa.IndexAddr:
					if derived[x.X] {
						mark(x)
					}
				case *ssa.Extract:
					if derived[x.Tuple] {
						mark(x)
					}
				case *ssa.Slice:
					if derived[x.X] {
						mark(x)
					}
				case *ssa.ChangeType:
					if derived[x.X] {
						mark(x)
					}
				case *ssa.MakeInterface:
					if derived[x.X] {
						mark(x)
					}
				case *ssa.ChangeInterface:
					if derived[x.X] {
						mark(x)
					}
				case *ssa.Phi:
					for _, e := range x.Edges {
						if derived[e] {
							mark(x)
						}
					}
				case *ssa.Store:
					if derived[x.Val] || isObj(x.Val) {
						if al, ok := x.Addr.(*ssa.Alloc); ok && !allocHolds[al] {
							allocHolds[al] = true
							changed = true
						}
					}
				case *ssa.UnOp:
					if x.Op == token.MUL {
						if al, ok := x.X.(*ssa.Alloc); ok && allocHolds[al] {
							mark(x)
						}
						if derived[x.X] {
							mark(x)
						}
					}
				}
			}
		}
	}
	esc := mk("non-escape", "nothing aliasing the pooled object (its Bytes(), readers over them) is stored outside the function or returned: the buffer goes back to the pool")
	for _, b := range fn.Blocks {
		for _, in := range b.Instrs {
			switch x := in.(type) {
			case *ssa.Store:
				if derived[x.Val] || isObj(x.Val) {
					if _, local := x.Addr.(*ssa.Alloc); !local {
						esc.Status = core.Violated
						esc.Got = "a value aliasing the pooled object is stored to a non-local location"
						esc.Pos = c.P.Pos(x.Pos())
					}
				}
			case *ssa.Return:
				for _, r := range x.Results {
					if derived[r] || isObj(r) {
						esc.Status = core.Violated
						esc.Got = "a value aliasing the pooled object is returned"
						esc.Pos = c.P.Pos(x.Pos())
					}
				}
			case *ssa.Send:
				if derived[x.X] || isObj(x.X) {
					esc.Status = core.Violated
					esc.Got = "a value aliasing the pooled object is sent on a channel"
					esc.Pos = c.P.Pos(x.Pos())
				}
			case *ssa.MapUpdate:
				if derived[x.Value] || isObj(x.Value) {
					esc.Status = core.Violated
					esc.Got = "a value aliasing the pooled object is stored in a map"
					esc.Pos = c.P.Pos(x.Pos())
				}
			}
		}
	}

	// ---- typestate: reset before first other use; Put on all exits
	type st struct {
		got   bool // Get executed (may)
		fresh bool // not yet Reset (may)
		put   bool // Put registered by defer or executed (must)
	}
	in := map[*ssa.BasicBlock]st{fn.Blocks[0]: {put: true}}
	seen := map[*ssa.BasicBlock]bool{fn.Blocks[0]: true}
	reset := mk("reset-before-use", "the pooled object is Reset before any other use (it still holds the previous user's bytes / writer)")
	put := mk("put-on-all-exits", "the pooled object is returned to the pool on every exit (defer Put or Put before each return)")
	work := []*ssa.BasicBlock{fn.Blocks[0]}
	for iter := 0; len(work) > 0 && iter < 10000; iter++ {
		b := work[0]
		work = work[1:]
		s := in[b]
		for _, insn := range b.Instrs {
			if insn == ssa.Instruction(get) {
				s.got, s.fresh, s.put = true, !resetByGetter, false
				continue
			}
			switch x := insn.(type) {
			case *ssa.Defer:
				if p, ok := poolOf(x.Common(), "Put"); ok && p == pool && len(x.Common().Args) > 1 && isObj(x.Common().Args[1]) {
					s.put = true
					continue
				}
				if isRelease(x.Common().Value) {
					s.put = true
					continue
				}
				if c.putsBack(x.Common(), pool, isObj) {
					s.put = true
					continue
				}
			case *ssa.Store:
				// keeping the object in a local variable of its own is not a use
				if al, ok := x.Addr.(*ssa.Alloc); ok && cells[al] {
					continue
				}
			case *ssa.Call:
				cc := x.Common()
				if p, ok := poolOf(cc, "Put"); ok && p == pool && len(cc.Args) > 1 && isObj(cc.Args[1]) {
					s.put = true
					continue
				}
				if isRelease(cc.Value) {
					s.put = true
					continue
				}
				if c.putsBack(cc, pool, isObj) {
					s.put = true
					continue
				}
				if !cc.IsInvoke() && len(cc.Args) > 0 && cc.StaticCallee() != nil && cc.StaticCallee().Name() == "Reset" {
					recv := cc.Args[0]
					if fa, ok := recv.(*ssa.FieldAddr); ok {
						recv = fa.X
					}
					if isObj(recv) {
						s.fresh = false
						continue
					}
				}
			case *ssa.Return, *ssa.Panic:
				if s.got && !s.put {
					put.Status = core.Violated
					put.Got = "an exit is reachable after Get without Put"
					put.Pos = c.P.Pos(insn.Pos())
				}
				continue
			case *ssa.TypeAssert, *ssa.DebugRef, *ssa.MakeInterface, *ssa.FieldAddr:
				continue
			}
			if s.got && s.fresh {
				for _, op := range insn.Operands(nil) {
					if *op != nil && isObj(*op) && *op != ssa.Value(get) && *op != objVal {
						reset.Status = core.Violated
						reset.Got = "the pooled object is used before Reset on some path: " + insn.String()
						reset.Pos = c.P.Pos(insn.Pos())
					}
				}
			}
		}
		for _, nx := range b.Succs {
			j := s
			if seen[nx] {
				o := in[nx]
				j = st{got: o.got || s.got, fresh: o.fresh || s.fresh, put: o.put && s.put}
				if j == o {
					continue
				}
			}
			seen[nx] = true
			in[nx] = j
			work = append(work, nx)
		}
	}
	return []core.Ob{esc, reset, put}
}

// putsBack: a call of a release wrapper with the pooled object.
func (c *Ctx) putsBack(cc *ssa.CallCommon, pool *ssa.Global, isObj func(ssa.Value) bool) bool {
	if cc.IsInvoke() {
		return false
	}
	sc := cc.StaticCallee()
	for i, a := range cc.Args {
		if isObj(a) {
			if p, ok := c.poolPutter(sc, i); ok && p == pool {
				return true
			}
		}
	}
	return false
}

// globalMutation: package-level variables of map/slice type in the shared
// codec packages are written only by package initialisation.
func (c *Ctx) globalMutation(pkgs ...string) []core.Ob {
	var obs []core.Ob
	for _, fn := range c.Funcs() {
		if !inPkgs(fn, pkgs...) {
			continue
		}
		top := fn
		for top.Parent() != nil {
			top = top.Parent()
		}
		if top.Name() == "init" || strings.HasPrefix(top.Name(), "init#") {
			continue
		}
		k := 0
		for _, b := range fn.Blocks {
			for _, in := range b.Instrs {
				var g *ssa.Global
				switch x := in.(type) {
				case *ssa.Store:
					g, _ = x.Addr.(*ssa.Global)
					if g == nil {
						if ia, ok := x.Addr.(*ssa.IndexAddr); ok {
							if ld, ok := ia.X.(*ssa.UnOp); ok && ld.Op == token.MUL {
								g, _ = ld.X.(*ssa.Global)
							}
						}
					}
				case *ssa.MapUpdate:
					if ld, ok := x.Map.(*ssa.UnOp); ok && ld.Op == token.MUL {
						g, _ = ld.X.(*ssa.Global)
					}
				}
				if g == nil || g.Pkg != fn.Pkg && fn.Pkg != nil {
					continue
				}
				switch deref(g.Type()).Underlying().(type) {
				case *types.Map, *types.Slice:
				default:
					continue
				}
				k++
				obs = append(obs, core.Ob{Rule: "R-POOL", Key: fmt.Sprintf("%s#global-write(%s)%d", core.FnName(fn), g.Name(), k), Pos: c.P.Pos(in.Pos()),
					Func: core.FnName(fn), Armed: true, Status: core.Violated,
					Want: "package-level maps/slices of the shared codecs are written only during package initialisation (shared mutable state is confined to sync.Map / sync.Pool)",
					Got:  "write to package-level " + g.Name() + " outside init"})
			}
		}
	}
	return obs
}
