package rules

import (
	"fmt"
	"go/constant"
	"go/token"
	"go/types"
	"math/big"
	"sort"
	"strings"

	"gmcheck/core"

	"golang.org/x/tools/go/ssa"
)

// renderExpr prints an SSA integer expression with the section count
// abstracted as N (int parameters and len(...) calls).
func renderExpr(v ssa.Value, depth int) string {
	if depth > 10 {
		return "?"
	}
	switch x := v.(type) {
	case *ssa.Const:
		if n, ok := constInt(x); ok {
			return n.String()
		}
		return "const"
	case *ssa.Convert:
		return renderExpr(x.X, depth+1)
	case *ssa.ChangeType:
		return renderExpr(x.X, depth+1)
	case *ssa.Parameter:
		return "N"
	case *ssa.BinOp:
		return "(" + renderExpr(x.X, depth+1) + x.Op.String() + renderExpr(x.Y, depth+1) + ")"
	case *ssa.Call:
		n := calleeName(x.Common())
		if n == "builtin.len" {
			return "N"
		}
		var as []string
		for _, a := range x.Common().Args {
			as = append(as, renderExpr(a, depth+1))
		}
		return n[strings.LastIndex(n, "/")+1:] + "(" + strings.Join(as, ",") + ")"
	case *ssa.Phi:
		return "phi"
	case *ssa.UnOp:
		// a load of a local that is written once (a variable captured by a closure lives in an Alloc)
		if x.Op == token.MUL {
			if sv := singleStore(x.X); sv != nil {
				return renderExpr(sv, depth+1)
			}
		}
	case *ssa.FreeVar:
		if b := freeVarBinding(x); b != nil {
			return renderExpr(b, depth+1)
		}
	}
	return "?"
}

// freeVarBinding: what the enclosing function binds to a closure's free variable.
func freeVarBinding(fv *ssa.FreeVar) ssa.Value {
	fn := fv.Parent()
	if fn == nil || fn.Parent() == nil {
		return nil
	}
	idx := -1
	for i, f := range fn.FreeVars {
		if f == fv {
			idx = i
		}
	}
	var out ssa.Value
	n := 0
	for _, b := range fn.Parent().Blocks {
		for _, in := range b.Instrs {
			if mc, ok := in.(*ssa.MakeClosure); ok && mc.Fn == ssa.Value(fn) && idx >= 0 && idx < len(mc.Bindings) {
				out = mc.Bindings[idx]
				n++
			}
		}
	}
	if n != 1 {
		return nil
	}
	return out
}

// singleStore: the one value stored into the local addr denotes (an Alloc, or a
// captured one seen through a free variable); nil if it is written more than once.
func singleStore(addr ssa.Value) ssa.Value {
	if fv, ok := addr.(*ssa.FreeVar); ok {
		addr = freeVarBinding(fv)
	}
	al, ok := addr.(*ssa.Alloc)
	if !ok || al.Referrers() == nil {
		return nil
	}
	var val ssa.Value
	for _, r := range *al.Referrers() {
		switch x := r.(type) {
		case *ssa.Store:
			if x.Addr == ssa.Value(al) {
				if val != nil {
					return nil
				}
				val = x.Val
			}
		case *ssa.MakeClosure:
			// closures that capture it may write it: look for stores through their free variables
			if cf, ok := x.Fn.(*ssa.Function); ok {
				for i, bnd := range x.Bindings {
					if bnd != ssa.Value(al) || i >= len(cf.FreeVars) || cf.FreeVars[i].Referrers() == nil {
						continue
					}
					for _, rr := range *cf.FreeVars[i].Referrers() {
						if st, ok := rr.(*ssa.Store); ok && st.Addr == ssa.Value(cf.FreeVars[i]) {
							return nil
						}
					}
				}
			}
		}
	}
	return val
}

// HeightMapBits implements T-HMBITS: every construction of a 16x16 height map
// storage derives its bit width from the section count by the same expression.
func (c *Ctx) HeightMapBits() []core.Ob {
	forms := map[string][]string{}
	var posOf = map[string]string{}
	n := 0
	for _, fn := range c.Funcs() {
		if !inPkgs(fn, "level") {
			continue
		}
		for _, ci := range callsIn(fn, func(nm string, _ *ssa.CallCommon) bool { return strings.HasSuffix(nm, "level.NewBitStorage") }) {
			args := ci.Common().Args
			if len(args) < 3 {
				continue
			}
			if k, ok := constIntVal(args[1]); !ok || k != 256 {
				continue
			}
			n++
			f := renderExpr(args[0], 0)
			forms[f] = append(forms[f], core.FnName(fn))
			posOf[f] = c.P.Pos(ci.Pos())
		}
	}
	o := core.Ob{Rule: "T-HMBITS", Key: "heightmap-bit-width", Armed: true, Status: core.OK,
		Want: "every 16x16 height-map storage (EmptyChunk, ChunkFromSave, Chunk.ReadFrom) derives its bits-per-value from the section count by one and the same expression"}
	var keys []string
	for f := range forms {
		keys = append(keys, f)
		o.Pos = posOf[f]
	}
	sort.Strings(keys)
	switch {
	case n < 1:
		o.Status, o.Got = core.Violated, "no height-map construction (NewBitStorage(_, 16*16, _)) found in package level"
	case len(keys) != 1:
		var parts []string
		for _, f := range keys {
			fs := forms[f]
			sort.Strings(fs)
			parts = append(parts, f+" in "+strings.Join(uniq(fs), ",")+" ("+posOf[f]+")")
		}
		o.Status, o.Got = core.Violated, "sites disagree: "+strings.Join(parts, "  vs  ")
	default:
		o.Got = fmt.Sprintf("%d sites: %s", n, keys[0])
	}
	return []core.Ob{o}
}

func uniq(s []string) []string {
	var out []string
	for i, x := range s {
		if i == 0 || x != s[i-1] {
			out = append(out, x)
		}
	}
	return out
}

// PaletteResizeCopiesAll: the resize branch of PaletteContainer.Set copies
// every position of the old container.
func (c *Ctx) PaletteResizeCopiesAll() []core.Ob {
	set := c.Fn("level.(*PaletteContainer).Set")
	o := core.Ob{Rule: "R-ORDER", Key: "palette-resize:copies-every-position", Armed: true, Status: core.OK,
		Want: "when the palette grows, the copy loop runs over i = 0 .. length-1 where length is the length the new storage is created with"}
	if set == nil {
		o.Status, o.Got = core.Violated, "level.(*PaletteContainer).Set not found"
		return []core.Ob{o}
	}
	// the resize code: the method of PaletteContainer (Set itself or a helper it was moved to) that
	// creates a new storage and re-inserts values through Set in a loop
	var fn *ssa.Function
	var news []ssa.CallInstruction
	nCand := 0
	for _, cand := range c.Funcs() {
		if !inPkgs(cand, "level") || recvTypeName(core.FnName(cand)) != "PaletteContainer" {
			continue
		}
		nb := callsIn(cand, func(nm string, _ *ssa.CallCommon) bool { return strings.HasSuffix(nm, "level.NewBitStorage") })
		if len(nb) == 0 {
			continue
		}
		loops := false
		for _, lp := range naturalLoops(cand) {
			for b := range lp.body {
				for _, in := range b.Instrs {
					if ci, ok := in.(ssa.CallInstruction); ok {
						if sc := ci.Common().StaticCallee(); sc != nil && core.Origin(sc) == set {
							loops = true
						}
					}
				}
			}
		}
		if loops {
			fn, news = cand, nb
			nCand++
		}
	}
	if fn == nil || nCand != 1 {
		o.Status, o.Got = core.Violated, fmt.Sprintf("%d methods of PaletteContainer create a new storage and copy into it through Set (want exactly one: the resize)", nCand)
		return []core.Ob{o}
	}
	o.Pos, o.Func = c.P.Pos(fn.Pos()), core.FnName(fn)
	if len(news) != 1 {
		o.Status, o.Got = core.Violated, fmt.Sprintf("%d NewBitStorage calls in %s", len(news), fn.Name())
		return []core.Ob{o}
	}
	length := stripConv(news[0].Common().Args[1])
	found := false
	for _, lp := range naturalLoops(fn) {
		// the loop must contain a recursive Set call (the copy)
		hasCopy := false
		for b := range lp.body {
			for _, in := range b.Instrs {
				if ci, ok := in.(ssa.CallInstruction); ok {
					if sc := ci.Common().StaticCallee(); sc != nil && core.Origin(sc) == set {
						hasCopy = true
					}
				}
			}
		}
		if !hasCopy {
			continue
		}
		found = true
		// every iteration copies: a Set call of the loop lies in a block that dominates each
		// block jumping back to the header (no `continue` / condition around the copy)
		everyIter := false
		for b := range lp.body {
			isCopy := false
			for _, in := range b.Instrs {
				if ci, ok := in.(ssa.CallInstruction); ok {
					if sc := ci.Common().StaticCallee(); sc != nil && core.Origin(sc) == set {
						isCopy = true
					}
				}
			}
			if !isCopy {
				continue
			}
			all := true
			for _, latch := range lp.header.Preds {
				if lp.body[latch] && !(b == latch || b.Dominates(latch)) {
					all = false
				}
			}
			if all {
				everyIter = true
			}
		}
		if !everyIter {
			o.Status, o.Got = core.Violated, "the copy inside the loop is conditional: some positions are left at the new storage's zero value instead of being re-inserted"
			continue
		}
		iff, ok := lp.header.Instrs[len(lp.header.Instrs)-1].(*ssa.If)
		if !ok {
			o.Status, o.Got = core.Violated, "copy loop has no guard in its header"
			continue
		}
		cmp, ok := iff.Cond.(*ssa.BinOp)
		if !ok || cmp.Op != token.LSS {
			o.Status, o.Got = core.Violated, "copy loop guard is not `i < length`"
			continue
		}
		// the counter: i (tested before the body) or i+1 (the rotated form of `for i := range n`,
		// whose body is entered through a separate 0 < n guard)
		cx := stripConv(cmp.X)
		if bo, ok := cx.(*ssa.BinOp); ok && bo.Op == token.ADD {
			if k, ok := constIntVal(bo.Y); ok && k == 1 {
				cx = stripConv(bo.X)
			}
		}
		phi, isPhi := cx.(*ssa.Phi)
		if !isPhi || !isCounterPhi(phi) {
			o.Status, o.Got = core.Violated, "copy loop does not count from 0 in steps of 1"
			continue
		}
		if stripConv(cmp.Y) != length {
			o.Status, o.Got = core.Violated, "the copy loop's bound is not the length of the new storage (some positions are not copied)"
		}
	}
	if !found {
		o.Status, o.Got = core.Violated, "no copy loop found in the resize branch"
	}
	return []core.Ob{o}
}

// HeightMapKeys implements T-HEIGHTMAP: ChunkToSave stores each of the six
// height maps under a key, and ChunkFromSave loads each field from the same key.
func (c *Ctx) HeightMapKeys() []core.Ob {
	mk := func(key, want string) core.Ob {
		return core.Ob{Rule: "T-HEIGHTMAP", Key: key, Want: want, Armed: true, Status: core.OK}
	}
	to, from := c.Fn("level.ChunkToSave"), c.Fn("level.ChunkFromSave")
	if to == nil || from == nil {
		o := mk("anchors", "ChunkToSave and ChunkFromSave exist")
		o.Status, o.Got = core.Violated, "not found"
		return []core.Ob{o}
	}
	fieldOfHM := func(v ssa.Value) string {
		// receiver of .Raw(): load of FieldAddr(FieldAddr(c, HeightMaps), F)
		for d := 0; d < 4; d++ {
			if u, ok := v.(*ssa.UnOp); ok {
				v = u.X
				continue
			}
			break
		}
		if fa, ok := v.(*ssa.FieldAddr); ok {
			if st, ok := deref(fa.X.Type()).Underlying().(*types.Struct); ok {
				return st.Field(fa.Field).Name()
			}
		}
		return ""
	}
	strConst := func(v ssa.Value) (string, bool) {
		k, ok := v.(*ssa.Const)
		if !ok || k.Value == nil || k.Value.Kind() != constant.String {
			return "", false
		}
		return constant.StringVal(k.Value), true
	}
	// ChunkToSave (and the helpers of the package it hands the height maps to):
	// MapUpdate{Key: const, Value: call Raw(recv)}, or a table of {key, storage} pairs that a loop saves
	save := map[string]string{}
	for _, tf := range c.withPkgCallees(to, 2) {
		rawInLoop := false
		for _, b := range tf.Blocks {
			for _, in := range b.Instrs {
				mu, ok := in.(*ssa.MapUpdate)
				if !ok {
					continue
				}
				cl, isRaw := mu.Value.(*ssa.Call)
				if !isRaw || !strings.HasSuffix(calleeName(cl.Common()), "level.(BitStorage).Raw") {
					continue
				}
				if key, ok := strConst(mu.Key); ok {
					save[key] = fieldOfHM(cl.Common().Args[0])
				} else {
					rawInLoop = true
				}
			}
		}
		if !rawInLoop {
			continue
		}
		// the table: elements of a local array whose first field is a constant key and another field a storage
		type row struct{ key, field string }
		rows := map[ssa.Value]*row{}
		for _, b := range tf.Blocks {
			for _, in := range b.Instrs {
				st, ok := in.(*ssa.Store)
				if !ok {
					continue
				}
				fa, ok := st.Addr.(*ssa.FieldAddr)
				if !ok {
					continue
				}
				ia, ok := fa.X.(*ssa.IndexAddr)
				if !ok {
					continue
				}
				r := rows[ia]
				if r == nil {
					r = &row{}
					rows[ia] = r
				}
				if k, ok := strConst(st.Val); ok {
					r.key = k
				} else if f := fieldOfHM(st.Val); f != "" {
					r.field = f
				}
			}
		}
		for _, r := range rows {
			if r.key != "" && r.field != "" {
				save[r.key] = r.field
			}
		}
	}
	// ChunkFromSave: Store to FieldAddr(HeightMaps literal, F) of NewBitStorage(_, _, Lookup(map, const))
	load := map[string]string{}
	for _, ff := range c.withPkgCallees(from, 2) {
		for _, b := range ff.Blocks {
			for _, in := range b.Instrs {
				st, ok := in.(*ssa.Store)
				if !ok {
					continue
				}
				fa, ok := st.Addr.(*ssa.FieldAddr)
				if !ok {
					continue
				}
				stt, ok := deref(fa.X.Type()).Underlying().(*types.Struct)
				if !ok {
					continue
				}
				cl, ok := st.Val.(*ssa.Call)
				if !ok {
					continue
				}
				if key, ok := storageKey(cl, nil, 0); ok {
					load[key] = stt.Field(fa.Field).Name()
				}
			}
		}
	}
	var obs []core.Ob
	var keys []string
	for k := range save {
		keys = append(keys, k)
	}
	sort.Strings(keys)
	for _, k := range keys {
		o := mk("key:"+k, "the height map saved under "+k+" is loaded back into the same field")
		o.Pos = c.P.Pos(from.Pos())
		if load[k] != save[k] {
			o.Status, o.Got = core.Violated, fmt.Sprintf("saved from field %s, loaded into field %s", save[k], load[k])
		} else {
			o.Got = save[k]
		}
		obs = append(obs, o)
	}
	n := mk("six-maps", "all six height maps are converted in both directions")
	if len(save) != 6 || len(load) != 6 {
		n.Status, n.Got = core.Violated, fmt.Sprintf("%d saved, %d loaded", len(save), len(load))
	}
	obs = append(obs, n)
	return obs
}

// storageKey: the constant map key whose value the call turns into a storage:
// NewBitStorage(_, _, m["KEY"]) directly, or through a closure / helper that is
// handed the key (loadHeightmap("KEY")).
func storageKey(cl *ssa.Call, bind map[ssa.Value]ssa.Value, depth int) (string, bool) {
	if depth > 2 {
		return "", false
	}
	resolve := func(v ssa.Value) ssa.Value {
		if b, ok := bind[v]; ok {
			return b
		}
		return v
	}
	if strings.HasSuffix(calleeName(cl.Common()), "level.NewBitStorage") && len(cl.Common().Args) == 3 {
		// (the data may reach the call through a parameter of a wrapper: newHeightMap(width, m["KEY"]))
		if lk, ok := resolve(cl.Common().Args[2]).(*ssa.Lookup); ok {
			if k, ok := resolve(lk.Index).(*ssa.Const); ok && k.Value != nil && k.Value.Kind() == constant.String {
				return constant.StringVal(k.Value), true
			}
		}
		return "", false
	}
	g := cl.Common().StaticCallee()
	if g == nil || len(g.Blocks) == 0 {
		return "", false
	}
	nb := map[ssa.Value]ssa.Value{}
	for i, p := range g.Params {
		if i < len(cl.Common().Args) {
			nb[p] = resolve(cl.Common().Args[i])
		}
	}
	key, n := "", 0
	for _, b := range g.Blocks {
		for _, in := range b.Instrs {
			r, ok := in.(*ssa.Return)
			if !ok || len(r.Results) != 1 {
				continue
			}
			n++
			inner, ok := r.Results[0].(*ssa.Call)
			if !ok {
				return "", false
			}
			k, ok := storageKey(inner, nb, depth+1)
			if !ok || (key != "" && k != key) {
				return "", false
			}
			key = k
		}
	}
	return key, n > 0 && key != ""
}

// intCaseClasses: the partition of the small integers induced by the decisions
// fn takes on the one value it compares with constants (its parameter, or a
// local such as n := calcBitsPerValue(...)). The function's integer skeleton is
// run with that value preset to each probe; two probes are in the same class
// when the same blocks are entered until the run leaves the decision (a return
// or a branch on something else). Independent of the spelling: switch with
// constant lists, range tests (bits >= 1 && bits <= 4), if chains.
func (c *Ctx) intCaseClasses(fn *ssa.Function, fnName string) ([]string, string) {
	if fn == nil || len(fn.Blocks) == 0 {
		return nil, fnName + " not found"
	}
	sizes := c.TLG().sizesOf(fn)
	// the decided value: the integer value compared with constants most often
	count := map[ssa.Value]int{}
	consts := map[int64]bool{}
	for _, b := range fn.Blocks {
		for _, in := range b.Instrs {
			bo, ok := in.(*ssa.BinOp)
			if !ok {
				continue
			}
			switch bo.Op {
			case token.EQL, token.NEQ, token.LSS, token.LEQ, token.GTR, token.GEQ:
			default:
				continue
			}
			x, y := bo.X, bo.Y
			if _, isC := x.(*ssa.Const); isC {
				x, y = y, x
			}
			k, ok := constIntVal(y)
			if !ok || !isIntegerType(x.Type(), sizes) {
				continue
			}
			if _, isC := x.(*ssa.Const); isC {
				continue
			}
			count[x]++
			consts[k] = true
		}
	}
	var decided ssa.Value
	for v, n := range count {
		if decided == nil || n > count[decided] || (n == count[decided] && v.Name() < decided.Name()) {
			decided = v
		}
	}
	if decided == nil || count[decided] < 2 {
		return nil, "no value compared with integer constants in " + fnName
	}
	probes := map[int64]bool{}
	for v := int64(-2); v <= 40; v++ {
		probes[v] = true
	}
	for k := range consts {
		probes[k-1], probes[k], probes[k+1] = true, true, true
	}
	var ps []int64
	for v := range probes {
		ps = append(ps, v)
	}
	sort.Slice(ps, func(i, j int) bool { return ps[i] < ps[j] })
	byTrace := map[string][]string{}
	for _, v := range ps {
		ev := &skelEval{c: c, sizes: sizes, preset: map[ssa.Value]*big.Int{decided: bi(v)}}
		// the class of a probe: the first block entered, once the decided value has been compared,
		// that does something other than comparing it (the body the decision selects)
		var tr []string
		started := false
		ev.onBlock = func(b *ssa.BasicBlock) {
			if len(tr) > 0 {
				return
			}
			pure, compares := true, false
			for _, in := range b.Instrs {
				switch x := in.(type) {
				case *ssa.BinOp:
					if x.X == decided || x.Y == decided {
						compares = true
					} else {
						pure = false
					}
				case *ssa.If, *ssa.Jump, *ssa.DebugRef:
				case *ssa.Phi:
					if bt, ok := x.Type().Underlying().(*types.Basic); !ok || bt.Kind() != types.Bool {
						pure = false
					}
				default:
					pure = false
				}
			}
			if started && !(pure) {
				tr = append(tr, fmt.Sprint(b.Index))
				return
			}
			if compares {
				started = true
			}
		}
		var args []*big.Int
		for _, p := range fn.Params {
			if ssa.Value(p) == decided {
				args = append(args, bi(v))
			} else {
				args = append(args, nil)
			}
		}
		_, _ = ev.run(fn, args)
		key := strings.Join(tr, ">")
		byTrace[key] = append(byTrace[key], fmt.Sprint(v))
	}
	var classes []string
	for _, vs := range byTrace {
		classes = append(classes, strings.Join(vs, ","))
	}
	if len(classes) < 3 {
		return nil, fmt.Sprintf("only %d decision classes found in %s", len(classes), fnName)
	}
	sort.Strings(classes)
	return classes, ""
}

// widthFitsPalette: see PaletteConfig (2). Returns "" or what disagrees.
func (c *Ctx) widthFitsPalette(bitsFn, cr *ssa.Function) string {
	sizes := c.TLG().sizesOf(bitsFn)
	probes := []int64{}
	for v := int64(-2); v <= 40; v++ {
		probes = append(probes, v)
	}
	probes = append(probes, 1000)
	// the width: a number, or "the value of package variable X" when it is one (the direct width
	// is computed at start-up from the registry size)
	type width struct {
		n   *big.Int
		sym string
	}
	same := func(a, b width) bool {
		if a.n != nil && b.n != nil {
			return a.n.Cmp(b.n) == 0
		}
		return a.n == nil && b.n == nil && a.sym == b.sym
	}
	show := func(w width) string {
		if w.n != nil {
			return w.n.String()
		}
		return w.sym
	}
	evalBits := func(n int64) (width, error) {
		ev := &skelEval{c: c, sizes: sizes}
		var retSym string
		ev.onInstr = func(in ssa.Instruction, get func(ssa.Value) *big.Int) {
			if r, ok := in.(*ssa.Return); ok && len(r.Results) == 1 && get(r.Results[0]) == nil {
				if ld, ok := stripConv(r.Results[0]).(*ssa.UnOp); ok && ld.Op == token.MUL {
					if g, ok := ld.X.(*ssa.Global); ok {
						retSym = "the value of " + g.String()
					}
				}
			}
		}
		args := make([]*big.Int, len(bitsFn.Params))
		args[len(args)-1] = bi(n)
		v, err := ev.run(bitsFn, args)
		if err != nil && retSym != "" {
			return width{sym: retSym}, nil
		}
		return width{n: v}, err
	}
	// the width create(n) stores into an int field of the palette it builds, and the block that builds it
	type built struct {
		width *big.Int
		many  bool
		body  int
	}
	evalCreate := func(n int64) built {
		var res built
		res.body = -1
		ev := &skelEval{c: c, sizes: sizes}
		ev.onInstr = func(in ssa.Instruction, get func(ssa.Value) *big.Int) {
			switch x := in.(type) {
			case *ssa.Store:
				if _, ok := x.Addr.(*ssa.FieldAddr); !ok {
					return
				}
				// a plain int field (the width); state values are of a named type
				if !types.Identical(x.Val.Type(), types.Typ[types.Int]) {
					return
				}
				if v := get(x.Val); v != nil {
					if res.width != nil && res.width.Cmp(v) != 0 {
						res.many = true
					}
					res.width = v
				}
			case *ssa.Alloc:
				if res.body < 0 {
					res.body = x.Block().Index
				}
			case *ssa.MakeInterface:
				if res.body < 0 {
					res.body = x.Block().Index
				}
			}
		}
		args := make([]*big.Int, len(cr.Params))
		args[len(args)-1] = bi(n)
		_, _ = ev.run(cr, args)
		return res
	}
	zero, large := evalCreate(0), evalCreate(1000)
	defBits, err := evalBits(1000)
	if err != nil {
		return "bits(1000): " + err.Error()
	}
	for _, n := range probes {
		b, err := evalBits(n)
		if err != nil {
			return fmt.Sprintf("%s(%d): %v", bitsFn.Name(), n, err)
		}
		cb := evalCreate(n)
		switch {
		case cb.many:
			return fmt.Sprintf("%s(%d) stores different widths into the palette it builds", cr.Name(), n)
		case cb.width != nil:
			if b.n == nil || b.n.Cmp(cb.width) != 0 {
				return fmt.Sprintf("for %d bits per entry the storage is given %s bits but the palette built for it records %s: indexes and storage disagree", n, show(b), cb.width)
			}
		case cb.body == zero.body && zero.width == nil:
			if b.n == nil || b.n.Sign() != 0 {
				return fmt.Sprintf("for %d bits per entry the single-value palette is built but the storage is given %s bits", n, show(b))
			}
		case cb.body == large.body && large.width == nil:
			if !same(b, defBits) {
				return fmt.Sprintf("for %d bits per entry the direct palette is built but the storage is given %s bits, not the direct width %s", n, show(b), show(defBits))
			}
		default:
			return fmt.Sprintf("the palette %s(%d) builds records no width and is neither the one of 0 nor the one of large widths", cr.Name(), n)
		}
	}
	return ""
}

// widthBoundedAndOwn: for every value of the bits-per-entry byte (0..255), bits(n) is a number
// of at most 64 or the value of a package-level variable of the package that defines the
// container's element type (the registry whose size fixes the direct width). A width above 64
// makes 64/bits zero and the storage arithmetic divide by it.
func (c *Ctx) widthBoundedAndOwn(bitsFn, ctor *ssa.Function) string {
	sizes := c.TLG().sizesOf(bitsFn)
	elemPkg := ""
	if res := ctor.Signature.Results(); res.Len() > 0 {
		if n, ok := types.Unalias(deref(res.At(0).Type())).(*types.Named); ok && n.TypeArgs() != nil && n.TypeArgs().Len() > 0 {
			if en, ok := types.Unalias(n.TypeArgs().At(0)).(*types.Named); ok && en.Obj().Pkg() != nil {
				elemPkg = en.Obj().Pkg().Path()
			}
		}
	}
	for n := int64(0); n <= 255; n++ {
		ev := &skelEval{c: c, sizes: sizes}
		var g *ssa.Global
		ev.onInstr = func(in ssa.Instruction, get func(ssa.Value) *big.Int) {
			if r, ok := in.(*ssa.Return); ok && len(r.Results) == 1 && get(r.Results[0]) == nil {
				if ld, ok := stripConv(r.Results[0]).(*ssa.UnOp); ok && ld.Op == token.MUL {
					g, _ = ld.X.(*ssa.Global)
				}
			}
		}
		args := make([]*big.Int, len(bitsFn.Params))
		args[len(args)-1] = bi(n)
		v, err := ev.run(bitsFn, args)
		switch {
		case err == nil && v != nil:
			if v.Sign() < 0 || v.Cmp(bi(64)) > 0 {
				return fmt.Sprintf("%s(%d) = %s: a width the peer chooses beyond 64 bits makes the values-per-long count 0 and the storage size computation divide by it", bitsFn.Name(), n, v)
			}
		case g != nil:
			if elemPkg != "" && g.Pkg != nil && g.Pkg.Pkg.Path() != elemPkg {
				return fmt.Sprintf("%s(%d) is the value of %s, the registry width of another element type (this container holds %s values)", bitsFn.Name(), n, g.String(), core.Rel(elemPkg))
			}
		default:
			return fmt.Sprintf("%s(%d) is neither a number nor a registry width: %v", bitsFn.Name(), n, err)
		}
	}
	return ""
}

// paletteCfgFns: the width method (int result) and the palette-construction method of the configuration
// type a WithData constructor puts into the container's configuration slot.
func (c *Ctx) paletteCfgFns(ctor *ssa.Function) (bitsFn, cr *ssa.Function) {
	if ctor == nil {
		return nil, nil
	}
	for _, b := range ctor.Blocks {
		for _, in := range b.Instrs {
			mi, ok := in.(*ssa.MakeInterface)
			if !ok {
				continue
			}
			named, ok := types.Unalias(mi.X.Type()).(*types.Named)
			if !ok || named.Obj().Pkg() == nil || core.Rel(named.Obj().Pkg().Path()) != "level" {
				continue
			}
			for _, m := range c.Funcs() {
				if !inPkgs(m, "level") || m.Parent() != nil || recvTypeName(core.FnName(m)) != named.Obj().Name() || m.Signature.Results().Len() != 1 || m.Signature.Params().Len() != 1 {
					continue
				}
				if bt, ok := m.Signature.Results().At(0).Type().Underlying().(*types.Basic); ok && bt.Kind() == types.Int {
					bitsFn = m
				} else {
					cr = m
				}
			}
		}
	}
	return bitsFn, cr
}

// PaletteConfig implements T-PALCFG.
func (c *Ctx) PaletteConfig() []core.Ob {
	var obs []core.Ob
	for _, cfg := range []struct{ name, ctor string }{
		{"states", "level.NewStatesPaletteContainerWithData"},
		{"biomes", "level.NewBiomesPaletteContainerWithData"},
	} {
		o := core.Ob{Rule: "T-PALCFG", Key: cfg.name + ":case-partitions", Armed: true, Status: core.OK,
			Want: "create() and the WithData constructor of the " + cfg.name + " configuration choose the palette kind by the same classes of bits-per-entry values, and bits(n) is the width the palette built by create(n) works with"}
		// the configuration type is whatever concrete type the exported constructor puts into the container's
		// configuration slot; its two methods are told apart by their result type (int: the storage width)
		ctor := c.Fn(cfg.ctor)
		bitsFn, cr := c.paletteCfgFns(ctor)
		var parts []string
		bad := ""
		if ctor == nil {
			bad = cfg.ctor + " not found"
		} else if bitsFn == nil || cr == nil {
			bad = "the configuration type of " + cfg.ctor + " (with its width and palette-construction methods) is not recognised"
		}
		// (1) create() and the WithData constructor choose the palette kind by the same classes of the width
		for _, f := range []*ssa.Function{cr, ctor} {
			if bad != "" {
				break
			}
			cls, why := c.intCaseClasses(f, core.FnName(f))
			if why != "" {
				// the decision may live in a helper the function delegates to (statesPaletteFor(n, ..))
				for _, g := range c.withPkgCallees(f, 1)[1:] {
					if g == cr || g == bitsFn {
						continue
					}
					if cls2, why2 := c.intCaseClasses(g, core.FnName(g)); why2 == "" {
						cls, why = cls2, ""
						break
					}
				}
			}
			if why != "" {
				bad = why
				break
			}
			parts = append(parts, strings.Join(cls, " | "))
		}
		// (2) the storage width bits(n) fits the palette create(n) builds: equal to the width that palette
		// records (linear / hashed), 0 where the palette of n = 0 is built (single value), and the
		// default width where the palette of a large n is built (direct). Evaluated for every probe;
		// independent of how bits() is written (case lists, range tests, a lookup table).
		if bad == "" && parts[0] == parts[1] {
			bad = c.widthFitsPalette(bitsFn, cr)
		}
		// (3) the width is never the peer's choice beyond one machine word, and the direct width is the
		// registry width of the container's own element type
		if bad == "" {
			bad = c.widthBoundedAndOwn(bitsFn, ctor)
		}
		if bad != "" {
			o.Status, o.Got = core.Violated, bad
		} else if parts[0] != parts[1] {
			o.Status, o.Got = core.Violated, "create: "+parts[0]+" ;; WithData: "+parts[1]
		} else {
			o.Got = parts[0] + "; bits(n) equals the width recorded by create(n) for every probe"
		}
		if bitsFn != nil {
			o.Pos = c.P.Pos(bitsFn.Pos())
		}
		obs = append(obs, o)
		// palette capacity = 1 << recorded bits in create()
		if cr == nil {
			continue
		}
		k := 0
		for _, b := range cr.Blocks {
			for _, in := range b.Instrs {
				ms, ok := in.(*ssa.MakeSlice)
				if !ok {
					continue
				}
				k++
				p := core.Ob{Rule: "T-PALCFG", Key: fmt.Sprintf("%s:create-capacity#%d", cfg.name, k), Pos: c.P.Pos(ms.Pos()), Func: core.FnName(cr), Armed: true, Status: core.OK,
					Want: "an indirect palette built by create() has capacity 1<<bits for the bits it records"}
				// the width recorded in the palette struct built in the same block: an int field of it
				var widths []ssa.Value
				for _, in2 := range b.Instrs {
					if st, ok := in2.(*ssa.Store); ok {
						if fa, ok := st.Addr.(*ssa.FieldAddr); ok {
							if stt, ok := deref(fa.X.Type()).Underlying().(*types.Struct); ok {
								if bt, ok := stt.Field(fa.Field).Type().Underlying().(*types.Basic); ok && bt.Kind() == types.Int {
									widths = append(widths, st.Val)
								}
							}
						}
					}
				}
				capOK := false
				for _, bitsV := range widths {
					cv := stripConv(ms.Cap)
					if kc, ok := constIntVal(cv); ok {
						if kb, ok := constIntVal(bitsV); ok && kc == 1<<uint(kb) {
							capOK = true
						}
					} else if bo, ok := cv.(*ssa.BinOp); ok && bo.Op == token.SHL {
						if one, ok := constIntVal(bo.X); ok && one == 1 && stripConv(bo.Y) == stripConv(bitsV) {
							capOK = true
						}
					}
				}
				if !capOK {
					p.Status, p.Got = core.Violated, "capacity is not 1<<bits of the palette being created (the palette upgrades too early or too late)"
				}
				obs = append(obs, p)
			}
		}
	}
	return obs
}
