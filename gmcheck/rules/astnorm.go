package rules

// Syntax normalisation for the table rules.
//
// The table rules read "which constants select which code" from switch
// statements. The same decision can be written as an if/else-if chain, as a
// tagless switch, or as a guard ("if x != K { return err }; rest"). normDecl
// returns a copy of a function declaration in which those forms are rewritten
// into one canonical tagged switch, so that a rule sees the decision and not
// the spelling:
//
//	if x == A || x == B { S1 } else if x == C { S2 } else { S3 }
//	  => switch x { case A, B: S1; case C: S2; default: S3 }
//	if x != A && x != B { S1 } else { S2 }
//	  => switch x { case A, B: S2; default: S1 }
//	if x == A { S1; return }; rest            (S1 leaves the list)
//	  => switch x { case A: S1; return; default: rest }
//	switch { case x == A: S1; case x == B, x == C: S2; default: S3 }
//	  => switch x { case A: S1; case B, C: S2; default: S3 }
//
// Only comparisons of one side-effect-free expression with named constants are
// rewritten; expression nodes are shared with the original tree, so the
// type-checker's maps stay valid for them. The copy is used for reading only.

import (
	"go/ast"
	"go/token"
	"go/types"

	"golang.org/x/tools/go/packages"
)

type normKey struct {
	fd *ast.FuncDecl
}

var normCache = map[normKey]*ast.FuncDecl{}

// normDecl: the canonical copy of fd (cached).
func normDecl(pk *packages.Package, fd *ast.FuncDecl) *ast.FuncDecl {
	if fd == nil || fd.Body == nil {
		return fd
	}
	if n, ok := normCache[normKey{fd}]; ok {
		return n
	}
	nz := &normalizer{info: pk.TypesInfo, boolDefs: boolDefs(pk.TypesInfo, fd.Body)}
	cp := *fd
	cp.Body = nz.block(fd.Body)
	normCache[normKey{fd}] = &cp
	// normalising twice is the identity
	normCache[normKey{&cp}] = &cp
	return &cp
}

type normalizer struct {
	info *types.Info
	// boolean variables defined once ("isSlice := val.Kind() == reflect.Slice") and never reassigned
	boolDefs map[types.Object]ast.Expr
}

func boolDefs(info *types.Info, body ast.Node) map[types.Object]ast.Expr {
	out := map[types.Object]ast.Expr{}
	re := map[types.Object]bool{}
	ast.Inspect(body, func(n ast.Node) bool {
		as, ok := n.(*ast.AssignStmt)
		if !ok {
			return true
		}
		for i, l := range as.Lhs {
			id, ok := l.(*ast.Ident)
			if !ok {
				continue
			}
			if o := info.Defs[id]; o != nil && as.Tok == token.DEFINE && len(as.Lhs) == len(as.Rhs) {
				if b, ok := o.Type().Underlying().(*types.Basic); ok && b.Kind() == types.Bool {
					out[o] = as.Rhs[i]
				}
			} else if o := info.Uses[id]; o != nil {
				re[o] = true
			}
		}
		return true
	})
	for o := range re {
		delete(out, o)
	}
	return out
}

func (z *normalizer) block(b *ast.BlockStmt) *ast.BlockStmt {
	if b == nil {
		return nil
	}
	return &ast.BlockStmt{Lbrace: b.Lbrace, List: z.list(b.List), Rbrace: b.Rbrace}
}

func (z *normalizer) list(in []ast.Stmt) []ast.Stmt {
	var out []ast.Stmt
	for i, s := range in {
		// guard: "if <chain> { ...leaves }" followed by more statements
		if ifs, ok := s.(*ast.IfStmt); ok && ifs.Else == nil && i+1 < len(in) && leaves(ifs.Body) {
			if _, _, _, ok := z.chainCond(ifs.Cond); ok {
				cp := *ifs
				cp.Else = &ast.BlockStmt{Lbrace: in[i+1].Pos(), List: in[i+1:], Rbrace: in[len(in)-1].End()}
				// (moving declarations into a nested block only matters to a compiler; the copy is read, never compiled)
				out = append(out, z.stmt(&cp))
				return out
			}
		}
		out = append(out, z.stmt(s))
	}
	return out
}

// leaves: control never falls out of the end of the block.
func leaves(b *ast.BlockStmt) bool {
	if b == nil || len(b.List) == 0 {
		return false
	}
	return stmtLeaves(b.List[len(b.List)-1])
}

func stmtLeaves(s ast.Stmt) bool {
	switch v := s.(type) {
	case *ast.ReturnStmt:
		return true
	case *ast.BranchStmt:
		return v.Tok == token.CONTINUE || v.Tok == token.BREAK || v.Tok == token.GOTO
	case *ast.ExprStmt:
		if call, ok := v.X.(*ast.CallExpr); ok {
			if id, ok := call.Fun.(*ast.Ident); ok && id.Name == "panic" {
				return true
			}
		}
	case *ast.BlockStmt:
		return leaves(v)
	case *ast.IfStmt:
		if v.Else == nil {
			return false
		}
		return leaves(v.Body) && stmtLeaves(v.Else)
	}
	return false
}

func (z *normalizer) stmt(s ast.Stmt) ast.Stmt {
	switch v := s.(type) {
	case nil:
		return nil
	case *ast.BlockStmt:
		return z.block(v)
	case *ast.IfStmt:
		if sw := z.ifToSwitch(v); sw != nil {
			return sw
		}
		cp := *v
		cp.Body = z.block(v.Body)
		cp.Else = z.stmt(v.Else)
		return &cp
	case *ast.ForStmt:
		cp := *v
		cp.Body = z.block(v.Body)
		return &cp
	case *ast.RangeStmt:
		cp := *v
		cp.Body = z.block(v.Body)
		return &cp
	case *ast.LabeledStmt:
		cp := *v
		cp.Stmt = z.stmt(v.Stmt)
		return &cp
	case *ast.SwitchStmt:
		cp := *v
		cp.Body = z.clauses(v.Body)
		if v.Tag == nil {
			if sw := z.taglessToTagged(&cp); sw != nil {
				return sw
			}
		}
		return &cp
	case *ast.TypeSwitchStmt:
		cp := *v
		cp.Body = z.clauses(v.Body)
		return &cp
	case *ast.SelectStmt:
		cp := *v
		cp.Body = z.clauses(v.Body)
		return &cp
	}
	return s
}

func (z *normalizer) clauses(b *ast.BlockStmt) *ast.BlockStmt {
	out := &ast.BlockStmt{Lbrace: b.Lbrace, Rbrace: b.Rbrace}
	for _, s := range b.List {
		switch c := s.(type) {
		case *ast.CaseClause:
			cp := *c
			cp.Body = z.list(c.Body)
			out.List = append(out.List, &cp)
		case *ast.CommClause:
			cp := *c
			cp.Body = z.list(c.Body)
			out.List = append(out.List, &cp)
		default:
			out.List = append(out.List, s)
		}
	}
	return out
}

// namedConst: e is a use of a declared constant (not a literal).
func (z *normalizer) namedConst(e ast.Expr) bool {
	var id *ast.Ident
	switch v := ast.Unparen(e).(type) {
	case *ast.Ident:
		id = v
	case *ast.SelectorExpr:
		id = v.Sel
	case *ast.BasicLit:
		// character literals select like named constants (suffix letters); numbers do not (n == 0 is a test, not a table)
		return v.Kind == token.CHAR
	default:
		return false
	}
	_, ok := z.info.Uses[id].(*types.Const)
	return ok
}

// pureExpr: evaluating e twice gives the same value and has no effect:
// identifiers, field selections, and calls of value-reading methods.
func (z *normalizer) pureExpr(e ast.Expr) bool {
	switch v := ast.Unparen(e).(type) {
	case *ast.Ident:
		return true
	case *ast.SelectorExpr:
		return z.pureExpr(v.X)
	case *ast.StarExpr:
		return z.pureExpr(v.X)
	case *ast.IndexExpr:
		return z.pureExpr(v.X) && z.pureExpr(v.Index)
	case *ast.BasicLit:
		return true
	case *ast.CallExpr:
		sel, ok := v.Fun.(*ast.SelectorExpr)
		if !ok || len(v.Args) != 0 {
			// conversions T(x)
			if tv, isT := z.info.Types[v.Fun]; isT && tv.IsType() && len(v.Args) == 1 {
				return z.pureExpr(v.Args[0])
			}
			return false
		}
		switch sel.Sel.Name {
		case "Kind", "Type", "Elem", "Len", "Key":
			return z.pureExpr(sel.X)
		}
	}
	return false
}

// chainCond parses "X == K1 || X == K2 ..." (neg=false) or
// "X != K1 && X != K2 ..." (neg=true).
func (z *normalizer) chainCond(e ast.Expr) (x ast.Expr, ks []ast.Expr, neg bool, ok bool) {
	e = ast.Unparen(e)
	if id, isId := e.(*ast.Ident); isId {
		if def, ok := z.boolDefs[z.info.Uses[id]]; ok {
			return z.chainCond(def)
		}
		return nil, nil, false, false
	}
	if u, isU := e.(*ast.UnaryExpr); isU && u.Op == token.NOT {
		// !(X == K) is X != K; only for a single comparison
		x, ks, neg, ok := z.chainCond(u.X)
		if ok && len(ks) == 1 {
			return x, ks, !neg, true
		}
		return nil, nil, false, false
	}
	b, isB := e.(*ast.BinaryExpr)
	if !isB {
		return nil, nil, false, false
	}
	switch b.Op {
	case token.EQL, token.NEQ:
		l, r := ast.Unparen(b.X), ast.Unparen(b.Y)
		if z.namedConst(l) && !z.namedConst(r) {
			l, r = r, l
		}
		if !z.namedConst(r) || !z.pureExpr(l) {
			return nil, nil, false, false
		}
		return l, []ast.Expr{r}, b.Op == token.NEQ, true
	case token.LOR, token.LAND:
		x1, k1, n1, ok1 := z.chainCond(b.X)
		x2, k2, n2, ok2 := z.chainCond(b.Y)
		if !ok1 || !ok2 || n1 != n2 || n1 != (b.Op == token.LAND) || types.ExprString(x1) != types.ExprString(x2) {
			return nil, nil, false, false
		}
		return x1, append(append([]ast.Expr{}, k1...), k2...), n1, true
	}
	return nil, nil, false, false
}

// ifToSwitch rewrites an if/else-if chain over one expression; nil if the
// statement is not such a chain.
func (z *normalizer) ifToSwitch(ifs *ast.IfStmt) ast.Stmt {
	x, _, _, ok := z.chainCond(ifs.Cond)
	if !ok {
		return nil
	}
	xs := types.ExprString(x)
	sw := &ast.SwitchStmt{Switch: ifs.If, Init: ifs.Init, Tag: x, Body: &ast.BlockStmt{Lbrace: ifs.Body.Lbrace, Rbrace: ifs.End()}}
	var deflt []ast.Stmt
	haveDefault := false
	cur := ifs
	for {
		cx, ks, neg, ok := z.chainCond(cur.Cond)
		if !ok || types.ExprString(cx) != xs || (cur != ifs && cur.Init != nil) {
			// the rest of the chain is something else: it is the default
			deflt, haveDefault = []ast.Stmt{z.stmt(cur)}, true
			break
		}
		if neg {
			// if X != K { A } else { B }: K selects B, everything else A
			var b []ast.Stmt
			switch el := cur.Else.(type) {
			case nil:
			case *ast.BlockStmt:
				b = z.list(el.List)
			default:
				b = []ast.Stmt{z.stmt(el)}
			}
			sw.Body.List = append(sw.Body.List, &ast.CaseClause{Case: cur.If, List: ks, Colon: cur.Body.Lbrace, Body: b})
			deflt, haveDefault = z.list(cur.Body.List), true
			break
		}
		sw.Body.List = append(sw.Body.List, &ast.CaseClause{Case: cur.If, List: ks, Colon: cur.Body.Lbrace, Body: z.list(cur.Body.List)})
		switch el := cur.Else.(type) {
		case nil:
		case *ast.BlockStmt:
			deflt, haveDefault = z.list(el.List), true
		case *ast.IfStmt:
			cur = el
			continue
		}
		break
	}
	if haveDefault {
		// "if x == A {..return}; if x == B {..return}; rest" nests: the default of the first switch is
		// the second switch on the same expression. One flat switch says the same.
		for len(deflt) == 1 {
			inner, ok := deflt[0].(*ast.SwitchStmt)
			if !ok || inner.Init != nil || inner.Tag == nil || types.ExprString(inner.Tag) != xs {
				break
			}
			var innerDefault []ast.Stmt
			hasInnerDefault := false
			for _, st := range inner.Body.List {
				cc := st.(*ast.CaseClause)
				if cc.List == nil {
					innerDefault, hasInnerDefault = cc.Body, true
					continue
				}
				sw.Body.List = append(sw.Body.List, cc)
			}
			deflt, haveDefault = innerDefault, hasInnerDefault
			if !hasInnerDefault {
				break
			}
		}
	}
	if haveDefault {
		pos := ifs.End()
		if len(deflt) > 0 {
			pos = deflt[0].Pos()
		}
		sw.Body.List = append(sw.Body.List, &ast.CaseClause{Case: pos, Colon: pos, Body: deflt})
	}
	return sw
}

// taglessToTagged rewrites "switch { case X == A: ... }".
func (z *normalizer) taglessToTagged(sw *ast.SwitchStmt) ast.Stmt {
	var x ast.Expr
	var xs string
	out := &ast.SwitchStmt{Switch: sw.Switch, Init: sw.Init, Body: &ast.BlockStmt{Lbrace: sw.Body.Lbrace, Rbrace: sw.Body.Rbrace}}
	for _, s := range sw.Body.List {
		cc := s.(*ast.CaseClause)
		if cc.List == nil {
			out.Body.List = append(out.Body.List, cc)
			continue
		}
		var ks []ast.Expr
		for _, e := range cc.List {
			cx, k, neg, ok := z.chainCond(e)
			if !ok || neg {
				return nil
			}
			if x == nil {
				x, xs = cx, types.ExprString(cx)
			} else if types.ExprString(cx) != xs {
				return nil
			}
			ks = append(ks, k...)
		}
		out.Body.List = append(out.Body.List, &ast.CaseClause{Case: cc.Case, List: ks, Colon: cc.Colon, Body: cc.Body})
	}
	if x == nil {
		return nil
	}
	out.Tag = x
	return out
}
