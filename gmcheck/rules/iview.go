package rules

// An inlined view of a function: its own instructions with the bodies of the
// functions of the same package it calls statically spliced in at the call
// sites (each call site gets its own copy, to a bounded depth). Ordering rules
// (dominance, must-follow, "no exit from the loop") are decided on this view,
// so that moving a stretch of a method into a helper - or back - does not change
// what they see. Nothing is executed; the view is a graph over go/ssa
// instructions.

import (
	"go/types"

	"gmcheck/core"

	"golang.org/x/tools/go/ssa"
)

type iframe struct {
	fn     *ssa.Function
	parent *iframe
	call   ssa.CallInstruction // the call in parent that enters this frame (nil for the root)
	depth  int
}

type inode struct {
	id    int
	in    ssa.Instruction
	frame *iframe
	succs []int
	preds []int
}

type iview struct {
	root  *ssa.Function
	nodes []*inode
	entry int
	idom  []int // immediate dominators (entry: itself; unreachable: -1)
	// first node of a block in a frame
	first map[*iframe]map[*ssa.BasicBlock]int
}

// resolve follows a parameter of an inlined frame back to the argument the
// caller passed (possibly through several frames); it returns the value and the
// frame that value lives in.
func (f *iframe) resolve(v ssa.Value) (ssa.Value, *iframe) {
	for f != nil {
		p, ok := v.(*ssa.Parameter)
		if !ok || f.parent == nil || f.call == nil {
			return v, f
		}
		idx := -1
		for i, q := range f.fn.Params {
			if q == p {
				idx = i
			}
		}
		if idx < 0 || idx >= len(f.call.Common().Args) {
			return v, f
		}
		v, f = f.call.Common().Args[idx], f.parent
	}
	return v, f
}

// sameReceiver: the frame's receiver is the root's receiver object.
func (f *iframe) sameReceiver(root *ssa.Function) bool {
	if len(f.fn.Params) == 0 || len(root.Params) == 0 {
		return false
	}
	v, fr := f.resolve(f.fn.Params[0])
	return fr != nil && fr.parent == nil && v == ssa.Value(root.Params[0])
}

func (c *Ctx) inlineView(root *ssa.Function, depth int) *iview {
	v := &iview{root: root, first: map[*iframe]map[*ssa.BasicBlock]int{}}
	var expand func(fr *iframe) (entry int, exits []int)
	expand = func(fr *iframe) (int, []int) {
		fn := fr.fn
		v.first[fr] = map[*ssa.BasicBlock]int{}
		firstOf := map[*ssa.BasicBlock]int{}
		tailsOf := map[*ssa.BasicBlock][]int{}
		var exits []int
		for _, b := range fn.Blocks {
			var tails []int // nodes whose successor is the next instruction
			firstID := -1
			for _, in := range b.Instrs {
				n := &inode{id: len(v.nodes), in: in, frame: fr}
				v.nodes = append(v.nodes, n)
				if firstID < 0 {
					firstID = n.id
				}
				for _, t := range tails {
					v.edge(t, n.id)
				}
				tails = []int{n.id}
				// splice a callee in: the call node leads into it, its returns lead to what follows the call
				if ci, ok := in.(*ssa.Call); ok && fr.depth < depth {
					if g := ci.Common().StaticCallee(); g != nil && len(g.Blocks) > 0 && c.inlinable(root, fr, g) {
						// inside a generic body a call to a sibling generic method goes to an instance whose
						// type arguments are the type parameters themselves; the code is the origin's
						if og := core.Origin(g); og != g && len(og.Blocks) > 0 && core.Origin(root) == root && root.Signature.Recv() != nil && og.Signature.Recv() != nil {
							g = og
						}
						child := &iframe{fn: g, parent: fr, call: ci, depth: fr.depth + 1}
						ge, gx := expand(child)
						v.edge(n.id, ge)
						tails = gx
					}
				}
				if _, isRet := in.(*ssa.Return); isRet {
					exits = append(exits, n.id)
					tails = nil
				}
				if _, isPanic := in.(*ssa.Panic); isPanic {
					tails = nil
				}
			}
			firstOf[b], tailsOf[b] = firstID, tails
			v.first[fr][b] = firstID
		}
		for _, b := range fn.Blocks {
			for _, s := range b.Succs {
				for _, t := range tailsOf[b] {
					v.edge(t, firstOf[s])
				}
			}
		}
		return firstOf[fn.Blocks[0]], exits
	}
	rootFrame := &iframe{fn: root}
	v.entry, _ = expand(rootFrame)
	v.computeDominators()
	return v
}

// inlinable: a function of the root's package that is not already being expanded (no recursion).
func (c *Ctx) inlinable(root *ssa.Function, fr *iframe, g *ssa.Function) bool {
	g = core.Origin(g)
	if core.FnPkg(g) == nil || core.FnPkg(root) == nil || core.FnPkg(g).Pkg != core.FnPkg(root).Pkg {
		return false
	}
	for f := fr; f != nil; f = f.parent {
		if core.Origin(f.fn) == g {
			return false
		}
	}
	return true
}

func (v *iview) edge(a, b int) {
	if a < 0 || b < 0 {
		return
	}
	v.nodes[a].succs = append(v.nodes[a].succs, b)
	v.nodes[b].preds = append(v.nodes[b].preds, a)
}

func (v *iview) computeDominators() {
	n := len(v.nodes)
	// reverse post-order
	order := make([]int, 0, n)
	num := make([]int, n)
	for i := range num {
		num[i] = -1
	}
	seen := make([]bool, n)
	var dfs func(x int)
	dfs = func(x int) {
		seen[x] = true
		for _, s := range v.nodes[x].succs {
			if !seen[s] {
				dfs(s)
			}
		}
		order = append(order, x)
	}
	// iterative to avoid deep recursion on long straight-line code
	type fr struct{ x, i int }
	stack := []fr{{v.entry, 0}}
	seen[v.entry] = true
	for len(stack) > 0 {
		top := &stack[len(stack)-1]
		if top.i < len(v.nodes[top.x].succs) {
			s := v.nodes[top.x].succs[top.i]
			top.i++
			if !seen[s] {
				seen[s] = true
				stack = append(stack, fr{s, 0})
			}
			continue
		}
		order = append(order, top.x)
		stack = stack[:len(stack)-1]
	}
	_ = dfs
	for i, j := 0, len(order)-1; i < j; i, j = i+1, j-1 {
		order[i], order[j] = order[j], order[i]
	}
	for i, x := range order {
		num[x] = i
	}
	idom := make([]int, n)
	for i := range idom {
		idom[i] = -1
	}
	idom[v.entry] = v.entry
	intersect := func(a, b int) int {
		for a != b {
			for num[a] > num[b] {
				a = idom[a]
			}
			for num[b] > num[a] {
				b = idom[b]
			}
		}
		return a
	}
	for changed := true; changed; {
		changed = false
		for _, x := range order {
			if x == v.entry {
				continue
			}
			nw := -1
			for _, p := range v.nodes[x].preds {
				if idom[p] < 0 {
					continue
				}
				if nw < 0 {
					nw = p
				} else {
					nw = intersect(p, nw)
				}
			}
			if nw >= 0 && idom[x] != nw {
				idom[x] = nw
				changed = true
			}
		}
	}
	v.idom = idom
}

// dominates: every path from the entry to b passes a (a != b allowed).
func (v *iview) dominates(a, b int) bool {
	if v.idom[b] < 0 {
		return false
	}
	for x := b; ; x = v.idom[x] {
		if x == a {
			return true
		}
		if x == v.entry || v.idom[x] < 0 {
			return a == x
		}
	}
}

// mustFollow: on every path from node `from` to a return of the root, a node satisfying pred occurs.
func (v *iview) mustFollow(from int, pred func(*inode) bool) bool {
	// may-pending dataflow
	pending := map[int]bool{}
	work := append([]int(nil), v.nodes[from].succs...)
	for _, s := range work {
		pending[s] = true
	}
	visited := map[int]bool{}
	for len(work) > 0 {
		x := work[0]
		work = work[1:]
		if visited[x] {
			continue
		}
		visited[x] = true
		nd := v.nodes[x]
		if pred(nd) {
			continue // satisfied on this path
		}
		if _, isRet := nd.in.(*ssa.Return); isRet && nd.frame.parent == nil {
			return false
		}
		work = append(work, nd.succs...)
	}
	return true
}

// reachesFrom: nodes reachable from a (excluding a unless on a cycle).
func (v *iview) reachesFrom(a int) map[int]bool {
	out := map[int]bool{}
	work := append([]int(nil), v.nodes[a].succs...)
	for len(work) > 0 {
		x := work[0]
		work = work[1:]
		if out[x] {
			continue
		}
		out[x] = true
		work = append(work, v.nodes[x].succs...)
	}
	return out
}

// recvField: the field of the ROOT's receiver an address in some frame denotes ("" if it is not one).
func (v *iview) recvField(n *inode, addr ssa.Value) string {
	if len(n.frame.fn.Params) == 0 {
		return v.freeVarField(n.frame, addr)
	}
	// closures: the receiver is captured; a frame of a bound method / helper: parameter 0
	fr := n.frame
	if !fr.sameReceiver(v.root) {
		// a closure of the method: the receiver is a captured variable
		return v.freeVarField(fr, addr)
	}
	return rootFieldOfAddr(addr, fr.fn.Params[0])
}

// fieldByType: the name of the single field of struct st whose type satisfies pred ("" if none or several).
func fieldByType(st *types.Struct, pred func(*types.Var) bool) string {
	name, n := "", 0
	for i := 0; i < st.NumFields(); i++ {
		if pred(st.Field(i)) {
			name = st.Field(i).Name()
			n++
		}
	}
	if n != 1 {
		return ""
	}
	return name
}
