package rules

import "gmcheck/core"

func init() {
	Props["C09"] = PropDef{
		Explanation: "R-RAWREAD who-may-call rule on Read([]byte) with count analysis; R-ERRFLOW E1-E4 + deferred completion; R-NOBUF; R-RAWREAD a one-byte Read never turns (0, nil) into a byte. Decided: Every direct Read is a forwarding wrapper or a one-byte read whose count decides; all other reads go through full-read primitives, whose EOF is never forgiven; no error is dropped, tested after its sibling value was used, or lost in a deferred flush; no buffering reader sits on a decode path.",
		Run: func(c *Ctx) []core.Ob {
			var obs []core.Ob
			obs = append(obs, c.RawRead()...)
			in := pkgPred("nbt", "nbt/dynbt", "net/packet", "net")
			obs = append(obs, c.ErrFlow(in, in)...)
			obs = append(obs, c.NoReadAhead()...)
			return obs
		},
	}
}
