package rules

import (
	"fmt"
	"go/types"
	"sort"
	"strings"

	"gmcheck/core"
)

// wireScope selects WireSym obligations by package / type name.
func (c *Ctx) wireObs(sel func(pkgRel, typ string) bool) []core.Ob {
	var out []core.Ob
	for _, o := range c.WireSym(func(p, t string) bool { return true }) {
		i := strings.LastIndex(o.Key, ".")
		if i < 0 {
			continue
		}
		if sel(o.Key[:i], o.Key[i+1:]) {
			out = append(out, o)
		}
	}
	return out
}

func init() {
	Props["C06"] = PropDef{
		Explanation: "R-WIRESYM wire-signature symmetry; R-DISCARD; R-TLG; R-RAWREAD; R-ERRFLOW (E1-E4, deferred completion); R-POOL; T-VARLEN; T-BITFIELD; R-LENPREFIX; R-COUNT counting wrapper; T-BITSETSIZE; R-NOBUF; R-LEN reflect slice length; R-ERRFLOW E3 for the module's own decoders; T-BITFIELD shift overflow; R-COUNT the count returned with an error includes the failing part's; R-ERRFLOW the TAG_End sentinel means absent only as the whole field, and resets the destination. Decided: For every net/packet field type the writer's and reader's wire signatures agree on every non-error path; length prefixes are the byte length of what follows; packed words keep their fields disjoint; byte counts include every consuming method of the counting reader; FixedBitSet allocates exactly the bytes its accessors address; errors are not swallowed. Value equality is not decided.",
		Run: func(c *Ctx) []core.Ob {
			obs := c.wireObs(func(p, t string) bool { return p == "net/packet" })
			for _, o := range c.Discard() {
				if strings.HasPrefix(o.Key, "net/packet.") {
					obs = append(obs, o)
				}
			}
			in := pkgPred("net/packet")
			obs = append(obs, c.TLGObs(in, in, false)...)
			for _, o := range c.RawRead() {
				if strings.HasPrefix(o.Key, "net/packet.") {
					obs = append(obs, o)
				}
			}
			obs = append(obs, c.ErrFlow(in, in)...)
			obs = append(obs, c.FailedPartCounted("net/packet")...)
			obs = append(obs, c.EndSentinelSwallow("net/packet")...)
			// composition: Marshal/Builder must not hand out memory that is recycled
			obs = append(obs, c.Pools("net/packet")...)
			obs = append(obs, c.VarLen()...)
			obs = append(obs, c.BitFields("net/packet")...)
			obs = append(obs, c.GroupOrder("net/packet")...)
			obs = append(obs, c.LengthPrefixes("net/packet")...)
			obs = append(obs, filterObs(c.NoReadAhead(), func(o core.Ob) bool { return strings.Contains(o.Key, "packet") || o.Key == "scope" })...)
			obs = append(obs, c.CountingWrappers("net/packet")...)
			obs = append(obs, c.FixedBitSetSize()...)
			obs = append(obs, c.ReflectSliceLength("net/packet.(Ary).ReadFrom")...)
			return obs
		},
	}
	Props["C12"] = PropDef{
		Explanation: "R-WIRESYM; R-TLG; T-PALCFG decision partitions, width bounds, recorded width; R-ORDER palette-read fresh palette, resize copies every position; T-BSINV; T-BSFIX derived fields; R-ACCEPT palette size bound admits a full palette; T-BSINV direct width; R-ORDER a refused Fix changes nothing. Decided: Reader and writer agree on [bits byte, palette, data array]; create/WithData/bits choose by the same classes and widths within bounds; ReadFrom never refills a used palette and a size bound computed from the index width lets 1<<bits entries through; the resize copies every position unconditionally and records the created width; Fix refreshes every width-derived field; saved longs are read back with the width they were written with (two known findings). Array semantics across upgrades are not decided.",
		Run: func(c *Ctx) []core.Ob {
			// the palette kinds: whatever types of the package implement the interface of the container's palette slot
			names := map[string]bool{"PaletteContainer": true, "BitStorage": true}
			for _, t := range c.implementersOf("level", "PaletteContainer", func(f *types.Var) bool {
				it := f.Type().Underlying().(*types.Interface)
				for i := 0; i < it.NumMethods(); i++ {
					if it.Method(i).Name() == "ReadFrom" {
						return true
					}
				}
				return false
			}) {
				names[t] = true
			}
			obs := c.wireObs(func(p, t string) bool { return p == "level" && names[t] })
			if len(names) < 4 {
				obs = append(obs, core.Ob{Rule: "R-WIRESYM", Key: "level:palette-kinds", Status: core.Violated, Armed: true, Want: "the palette implementations of package level are found", Got: fmt.Sprintf("%d types", len(names)-2)})
			}
			var tnames []string
			for t := range names {
				tnames = append(tnames, t)
			}
			sort.Strings(tnames)
			in := c.reachFromTypes("level", tnames, "NewStatesPaletteContainerWithData", "NewBiomesPaletteContainerWithData")
			obs = append(obs, c.TLGObs(in, in, false)...)
			obs = append(obs, c.PaletteResizeCopiesAll()...)
			obs = append(obs, c.PaletteReadResets()...)
			obs = append(obs, c.ResizeWidth()...)
			obs = append(obs, c.BitStorageReadLength()...)
			obs = append(obs, c.BitWidthInverse()...)
			obs = append(obs, c.PaletteConfig()...)
			obs = append(obs, c.BitStorageFixSibling()...)
			obs = append(obs, c.BitStorageDerivedRefreshed()...)
			obs = append(obs, c.FixRefusalChangesNothing()...)
			obs = append(obs, c.PaletteSizeBound("level")...)
			return obs
		},
	}
	Props["C13"] = PropDef{
		Explanation: "R-WIRESYM; R-PANIC guarded-call; R-ORDER SetBlock counter; T-HEIGHTMAP save and network; R-NOALIAS loop decode targets; R-INITORDER; T-BITFIELD; T-BSINV; R-ACCEPT palette size bound; T-BSINV direct width and width-from-saved-longs; R-ORDER compressing writers are closed before their bytes are handed out. Decided: Network writer and reader of a chunk list the same wire kinds in order; height maps are length-checked and each is built from its own source; decode targets are not shared across loop iterations; no initialiser reads a registry map before init() fills it. Value preservation and the registry bijection are not decided.",
		Run: func(c *Ctx) []core.Ob {
			names := map[string]bool{"Chunk": true, "Section": true, "BlockEntity": true, "lightData": true, "ChunkPos": true}
			obs := c.wireObs(func(p, t string) bool { return p == "level" && names[t] })
			in := c.reachFromTypes("level", []string{"Chunk", "Section", "BlockEntity", "ChunkPos"}, "ChunkFromSave", "ChunkToSave", "EmptyChunk")
			obs = append(obs, c.GuardedCalls("level.NewBitStorage", 2, c.NetworkRoots(), in, in)...)
			obs = append(obs, c.TLGObs(in, in, false)...)
			obs = append(obs, c.SetBlockCounter()...)
			obs = append(obs, c.HeightMapBits()...)
			obs = append(obs, c.HeightMapKeys()...)
			obs = append(obs, c.PaletteResizeCopiesAll()...)
			obs = append(obs, c.LoopDecodeTargets("level", "save")...)
			obs = append(obs, c.HeightMapNetwork()...)
			obs = append(obs, c.BitFields("level")...)
			obs = append(obs, c.BitWidthInverse()...)
			obs = append(obs, c.InitOrder("level", "level/block", "level/biome", "level/component", "level/block/states")...)
			obs = append(obs, c.ResizeWidth()...)
			obs = append(obs, c.PaletteReadResets()...)
			obs = append(obs, c.PaletteSizeBound("level")...)
			obs = append(obs, c.CompressorClosed("save/...", "level/...")...)
			// block entities without NBT go through pk.NBTField: absent means reset, also in a re-used chunk
			obs = append(obs, c.EndSentinelSwallow("net/packet")...)
			return obs
		},
	}
	Props["C17"] = PropDef{
		Explanation: "R-WIRESYM; R-MARSHALER; T-DISPATCH; T-ARGKIND; T-OPTFLAG; T-FIELDCOVER; T-TAGS; T-SIGNED; R-GUARD string indexes and len-k bounds; R-TRUNC; T-OPTFLAG reader side; R-NOALIAS loop decode targets; T-FMTCODE plain mode removes every match of the code pattern and cleans string arguments (R-TLG case split on the mode flag); R-RESET translation arguments start empty; R-PANIC optional pointer fields are dereferenced behind a nil test. Decided: Chat packet-field adapters are symmetric; the optional target is announced exactly when present and left nil by the reader when absent; a short form looks at every other field; converted struct variants share keys; array arguments are signed; a decode target that outlives a loop iteration is not copied out inside the loop; rendering indexes strings only behind length tests. In plain mode every match of the formatting-code pattern is replaced by nothing and string translation arguments are cleaned. Equality after a round trip and the rest of the rendered output are not decided.",
		Run: func(c *Ctx) []core.Ob {
			obs := c.wireObs(func(p, t string) bool { return p == "chat" })
			obs = append(obs, filterObs(c.MarshalerContract(), func(o core.Ob) bool { return strings.HasPrefix(o.Key, "chat") })...)
			obs = append(obs, c.TagDispatch("chat")...)
			obs = append(obs, c.JSONCustomCodec()...)
			obs = append(obs, c.TranslateArgTypes()...)
			obs = append(obs, c.OptFlags("chat")...)
			obs = append(obs, c.OptFieldsNilWhenAbsent("chat")...)
			obs = append(obs, c.RuneTruncation("chat")...)
			obs = append(obs, c.ShortFormCoversFields("chat")...)
			obs = append(obs, c.StringIndexGuards(pkgPred("chat"))...)
			obs = append(obs, c.LenMinusGuards(pkgPred("chat"))...)
			obs = append(obs, c.StringVarIndexGuards(pkgPred("chat"))...)
			obs = append(obs, c.ConvertedStructTags("chat")...)
			obs = append(obs, c.SignedArrayTargets("chat")...)
			obs = append(obs, c.LoopDecodeTargets("chat")...)
			obs = append(obs, c.PlainRenderingRemovesCodes("chat")...)
			obs = append(obs, c.OptionalPointerDerefs("chat")...)
			obs = append(obs, c.AppendTargetsTruncated("UnmarshalNBT", "chat")...)
			obs = append(obs, c.AppendTargetsTruncated("UnmarshalJSON", "chat")...)
			return obs
		},
	}
	Props["C19"] = PropDef{
		Explanation: "R-SCHEMA; R-ORDER (stable sort, dispatch order and its callers, compression switch on both ends, offline UUID origin, drain-before-close); R-POOL; R-LENPREFIX; R-ERRFLOW; R-ERRAS errors.As target form; R-POOL put-after-retain; sorted insertion (sort.Search) accepted with a strict predicate; R-TLG over package bot (a received packet id indexes the handler table only inside both bounds); R-NILMAP maps in struct fields exist where a handler assigns into them; R-POOL handler-keeps-buffer (a handler does not queue a packet around the received pooled buffer); R-ERRFLOW a goroutine that gives up on an I/O error keeps it; R-SCHEMA reply-is-read; R-ORDER queue-before-stored-error, sort after every append. Decided: For each gate packet the receiver scans a prefix of what the sender marshals; both ends switch compression at the same frame for every threshold value; handler tables are kept in descending priority with ties in registration order (stable sort or strict sorted insertion); dispatch stops at the first error in every caller; queued packets survive Close; packet buffers are not recycled under a queued or retained packet; errors.As looks for the form in which the module creates the error; string lengths are byte lengths. The bot's own dispatch indexes its per-id table only with ids inside it, and maps a packet handler assigns into are made by the constructor. A handler does not queue a packet around the received pooled buffer. One known finding (registry-data layout). Join completion is not decided.",
		Run: func(c *Ctx) []core.Ob {
			obs := c.Schema()
			obs = append(obs, c.HandlerSort()...)
			obs = append(obs, c.ErrorsAsForms("server", "bot", "net")...)
			obs = append(obs, c.DispatchOrder()...)
			obs = append(obs, c.CompressionSwitch()...)
			obs = append(obs, c.OfflineUUID()...)
			obs = append(obs, c.ReceiveBufferPerPacket()...)
			obs = append(obs, c.PutAfterRetain("bot")...)
			obs = append(obs, c.FieldMapUpdates("bot/...")...)
			obs = append(obs, c.HandlerKeepsBuffer("bot/...")...)
			obs = append(obs, c.GoroutineErrorsKept("bot")...)
			obs = append(obs, c.GateRepliesRead()...)
			obs = append(obs, c.QueueBeforeStoredError("bot")...)
			// the bot's own dispatch on what the peer sent: indexes and sizes taken from a received packet
			obs = append(obs, c.TLGObs(pkgPred("bot"), pkgPred("bot"), false)...)
			obs = append(obs, c.Pools("net/packet")...)
			obs = append(obs, c.DrainBeforeClose("net/queue")...)
			obs = append(obs, c.LengthPrefixes("net/packet")...)
			gate := pkgPred("server", "server/auth", "bot")
			gateArmed := pkgPred("server", "server/auth")
			obs = append(obs, c.ErrFlow(gate, gateArmed)...)
			obs = append(obs, c.wireObs(func(p, t string) bool { return p == "yggdrasil/user" || (p == "bot" && t == "DataPack") })...)
			return obs
		},
	}
	Props["C20"] = PropDef{
		Explanation: "R-LOCK must-held / pairing / notify dataflow; R-POOL typestate and alias escape; R-ORDER drain-before-close; R-NOMUT cached values. Decided: Guarded-by, release on all exits, wait-in-loop, signal-after-write, broadcast-on-close, atomic check-then-act, non-blocking bounded push, drain before honouring close, pooled objects reset/put/non-escaping, process-wide caches immutable after construction. Linearizability and general race freedom are not decided.",
		Run: func(c *Ctx) []core.Ob {
			obs := c.Locks()
			obs = append(obs, c.Pools("net/packet", "nbt", "nbt/dynbt", "level")...)
			obs = append(obs, c.DrainBeforeClose("net/queue")...)
			obs = append(obs, c.AssertToTypeParam("net/queue")...)
			obs = append(obs, c.ReceiveBufferPerPacket()...)
			obs = append(obs, c.CachedValuesImmutable("nbt", "nbt/dynbt", "net/packet", "level")...)
			return obs
		},
	}
}
