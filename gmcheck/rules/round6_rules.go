package rules

// Rules added after the defect hunt on the unchanged tree (DESIGN.md 8.11).

import (
	"fmt"
	"go/token"
	"go/types"
	"math/big"
	"reflect"
	"sort"
	"strings"

	"gmcheck/core"

	"golang.org/x/tools/go/ssa"
)

// ---------------------------------------------------------------------------
// T-SNBT[suffix-strip]: the literal parser cuts the last byte off a number
// only where that byte is a type suffix. The variable that holds the suffix
// (compared with the suffix letters in the switch that picks the tag) is 0 for
// an unsuffixed number; with it assumed 0, no slice of the literal that drops
// the last byte may be reachable (`1.5` parsed as `1.`).

func (c *Ctx) SNBTSuffixStrip() []core.Ob {
	lp := c.literalParser()
	o := core.Ob{Rule: "T-SNBT", Key: "suffix-strip", Armed: true, Status: core.OK,
		Want: "with no type suffix, the number text handed to strconv is the whole literal (the last byte is dropped only where it was recognised as a suffix)"}
	if lp == nil {
		o.Status, o.Got = core.Violated, "literal parser not found"
		return []core.Ob{o}
	}
	o.Pos, o.Func = c.P.Pos(lp.Pos()), core.FnName(lp)
	// the suffix variable: compared (==) with the letters F, f, D, d
	votes := map[ssa.Value]int{}
	for _, b := range lp.Blocks {
		for _, in := range b.Instrs {
			if cmp, ok := in.(*ssa.BinOp); ok && cmp.Op == token.EQL {
				if k, ok := constIntVal(cmp.Y); ok && (k == 'F' || k == 'f' || k == 'D' || k == 'd' || k == 'B' || k == 'L') {
					if _, isIdx := cmp.X.(*ssa.Index); !isIdx {
						if _, isIdx2 := cmp.X.(*ssa.UnOp); !isIdx2 {
							votes[cmp.X]++
						}
					}
				}
			}
		}
	}
	var suffix ssa.Value
	for v, n := range votes {
		if _, isParam := v.(*ssa.Parameter); isParam {
			continue
		}
		if suffix == nil || n > votes[suffix] {
			suffix = v
		}
	}
	if suffix == nil {
		o.Got = "no suffix variable recognised (not judged)"
		return []core.Ob{o}
	}
	// slices of the parameter that drop the last byte: x[:n-1]
	var strips []*ssa.Slice
	for _, b := range lp.Blocks {
		for _, in := range b.Instrs {
			sl, ok := in.(*ssa.Slice)
			if !ok || sl.High == nil || len(lp.Params) == 0 || sl.X != ssa.Value(lp.Params[0]) {
				continue
			}
			if sub, ok := sl.High.(*ssa.BinOp); ok && sub.Op == token.SUB {
				if k, ok := constIntVal(sub.Y); ok && k == 1 {
					strips = append(strips, sl)
				}
			}
		}
	}
	if len(strips) == 0 {
		o.Got = "no slice drops the last byte"
		return []core.Ob{o}
	}
	reached := map[*ssa.Slice]bool{}
	c.TLG().ProbeAssume(lp, suffix, AV{P: ivOf(0, 0)}, func(in ssa.Instruction, _ func(ssa.Value) AV, _ func(string) (AV, bool)) {
		if sl, ok := in.(*ssa.Slice); ok {
			for _, s := range strips {
				if s == sl {
					reached[s] = true
				}
			}
		}
	})
	for _, s := range strips {
		if reached[s] {
			o.Status, o.Pos = core.Violated, c.P.Pos(s.Pos())
			o.Got = "with no suffix (the suffix variable 0) the slice that drops the last byte is still reached: `1.5` is parsed as `1.`, `3.14` as `3.1`"
		}
	}
	if o.Status == core.OK {
		o.Got = fmt.Sprintf("%d stripping slices, none reachable without a suffix", len(strips))
	}
	return []core.Ob{o}
}

// ---------------------------------------------------------------------------
// T-SNBT[written-tag-returned]: a text-decoder function that reports which tag
// it wrote (a byte result next to the error) never reports 0 together with a
// nil error: its caller writes that byte into a list header (`[[1],[2]]` got the
// element type TAG_End because the named result was shadowed and never set).

func (c *Ctx) SNBTWrittenTagReturned(pkg string) []core.Ob {
	var obs []core.Ob
	t := c.TLG()
	for _, fn := range c.Funcs() {
		if !inPkgs(fn, pkg) || fn.Signature.Results().Len() != 2 {
			continue
		}
		r0, ok := fn.Signature.Results().At(0).Type().Underlying().(*types.Basic)
		if !ok || r0.Kind() != types.Uint8 || !isErrorType(fn.Signature.Results().At(1).Type()) {
			continue
		}
		// a function of the text decoder: it is handed the decode state (a struct with a scanner in it)
		textDecoder := false
		for _, p := range fn.Params {
			if st, ok := deref(p.Type()).Underlying().(*types.Struct); ok {
				for i := 0; i < st.NumFields(); i++ {
					if n, ok := types.Unalias(st.Field(i).Type()).(*types.Named); ok && n.Obj().Name() == "scanner" {
						textDecoder = true
					}
				}
			}
		}
		if !textDecoder {
			continue
		}
		// ... whose reported tag some caller uses as a tag (hands it to another function as a byte
		// argument: the list header): a helper whose result is only passed up by its caller is judged
		// through that caller
		used := false
		for _, caller := range c.Funcs() {
			if !inPkgs(caller, pkg) {
				continue
			}
			for _, cs := range callsIn(caller, func(_ string, cc *ssa.CallCommon) bool {
				g := cc.StaticCallee()
				return g != nil && core.Origin(g) == core.Origin(fn)
			}) {
				cv, ok := cs.(*ssa.Call)
				if !ok || cv.Referrers() == nil {
					continue
				}
				seen := map[ssa.Value]bool{}
				var flows func(v ssa.Value, d int)
				flows = func(v ssa.Value, d int) {
					if d > 6 || seen[v] || v.Referrers() == nil {
						return
					}
					seen[v] = true
					for _, r := range *v.Referrers() {
						switch x := r.(type) {
						case *ssa.Phi:
							flows(x, d+1)
						case *ssa.Store:
							if al, ok := x.Addr.(*ssa.Alloc); ok && x.Val == v {
								for _, rr := range *al.Referrers() {
									if ld, ok := rr.(*ssa.UnOp); ok && ld.Op == token.MUL {
										flows(ld, d+1)
									}
								}
							}
						case ssa.CallInstruction:
							for _, a := range x.Common().Args {
								if a == v {
									used = true
								}
							}
						}
					}
				}
				for _, r := range *cv.Referrers() {
					if ex, ok := r.(*ssa.Extract); ok && ex.Index == 0 {
						flows(ex, 0)
					}
				}
			}
		}
		if !used {
			continue
		}
		o := core.Ob{Rule: "T-SNBT", Key: "written-tag-returned:" + core.FnName(fn), Pos: c.P.Pos(fn.Pos()), Func: core.FnName(fn), Armed: true, Status: core.OK,
			Want: "where the function can return a nil error, the tag it reports is not 0"}
		t.Probe(fn, func(in ssa.Instruction, eval func(ssa.Value) AV, _ func(string) (AV, bool)) {
			ret, ok := in.(*ssa.Return)
			if !ok || len(ret.Results) != 2 {
				return
			}
			if errKnownNonNil(ret.Results[1], ret.Block()) || t.ProbeErrNonNil(ret.Results[1]) {
				return
			}
			all := eval(ret.Results[0]).all()
			// `return helper(...)`: what the helper reports where its own error may be nil
			if ex0, ok := ret.Results[0].(*ssa.Extract); ok {
				if ex1, ok := ret.Results[1].(*ssa.Extract); ok && ex0.Tuple == ex1.Tuple {
					if call, ok := ex0.Tuple.(*ssa.Call); ok {
						if g := call.Call.StaticCallee(); g != nil {
							if ok := t.retOK[core.Origin(g)]; len(ok) > 0 {
								all = ok[0].all()
							}
						}
					}
				}
			}
			if all == nil || all.contains(bi(0)) {
				o.Status, o.Pos = core.Violated, c.P.Pos(ret.Pos())
				o.Got = "a return that may carry a nil error reports tag 0 (TAG_End): the enclosing list is given the element type of an empty list although it has elements"
			}
		})
		obs = append(obs, o)
	}
	return obs
}

// ---------------------------------------------------------------------------
// T-SCANSTATE[literal-after-begin]: the text decoder consumes a literal
// (scanWhile(scanContinue)) only where the scanner's last answer was "a literal
// begins": the opcode was compared with scanBeginLiteral on the way and nothing
// was scanned since. After a comma inside a list of literals the next element
// may be `{` or `[`; taking it for a literal writes the bracket as a string.

func (c *Ctx) SNBTLiteralAfterBegin(pkg string) []core.Ob {
	var obs []core.Ob
	var cont, begin *big.Int
	for _, pk := range c.P.Pkgs {
		if core.Rel(pk.PkgPath) == pkg {
			for name, dst := range map[string]**big.Int{"scanContinue": &cont, "scanBeginLiteral": &begin} {
				if k, ok := pk.Types.Scope().Lookup(name).(*types.Const); ok {
					if v, ok := constantInt64(k); ok {
						*dst = bi(v)
					}
				}
			}
		}
	}
	if cont == nil || begin == nil {
		return []core.Ob{{Rule: "T-SCANSTATE", Key: "literal-after-begin:anchor", Armed: true, Status: core.Violated, Want: "the scan codes scanContinue and scanBeginLiteral exist", Got: "not found"}}
	}
	isScan := func(in ssa.Instruction) (ssa.CallInstruction, bool) {
		ci, ok := in.(ssa.CallInstruction)
		if !ok {
			return nil, false
		}
		g := ci.Common().StaticCallee()
		if g == nil || g.Signature.Recv() == nil || !inPkgs(g, pkg) {
			return nil, false
		}
		return ci, g.Name() == "scanWhile" || g.Name() == "scanNext"
	}
	// must-dataflow over the set of scan codes the scanner's last answer can be at each instruction.
	// A scan call makes it "any"; a comparison of the opcode field with a scan code narrows it on both
	// edges; paths meet with union. The literal may be consumed where the set is {scanBeginLiteral}.
	// entry: the set assumed at the function's entry (all codes, or just scanBeginLiteral).
	var universe []int64
	for _, pk := range c.P.Pkgs {
		if core.Rel(pk.PkgPath) == pkg {
			for _, name := range pk.Types.Scope().Names() {
				if k, ok := pk.Types.Scope().Lookup(name).(*types.Const); ok && strings.HasPrefix(name, "scan") {
					if v, ok := constantInt64(k); ok {
						universe = append(universe, v)
					}
				}
			}
		}
	}
	type codeSet map[int64]bool
	full := func() codeSet {
		m := codeSet{}
		for _, v := range universe {
			m[v] = true
		}
		return m
	}
	union := func(a, b codeSet) codeSet {
		m := codeSet{}
		for k := range a {
			m[k] = true
		}
		for k := range b {
			m[k] = true
		}
		return m
	}
	same := func(a, b codeSet) bool {
		if len(a) != len(b) {
			return false
		}
		for k := range a {
			if !b[k] {
				return false
			}
		}
		return true
	}
	// an asserting helper: d.expect(code) panics unless the opcode is code. Returns the index of the
	// argument that carries the code.
	asserts := func(in ssa.Instruction) (int64, bool) {
		ci, ok := in.(ssa.CallInstruction)
		if !ok {
			return 0, false
		}
		g := ci.Common().StaticCallee()
		if g == nil || !inPkgs(g, pkg) || len(g.Blocks) == 0 || len(g.Blocks) > 4 {
			return 0, false
		}
		for _, b := range g.Blocks {
			if len(b.Succs) != 2 {
				continue
			}
			iff, isIf := b.Instrs[len(b.Instrs)-1].(*ssa.If)
			if !isIf {
				continue
			}
			cmp, isCmp := iff.Cond.(*ssa.BinOp)
			if !isCmp || (cmp.Op != token.NEQ && cmp.Op != token.EQL) {
				continue
			}
			ld, isLd := cmp.X.(*ssa.UnOp)
			p, isP := cmp.Y.(*ssa.Parameter)
			if !isLd || !isP || ld.Op != token.MUL {
				continue
			}
			if _, isField := ld.X.(*ssa.FieldAddr); !isField {
				continue
			}
			bad := b.Succs[0] // NEQ: the unequal edge
			if cmp.Op == token.EQL {
				bad = b.Succs[1]
			}
			if _, isPanic := bad.Instrs[len(bad.Instrs)-1].(*ssa.Panic); !isPanic {
				continue
			}
			for i, q := range g.Params {
				if q == p && i < len(ci.Common().Args) {
					if kv, ok := constIntVal(ci.Common().Args[i]); ok {
						return kv, true
					}
				}
			}
		}
		return 0, false
	}
	knownAt := func(fn *ssa.Function, entryKnown bool) map[ssa.Instruction]bool {
		// the comparison an If branches on: opcode == K / != K (possibly computed earlier and kept in a bool)
		testOf := func(b *ssa.BasicBlock) (k int64, eq bool, ok bool) {
			if len(b.Succs) != 2 {
				return 0, false, false
			}
			iff, isIf := b.Instrs[len(b.Instrs)-1].(*ssa.If)
			if !isIf {
				return 0, false, false
			}
			cmp, isCmp := iff.Cond.(*ssa.BinOp)
			if !isCmp || (cmp.Op != token.EQL && cmp.Op != token.NEQ) {
				return 0, false, false
			}
			kv, isK := constIntVal(cmp.Y)
			ld, isLd := cmp.X.(*ssa.UnOp)
			if !isK || !isLd || ld.Op != token.MUL {
				return 0, false, false
			}
			if _, isField := ld.X.(*ssa.FieldAddr); !isField {
				return 0, false, false
			}
			return kv, cmp.Op == token.EQL, true
		}
		in := map[*ssa.BasicBlock]codeSet{}
		entry := full()
		if entryKnown {
			entry = codeSet{begin.Int64(): true}
		}
		in[fn.Blocks[0]] = entry
		out := func(b *ssa.BasicBlock, succIdx int) codeSet {
			st, ok := in[b]
			if !ok {
				return nil // not reached yet
			}
			for _, x := range b.Instrs {
				if _, s := isScan(x); s {
					st = full()
				}
				if k, ok := asserts(x); ok {
					st = codeSet{k: true}
				}
			}
			if k, eq, ok := testOf(b); ok {
				keep := (succIdx == 0) == eq // this edge is the "equal" edge
				m := codeSet{}
				for v := range st {
					if (v == k) == keep {
						m[v] = true
					}
				}
				return m
			}
			return st
		}
		for changed, rounds := true, 0; changed && rounds < 50; rounds++ {
			changed = false
			for _, b := range fn.Blocks[1:] {
				var acc codeSet
				for _, p := range b.Preds {
					idx := 0
					for k, sx := range p.Succs {
						if sx == b {
							idx = k
						}
					}
					if o := out(p, idx); o != nil {
						if acc == nil {
							acc = o
						} else {
							acc = union(acc, o)
						}
					}
				}
				if acc == nil {
					continue
				}
				if old, ok := in[b]; !ok || !same(old, acc) {
					in[b] = acc
					changed = true
				}
			}
		}
		res := map[ssa.Instruction]bool{}
		for _, b := range fn.Blocks {
			st, ok := in[b]
			if !ok {
				continue
			}
			for _, x := range b.Instrs {
				res[x] = len(st) == 1 && st[begin.Int64()]
				if _, s := isScan(x); s {
					st = full()
				}
				if k, ok := asserts(x); ok {
					st = codeSet{k: true}
				}
			}
		}
		return res
	}
	var establishedAtCallers func(fn *ssa.Function, depth int) (int, bool)
	establishedAtCallers = func(fn *ssa.Function, depth int) (int, bool) {
		if depth > 3 || (fn.Object() != nil && fn.Object().Exported()) {
			return 0, false
		}
		n := 0
		for _, caller := range c.Funcs() {
			if !inPkgs(caller, pkg) {
				continue
			}
			var ck, ca map[ssa.Instruction]bool
			for _, cs := range callsIn(caller, func(_ string, cc *ssa.CallCommon) bool {
				g := cc.StaticCallee()
				return g != nil && core.Origin(g) == core.Origin(fn)
			}) {
				if ck == nil {
					ck, ca = knownAt(caller, false), knownAt(caller, true)
				}
				n++
				site := cs.(ssa.Instruction)
				if ck[site] {
					continue
				}
				if ca[site] {
					if _, ok := establishedAtCallers(core.Origin(caller), depth+1); ok {
						continue
					}
				}
				return n, false
			}
		}
		return n, n > 0
	}
	for _, fn := range c.Funcs() {
		if !inPkgs(fn, pkg) {
			continue
		}
		k := 0
		var plain, assumed map[ssa.Instruction]bool
		for _, b := range fn.Blocks {
			for _, in := range b.Instrs {
				ci, ok := isScan(in)
				if !ok || ci.Common().StaticCallee().Name() != "scanWhile" || len(ci.Common().Args) != 2 {
					continue
				}
				if kv, ok := constIntVal(ci.Common().Args[1]); !ok || kv != cont.Int64() {
					continue
				}
				k++
				o := core.Ob{Rule: "T-SCANSTATE", Key: fmt.Sprintf("literal-after-begin:%s#%d", core.FnName(fn), k), Pos: c.P.Pos(ci.Pos()), Func: core.FnName(fn), Armed: true, Status: core.OK,
					Want: "a literal is consumed only where, on every path, the scanner's last answer was found to be scanBeginLiteral and nothing was scanned since"}
				if plain == nil {
					plain, assumed = knownAt(fn, false), knownAt(fn, true)
				}
				okSite := plain[in]
				if !okSite && assumed[in] {
					// a helper that consumes the literal for its callers: every call site has established it
					// (or sits in a helper of the same kind, up to three levels)
					if n, ok := establishedAtCallers(fn, 0); ok {
						okSite = true
						o.Got = fmt.Sprintf("established at all %d call sites of this helper", n)
					}
				}
				if !okSite {
					o.Status, o.Got = core.Violated, "the literal is consumed without the scanner having answered scanBeginLiteral since its last step on every path: a `{` or `[` at this place is read as a one-character string (or puts decoder and scanner out of step)"
				}
				obs = append(obs, o)
			}
		}
	}
	return obs
}

func blockReachesAvoiding(from, to, avoid *ssa.BasicBlock) bool {
	if from == to {
		return true
	}
	seen := map[*ssa.BasicBlock]bool{}
	if avoid != nil {
		seen[avoid] = true
	}
	work := append([]*ssa.BasicBlock(nil), from.Succs...)
	for len(work) > 0 {
		b := work[0]
		work = work[1:]
		if seen[b] {
			continue
		}
		seen[b] = true
		if b == to {
			return true
		}
		work = append(work, b.Succs...)
	}
	return false
}

func constantInt64(k *types.Const) (int64, bool) {
	s := k.Val().ExactString()
	var v int64
	if _, err := fmt.Sscan(s, &v); err != nil {
		return 0, false
	}
	return v, true
}

// ---------------------------------------------------------------------------
// T-SCANSTATE[escape-set]: the literal parser un-escapes a quoted string by
// dropping the backslash and keeping the byte behind it. So the only escapes
// the scanner may let through are those that mean the byte itself: the
// backslash and the quotation marks. An escape state that also accepts n, t, b,
// f, r or / (the JSON set) lets `"a\nb"` in, which comes out as `anb`.

func (c *Ctx) ScannerEscapeSet(pkg string) []core.Ob {
	var obs []core.Ob
	lp := c.literalParser()
	if lp != nil {
		// a parser that translates escapes (mentions the letter n as a constant) is a different contract
		for _, b := range lp.Blocks {
			for _, in := range b.Instrs {
				if cmp, ok := in.(*ssa.BinOp); ok && cmp.Op == token.EQL {
					if k, ok := constIntVal(cmp.Y); ok && k == 'n' {
						return []core.Ob{{Rule: "T-SCANSTATE", Key: "escape-set", Armed: true, Status: core.OK, Want: "escape states accept what the literal parser decodes", Got: "the literal parser translates escapes itself (not judged)"}}
					}
				}
			}
		}
	}
	for _, ob := range c.ScannerDetours(pkg) {
		name, ok := strings.CutSuffix(ob.Key, ":detour-returns")
		if !ok {
			continue
		}
		fn := c.Fn(name)
		if fn == nil || len(fn.Params) != 2 {
			continue
		}
		var accepted []string
		sizes := c.TLG().sizesOf(fn)
		for ch := int64(0); ch < 256; ch++ {
			ev := &skelEval{c: c, sizes: sizes}
			stored := false
			ev.onInstr = func(in ssa.Instruction, _ func(ssa.Value) *big.Int) {
				if st, ok := in.(*ssa.Store); ok {
					if fa, ok := st.Addr.(*ssa.FieldAddr); ok && fa.X == ssa.Value(fn.Params[0]) {
						if _, isFn := st.Val.(*ssa.Function); isFn {
							stored = true
						}
					}
				}
			}
			_, _ = ev.run(fn, []*big.Int{nil, bi(ch)})
			if stored && ch != '\\' && ch != '"' && ch != '\'' {
				accepted = append(accepted, fmt.Sprintf("%q", rune(ch)))
			}
		}
		o := core.Ob{Rule: "T-SCANSTATE", Key: "escape-set:" + name, Pos: c.P.Pos(fn.Pos()), Func: name, Armed: true, Status: core.OK,
			Want: "an escape state lets through only the backslash and the quotation marks (the literal parser keeps the escaped byte as it is)"}
		if len(accepted) > 0 {
			o.Status, o.Got = core.Violated, "also accepted after a backslash: "+strings.Join(accepted, " ")+": the parser turns these escapes into the plain letters"
		}
		obs = append(obs, o)
	}
	return obs
}

// ---------------------------------------------------------------------------
// R-TRUNC[length-prefix]: a length that is written as a 16-bit prefix is
// compared with a bound first (and the value refused): int16(len(s)) of a
// 70000-byte string is 4464, the prefix says 4464 and 70000 bytes follow - the
// rest of the stream is read as garbage.

func (c *Ctx) LengthPrefixNarrowing(pkgs ...string) []core.Ob {
	var obs []core.Ob
	for _, fn := range c.Funcs() {
		if !inPkgs(fn, pkgs...) {
			continue
		}
		k := 0
		for _, b := range fn.Blocks {
			for _, in := range b.Instrs {
				cv, ok := in.(*ssa.Convert)
				if !ok {
					continue
				}
				bt, ok := cv.Type().Underlying().(*types.Basic)
				if !ok || (bt.Kind() != types.Int16 && bt.Kind() != types.Uint16) {
					continue
				}
				lc, ok := stripConv(cv.X).(*ssa.Call)
				if !ok {
					continue
				}
				if bi, isB := lc.Call.Value.(*ssa.Builtin); !isB || bi.Name() != "len" || len(lc.Call.Args) != 1 {
					continue
				}
				subject := lc.Call.Args[0]
				k++
				o := core.Ob{Rule: "R-TRUNC", Key: fmt.Sprintf("%s#length-prefix%d", core.FnName(fn), k), Pos: c.P.Pos(cv.Pos()), Func: core.FnName(fn), Armed: true, Status: core.OK,
					Want: "a length narrowed to 16 bits for a prefix was compared with a bound before (longer values are refused)"}
				guarded := false
				for _, d := range fn.Blocks {
					// (the comparison need not dominate the conversion itself - the narrowed value may be
					// prepared first and written only behind the check - but it has to be in this function)
					if len(d.Succs) != 2 {
						continue
					}
					iff, isIf := d.Instrs[len(d.Instrs)-1].(*ssa.If)
					if !isIf {
						continue
					}
					cmp, isCmp := iff.Cond.(*ssa.BinOp)
					if !isCmp {
						continue
					}
					for _, side := range []ssa.Value{cmp.X, cmp.Y} {
						if l2, ok := stripConv(side).(*ssa.Call); ok {
							if bi, isB := l2.Call.Value.(*ssa.Builtin); isB && bi.Name() == "len" && len(l2.Call.Args) == 1 && sameValue(l2.Call.Args[0], subject) {
								// one edge leaves the function with an error
								for i := range d.Succs {
									if leavesFunc(d.Succs[i]) && len(d.Succs[i].Preds) == 1 && failsOnly(d.Succs[i]) {
										guarded = true
									}
								}
							}
						}
					}
				}
				if !guarded {
					o.Status, o.Got = core.Violated, "len() is cut to 16 bits without a bound check: a value longer than the prefix can say is written with a wrapped length and the document is malformed"
				}
				obs = append(obs, o)
			}
		}
	}
	return obs
}

// ---------------------------------------------------------------------------
// R-REFLKIND[set-exact-type]: reflect.Value.Set(reflect.ValueOf(x)) with x of a
// predeclared type needs the target to be of exactly that type (or an
// interface). A decoder that picks the branch by the target's Kind() reaches it
// for every named type of that kind as well (type Health float32) and panics
// there; SetFloat / SetInt / SetUint / Convert do not. For every such call the
// kinds under which it is reachable are computed (the tag switch on Kind() is
// followed by the interval interpreter with the kind assumed).

func (c *Ctx) SetExactType(pkg string, fnNames ...string) []core.Ob {
	var obs []core.Ob
	t := c.TLG()
	for _, name := range fnNames {
		fn := c.Fn(name)
		if fn == nil {
			obs = append(obs, core.Ob{Rule: "R-REFLKIND", Key: "set-exact-type:" + name, Armed: true, Status: core.Violated, Want: name + " exists", Got: "not found"})
			continue
		}
		type site struct {
			call *ssa.Call
			kind *ssa.Call // the Kind() call on the same Value that dominates it
			typ  string
		}
		var sites []site
		for _, b := range fn.Blocks {
			for _, in := range b.Instrs {
				call, ok := in.(*ssa.Call)
				if !ok || calleeName(call.Common()) != "reflect.(Value).Set" || len(call.Call.Args) != 2 {
					continue
				}
				vo, ok := call.Call.Args[1].(*ssa.Call)
				if !ok || calleeName(vo.Common()) != "reflect.ValueOf" || len(vo.Call.Args) != 1 {
					continue
				}
				mi, ok := vo.Call.Args[0].(*ssa.MakeInterface)
				if !ok {
					continue
				}
				if _, isBasic := mi.X.Type().(*types.Basic); !isBasic {
					continue // a value of a named or composite type: assignable only to that very type anyway
				}
				// the Kind() call on the target that dominates the site
				var kc *ssa.Call
				for _, d := range fn.Blocks {
					if !(d == b || d.Dominates(b)) {
						continue
					}
					for _, x := range d.Instrs {
						if c2, ok := x.(*ssa.Call); ok && calleeName(c2.Common()) == "reflect.(Value).Kind" && sameReflectValue(c2.Call.Args[0], call.Call.Args[0]) {
							kc = c2
						}
					}
				}
				if kc == nil {
					// the kind of the target's (element) type asked through reflect.Type: the nearest one on the way
					for _, d := range fn.Blocks {
						if !(d == b || d.Dominates(b)) {
							continue
						}
						for _, x := range d.Instrs {
							if c2, ok := x.(*ssa.Call); ok && c2.Call.IsInvoke() && c2.Call.Method.Name() == "Kind" && c2.Referrers() != nil {
								cmpd := false
								for _, r := range *c2.Referrers() {
									if _, isCmp := r.(*ssa.BinOp); isCmp {
										cmpd = true
									}
								}
								if cmpd && (kc == nil || kc.Block().Dominates(c2.Block())) {
									kc = c2
								}
							}
						}
					}
				}
				if kc == nil {
					continue
				}
				sites = append(sites, site{call, kc, mi.X.Type().String()})
			}
		}
		for i, s := range sites {
			o := core.Ob{Rule: "R-REFLKIND", Key: fmt.Sprintf("set-exact-type:%s#%d", name, i+1), Pos: c.P.Pos(s.call.Pos()), Func: core.FnName(fn), Armed: true, Status: core.OK,
				Want: "Set(reflect.ValueOf(x)) with x of type " + s.typ + " is reachable only for interface targets (named types of that kind need SetInt / SetUint / SetFloat / Convert)"}
			var bad []string
			for k := reflect.Bool; k <= reflect.UnsafePointer; k++ {
				if k == reflect.Interface {
					continue
				}
				reached := false
				t.ProbeAssume(fn, s.kind, AV{P: ivOf(int64(k), int64(k))}, func(in ssa.Instruction, _ func(ssa.Value) AV, _ func(string) (AV, bool)) {
					if in == ssa.Instruction(s.call) {
						reached = true
					}
				})
				if reached {
					bad = append(bad, k.String())
				}
			}
			if len(bad) > 0 && len(bad) < 20 {
				o.Status, o.Got = core.Violated, "reachable for targets of kind "+strings.Join(bad, ", ")+": a named type of that kind (type T "+s.typ+") makes Set panic - value of type "+s.typ+" is not assignable to type T"
			} else if len(bad) >= 20 {
				o.Got = "not selected by the target's kind (not judged)"
			}
			obs = append(obs, o)
		}
	}
	return obs
}

// ---------------------------------------------------------------------------
// R-MARSHALER[array-tag-from-plain-elements]: the tag chooser turns a slice
// into TagByteArray / TagIntArray / TagLongArray according to the tag of its
// first element. Where that tag is what the element itself reports through the
// recursive call (a Marshaler's TagType(): a RawMessage that carries an Int),
// the element is not a number: the choice of an array tag lies behind a test
// that the element does not implement Marshaler.

func (c *Ctx) ArrayTagFromPlainElements(fnName string) []core.Ob {
	o := core.Ob{Rule: "R-MARSHALER", Key: "array-tag-from-plain-elements:" + fnName, Armed: true, Status: core.OK,
		Want: "a typed-array tag is chosen from the first element's tag only where that element was found not to be a Marshaler"}
	fn := c.Fn(fnName)
	if fn == nil {
		o.Status, o.Got = core.Violated, fnName+" not found"
		return []core.Ob{o}
	}
	o.Pos, o.Func = c.P.Pos(fn.Pos()), core.FnName(fn)
	// returns of the array tags 7, 11, 12
	n := 0
	for _, b := range fn.Blocks {
		ret, ok := b.Instrs[len(b.Instrs)-1].(*ssa.Return)
		if !ok || len(ret.Results) == 0 {
			continue
		}
		kv, isK := constIntVal(ret.Results[0])
		if !isK || (kv != 7 && kv != 11 && kv != 12) {
			continue
		}
		n++
		// the switch value that led here: compared with a scalar tag in a dominating block
		for _, d := range fn.Blocks {
			if len(d.Succs) != 2 || !d.Dominates(b) {
				continue
			}
			iff, isIf := d.Instrs[len(d.Instrs)-1].(*ssa.If)
			if !isIf {
				continue
			}
			cmp, isCmp := iff.Cond.(*ssa.BinOp)
			if !isCmp || cmp.Op != token.EQL || d.Succs[0] != b {
				continue
			}
			// does the compared value come out of the recursive call?
			fromSelf := false
			seen := map[ssa.Value]bool{}
			var walk func(v ssa.Value)
			walk = func(v ssa.Value) {
				if seen[v] {
					return
				}
				seen[v] = true
				switch x := v.(type) {
				case *ssa.Phi:
					for _, e := range x.Edges {
						walk(e)
					}
				case *ssa.Extract:
					if call, ok := x.Tuple.(*ssa.Call); ok && call.Call.StaticCallee() != nil && core.Origin(call.Call.StaticCallee()) == fn {
						fromSelf = true
					}
				}
			}
			walk(cmp.X)
			if !fromSelf {
				continue
			}
			// the element is asked whether it is a Marshaler after the recursive call, and where it is
			// (the comma-ok assertion succeeded) no array tag can be returned any more
			guarded := false
			for _, g := range fn.Blocks {
				if len(g.Succs) != 2 {
					continue
				}
				gi, isIf := g.Instrs[len(g.Instrs)-1].(*ssa.If)
				if !isIf {
					continue
				}
				if ex, ok := gi.Cond.(*ssa.Extract); ok && ex.Index == 1 {
					if ta, ok := ex.Tuple.(*ssa.TypeAssert); ok && ta.CommaOk {
						if nm, ok := types.Unalias(ta.AssertedType).(*types.Named); ok && nm.Obj().Name() == "Marshaler" {
							// ... and what is asked is the element: the value the recursive call handed back
							aboutElem := false
							if ic, ok := ta.X.(*ssa.Call); ok && len(ic.Call.Args) > 0 {
								recv := ic.Call.Args[0]
								if ld, ok := recv.(*ssa.UnOp); ok && ld.Op == token.MUL {
									if al, ok := ld.X.(*ssa.Alloc); ok {
										if sv := singleStore(al); sv != nil {
											recv = sv
										}
									}
								}
								if ex2, ok := recv.(*ssa.Extract); ok {
									if rc, ok := ex2.Tuple.(*ssa.Call); ok && rc.Call.StaticCallee() != nil && core.Origin(rc.Call.StaticCallee()) == fn {
										aboutElem = true
									}
								}
							}
							if aboutElem && g.Succs[0] != b && !blockReachesAvoiding(g.Succs[0], b, nil) && blockReachesAvoiding(g.Succs[1], b, nil) {
								guarded = true
							}
						}
					}
				}
			}
			if !guarded {
				o.Status, o.Pos = core.Violated, c.P.Pos(ret.Pos())
				o.Got = "the array tag is chosen from the tag the first element reports about itself: a slice of carriers (RawMessage, dynbt.Value) that hold bytes, ints or longs is announced as a typed array and then cannot be written"
			}
		}
	}
	if n == 0 && o.Status == core.OK {
		o.Got = "no typed-array tag is returned here (not judged)"
	}
	return []core.Ob{o}
}

// ---------------------------------------------------------------------------
// R-ORDER[fix:refusal-changes-nothing]: BitStorage.Fix either installs the new
// width or refuses - a call that returns an error has not assigned any field of
// the storage on its way (the length is checked first). Otherwise a refused
// Fix leaves a storage whose width no longer matches its data: Get returns
// other values, indexes in range run off the array.

func (c *Ctx) FixRefusalChangesNothing() []core.Ob {
	o := core.Ob{Rule: "R-ORDER", Key: "BitStorage.Fix:refusal-changes-nothing", Armed: true, Status: core.OK,
		Want: "no path of Fix assigns a field of the storage and then returns an error"}
	fx := c.Fn("level.(*BitStorage).Fix")
	if fx == nil {
		o.Status, o.Got = core.Violated, "level.(*BitStorage).Fix not found"
		return []core.Ob{o}
	}
	o.Pos, o.Func = c.P.Pos(fx.Pos()), core.FnName(fx)
	v := c.inlineView(fx, 1)
	n := 0
	for _, nd := range v.nodes {
		st, ok := nd.in.(*ssa.Store)
		if !ok {
			continue
		}
		f := v.recvField(nd, st.Addr)
		if f == "" {
			continue
		}
		n++
		// an error return of the root reachable from the store
		for _, r := range v.nodes {
			ret, ok := r.in.(*ssa.Return)
			if !ok || r.frame.parent != nil || len(ret.Results) == 0 {
				continue
			}
			last := ret.Results[len(ret.Results)-1]
			if isNilConst(last) {
				continue
			}
			if v.reachAvoidingErrAware(nd.id, r.id, nil) {
				o.Status, o.Pos = core.Violated, c.P.Pos(st.Pos())
				o.Got = "the field " + f + " is assigned at " + c.P.Pos(st.Pos()) + " and the error return at " + c.P.Pos(ret.Pos()) + " can follow: a refused Fix has already changed the storage"
			}
		}
	}
	if n == 0 && o.Status == core.OK {
		o.Status, o.Got = core.Violated, "Fix assigns no field of the storage"
	}
	return []core.Ob{o}
}

func sortFns(fns []*ssa.Function) {
	for i := 1; i < len(fns); i++ {
		for j := i; j > 0 && core.FnName(fns[j]) < core.FnName(fns[j-1]); j-- {
			fns[j], fns[j-1] = fns[j-1], fns[j]
		}
	}
}

// ---------------------------------------------------------------------------
// R-NILMAP[field-map-update]: an assignment into a map that lives in a field
// of the receiver panics when the map is nil. Where a method does that in
// response to something the peer sends, the map is known to exist: the update
// is dominated by a nil test of the field that makes the map, or every
// function of the package that builds a value of the struct type (a composite
// literal with other fields set) sets this field too.

func (c *Ctx) FieldMapUpdates(pkg string) []core.Ob {
	var obs []core.Ob
	// constructors: functions of the package that store into at least two fields of a fresh value of a struct type
	type key struct {
		t *types.Named
		f int
	}
	builds := map[*types.Named][]*ssa.Function{}
	sets := map[*ssa.Function]map[key]bool{}
	for _, fn := range c.Funcs() {
		if !inPkgs(fn, pkg) {
			continue
		}
		per := map[*ssa.Alloc]map[int]bool{}
		for _, b := range fn.Blocks {
			for _, in := range b.Instrs {
				st, ok := in.(*ssa.Store)
				if !ok {
					continue
				}
				fa, ok := st.Addr.(*ssa.FieldAddr)
				if !ok {
					continue
				}
				al, ok := fa.X.(*ssa.Alloc)
				if !ok {
					continue
				}
				if per[al] == nil {
					per[al] = map[int]bool{}
				}
				per[al][fa.Field] = true
			}
		}
		for al, fs := range per {
			nt, ok := types.Unalias(deref(al.Type())).(*types.Named)
			if !ok {
				continue
			}
			// a value with one field set is a constructor only of a one-field struct
			if sx, isS := nt.Underlying().(*types.Struct); !isS || len(fs) < 2 && sx.NumFields() > 1 {
				continue
			}
			builds[nt] = append(builds[nt], fn)
			if sets[fn] == nil {
				sets[fn] = map[key]bool{}
			}
			for f := range fs {
				sets[fn][key{nt, f}] = true
			}
		}
	}
	for _, fn := range c.Funcs() {
		if !inPkgs(fn, pkg) || len(fn.Params) == 0 {
			continue
		}
		k := 0
		for _, b := range fn.Blocks {
			for _, in := range b.Instrs {
				mu, ok := in.(*ssa.MapUpdate)
				if !ok {
					continue
				}
				ld, ok := mu.Map.(*ssa.UnOp)
				if !ok || ld.Op != token.MUL {
					continue
				}
				fa, ok := ld.X.(*ssa.FieldAddr)
				if !ok {
					continue
				}
				nt, ok := types.Unalias(deref(fa.X.Type())).(*types.Named)
				if !ok {
					continue
				}
				st, ok := nt.Underlying().(*types.Struct)
				if !ok {
					continue
				}
				k++
				o := core.Ob{Rule: "R-NILMAP", Key: fmt.Sprintf("%s#update%d:%s.%s", core.FnName(fn), k, nt.Obj().Name(), st.Field(fa.Field).Name()), Pos: c.P.Pos(mu.Pos()), Func: core.FnName(fn), Armed: true, Status: core.OK,
					Want: "the map in field " + st.Field(fa.Field).Name() + " exists where it is assigned into: made behind a nil test here, or set by every function that builds a " + nt.Obj().Name()}
				// made in this function on the way (a store of a MakeMap into the same field that dominates)
				local := false
				for _, d := range fn.Blocks {
					for _, x := range d.Instrs {
						if s2, ok := x.(*ssa.Store); ok {
							if fa2, ok := s2.Addr.(*ssa.FieldAddr); ok && fa2.Field == fa.Field && sameValue(fa2.X, fa.X) {
								if _, isMk := s2.Val.(*ssa.MakeMap); isMk {
									local = true
								}
							}
						}
					}
				}
				if local {
					o.Got = "made in this function when nil"
					obs = append(obs, o)
					continue
				}
				var missing []string
				for _, ctor := range builds[nt] {
					if !sets[ctor][key{nt, fa.Field}] {
						missing = append(missing, core.FnName(ctor))
					}
				}
				if len(builds[nt]) == 0 {
					o.Got = "no function of the package builds the type (not judged)"
				} else if len(missing) > 0 {
					sort.Strings(missing)
					o.Status, o.Got = core.Violated, "assigned into without a nil test, and "+strings.Join(missing, ", ")+" builds a "+nt.Obj().Name()+" without this map: the first assignment panics (assignment to entry in nil map)"
				}
				obs = append(obs, o)
			}
		}
	}
	return obs
}
