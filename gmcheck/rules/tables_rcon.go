package rules

import (
	"fmt"
	"go/token"
	"go/types"
	"sort"
	"strings"

	"gmcheck/core"

	"golang.org/x/tools/go/ssa"
)

// sumConsts: v = (something non-constant) + K: returns K (sum of the constant
// addends) and whether a len(...) term is present.
func sumConsts(v ssa.Value) (k int64, hasLen bool, ok bool) {
	v = stripConv(v)
	switch x := v.(type) {
	case *ssa.Const:
		n, ok := constIntVal(x)
		return n, false, ok
	case *ssa.BinOp:
		if x.Op != token.ADD && x.Op != token.SUB {
			return 0, false, false
		}
		a, la, oka := sumConsts(x.X)
		b, lb, okb := sumConsts(x.Y)
		if !oka || !okb {
			return 0, false, false
		}
		if x.Op == token.SUB {
			if lb {
				return 0, false, false
			}
			b = -b
		}
		return a + b, la || lb, true
	case *ssa.Call:
		if bi, ok := x.Common().Value.(*ssa.Builtin); ok && bi.Name() == "len" {
			return 0, true, true
		}
	case *ssa.UnOp:
		if x.Op == token.MUL {
			// a loaded variable: treated as the variable term
			return 0, true, true
		}
	}
	return 0, false, false
}

// RCONFrame implements T-RCONFRAME and the rcon part of T-ENDIAN.
func (c *Ctx) RCONFrame() []core.Ob {
	mk := func(key, want string, fn *ssa.Function) core.Ob {
		o := core.Ob{Rule: "T-RCONFRAME", Key: key, Want: want, Armed: true, Status: core.OK}
		if fn != nil {
			o.Pos, o.Func = c.P.Pos(fn.Pos()), core.FnName(fn)
		}
		return o
	}
	w, r := c.Fn("net.(*RCONConn).WritePacket"), c.Fn("net.(*RCONConn).ReadPacket")
	if w == nil || r == nil {
		o := mk("functions", "RCONConn.WritePacket and ReadPacket exist", nil)
		o.Status, o.Got = core.Violated, "not found"
		return []core.Ob{o}
	}
	var obs []core.Ob
	// ---- writer: the []any literal
	type el struct {
		idx   int64
		width int64 // -1 dynamic
		val   ssa.Value
	}
	var els []el
	for _, b := range w.Blocks {
		for _, in := range b.Instrs {
			st, ok := in.(*ssa.Store)
			if !ok {
				continue
			}
			ia, ok := st.Addr.(*ssa.IndexAddr)
			if !ok {
				continue
			}
			al, ok := ia.X.(*ssa.Alloc)
			if !ok {
				continue
			}
			arr, ok := deref(al.Type()).Underlying().(*types.Array)
			if !ok {
				continue
			}
			if _, isIface := arr.Elem().Underlying().(*types.Interface); !isIface {
				continue
			}
			idx, ok := constIntVal(ia.Index)
			if !ok {
				continue
			}
			mi, ok := st.Val.(*ssa.MakeInterface)
			if !ok {
				continue
			}
			e := el{idx: idx, width: -1, val: mi.X}
			switch t := mi.X.Type().Underlying().(type) {
			case *types.Basic:
				switch t.Kind() {
				case types.Int32, types.Uint32:
					e.width = 4
				case types.Int16, types.Uint16:
					e.width = 2
				case types.Int64, types.Uint64:
					e.width = 8
				case types.Int8, types.Uint8:
					e.width = 1
				}
			case *types.Slice:
				if sl, ok := mi.X.(*ssa.Slice); ok {
					if a, ok := deref(sl.X.Type()).Underlying().(*types.Array); ok {
						e.width = a.Len()
					}
				}
			}
			els = append(els, e)
		}
	}
	sort.Slice(els, func(i, j int) bool { return els[i].idx < els[j].idx })
	wo := mk("writer-layout", "WritePacket emits [int32 length][int32 id][int32 type][payload][2 zero bytes] and the length field counts exactly the bytes that follow it", w)
	var widths []string
	fixedBefore, fixedAfter, dyn := int64(0), int64(0), 0
	for i, e := range els {
		widths = append(widths, fmt.Sprint(e.width))
		if i == 0 {
			continue
		}
		if e.width < 0 {
			dyn++
			continue
		}
		if dyn == 0 {
			fixedBefore += e.width
		} else {
			fixedAfter += e.width
		}
	}
	K, hasLen, okK := int64(0), false, false
	if len(els) > 0 {
		K, hasLen, okK = sumConsts(els[0].val)
	}
	switch {
	case len(els) < 4 || dyn != 1 || els[0].width != 4:
		wo.Status, wo.Got = core.Violated, "element widths ["+strings.Join(widths, ",")+"]: not one 4-byte length, fixed header, one payload, fixed trailer"
	case !okK || !hasLen:
		wo.Status, wo.Got = core.Violated, "the length field is not len(payload) plus a constant"
	case K != fixedBefore+fixedAfter:
		wo.Status, wo.Got = core.Violated, fmt.Sprintf("length field = len(payload)+%d but %d fixed bytes follow it (header %d + trailer %d)", K, fixedBefore+fixedAfter, fixedBefore, fixedAfter)
	default:
		wo.Got = fmt.Sprintf("widths [%s], length = len(payload)+%d", strings.Join(widths, ","), K)
	}
	obs = append(obs, wo)

	// ---- reader: minimum test and slice offsets
	ro := mk("reader-matches-writer", "ReadPacket's minimum length and its slice offsets equal the writer's fixed header (id+type) and trailer sizes", r)
	minC, maxC := int64(-1), int64(-1)
	var lows []int64
	trailer := int64(-1)
	for _, b := range r.Blocks {
		for _, in := range b.Instrs {
			switch x := in.(type) {
			case *ssa.If:
				if cmp, ok := x.Cond.(*ssa.BinOp); ok {
					if k, ok := constIntVal(cmp.Y); ok {
						if _, isLoad := stripConv(cmp.X).(*ssa.UnOp); isLoad {
							switch cmp.Op {
							case token.LSS:
								minC = k
							case token.GTR:
								maxC = k
							}
						}
					}
				}
			case *ssa.Slice:
				if _, isStr := x.Type().Underlying().(*types.Basic); isStr {
					continue
				}
				lo := int64(0)
				if x.Low != nil {
					if k, ok := constIntVal(x.Low); ok {
						lo = k
					}
				}
				if x.High != nil {
					if _, ok := constIntVal(x.High); !ok {
						// symbolic high: Length - t
						if kk, hasVar, ok := sumConsts(x.High); ok && hasVar {
							trailer = -kk
							lows = append(lows, lo)
						}
					}
				}
			}
		}
	}
	headerEnd := int64(-1)
	for _, l := range lows {
		if l > headerEnd {
			headerEnd = l
		}
	}
	mx, okMax := c.constValue("net", "MaxRCONPackageSize")
	switch {
	case minC != K:
		ro.Status, ro.Got = core.Violated, fmt.Sprintf("reader rejects lengths below %d, writer's constant part is %d", minC, K)
	case headerEnd != fixedBefore:
		ro.Status, ro.Got = core.Violated, fmt.Sprintf("payload slice starts at %d, writer puts %d header bytes before the payload", headerEnd, fixedBefore)
	case trailer != fixedAfter:
		ro.Status, ro.Got = core.Violated, fmt.Sprintf("payload slice drops %d trailing bytes, writer appends %d", trailer, fixedAfter)
	case !okMax || maxC != mx.Int64():
		ro.Status, ro.Got = core.Violated, fmt.Sprintf("reader's upper bound %d is not MaxRCONPackageSize", maxC)
	default:
		ro.Got = fmt.Sprintf("min %d, max %d, payload = buf[%d:len-%d]", minC, maxC, headerEnd, trailer)
	}
	obs = append(obs, ro)

	// ---- byte order: little-endian everywhere in the RCON codec
	eo := core.Ob{Rule: "T-ENDIAN", Key: "rcon:little-endian", Want: "every encoding/binary use in the RCON reader and writer is little-endian", Armed: true, Status: core.OK, Pos: c.P.Pos(w.Pos())}
	n := 0
	for _, fn := range []*ssa.Function{w, r} {
		for _, b := range fn.Blocks {
			for _, in := range b.Instrs {
				ci, ok := in.(ssa.CallInstruction)
				if !ok {
					continue
				}
				cn := calleeName(ci.Common())
				switch {
				case cn == "encoding/binary.Read" || cn == "encoding/binary.Write":
					n++
					if mi, ok := ci.Common().Args[1].(*ssa.MakeInterface); !ok || !strings.HasSuffix(mi.X.Type().String(), "littleEndian") {
						eo.Status, eo.Got = core.Violated, "a binary.Read/Write in "+core.FnName(fn)+" does not use binary.LittleEndian"
					}
				case strings.HasPrefix(cn, "encoding/binary.("):
					n++
					if !strings.HasPrefix(cn, "encoding/binary.(littleEndian)") {
						eo.Status, eo.Got = core.Violated, cn+" used in "+core.FnName(fn)
					}
				}
			}
		}
	}
	if n < 4 {
		eo.Status, eo.Got = core.Violated, fmt.Sprintf("only %d encoding/binary uses found", n)
	}
	obs = append(obs, eo)
	return obs
}
