package rules

// T-VARLEN: decision tables of VarInt.Len / VarLong.Len / WriteToBytes and the
// read caps of the decoders (C05). The length functions only compare their
// argument with constants or test it against constant masks, so they are
// piecewise constant with breakpoints at those constants; evaluating the
// integer control skeleton at every breakpoint (±1) of the code and of the
// LEB128 length function decides equality on the whole domain.

import (
	"fmt"
	"go/ast"
	"go/constant"
	"go/token"
	"go/types"
	"math/big"
	"sort"
	"strings"

	"gmcheck/core"

	"golang.org/x/tools/go/ssa"
)

type skelEval struct {
	c     *Ctx
	sizes types.Sizes
	depth int
	// preset binds SSA values of the function being run (a case split on a local);
	// onBlock is told every block entered at depth 0
	preset  map[ssa.Value]*big.Int
	onBlock func(*ssa.BasicBlock)
	// onInstr is told every instruction executed at depth 0, with the evaluator of the moment
	onInstr func(in ssa.Instruction, get func(ssa.Value) *big.Int)
	// deep: also follow module callees that return no integer (for what they call) and tell onInstr
	// about the instructions executed inside callees
	deep bool
}

// globalIntArray: the elements of a package-level integer array / slice variable
// that is initialised by a composite literal of constants and never written
// afterwards (a lookup table); nil otherwise.
func (c *Ctx) globalIntArray(g *ssa.Global) []*big.Int {
	if c.gtables == nil {
		c.gtables = map[*ssa.Global][]*big.Int{}
	}
	if v, ok := c.gtables[g]; ok {
		return v
	}
	c.gtables[g] = nil
	obj, _ := g.Object().(*types.Var)
	if obj == nil || g.Pkg == nil {
		return nil
	}
	pk := c.P.ByPth[g.Pkg.Pkg.Path()]
	if pk == nil {
		return nil
	}
	// written anywhere outside the package initialiser?
	for _, fn := range c.Funcs() {
		if fn.Name() == "init" {
			continue
		}
		for _, b := range fn.Blocks {
			for _, in := range b.Instrs {
				if st, ok := in.(*ssa.Store); ok {
					a := st.Addr
					for {
						if ia, ok := a.(*ssa.IndexAddr); ok {
							a = ia.X
							continue
						}
						break
					}
					if a == ssa.Value(g) {
						return nil
					}
				}
			}
		}
	}
	var out []*big.Int
	found := false
	for _, f := range pk.Syntax {
		for _, d := range f.Decls {
			gd, ok := d.(*ast.GenDecl)
			if !ok {
				continue
			}
			for _, sp := range gd.Specs {
				vs, ok := sp.(*ast.ValueSpec)
				if !ok {
					continue
				}
				for i, nm := range vs.Names {
					if pk.TypesInfo.Defs[nm] != types.Object(obj) || i >= len(vs.Values) {
						continue
					}
					cl, ok := ast.Unparen(vs.Values[i]).(*ast.CompositeLit)
					if !ok {
						return nil
					}
					for _, el := range cl.Elts {
						if _, kv := el.(*ast.KeyValueExpr); kv {
							return nil
						}
						tv, ok := pk.TypesInfo.Types[el]
						if !ok || tv.Value == nil || tv.Value.Kind() != constant.Int {
							return nil
						}
						n, ok := new(big.Int).SetString(tv.Value.ExactString(), 10)
						if !ok {
							return nil
						}
						out = append(out, n)
					}
					found = true
				}
			}
		}
	}
	if !found {
		return nil
	}
	c.gtables[g] = out
	return out
}

func wrapTo(v *big.Int, t types.Type, sizes types.Sizes) *big.Int {
	tr := typeRange(t, sizes)
	if tr == nil || tr.Lo == nil || tr.Hi == nil {
		return v
	}
	width := new(big.Int).Add(new(big.Int).Sub(tr.Hi, tr.Lo), bi(1))
	r := new(big.Int).Sub(v, tr.Lo)
	r.Mod(r, width)
	return r.Add(r, tr.Lo)
}

// run evaluates the integer skeleton of fn with args bound to the parameters
// (nil = unknown). It returns the first result as an integer.
func (e *skelEval) run(fn *ssa.Function, args []*big.Int) (*big.Int, error) {
	if e.depth > 4 || len(fn.Blocks) == 0 {
		return nil, fmt.Errorf("cannot evaluate %s", fn.Name())
	}
	env := map[ssa.Value]*big.Int{}
	for i, p := range fn.Params {
		if i < len(args) && args[i] != nil {
			env[p] = args[i]
		}
	}
	preset := map[ssa.Value]bool{}
	if e.depth == 0 {
		for v, n := range e.preset {
			env[v] = n
			preset[v] = true
		}
	}
	get := func(v ssa.Value) *big.Int {
		if k, ok := v.(*ssa.Const); ok {
			if n, ok := constInt(k); ok {
				return n
			}
			if k.Value != nil && k.Value.String() == "true" {
				return bi(1)
			}
			if k.Value != nil && k.Value.String() == "false" {
				return bi(0)
			}
			return nil
		}
		return env[v]
	}
	cellVal := map[ssa.Value]*big.Int{} // addresses of elements of constant lookup tables
	arrVal := map[*ssa.Alloc]map[int64]*big.Int{}
	arrFld := map[*ssa.Alloc]map[int64]map[int]*big.Int{}
	structVal := map[ssa.Value]map[int]*big.Int{}
	structCell := map[*ssa.Alloc]map[int]*big.Int{}
	b := fn.Blocks[0]
	var prev *ssa.BasicBlock
	for steps := 0; steps < 2000; steps++ {
		if e.depth == 0 && e.onBlock != nil {
			e.onBlock(b)
		}
		for _, in := range b.Instrs {
			if v, ok := in.(ssa.Value); ok && preset[v] {
				continue
			}
			if (e.depth == 0 || e.deep) && e.onInstr != nil {
				e.onInstr(in, get)
			}
			switch x := in.(type) {
			case *ssa.IndexAddr:
				if al, ok := x.X.(*ssa.Alloc); ok {
					if k := get(x.Index); k != nil && k.IsInt64() {
						if v, ok := arrVal[al][k.Int64()]; ok {
							cellVal[x] = v
						}
					}
				}
				if g, ok := x.X.(*ssa.Global); ok {
					if tbl := e.c.globalIntArray(g); tbl != nil {
						idx := get(x.Index)
						if idx == nil {
							continue
						}
						if idx.Sign() < 0 || !idx.IsInt64() || idx.Int64() >= int64(len(tbl)) {
							return nil, fmt.Errorf("panics")
						}
						cellVal[x] = tbl[idx.Int64()]
					}
				}
			case *ssa.Phi:
				for i, p := range b.Preds {
					if p == prev {
						if v := get(x.Edges[i]); v != nil {
							env[x] = v
						} else {
							delete(env, x)
						}
					}
				}
			case *ssa.Convert:
				if v := get(x.X); v != nil && isIntegerType(x.Type(), e.sizes) {
					env[x] = wrapTo(v, x.Type(), e.sizes)
				}
			case *ssa.ChangeType:
				if v := get(x.X); v != nil {
					env[x] = v
				}
			case *ssa.Store:
				// a local variable kept in memory (captured by a closure, or its address taken)
				if al, ok := x.Addr.(*ssa.Alloc); ok && isIntegerType(deref(al.Type()), e.sizes) {
					if v := get(x.Val); v != nil {
						cellVal[al] = v
					} else {
						delete(cellVal, al)
					}
				}
				// struct values kept in local cells and copied around (composite literals of structs)
				if fa, ok := x.Addr.(*ssa.FieldAddr); ok {
					if al, ok := fa.X.(*ssa.Alloc); ok {
						if structCell[al] == nil {
							structCell[al] = map[int]*big.Int{}
						}
						if v := get(x.Val); v != nil {
							structCell[al][fa.Field] = v
						} else {
							delete(structCell[al], fa.Field)
						}
					}
				}
				if fs, ok := structVal[x.Val]; ok {
					switch a := x.Addr.(type) {
					case *ssa.Alloc:
						structCell[a] = fs
					case *ssa.IndexAddr:
						if al, ok := a.X.(*ssa.Alloc); ok {
							if k := get(a.Index); k != nil && k.IsInt64() {
								if arrFld[al] == nil {
									arrFld[al] = map[int64]map[int]*big.Int{}
								}
								arrFld[al][k.Int64()] = fs
							}
						}
					}
				}
				// a field of an element of a local array of structs: rows := [...]struct{a, b int}{{..}, {..}}
				if fa, ok := x.Addr.(*ssa.FieldAddr); ok {
					if ia, ok := fa.X.(*ssa.IndexAddr); ok {
						if al, ok := ia.X.(*ssa.Alloc); ok {
							if k := get(ia.Index); k != nil && k.IsInt64() {
								if arrFld[al] == nil {
									arrFld[al] = map[int64]map[int]*big.Int{}
								}
								if arrFld[al][k.Int64()] == nil {
									arrFld[al][k.Int64()] = map[int]*big.Int{}
								}
								if v := get(x.Val); v != nil {
									arrFld[al][k.Int64()][fa.Field] = v
								} else {
									delete(arrFld[al][k.Int64()], fa.Field)
								}
							}
						}
					}
				}
				// an element of a local array literal: limits := [...]T{a, b, c}
				if ia, ok := x.Addr.(*ssa.IndexAddr); ok {
					if al, ok := ia.X.(*ssa.Alloc); ok {
						if k := get(ia.Index); k != nil && k.IsInt64() {
							if arrVal[al] == nil {
								arrVal[al] = map[int64]*big.Int{}
							}
							if v := get(x.Val); v != nil {
								arrVal[al][k.Int64()] = v
							} else {
								delete(arrVal[al], k.Int64())
							}
						}
					}
				}
			case *ssa.Index:
				// t = *arr; t[i] (range over an array value)
				if ld, ok := x.X.(*ssa.UnOp); ok && ld.Op == token.MUL {
					if al, ok := ld.X.(*ssa.Alloc); ok {
						if k := get(x.Index); k != nil && k.IsInt64() {
							if v, ok := arrVal[al][k.Int64()]; ok {
								env[x] = v
							}
							if fs, ok := arrFld[al][k.Int64()]; ok {
								structVal[x] = fs
							}
						}
					}
				}
			case *ssa.Field:
				if fs, ok := structVal[x.X]; ok {
					if v, ok := fs[x.Field]; ok {
						env[x] = v
					}
				}
			case *ssa.UnOp:
				if x.Op == token.MUL {
					if v, ok := cellVal[x.X]; ok {
						env[x] = v
					}
					// a whole struct loaded from a local cell, or one of its fields
					if al, ok := x.X.(*ssa.Alloc); ok {
						if fs, ok := structCell[al]; ok {
							cp := map[int]*big.Int{}
							for k, v := range fs {
								cp[k] = v
							}
							structVal[x] = cp
						}
					}
					if fa, ok := x.X.(*ssa.FieldAddr); ok {
						if al, ok := fa.X.(*ssa.Alloc); ok {
							if v, ok := structCell[al][fa.Field]; ok {
								env[x] = v
							}
						}
					}
					continue
				}
				if v := get(x.X); v != nil {
					switch x.Op {
					case token.SUB:
						env[x] = wrapTo(new(big.Int).Neg(v), x.Type(), e.sizes)
					case token.XOR:
						env[x] = wrapTo(new(big.Int).Not(v), x.Type(), e.sizes)
					case token.NOT:
						env[x] = new(big.Int).Sub(bi(1), v)
					}
				}
			case *ssa.BinOp:
				l, r := get(x.X), get(x.Y)
				if l == nil || r == nil {
					continue
				}
				var res *big.Int
				boolRes := func(c bool) *big.Int {
					if c {
						return bi(1)
					}
					return bi(0)
				}
				switch x.Op {
				case token.ADD:
					res = new(big.Int).Add(l, r)
				case token.SUB:
					res = new(big.Int).Sub(l, r)
				case token.MUL:
					res = new(big.Int).Mul(l, r)
				case token.QUO:
					// Go's integer division truncates toward zero (big.Int.Quo does)
					if r.Sign() != 0 {
						res = new(big.Int).Quo(l, r)
					}
				case token.REM:
					if r.Sign() != 0 {
						res = new(big.Int).Rem(l, r)
					}
				case token.AND:
					res = new(big.Int).And(toUnsigned(l, x.X.Type(), e.sizes), toUnsigned(r, x.Y.Type(), e.sizes))
				case token.OR:
					res = new(big.Int).Or(toUnsigned(l, x.X.Type(), e.sizes), toUnsigned(r, x.Y.Type(), e.sizes))
				case token.SHL:
					if r.Sign() >= 0 && r.IsInt64() && r.Int64() < 200 {
						res = new(big.Int).Lsh(l, uint(r.Int64()))
					}
				case token.SHR:
					if r.Sign() >= 0 && r.IsInt64() && r.Int64() < 200 {
						res = new(big.Int).Rsh(l, uint(r.Int64()))
					}
				case token.LSS:
					env[x] = boolRes(l.Cmp(r) < 0)
				case token.LEQ:
					env[x] = boolRes(l.Cmp(r) <= 0)
				case token.GTR:
					env[x] = boolRes(l.Cmp(r) > 0)
				case token.GEQ:
					env[x] = boolRes(l.Cmp(r) >= 0)
				case token.EQL:
					env[x] = boolRes(l.Cmp(r) == 0)
				case token.NEQ:
					env[x] = boolRes(l.Cmp(r) != 0)
				}
				if res != nil {
					env[x] = wrapTo(res, x.Type(), e.sizes)
				}
			case *ssa.Slice:
				// the length of x[lo:hi] when hi is known (range over buf[:n])
				if x.High != nil {
					if hi := get(x.High); hi != nil {
						lo := bi(0)
						if x.Low != nil {
							lo = get(x.Low)
						}
						if lo != nil {
							env[x] = new(big.Int).Sub(hi, lo)
						}
					}
				}
			case *ssa.Call:
				if bt, ok := x.Common().Value.(*ssa.Builtin); ok {
					if bt.Name() == "len" && len(x.Common().Args) == 1 {
						if _, isSlice := x.Common().Args[0].(*ssa.Slice); isSlice {
							if v := get(x.Common().Args[0]); v != nil {
								env[x] = v
							}
						}
					}
					continue
				}
				// a call of another method of the module on a known integer receiver
				if sc := x.Common().StaticCallee(); sc != nil && e.c.P.InModule(sc) && len(sc.Blocks) > 0 {
					var as []*big.Int
					known := len(x.Common().Args) > 0
					for _, a := range x.Common().Args {
						v := get(a)
						as = append(as, v)
					}
					isBool := false
					if b, ok := x.Type().Underlying().(*types.Basic); ok && b.Kind() == types.Bool {
						isBool = true
					}
					if known && as[0] != nil && (isIntegerType(x.Type(), e.sizes) || isBool) {
						e.depth++
						if r, err := e.run(sc, as); err == nil {
							env[x] = r
						}
						e.depth--
					} else if e.deep && e.depth < 3 {
						// follow helpers for their effects (the observer sees the calls they make);
						// their error results are taken to be nil
						e.depth++
						_, _ = e.run(sc, as)
						e.depth--
						if isErrorType(x.Type()) {
							env[x] = bi(0)
						}
					}
				}
			case *ssa.If:
				cv := get(x.Cond)
				if cv == nil {
					return nil, fmt.Errorf("branch at %s depends on more than comparisons of the argument with constants: table not extractable", e.c.P.Pos(x.Cond.Pos()))
				}
				prev = b
				if cv.Sign() != 0 {
					b = b.Succs[0]
				} else {
					b = b.Succs[1]
				}
				goto next
			case *ssa.Jump:
				prev = b
				b = b.Succs[0]
				goto next
			case *ssa.Return:
				if len(x.Results) == 0 {
					return nil, fmt.Errorf("no result")
				}
				v := get(x.Results[0])
				if v == nil {
					return nil, fmt.Errorf("returned value at %s is not determined by the comparisons: table not extractable", e.c.P.Pos(x.Pos()))
				}
				return v, nil
			case *ssa.Panic:
				return nil, fmt.Errorf("panics")
			}
		}
		return nil, fmt.Errorf("block without terminator")
	next:
	}
	return nil, fmt.Errorf("no result within the step bound")
}

func toUnsigned(v *big.Int, t types.Type, sizes types.Sizes) *big.Int {
	if v.Sign() >= 0 {
		return v
	}
	tr := typeRange(t, sizes)
	if tr == nil || tr.Lo == nil || tr.Hi == nil {
		return v
	}
	width := new(big.Int).Add(new(big.Int).Sub(tr.Hi, tr.Lo), bi(1))
	return new(big.Int).Add(v, width)
}

// constantsOf collects the integer constants appearing in fn (breakpoints).
func constantsOf(fn *ssa.Function) []*big.Int {
	var out []*big.Int
	for _, b := range fn.Blocks {
		for _, in := range b.Instrs {
			for _, op := range in.Operands(nil) {
				if k, ok := (*op).(*ssa.Const); ok {
					if n, ok := constInt(k); ok {
						out = append(out, n)
					}
				}
			}
		}
	}
	return out
}

func leb128Len(v *big.Int, bits uint) int64 {
	u := new(big.Int).Set(v)
	if u.Sign() < 0 {
		u.Add(u, new(big.Int).Lsh(bi(1), bits))
	}
	n := int64((u.BitLen() + 6) / 7)
	if n == 0 {
		n = 1
	}
	return n
}

// VarLen implements T-VARLEN.
func (c *Ctx) VarLen() []core.Ob {
	var obs []core.Ob
	sizes := types.SizesFor("gc", "amd64")
	if pk := c.P.Pkg("net/packet"); pk != nil && pk.TypesSizes != nil {
		sizes = pk.TypesSizes
	}
	ev := &skelEval{c: c, sizes: sizes}
	for _, tc := range []struct {
		typ  string
		bits uint
		maxC string
	}{{"VarInt", 32, "MaxVarIntLen"}, {"VarLong", 64, "MaxVarLongLen"}} {
		lenFn := c.Fn("net/packet.(" + tc.typ + ").Len")
		wtbFn := c.Fn("net/packet.(" + tc.typ + ").WriteToBytes")
		rdFn := c.Fn("net/packet.(*" + tc.typ + ").ReadFrom")
		maxLen, okMax := c.constValue("net/packet", tc.maxC)
		mk := func(key, want string, fn *ssa.Function) core.Ob {
			o := core.Ob{Rule: "T-VARLEN", Key: tc.typ + ":" + key, Want: want, Armed: true, Status: core.OK}
			if fn != nil {
				o.Pos, o.Func = c.P.Pos(fn.Pos()), core.FnName(fn)
			}
			return o
		}
		if lenFn == nil || wtbFn == nil || rdFn == nil || !okMax {
			o := mk("anchors", "Len, WriteToBytes, ReadFrom and "+tc.maxC+" exist", nil)
			o.Status, o.Got = core.Violated, "a named API slot of net/packet is missing"
			obs = append(obs, o)
			continue
		}
		// breakpoints
		pts := map[string]*big.Int{}
		add := func(v *big.Int) {
			lo := new(big.Int).Neg(new(big.Int).Lsh(bi(1), tc.bits-1))
			hi := new(big.Int).Sub(new(big.Int).Lsh(bi(1), tc.bits-1), bi(1))
			for d := int64(-1); d <= 1; d++ {
				p := new(big.Int).Add(v, bi(d))
				// also the signed reinterpretation of unsigned constants (masks)
				for _, q := range []*big.Int{p, new(big.Int).Sub(p, new(big.Int).Lsh(bi(1), tc.bits))} {
					if q.Cmp(lo) >= 0 && q.Cmp(hi) <= 0 {
						pts[q.String()] = q
					}
				}
			}
		}
		for k := uint(0); k <= tc.bits; k++ {
			add(new(big.Int).Lsh(bi(1), k))
		}
		add(bi(0))
		add(new(big.Int).Neg(new(big.Int).Lsh(bi(1), tc.bits-1)))
		for _, fn := range []*ssa.Function{lenFn, wtbFn} {
			for _, k := range constantsOf(fn) {
				add(k)
				// complement of a mask is a threshold
				add(new(big.Int).Not(k))
				add(new(big.Int).Sub(new(big.Int).Lsh(bi(1), tc.bits), k))
			}
		}
		var keys []*big.Int
		for _, v := range pts {
			keys = append(keys, v)
		}
		sort.Slice(keys, func(i, j int) bool { return keys[i].Cmp(keys[j]) < 0 })

		lo := mk("Len=LEB128-length", "Len() is the LEB128 length of the two's-complement bit pattern: [2^(7(k-1)), 2^(7k)) -> k, negatives -> maximum", lenFn)
		wo := mk("WriteToBytes-count=Len", "the byte count returned by WriteToBytes equals Len() for every value (and therefore what WriteTo emits: vi[:n])", wtbFn)
		nEval := 0
		for _, v := range keys {
			want := leb128Len(v, tc.bits)
			got, err := ev.run(lenFn, []*big.Int{v})
			if err != nil {
				lo.Status, lo.Got = core.Violated, "Len: "+err.Error()
				break
			}
			nEval++
			if !got.IsInt64() || got.Int64() != want {
				lo.Status, lo.Got = core.Violated, fmt.Sprintf("Len(%s) = %s, LEB128 length is %d", v, got, want)
				break
			}
		}
		for _, v := range keys {
			got, err := ev.run(wtbFn, []*big.Int{v, nil})
			if err != nil {
				wo.Status, wo.Got = core.Violated, "WriteToBytes: "+err.Error()
				break
			}
			want := leb128Len(v, tc.bits)
			if !got.IsInt64() || got.Int64() != want {
				wo.Status, wo.Got = core.Violated, fmt.Sprintf("WriteToBytes(%s) reports %s bytes, Len/LEB128 length is %d", v, got, want)
				break
			}
		}
		if lo.Status == core.OK {
			lo.Got = fmt.Sprintf("%d breakpoints evaluated", nEval)
		}
		obs = append(obs, lo, wo)

		// WriteTo writes vi[:WriteToBytes(vi[:])]
		wt := c.Fn("net/packet.(" + tc.typ + ").WriteTo")
		wto := mk("WriteTo-emits-count", "WriteTo writes exactly the first n bytes of its scratch array, n being WriteToBytes' result", wt)
		if wt == nil {
			wto.Status, wto.Got = core.Violated, "WriteTo not found"
		} else {
			okShape := false
			for _, b := range wt.Blocks {
				for _, in := range b.Instrs {
					sl, ok := in.(*ssa.Slice)
					if !ok || sl.Low != nil || sl.High == nil {
						continue
					}
					hi := sl.High
					for {
						if cv, ok := hi.(*ssa.Convert); ok {
							hi = cv.X
							continue
						}
						break
					}
					if cl, ok := hi.(*ssa.Call); ok && strings.HasSuffix(calleeName(cl.Common()), "."+"WriteToBytes") && c.flowsToWrite(sl, 3) {
						okShape = true
					}
				}
			}
			if !okShape {
				wto.Status, wto.Got = core.Violated, "the Write call does not slice the scratch array by WriteToBytes' result"
			}
		}
		obs = append(obs, wto)

		// decoder cap: the number of ReadByte calls is at most MaxVar*Len
		ro := mk("decoder-reads-at-most-max", fmt.Sprintf("the decode loop performs at most %s = %s ReadByte calls before reporting an error", tc.maxC, maxLen), rdFn)
		cap, why := readCap(rdFn)
		switch {
		case why != "":
			ro.Status, ro.Got = core.Violated, why
		case cap != maxLen.Int64():
			ro.Status, ro.Got = core.Violated, fmt.Sprintf("up to %d bytes are consumed before the length error (a %d-byte encoding is accepted)", cap, cap)
		default:
			ro.Got = fmt.Sprintf("cap = %d", cap)
		}
		obs = append(obs, ro)
	}
	return obs
}

// readCap: in a decode loop with a counter phi(0, +1) guarded by a comparison
// with a constant whose true edge returns an error, the maximum number of
// iterations that reach the ReadByte call.
func readCap(fn *ssa.Function) (int64, string) {
	return readCapBound(fn, nil, 0)
}

// readCapBound: bind gives the constants the caller passes for parameters of fn
// (the decode loop shared by VarInt and VarLong takes its limit as an argument).
func readCapBound(fn *ssa.Function, bind map[ssa.Value]int64, depth int) (int64, string) {
	constIntVal := func(v ssa.Value) (int64, bool) {
		if k, ok := bind[stripConv(v)]; ok {
			return k, true
		}
		return constIntVal(v)
	}
	for _, b := range fn.Blocks {
		if len(b.Instrs) == 0 {
			continue
		}
		iff, ok := b.Instrs[len(b.Instrs)-1].(*ssa.If)
		if !ok {
			continue
		}
		cmp, ok := iff.Cond.(*ssa.BinOp)
		if !ok {
			continue
		}
		var phi *ssa.Phi
		var k int64
		var op token.Token
		if p, ok := stripConv(cmp.X).(*ssa.Phi); ok {
			if n, ok := constIntVal(cmp.Y); ok {
				phi, k, op = p, n, cmp.Op
			}
		} else if p, ok := stripConv(cmp.Y).(*ssa.Phi); ok {
			if n, ok := constIntVal(cmp.X); ok {
				phi, k, op = p, n, flipOp(cmp.Op)
			}
		}
		if phi == nil || !isCounterPhi(phi) {
			continue
		}
		// which edge is the error exit?
		errEdge := -1
		for i, s := range b.Succs {
			if returnsSoon(s) && !hasReadByte(s) {
				errEdge = i
			}
		}
		if errEdge < 0 {
			continue
		}
		// iterations allowed: counter values for which the error condition is false
		// error when (num op k) is true on edge 0; if errEdge==1 the condition is negated
		if errEdge == 1 {
			op = negOp(op)
		}
		// the guard must come before the read of the same iteration; if the
		// byte is read first, one more byte is consumed before the error
		extra := int64(0)
		for _, bb := range fn.Blocks {
			if hasReadByte(bb) && bb != b && !b.Dominates(bb) {
				extra = 1
			}
			if hasReadByte(bb) && bb == b {
				extra = 1 // read and guard in the same block: the read precedes the branch
			}
		}
		switch op {
		case token.GTR: // error when num > k: num = 0..k read
			return k + 1 + extra, ""
		case token.GEQ: // error when num >= k: num = 0..k-1 read
			return k + extra, ""
		case token.EQL:
			return k + extra, ""
		default:
			return 0, "the length guard is not an upper-bound test of the byte counter"
		}
	}
	// the loop may live in a helper that is handed the limit
	if depth < 2 {
		for _, b := range fn.Blocks {
			for _, in := range b.Instrs {
				ci, ok := in.(ssa.CallInstruction)
				if !ok {
					continue
				}
				g := ci.Common().StaticCallee()
				if g == nil || len(g.Blocks) == 0 || g.Pkg != fn.Pkg {
					continue
				}
				nb := map[ssa.Value]int64{}
				for i, a := range ci.Common().Args {
					if k, ok := constIntVal(a); ok && i < len(g.Params) {
						nb[g.Params[i]] = k
					}
				}
				if len(nb) == 0 {
					continue
				}
				if n, why := readCapBound(g, nb, depth+1); why == "" {
					return n, ""
				}
			}
		}
	}
	return 0, "no guard comparing the byte counter with a constant found in the decode loop"
}

func isCounterPhi(p *ssa.Phi) bool {
	zero, inc := false, false
	for _, e := range p.Edges {
		if n, ok := constIntVal(e); ok && n == 0 {
			zero = true
		}
		if bo, ok := e.(*ssa.BinOp); ok && bo.Op == token.ADD && bo.X == ssa.Value(p) {
			if n, ok := constIntVal(bo.Y); ok && n == 1 {
				inc = true
			}
		}
	}
	return zero && inc
}

func hasReadByte(b *ssa.BasicBlock) bool {
	for _, in := range b.Instrs {
		if ci, ok := in.(ssa.CallInstruction); ok && ci.Common().IsInvoke() && ci.Common().Method.Name() == "ReadByte" {
			return true
		}
	}
	return false
}

// flowsToWrite: v is the argument of an io.Writer Write, directly or through
// module functions that forward the parameter to one (writeAll(w, p)).
func (c *Ctx) flowsToWrite(v ssa.Value, depth int) bool {
	if depth <= 0 || v.Referrers() == nil {
		return false
	}
	for _, r := range *v.Referrers() {
		ci, ok := r.(ssa.CallInstruction)
		if !ok {
			continue
		}
		cc := ci.Common()
		if cc.IsInvoke() {
			if cc.Method.Name() == "Write" && len(cc.Args) == 1 && cc.Args[0] == v {
				return true
			}
			continue
		}
		sc := cc.StaticCallee()
		if sc == nil {
			continue
		}
		if n := calleeName(cc); strings.HasSuffix(n, ").Write") && len(cc.Args) == 2 && cc.Args[1] == v {
			return true
		}
		if !c.P.InModule(sc) || len(sc.Blocks) == 0 {
			continue
		}
		for i, a := range cc.Args {
			if a == v && i < len(sc.Params) && c.flowsToWrite(sc.Params[i], depth-1) {
				return true
			}
		}
	}
	return false
}
