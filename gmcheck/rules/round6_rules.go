package rules

// Rules added after the defect hunt on the unchanged tree (DESIGN.md 8.11).

import (
	"fmt"
	"go/token"
	"go/types"
	"math/big"
	"reflect"
	"strings"

	"gmcheck/core"

	"golang.org/x/tools/go/ssa"
)

// ---------------------------------------------------------------------------
// T-SNBT[suffix-strip]: the literal parser cuts the last byte off a number
// only where that byte is a type suffix. The variable that holds the suffix
// (compared with the suffix letters in the switch that picks the tag) is 0 for
// an unsuffixed number; with it assumed 0, no slice of the literal that drops
// the last byte may be reachable (`1.5` parsed as `1.`).

func (c *Ctx) SNBTSuffixStrip() []core.Ob {
	lp := c.literalParser()
	o := core.Ob{Rule: "T-SNBT", Key: "suffix-strip", Armed: true, Status: core.OK,
		Want: "with no type suffix, the number text handed to strconv is the whole literal (the last byte is dropped only where it was recognised as a suffix)"}
	if lp == nil {
		o.Status, o.Got = core.Violated, "literal parser not found"
		return []core.Ob{o}
	}
	o.Pos, o.Func = c.P.Pos(lp.Pos()), core.FnName(lp)
	// the suffix variable: compared (==) with the letters F, f, D, d
	votes := map[ssa.Value]int{}
	for _, b := range lp.Blocks {
		for _, in := range b.Instrs {
			if cmp, ok := in.(*ssa.BinOp); ok && cmp.Op == token.EQL {
				if k, ok := constIntVal(cmp.Y); ok && (k == 'F' || k == 'f' || k == 'D' || k == 'd' || k == 'B' || k == 'L') {
					if _, isIdx := cmp.X.(*ssa.Index); !isIdx {
						if _, isIdx2 := cmp.X.(*ssa.UnOp); !isIdx2 {
							votes[cmp.X]++
						}
					}
				}
			}
		}
	}
	var suffix ssa.Value
	for v, n := range votes {
		if _, isParam := v.(*ssa.Parameter); isParam {
			continue
		}
		if suffix == nil || n > votes[suffix] {
			suffix = v
		}
	}
	if suffix == nil {
		o.Got = "no suffix variable recognised (not judged)"
		return []core.Ob{o}
	}
	// slices of the parameter that drop the last byte: x[:n-1]
	var strips []*ssa.Slice
	for _, b := range lp.Blocks {
		for _, in := range b.Instrs {
			sl, ok := in.(*ssa.Slice)
			if !ok || sl.High == nil || len(lp.Params) == 0 || sl.X != ssa.Value(lp.Params[0]) {
				continue
			}
			if sub, ok := sl.High.(*ssa.BinOp); ok && sub.Op == token.SUB {
				if k, ok := constIntVal(sub.Y); ok && k == 1 {
					strips = append(strips, sl)
				}
			}
		}
	}
	if len(strips) == 0 {
		o.Got = "no slice drops the last byte"
		return []core.Ob{o}
	}
	reached := map[*ssa.Slice]bool{}
	c.TLG().ProbeAssume(lp, suffix, AV{P: ivOf(0, 0)}, func(in ssa.Instruction, _ func(ssa.Value) AV, _ func(string) (AV, bool)) {
		if sl, ok := in.(*ssa.Slice); ok {
			for _, s := range strips {
				if s == sl {
					reached[s] = true
				}
			}
		}
	})
	for _, s := range strips {
		if reached[s] {
			o.Status, o.Pos = core.Violated, c.P.Pos(s.Pos())
			o.Got = "with no suffix (the suffix variable 0) the slice that drops the last byte is still reached: `1.5` is parsed as `1.`, `3.14` as `3.1`"
		}
	}
	if o.Status == core.OK {
		o.Got = fmt.Sprintf("%d stripping slices, none reachable without a suffix", len(strips))
	}
	return []core.Ob{o}
}

// ---------------------------------------------------------------------------
// T-SNBT[written-tag-returned]: a text-decoder function that reports which tag
// it wrote (a byte result next to the error) never reports 0 together with a
// nil error: its caller writes that byte into a list header (`[[1],[2]]` got the
// element type TAG_End because the named result was shadowed and never set).

func (c *Ctx) SNBTWrittenTagReturned(pkg string) []core.Ob {
	var obs []core.Ob
	t := c.TLG()
	for _, fn := range c.Funcs() {
		if !inPkgs(fn, pkg) || fn.Signature.Results().Len() != 2 {
			continue
		}
		r0, ok := fn.Signature.Results().At(0).Type().Underlying().(*types.Basic)
		if !ok || r0.Kind() != types.Uint8 || !isErrorType(fn.Signature.Results().At(1).Type()) {
			continue
		}
		// a function of the text decoder: it is handed the decode state (a struct with a scanner in it)
		textDecoder := false
		for _, p := range fn.Params {
			if st, ok := deref(p.Type()).Underlying().(*types.Struct); ok {
				for i := 0; i < st.NumFields(); i++ {
					if n, ok := types.Unalias(st.Field(i).Type()).(*types.Named); ok && n.Obj().Name() == "scanner" {
						textDecoder = true
					}
				}
			}
		}
		if !textDecoder {
			continue
		}
		o := core.Ob{Rule: "T-SNBT", Key: "written-tag-returned:" + core.FnName(fn), Pos: c.P.Pos(fn.Pos()), Func: core.FnName(fn), Armed: true, Status: core.OK,
			Want: "where the function can return a nil error, the tag it reports is not 0"}
		t.Probe(fn, func(in ssa.Instruction, eval func(ssa.Value) AV, _ func(string) (AV, bool)) {
			ret, ok := in.(*ssa.Return)
			if !ok || len(ret.Results) != 2 {
				return
			}
			if errKnownNonNil(ret.Results[1], ret.Block()) || t.ProbeErrNonNil(ret.Results[1]) {
				return
			}
			all := eval(ret.Results[0]).all()
			if all == nil || all.contains(bi(0)) {
				o.Status, o.Pos = core.Violated, c.P.Pos(ret.Pos())
				o.Got = "a return that may carry a nil error reports tag 0 (TAG_End): the enclosing list is given the element type of an empty list although it has elements"
			}
		})
		obs = append(obs, o)
	}
	return obs
}

// ---------------------------------------------------------------------------
// T-SCANSTATE[literal-after-begin]: the text decoder consumes a literal
// (scanWhile(scanContinue)) only where the scanner's last answer was "a literal
// begins": the opcode was compared with scanBeginLiteral on the way and nothing
// was scanned since. After a comma inside a list of literals the next element
// may be `{` or `[`; taking it for a literal writes the bracket as a string.

func (c *Ctx) SNBTLiteralAfterBegin(pkg string) []core.Ob {
	var obs []core.Ob
	var cont, begin *big.Int
	for _, pk := range c.P.Pkgs {
		if core.Rel(pk.PkgPath) == pkg {
			for name, dst := range map[string]**big.Int{"scanContinue": &cont, "scanBeginLiteral": &begin} {
				if k, ok := pk.Types.Scope().Lookup(name).(*types.Const); ok {
					if v, ok := constantInt64(k); ok {
						*dst = bi(v)
					}
				}
			}
		}
	}
	if cont == nil || begin == nil {
		return []core.Ob{{Rule: "T-SCANSTATE", Key: "literal-after-begin:anchor", Armed: true, Status: core.Violated, Want: "the scan codes scanContinue and scanBeginLiteral exist", Got: "not found"}}
	}
	isScan := func(in ssa.Instruction) (ssa.CallInstruction, bool) {
		ci, ok := in.(ssa.CallInstruction)
		if !ok {
			return nil, false
		}
		g := ci.Common().StaticCallee()
		if g == nil || g.Signature.Recv() == nil || !inPkgs(g, pkg) {
			return nil, false
		}
		return ci, g.Name() == "scanWhile" || g.Name() == "scanNext"
	}
	for _, fn := range c.Funcs() {
		if !inPkgs(fn, pkg) {
			continue
		}
		k := 0
		for _, b := range fn.Blocks {
			for idx, in := range b.Instrs {
				ci, ok := isScan(in)
				if !ok || ci.Common().StaticCallee().Name() != "scanWhile" || len(ci.Common().Args) != 2 {
					continue
				}
				if kv, ok := constIntVal(ci.Common().Args[1]); !ok || kv != cont.Int64() {
					continue
				}
				k++
				o := core.Ob{Rule: "T-SCANSTATE", Key: fmt.Sprintf("literal-after-begin:%s#%d", core.FnName(fn), k), Pos: c.P.Pos(ci.Pos()), Func: core.FnName(fn), Armed: true, Status: core.OK,
					Want: "a literal is consumed only behind a test that the scanner's last answer was scanBeginLiteral, with no scan in between"}
				okSite := false
				for _, d := range fn.Blocks {
					if len(d.Succs) != 2 {
						continue
					}
					iff, isIf := d.Instrs[len(d.Instrs)-1].(*ssa.If)
					if !isIf {
						continue
					}
					cmp, isCmp := iff.Cond.(*ssa.BinOp)
					if !isCmp || (cmp.Op != token.EQL && cmp.Op != token.NEQ) {
						continue
					}
					kv, isK := constIntVal(cmp.Y)
					ld, isLd := cmp.X.(*ssa.UnOp)
					if !isK || kv != begin.Int64() || !isLd || ld.Op != token.MUL {
						continue
					}
					if _, isField := ld.X.(*ssa.FieldAddr); !isField {
						continue
					}
					edge := d.Succs[0]
					if cmp.Op == token.NEQ {
						edge = d.Succs[1]
					}
					if len(edge.Preds) != 1 || !(edge == b || edge.Dominates(b)) {
						continue
					}
					// nothing scanned between the test and the literal: no scan call in a block that the
					// edge dominates and from which this call is reachable before it
					clean := true
					for _, x := range fn.Blocks {
						if !(x == edge || edge.Dominates(x)) {
							continue
						}
						for j, y := range x.Instrs {
							if _, s := isScan(y); !s {
								continue
							}
							if x == b && j >= idx {
								continue
							}
							// (a scan later in a loop body reaches this call only through the test again)
							if x == b || blockReachesAvoiding(x, b, d) {
								clean = false
							}
						}
					}
					if clean {
						okSite = true
					}
				}
				if !okSite {
					o.Status, o.Got = core.Violated, "the literal is consumed without the scanner having answered scanBeginLiteral since its last step: a `{` or `[` at this place is read as a one-character string (or puts decoder and scanner out of step)"
				}
				obs = append(obs, o)
			}
		}
	}
	return obs
}

func blockReachesAvoiding(from, to, avoid *ssa.BasicBlock) bool {
	if from == to {
		return true
	}
	seen := map[*ssa.BasicBlock]bool{}
	if avoid != nil {
		seen[avoid] = true
	}
	work := append([]*ssa.BasicBlock(nil), from.Succs...)
	for len(work) > 0 {
		b := work[0]
		work = work[1:]
		if seen[b] {
			continue
		}
		seen[b] = true
		if b == to {
			return true
		}
		work = append(work, b.Succs...)
	}
	return false
}

func constantInt64(k *types.Const) (int64, bool) {
	s := k.Val().ExactString()
	var v int64
	if _, err := fmt.Sscan(s, &v); err != nil {
		return 0, false
	}
	return v, true
}

// ---------------------------------------------------------------------------
// T-SCANSTATE[escape-set]: the literal parser un-escapes a quoted string by
// dropping the backslash and keeping the byte behind it. So the only escapes
// the scanner may let through are those that mean the byte itself: the
// backslash and the quotation marks. An escape state that also accepts n, t, b,
// f, r or / (the JSON set) lets `"a\nb"` in, which comes out as `anb`.

func (c *Ctx) ScannerEscapeSet(pkg string) []core.Ob {
	var obs []core.Ob
	lp := c.literalParser()
	if lp != nil {
		// a parser that translates escapes (mentions the letter n as a constant) is a different contract
		for _, b := range lp.Blocks {
			for _, in := range b.Instrs {
				if cmp, ok := in.(*ssa.BinOp); ok && cmp.Op == token.EQL {
					if k, ok := constIntVal(cmp.Y); ok && k == 'n' {
						return []core.Ob{{Rule: "T-SCANSTATE", Key: "escape-set", Armed: true, Status: core.OK, Want: "escape states accept what the literal parser decodes", Got: "the literal parser translates escapes itself (not judged)"}}
					}
				}
			}
		}
	}
	for _, ob := range c.ScannerDetours(pkg) {
		name, ok := strings.CutSuffix(ob.Key, ":detour-returns")
		if !ok {
			continue
		}
		fn := c.Fn(name)
		if fn == nil || len(fn.Params) != 2 {
			continue
		}
		var accepted []string
		sizes := c.TLG().sizesOf(fn)
		for ch := int64(0); ch < 256; ch++ {
			ev := &skelEval{c: c, sizes: sizes}
			stored := false
			ev.onInstr = func(in ssa.Instruction, _ func(ssa.Value) *big.Int) {
				if st, ok := in.(*ssa.Store); ok {
					if fa, ok := st.Addr.(*ssa.FieldAddr); ok && fa.X == ssa.Value(fn.Params[0]) {
						if _, isFn := st.Val.(*ssa.Function); isFn {
							stored = true
						}
					}
				}
			}
			_, _ = ev.run(fn, []*big.Int{nil, bi(ch)})
			if stored && ch != '\\' && ch != '"' && ch != '\'' {
				accepted = append(accepted, fmt.Sprintf("%q", rune(ch)))
			}
		}
		o := core.Ob{Rule: "T-SCANSTATE", Key: "escape-set:" + name, Pos: c.P.Pos(fn.Pos()), Func: name, Armed: true, Status: core.OK,
			Want: "an escape state lets through only the backslash and the quotation marks (the literal parser keeps the escaped byte as it is)"}
		if len(accepted) > 0 {
			o.Status, o.Got = core.Violated, "also accepted after a backslash: "+strings.Join(accepted, " ")+": the parser turns these escapes into the plain letters"
		}
		obs = append(obs, o)
	}
	return obs
}

// ---------------------------------------------------------------------------
// R-TRUNC[length-prefix]: a length that is written as a 16-bit prefix is
// compared with a bound first (and the value refused): int16(len(s)) of a
// 70000-byte string is 4464, the prefix says 4464 and 70000 bytes follow - the
// rest of the stream is read as garbage.

func (c *Ctx) LengthPrefixNarrowing(pkgs ...string) []core.Ob {
	var obs []core.Ob
	for _, fn := range c.Funcs() {
		if !inPkgs(fn, pkgs...) {
			continue
		}
		k := 0
		for _, b := range fn.Blocks {
			for _, in := range b.Instrs {
				cv, ok := in.(*ssa.Convert)
				if !ok {
					continue
				}
				bt, ok := cv.Type().Underlying().(*types.Basic)
				if !ok || (bt.Kind() != types.Int16 && bt.Kind() != types.Uint16) {
					continue
				}
				lc, ok := stripConv(cv.X).(*ssa.Call)
				if !ok {
					continue
				}
				if bi, isB := lc.Call.Value.(*ssa.Builtin); !isB || bi.Name() != "len" || len(lc.Call.Args) != 1 {
					continue
				}
				subject := lc.Call.Args[0]
				k++
				o := core.Ob{Rule: "R-TRUNC", Key: fmt.Sprintf("%s#length-prefix%d", core.FnName(fn), k), Pos: c.P.Pos(cv.Pos()), Func: core.FnName(fn), Armed: true, Status: core.OK,
					Want: "a length narrowed to 16 bits for a prefix was compared with a bound before (longer values are refused)"}
				guarded := false
				for _, d := range fn.Blocks {
					if len(d.Succs) != 2 || !(d.Dominates(b)) {
						continue
					}
					iff, isIf := d.Instrs[len(d.Instrs)-1].(*ssa.If)
					if !isIf {
						continue
					}
					cmp, isCmp := iff.Cond.(*ssa.BinOp)
					if !isCmp {
						continue
					}
					for _, side := range []ssa.Value{cmp.X, cmp.Y} {
						if l2, ok := stripConv(side).(*ssa.Call); ok {
							if bi, isB := l2.Call.Value.(*ssa.Builtin); isB && bi.Name() == "len" && len(l2.Call.Args) == 1 && sameValue(l2.Call.Args[0], subject) {
								// one edge leaves with an error, the other reaches the conversion
								for i, sx := range d.Succs {
									if (sx == b || sx.Dominates(b)) && exitsWithout(d.Succs[1-i], b) {
										guarded = true
									}
								}
							}
						}
					}
				}
				if !guarded {
					o.Status, o.Got = core.Violated, "len() is cut to 16 bits without a bound check: a value longer than the prefix can say is written with a wrapped length and the document is malformed"
				}
				obs = append(obs, o)
			}
		}
	}
	return obs
}

// ---------------------------------------------------------------------------
// R-REFLKIND[set-exact-type]: reflect.Value.Set(reflect.ValueOf(x)) with x of a
// predeclared type needs the target to be of exactly that type (or an
// interface). A decoder that picks the branch by the target's Kind() reaches it
// for every named type of that kind as well (type Health float32) and panics
// there; SetFloat / SetInt / SetUint / Convert do not. For every such call the
// kinds under which it is reachable are computed (the tag switch on Kind() is
// followed by the interval interpreter with the kind assumed).

func (c *Ctx) SetExactType(pkg string, fnNames ...string) []core.Ob {
	var obs []core.Ob
	t := c.TLG()
	for _, name := range fnNames {
		fn := c.Fn(name)
		if fn == nil {
			obs = append(obs, core.Ob{Rule: "R-REFLKIND", Key: "set-exact-type:" + name, Armed: true, Status: core.Violated, Want: name + " exists", Got: "not found"})
			continue
		}
		type site struct {
			call *ssa.Call
			kind *ssa.Call // the Kind() call on the same Value that dominates it
			typ  string
		}
		var sites []site
		for _, b := range fn.Blocks {
			for _, in := range b.Instrs {
				call, ok := in.(*ssa.Call)
				if !ok || calleeName(call.Common()) != "reflect.(Value).Set" || len(call.Call.Args) != 2 {
					continue
				}
				vo, ok := call.Call.Args[1].(*ssa.Call)
				if !ok || calleeName(vo.Common()) != "reflect.ValueOf" || len(vo.Call.Args) != 1 {
					continue
				}
				mi, ok := vo.Call.Args[0].(*ssa.MakeInterface)
				if !ok {
					continue
				}
				if _, isBasic := mi.X.Type().(*types.Basic); !isBasic {
					continue // a value of a named or composite type: assignable only to that very type anyway
				}
				// the Kind() call on the target that dominates the site
				var kc *ssa.Call
				for _, d := range fn.Blocks {
					if !(d == b || d.Dominates(b)) {
						continue
					}
					for _, x := range d.Instrs {
						if c2, ok := x.(*ssa.Call); ok && calleeName(c2.Common()) == "reflect.(Value).Kind" && sameReflectValue(c2.Call.Args[0], call.Call.Args[0]) {
							kc = c2
						}
					}
				}
				if kc == nil {
					// the kind of the target's (element) type asked through reflect.Type: the nearest one on the way
					for _, d := range fn.Blocks {
						if !(d == b || d.Dominates(b)) {
							continue
						}
						for _, x := range d.Instrs {
							if c2, ok := x.(*ssa.Call); ok && c2.Call.IsInvoke() && c2.Call.Method.Name() == "Kind" && c2.Referrers() != nil {
								cmpd := false
								for _, r := range *c2.Referrers() {
									if _, isCmp := r.(*ssa.BinOp); isCmp {
										cmpd = true
									}
								}
								if cmpd && (kc == nil || kc.Block().Dominates(c2.Block())) {
									kc = c2
								}
							}
						}
					}
				}
				if kc == nil {
					continue
				}
				sites = append(sites, site{call, kc, mi.X.Type().String()})
			}
		}
		for i, s := range sites {
			o := core.Ob{Rule: "R-REFLKIND", Key: fmt.Sprintf("set-exact-type:%s#%d", name, i+1), Pos: c.P.Pos(s.call.Pos()), Func: core.FnName(fn), Armed: true, Status: core.OK,
				Want: "Set(reflect.ValueOf(x)) with x of type " + s.typ + " is reachable only for interface targets (named types of that kind need SetInt / SetUint / SetFloat / Convert)"}
			var bad []string
			for k := reflect.Bool; k <= reflect.UnsafePointer; k++ {
				if k == reflect.Interface {
					continue
				}
				reached := false
				t.ProbeAssume(fn, s.kind, AV{P: ivOf(int64(k), int64(k))}, func(in ssa.Instruction, _ func(ssa.Value) AV, _ func(string) (AV, bool)) {
					if in == ssa.Instruction(s.call) {
						reached = true
					}
				})
				if reached {
					bad = append(bad, k.String())
				}
			}
			if len(bad) > 0 && len(bad) < 20 {
				o.Status, o.Got = core.Violated, "reachable for targets of kind "+strings.Join(bad, ", ")+": a named type of that kind (type T "+s.typ+") makes Set panic - value of type "+s.typ+" is not assignable to type T"
			} else if len(bad) >= 20 {
				o.Got = "not selected by the target's kind (not judged)"
			}
			obs = append(obs, o)
		}
	}
	return obs
}

// ---------------------------------------------------------------------------
// R-MARSHALER[array-tag-from-plain-elements]: the tag chooser turns a slice
// into TagByteArray / TagIntArray / TagLongArray according to the tag of its
// first element. Where that tag is what the element itself reports through the
// recursive call (a Marshaler's TagType(): a RawMessage that carries an Int),
// the element is not a number: the choice of an array tag lies behind a test
// that the element does not implement Marshaler.

func (c *Ctx) ArrayTagFromPlainElements(fnName string) []core.Ob {
	o := core.Ob{Rule: "R-MARSHALER", Key: "array-tag-from-plain-elements:" + fnName, Armed: true, Status: core.OK,
		Want: "a typed-array tag is chosen from the first element's tag only where that element was found not to be a Marshaler"}
	fn := c.Fn(fnName)
	if fn == nil {
		o.Status, o.Got = core.Violated, fnName+" not found"
		return []core.Ob{o}
	}
	o.Pos, o.Func = c.P.Pos(fn.Pos()), core.FnName(fn)
	// returns of the array tags 7, 11, 12
	n := 0
	for _, b := range fn.Blocks {
		ret, ok := b.Instrs[len(b.Instrs)-1].(*ssa.Return)
		if !ok || len(ret.Results) == 0 {
			continue
		}
		kv, isK := constIntVal(ret.Results[0])
		if !isK || (kv != 7 && kv != 11 && kv != 12) {
			continue
		}
		n++
		// the switch value that led here: compared with a scalar tag in a dominating block
		for _, d := range fn.Blocks {
			if len(d.Succs) != 2 || !d.Dominates(b) {
				continue
			}
			iff, isIf := d.Instrs[len(d.Instrs)-1].(*ssa.If)
			if !isIf {
				continue
			}
			cmp, isCmp := iff.Cond.(*ssa.BinOp)
			if !isCmp || cmp.Op != token.EQL || d.Succs[0] != b {
				continue
			}
			// does the compared value come out of the recursive call?
			fromSelf := false
			seen := map[ssa.Value]bool{}
			var walk func(v ssa.Value)
			walk = func(v ssa.Value) {
				if seen[v] {
					return
				}
				seen[v] = true
				switch x := v.(type) {
				case *ssa.Phi:
					for _, e := range x.Edges {
						walk(e)
					}
				case *ssa.Extract:
					if call, ok := x.Tuple.(*ssa.Call); ok && call.Call.StaticCallee() != nil && core.Origin(call.Call.StaticCallee()) == fn {
						fromSelf = true
					}
				}
			}
			walk(cmp.X)
			if !fromSelf {
				continue
			}
			// the element is asked whether it is a Marshaler after the recursive call, and where it is
			// (the comma-ok assertion succeeded) no array tag can be returned any more
			guarded := false
			for _, g := range fn.Blocks {
				if len(g.Succs) != 2 {
					continue
				}
				gi, isIf := g.Instrs[len(g.Instrs)-1].(*ssa.If)
				if !isIf {
					continue
				}
				if ex, ok := gi.Cond.(*ssa.Extract); ok && ex.Index == 1 {
					if ta, ok := ex.Tuple.(*ssa.TypeAssert); ok && ta.CommaOk {
						if nm, ok := types.Unalias(ta.AssertedType).(*types.Named); ok && nm.Obj().Name() == "Marshaler" {
							// ... and what is asked is the element: the value the recursive call handed back
							aboutElem := false
							if ic, ok := ta.X.(*ssa.Call); ok && len(ic.Call.Args) > 0 {
								recv := ic.Call.Args[0]
								if ld, ok := recv.(*ssa.UnOp); ok && ld.Op == token.MUL {
									if al, ok := ld.X.(*ssa.Alloc); ok {
										if sv := singleStore(al); sv != nil {
											recv = sv
										}
									}
								}
								if ex2, ok := recv.(*ssa.Extract); ok {
									if rc, ok := ex2.Tuple.(*ssa.Call); ok && rc.Call.StaticCallee() != nil && core.Origin(rc.Call.StaticCallee()) == fn {
										aboutElem = true
									}
								}
							}
							if aboutElem && g.Succs[0] != b && !blockReachesAvoiding(g.Succs[0], b, nil) && blockReachesAvoiding(g.Succs[1], b, nil) {
								guarded = true
							}
						}
					}
				}
			}
			if !guarded {
				o.Status, o.Pos = core.Violated, c.P.Pos(ret.Pos())
				o.Got = "the array tag is chosen from the tag the first element reports about itself: a slice of carriers (RawMessage, dynbt.Value) that hold bytes, ints or longs is announced as a typed array and then cannot be written"
			}
		}
	}
	if n == 0 && o.Status == core.OK {
		o.Got = "no typed-array tag is returned here (not judged)"
	}
	return []core.Ob{o}
}

// ---------------------------------------------------------------------------
// R-ORDER[fix:refusal-changes-nothing]: BitStorage.Fix either installs the new
// width or refuses - a call that returns an error has not assigned any field of
// the storage on its way (the length is checked first). Otherwise a refused
// Fix leaves a storage whose width no longer matches its data: Get returns
// other values, indexes in range run off the array.

func (c *Ctx) FixRefusalChangesNothing() []core.Ob {
	o := core.Ob{Rule: "R-ORDER", Key: "BitStorage.Fix:refusal-changes-nothing", Armed: true, Status: core.OK,
		Want: "no path of Fix assigns a field of the storage and then returns an error"}
	fx := c.Fn("level.(*BitStorage).Fix")
	if fx == nil {
		o.Status, o.Got = core.Violated, "level.(*BitStorage).Fix not found"
		return []core.Ob{o}
	}
	o.Pos, o.Func = c.P.Pos(fx.Pos()), core.FnName(fx)
	v := c.inlineView(fx, 1)
	n := 0
	for _, nd := range v.nodes {
		st, ok := nd.in.(*ssa.Store)
		if !ok {
			continue
		}
		f := v.recvField(nd, st.Addr)
		if f == "" {
			continue
		}
		n++
		// an error return of the root reachable from the store
		for _, r := range v.nodes {
			ret, ok := r.in.(*ssa.Return)
			if !ok || r.frame.parent != nil || len(ret.Results) == 0 {
				continue
			}
			last := ret.Results[len(ret.Results)-1]
			if isNilConst(last) {
				continue
			}
			if v.reachAvoidingErrAware(nd.id, r.id, nil) {
				o.Status, o.Pos = core.Violated, c.P.Pos(st.Pos())
				o.Got = "the field " + f + " is assigned at " + c.P.Pos(st.Pos()) + " and the error return at " + c.P.Pos(ret.Pos()) + " can follow: a refused Fix has already changed the storage"
			}
		}
	}
	if n == 0 && o.Status == core.OK {
		o.Status, o.Got = core.Violated, "Fix assigns no field of the storage"
	}
	return []core.Ob{o}
}

func sortFns(fns []*ssa.Function) {
	for i := 1; i < len(fns); i++ {
		for j := i; j > 0 && core.FnName(fns[j]) < core.FnName(fns[j-1]); j-- {
			fns[j], fns[j-1] = fns[j-1], fns[j]
		}
	}
}
