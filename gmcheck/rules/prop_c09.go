package rules

import "gmcheck/core"

func init() {
	Props["C09"] = PropDef{
		Explanation: "R-RAWREAD: every direct Read([]byte) method call in the module is a forwarding Read wrapper or a one-byte read whose count is used; all other reads go through full-read primitives.",
		Run: func(c *Ctx) []core.Ob {
			var obs []core.Ob
			obs = append(obs, c.RawRead()...)
			return obs
		},
	}
}
