package rules

// Smaller named-instance rules added after the first round of independently
// seeded changes (DESIGN.md section 8).

import (
	"fmt"
	"go/ast"
	"go/constant"
	"go/token"
	"go/types"
	"reflect"
	"sort"
	"strings"

	"gmcheck/core"

	"golang.org/x/tools/go/ssa"
)

// ------------------------------------------------------------------ T-NATURAL

// NaturalTypes: decoding a scalar tag into an interface{} target stores the
// tag's natural Go type (int8, int16, int32, int64, float32, float64, string).
func (c *Ctx) NaturalTypes() []core.Ob {
	want := map[string]string{"TagByte": "int8", "TagShort": "int16", "TagInt": "int32", "TagLong": "int64", "TagFloat": "float32", "TagDouble": "float64", "TagString": "string"}
	dec := c.dispatchOf("Decoder", true)
	if dec == nil {
		return []core.Ob{{Rule: "T-NATURAL", Key: "decoder-dispatch", Status: core.Violated, Armed: true, Want: "decoder dispatch found", Got: "not found"}}
	}
	_ = dec.pkg.TypesInfo
	var obs []core.Ob
	var tvs []int64
	for tv := range dec.cases {
		tvs = append(tvs, tv)
	}
	sort.Slice(tvs, func(i, j int) bool { return tvs[i] < tvs[j] })
	for _, tv := range tvs {
		name := dec.names[tv]
		nat, ok := want[name]
		if !ok {
			continue
		}
		cc := dec.cases[tv]
		o := core.Ob{Rule: "T-NATURAL", Key: name + "->interface", Pos: c.P.Pos(cc.Pos()), Func: dec.fn, Armed: true, Status: core.OK,
			Want: "a " + name + " decoded into an interface{} target is stored as " + nat}
		found := false
		hbs := c.withHelpers(dec.pkg, cc, dec.decl, 2)
		// generic helpers on the way: the type arguments they are instantiated with in this clause
		instArgs := map[types.Object][]types.Type{}
		for _, hb := range hbs {
			hinfo := hb.pk.TypesInfo
			ast.Inspect(hb.node, func(n ast.Node) bool {
				call, ok := n.(*ast.CallExpr)
				if !ok {
					return true
				}
				fun := ast.Unparen(call.Fun)
				if ix, ok := fun.(*ast.IndexExpr); ok {
					fun = ix.X
				}
				if id, ok := fun.(*ast.Ident); ok {
					if inst, ok := hinfo.Instances[id]; ok && inst.TypeArgs != nil {
						var ts []types.Type
						for i := 0; i < inst.TypeArgs.Len(); i++ {
							ts = append(ts, inst.TypeArgs.At(i))
						}
						instArgs[hinfo.Uses[id]] = ts
					}
				}
				return true
			})
		}
		for _, hb := range hbs {
			info := hb.pk.TypesInfo
			var helperObj types.Object
			if hb.decl != nil {
				helperObj = info.Defs[hb.decl.Name]
			}
			ast.Inspect(hb.node, func(n ast.Node) bool {
				inner, ok := n.(*ast.CaseClause)
				if !ok || inner == cc {
					return true
				}
				isIface := false
				for _, e := range inner.List {
					if k, ok := reflectKindName(info, e); ok && k == "Interface" {
						isIface = true
					}
					// a tagless switch: case kind == reflect.Interface
					if be, ok := ast.Unparen(e).(*ast.BinaryExpr); ok && be.Op == token.EQL {
						for _, side := range []ast.Expr{be.X, be.Y} {
							if k, ok := reflectKindName(info, side); ok && k == "Interface" {
								isIface = true
							}
						}
					}
				}
				if !isIface {
					return true
				}
				found = true
				stores := 0
				ast.Inspect(inner, func(m ast.Node) bool {
					call, ok := m.(*ast.CallExpr)
					if !ok {
						return true
					}
					if fo := calleeObj(info, call); fo != nil && fo.Pkg() != nil && fo.Pkg().Path() == "reflect" && fo.Name() == "ValueOf" && len(call.Args) == 1 {
						stores++
						t := info.TypeOf(call.Args[0])
						// the value has the type parameter of a generic helper: what this clause instantiates it with
						if tp, ok := types.Unalias(t).(*types.TypeParam); ok && helperObj != nil {
							if args, ok := instArgs[helperObj]; ok && tp.Index() < len(args) {
								t = args[tp.Index()]
							}
						}
						if t == nil || t.String() != nat {
							o.Status, o.Got = core.Violated, fmt.Sprintf("stores a %v, the natural type of %s is %s", t, name, nat)
						}
					}
					return true
				})
				if stores == 0 {
					// a clause shared with concrete kinds that sets through SetInt/SetFloat/... cannot serve an interface target
					o.Status, o.Got = core.Violated, "the clause taking reflect.Interface targets stores no reflect.ValueOf(<"+nat+">)"
				}
				return false
			})
		}
		if !found {
			o.Status, o.Got = core.Violated, "no clause for reflect.Interface targets"
		}
		obs = append(obs, o)
	}
	return obs
}

// ------------------------------------------------- SNBT literal integer widths

// SNBTLiteralWidths: each integer suffix is parsed with strconv.ParseInt of the
// bit size of its tag (out-of-range literals are errors, not wrapped values).
// parseIntWithVariableWidth: package nbt calls strconv.ParseInt(s, 10, bits) with a computed bit size.
func (c *Ctx) parseIntWithVariableWidth() bool {
	for _, fn := range c.Funcs() {
		if !inPkgs(fn, "nbt") {
			continue
		}
		for _, ci := range callsIn(fn, func(n string, _ *ssa.CallCommon) bool { return n == "strconv.ParseInt" }) {
			a := ci.Common().Args
			if len(a) == 3 {
				if _, isConst := a[2].(*ssa.Const); !isConst {
					if k, ok := constIntVal(a[1]); ok && k == 10 {
						return true
					}
				}
			}
		}
	}
	return false
}

func (c *Ctx) SNBTLiteralWidths() []core.Ob {
	fn := c.literalParser()
	if fn == nil {
		return []core.Ob{{Rule: "T-SNBTSUF", Key: "literal-widths", Status: core.Violated, Armed: true, Want: "the SNBT literal classifier exists", Got: "not found"}}
	}
	width := map[string]string{"TagByte": "8", "TagShort": "16", "TagInt": "32", "TagLong": "64"}
	var obs []core.Ob
	fns, _, _ := c.literalParsers()
	seen := map[string]bool{}
	for _, fn := range fns {
		fd, pk := c.astFuncDecl(fn)
		info := pk.TypesInfo
		fd = normDecl(pk, fd)
		ast.Inspect(fd.Body, func(n ast.Node) bool {
			cc, ok := n.(*ast.CaseClause)
			if !ok || len(cc.Body) < 1 {
				return true
			}
			ret, ok := cc.Body[len(cc.Body)-1].(*ast.ReturnStmt)
			if !ok || len(ret.Results) == 0 {
				return true
			}
			tag, _, ok := tagConst(info, ret.Results[0])
			if !ok || width[tag] == "" || seen[tag] {
				return true
			}
			seen[tag] = true
			o := core.Ob{Rule: "T-SNBTSUF", Key: "literal-width:" + tag, Pos: c.P.Pos(cc.Pos()), Func: core.FnName(fn), Armed: true, Status: core.OK,
				Want: "a " + tag + " literal is parsed by strconv.ParseInt(s, 10, " + width[tag] + "): a value outside the tag's range is an error"}
			okParse := false
			ast.Inspect(cc, func(m ast.Node) bool {
				call, ok := m.(*ast.CallExpr)
				if !ok {
					return true
				}
				fo := calleeObj(info, call)
				if fo == nil || fo.Pkg() == nil || fo.Pkg().Path() != "strconv" {
					return true
				}
				if fo.Name() == "ParseInt" && len(call.Args) == 3 {
					if tv, ok := info.Types[call.Args[2]]; ok && tv.Value != nil && tv.Value.ExactString() == width[tag] {
						if b, ok := info.Types[call.Args[1]]; ok && b.Value != nil && b.Value.ExactString() == "10" {
							okParse = true
						}
					}
				}
				return true
			})
			// or the clause hands the width back as a constant (return TagByte, 8, true) for a ParseInt(s, 10, bits)
			if !okParse {
				for _, r := range ret.Results[1:] {
					if tv, ok := info.Types[r]; ok && tv.Value != nil && tv.Value.ExactString() == width[tag] && c.parseIntWithVariableWidth() {
						okParse = true
					}
				}
			}
			if !okParse {
				o.Status, o.Got = core.Violated, "not parsed with ParseInt(s, 10, "+width[tag]+"): out-of-range text is accepted and wraps"
			}
			obs = append(obs, o)
			return true
		})
	}
	if len(obs) < 4 {
		obs = append(obs, core.Ob{Rule: "T-SNBTSUF", Key: "literal-width:count", Status: core.Violated, Armed: true, Want: "4 integer literal clauses", Got: fmt.Sprint(len(obs))})
	}
	return obs
}

// ---------------------------------------------------------------------- T-BSFIX

// BitStorageFixSibling: Fix derives mask, bits and valuesPerLong from bits by
// the same expressions as the constructor, on the zero and non-zero branches.
func (c *Ctx) BitStorageFixSibling() []core.Ob {
	o := core.Ob{Rule: "T-BSFIX", Key: "Fix=NewBitStorage:derived-fields", Armed: true, Status: core.OK,
		Want: "Fix sets every field that NewBitStorage derives from the number of bits (the mask (1<<bits)-1, the width, the values per long 64/bits) to the same expression of its own bits argument, and to zero for 0 bits"}
	nb, fx := c.Fn("level.NewBitStorage"), c.Fn("level.(*BitStorage).Fix")
	if nb == nil || fx == nil || len(fx.Params) < 2 {
		o.Status, o.Got = core.Violated, "functions not found"
		return []core.Ob{o}
	}
	o.Pos, o.Func = c.P.Pos(fx.Pos()), core.FnName(fx)
	// expressions over the bits argument ("B"); other parameters are "P"
	var render func(v ssa.Value, bits ssa.Value, d int) string
	render = func(v ssa.Value, bits ssa.Value, d int) string {
		if d > 10 {
			return "?"
		}
		if v == bits {
			return "B"
		}
		switch x := v.(type) {
		case *ssa.Const:
			if n, ok := constInt(x); ok {
				return n.String()
			}
			return "const"
		case *ssa.Convert:
			return render(x.X, bits, d+1)
		case *ssa.ChangeType:
			return render(x.X, bits, d+1)
		case *ssa.Parameter:
			return "P"
		case *ssa.BinOp:
			return "(" + render(x.X, bits, d+1) + x.Op.String() + render(x.Y, bits, d+1) + ")"
		case *ssa.Call:
			// a straight-line helper of the package that only computes (valueMask(bits)): its result
			// expression, with the bits argument followed into it
			if g := x.Call.StaticCallee(); g != nil && inPkgs(g, "level") && len(g.Blocks) == 1 {
				if ret, ok := g.Blocks[0].Instrs[len(g.Blocks[0].Instrs)-1].(*ssa.Return); ok && len(ret.Results) == 1 {
					var gb ssa.Value
					for i, a := range x.Call.Args {
						if (a == bits || stripConv(a) == bits) && i < len(g.Params) {
							gb = g.Params[i]
						}
					}
					return render(ret.Results[0], gb, d+1)
				}
			}
		}
		return "?"
	}
	isBS := func(t types.Type) bool {
		n, ok := types.Unalias(deref(t)).(*types.Named)
		return ok && n.Obj().Name() == "BitStorage" && n.Obj().Pkg() != nil && core.Rel(n.Obj().Pkg().Path()) == "level"
	}
	// collect: field -> expression, for bits == 0 and for bits != 0, following helpers of the package that
	// are handed the bits value (a shared configure(bits) makes the two siblings agree by construction)
	var collect func(fn *ssa.Function, bits ssa.Value, depth int) (zero, nonzero map[string]string)
	collect = func(fn *ssa.Function, bits ssa.Value, depth int) (zero, nonzero map[string]string) {
		zero, nonzero = map[string]string{}, map[string]string{}
		if depth > 3 || len(fn.Blocks) == 0 {
			return
		}
		var zb, nzb *ssa.BasicBlock
		for _, b := range fn.Blocks {
			if len(b.Instrs) == 0 {
				continue
			}
			if iff, ok := b.Instrs[len(b.Instrs)-1].(*ssa.If); ok {
				if cmp, ok := iff.Cond.(*ssa.BinOp); ok && cmp.X == bits {
					if k, ok := constIntVal(cmp.Y); ok && k == 0 && (cmp.Op == token.EQL || cmp.Op == token.NEQ) && zb == nil {
						zb, nzb = b.Succs[0], b.Succs[1]
						if cmp.Op == token.NEQ {
							zb, nzb = nzb, zb
						}
					}
				}
			}
		}
		for _, b := range fn.Blocks {
			var dsts []map[string]string
			switch {
			// (a successor with a second predecessor is where the two cases meet again, not one of them)
			case zb != nil && len(zb.Preds) == 1 && (b == zb || zb.Dominates(b)):
				dsts = []map[string]string{zero}
			case nzb != nil && len(nzb.Preds) == 1 && (b == nzb || nzb.Dominates(b)):
				dsts = []map[string]string{nonzero}
			case zb != nil && len(zb.Preds) == 1 && len(nzb.Preds) != 1:
				// "if bits == 0 { ...; return }; rest": the rest runs only for bits != 0 when the zero branch leaves
				if leavesFunc(zb) && nzb.Dominates(b) {
					dsts = []map[string]string{nonzero}
				} else {
					dsts = []map[string]string{zero, nonzero}
				}
			default:
				dsts = []map[string]string{zero, nonzero}
			}
			for _, in := range b.Instrs {
				switch x := in.(type) {
				case *ssa.Store:
					fa, ok := x.Addr.(*ssa.FieldAddr)
					if !ok || !isBS(fa.X.Type()) {
						continue
					}
					stt := deref(fa.X.Type()).Underlying().(*types.Struct)
					for _, d := range dsts {
						d[stt.Field(fa.Field).Name()] = render(x.Val, bits, 0)
					}
				case *ssa.Call:
					sc := x.Common().StaticCallee()
					if sc == nil || !inPkgs(sc, "level") || core.Origin(sc) == fn {
						continue
					}
					for i, a := range x.Common().Args {
						if a == bits && i < len(sc.Params) {
							gz, gnz := collect(core.Origin(sc), sc.Params[i], depth+1)
							for _, d := range dsts {
								src := gnz
								if isSameMap(d, zero) {
									src = gz
								}
								for k, v := range src {
									d[k] = v
								}
							}
						}
					}
				}
			}
		}
		return
	}
	nz, nn := collect(nb, ssa.Value(nb.Params[0]), 0)
	fz, fn2 := collect(fx, ssa.Value(fx.Params[1]), 0)
	show := func(m map[string]string, keys []string) string {
		var ks []string
		for _, k := range keys {
			ks = append(ks, k+"="+m[k])
		}
		return strings.Join(ks, " ")
	}
	// the fields derived from the bits argument: those whose constructor value mentions it
	var derived []string
	for f, e := range nn {
		if strings.Contains(e, "B") && !strings.Contains(e, "?") {
			derived = append(derived, f)
		}
	}
	sort.Strings(derived)
	if len(derived) < 3 {
		o.Status, o.Got = core.Violated, fmt.Sprintf("only %d fields derived from the bits argument recognised in NewBitStorage {%s}", len(derived), show(nn, derived))
		return []core.Ob{o}
	}
	for _, f := range derived {
		if fn2[f] != nn[f] {
			o.Status, o.Got = core.Violated, "for bits != 0: NewBitStorage {"+show(nn, derived)+"} vs Fix {"+show(fn2, derived)+"}"
		}
		// for 0 bits every derived field is zero (a stored B is the bits argument itself, 0 on this branch);
		// go/ssa omits zero-valued fields of a composite literal, so the constructor may list nothing
		if v, ok := nz[f]; ok && v != "0" && v != "B" {
			o.Status, o.Got = core.Violated, "NewBitStorage with 0 bits sets "+f+"="+v
		}
		if v := fz[f]; v != "0" && v != "B" {
			o.Status, o.Got = core.Violated, "Fix with 0 bits sets {"+show(fz, derived)+"}, want all zero: a storage reused for a single-valued section keeps a stale width"
		}
	}
	if o.Status == core.OK {
		o.Got = show(fn2, derived)
	}
	return []core.Ob{o}
}

func isSameMap(a, b map[string]string) bool {
	return reflect.ValueOf(a).Pointer() == reflect.ValueOf(b).Pointer()
}

// leavesFunc: the block ends the function (return or panic) without branching.
func leavesFunc(b *ssa.BasicBlock) bool {
	for i := 0; i < 8; i++ {
		if len(b.Instrs) == 0 {
			return false
		}
		switch b.Instrs[len(b.Instrs)-1].(type) {
		case *ssa.Return, *ssa.Panic:
			return true
		case *ssa.Jump:
			b = b.Succs[0]
		default:
			return false
		}
	}
	return false
}

// isReadPacketID: v is the first result of RCONConn.ReadPacket, directly or through a field of a
// local struct that is written once in g, with that result.
func isReadPacketID(v ssa.Value, g *ssa.Function, depth int) bool {
	if ex, isEx := v.(*ssa.Extract); isEx && ex.Index == 0 {
		if cl, isCl := ex.Tuple.(*ssa.Call); isCl && strings.HasSuffix(calleeName(cl.Common()), "net.(RCONConn).ReadPacket") {
			return true
		}
	}
	if depth > 1 {
		return false
	}
	vals, ok := localFieldStores(v)
	if !ok || len(vals) != 1 {
		return false
	}
	return isReadPacketID(vals[0], g, depth+1)
}

// localFieldStores: v loads a field of a local struct that is only written field by field (never
// as a whole, never through a pointer that leaves the function); the values stored into that field.
func localFieldStores(v ssa.Value) ([]ssa.Value, bool) {
	ld, ok := v.(*ssa.UnOp)
	if !ok || ld.Op != token.MUL {
		return nil, false
	}
	fa, ok := ld.X.(*ssa.FieldAddr)
	if !ok {
		return nil, false
	}
	al, ok := fa.X.(*ssa.Alloc)
	if !ok || al.Referrers() == nil {
		return nil, false
	}
	for _, r := range *al.Referrers() {
		if _, isFA := r.(*ssa.FieldAddr); isFA {
			continue
		}
		if u, isLd := r.(*ssa.UnOp); isLd && u.Op == token.MUL {
			continue
		}
		if _, isDbg := r.(*ssa.DebugRef); isDbg {
			continue
		}
		// "return req, err" with a named result copies the local onto itself
		if w, isSt := r.(*ssa.Store); isSt && w.Addr == al {
			if l, isLd := w.Val.(*ssa.UnOp); isLd && l.Op == token.MUL && l.X == al {
				continue
			}
		}
		return nil, false
	}
	var vals []ssa.Value
	for _, r := range *al.Referrers() {
		f2, isFA := r.(*ssa.FieldAddr)
		if !isFA || f2.Field != fa.Field {
			continue
		}
		for _, u := range *f2.Referrers() {
			switch u := u.(type) {
			case *ssa.Store:
				if u.Addr != f2 {
					return nil, false
				}
				vals = append(vals, u.Val)
			case *ssa.UnOp, *ssa.DebugRef:
			default:
				return nil, false
			}
		}
	}
	return vals, len(vals) > 0
}

// RCONReqID: AcceptLogin and AcceptCmd record the id of the packet they just
// read; RespCmd and Cmd send under the recorded id.
func (c *Ctx) RCONReqID() []core.Ob {
	var obs []core.Ob
	for _, name := range []string{"net.(*RCONConn).AcceptLogin", "net.(*RCONConn).AcceptCmd"} {
		fn := c.Fn(name)
		o := core.Ob{Rule: "R-ORIGIN", Key: "rcon:" + name + ":records-request-id", Armed: true, Status: core.OK,
			Want: "the server side stores the request id of the packet it has just read into ReqID, so that the response goes out under the id in use"}
		if fn == nil {
			o.Status, o.Got = core.Violated, "not found"
			obs = append(obs, o)
			continue
		}
		o.Pos, o.Func = c.P.Pos(fn.Pos()), core.FnName(fn)
		// in the method itself or in a helper of the package it calls (acceptPacket)
		ok := false
		for _, g := range c.withPkgCallees(fn, 2) {
			if len(g.Params) == 0 {
				continue
			}
			for _, b := range g.Blocks {
				for _, in := range b.Instrs {
					st, isSt := in.(*ssa.Store)
					if !isSt {
						continue
					}
					if p, isF := fieldPathFromRecv(st.Addr, g.Params[0]); !isF || p != "ReqID" {
						continue
					}
					if isReadPacketID(st.Val, g, 0) {
						ok = true
					}
				}
			}
		}
		if !ok {
			o.Status, o.Got = core.Violated, "ReqID is not assigned from the request id returned by ReadPacket"
		}
		obs = append(obs, o)
	}
	for _, d := range []struct {
		fn  string
		typ int64
	}{{"net.(*RCONConn).RespCmd", 0}, {"net.(*RCONConn).Cmd", 2}} {
		fn := c.Fn(d.fn)
		o := core.Ob{Rule: "R-ORIGIN", Key: "rcon:" + d.fn + ":sends-under-current-id", Armed: true, Status: core.OK,
			Want: fmt.Sprintf("%s writes a packet of type %d under the current ReqID", d.fn, d.typ)}
		if fn == nil {
			o.Status, o.Got = core.Violated, "not found"
			obs = append(obs, o)
			continue
		}
		o.Pos, o.Func = c.P.Pos(fn.Pos()), core.FnName(fn)
		calls := callsIn(fn, func(n string, _ *ssa.CallCommon) bool { return strings.HasSuffix(n, "net.(RCONConn).WritePacket") })
		if len(calls) != 1 {
			o.Status, o.Got = core.Violated, fmt.Sprintf("%d WritePacket calls", len(calls))
		} else {
			args := calls[0].Common().Args
			if p, ok := fieldPathFromRecv(args[1], fn.Params[0]); !ok || p != "ReqID" {
				o.Status, o.Got = core.Violated, "the request id argument is not the ReqID field"
			}
			if k, ok := constIntVal(args[2]); !ok || k != d.typ {
				o.Status, o.Got = core.Violated, "wrong packet type constant"
			}
		}
		obs = append(obs, o)
	}
	return obs
}

// --------------------------------------------------------------- C17 JSON rules

// JSONCustomCodec: encoding/json calls in package chat operate on a type that
// carries the custom (Un)MarshalJSON, unless made from inside that method.
func (c *Ctx) JSONCustomCodec() []core.Ob {
	var obs []core.Ob
	pk := c.P.Pkg("chat")
	if pk == nil {
		return []core.Ob{{Rule: "R-MARSHALER", Key: "json:pkg", Status: core.Violated, Armed: true, Got: "package chat not found"}}
	}
	hasMethod := func(t types.Type, name string) bool {
		for _, tt := range []types.Type{t, types.NewPointer(t)} {
			ms := types.NewMethodSet(tt)
			for i := 0; i < ms.Len(); i++ {
				if ms.At(i).Obj().Name() == name {
					return true
				}
			}
		}
		return false
	}
	n := 0
	for _, fn := range c.Funcs() {
		if !inPkgs(fn, "chat") {
			continue
		}
		for _, ci := range callsIn(fn, func(nm string, _ *ssa.CallCommon) bool {
			return nm == "encoding/json.Marshal" || nm == "encoding/json.Unmarshal"
		}) {
			name := calleeName(ci.Common())
			method := "MarshalJSON"
			arg := ci.Common().Args[0]
			if strings.HasSuffix(name, "Unmarshal") {
				method = "UnmarshalJSON"
				arg = ci.Common().Args[1]
			}
			if mi, ok := arg.(*ssa.MakeInterface); ok {
				arg = mi.X
			}
			t := deref(arg.Type())
			named, ok := types.Unalias(t).(*types.Named)
			if !ok || named.Obj().Pkg() == nil || named.Obj().Pkg() != pk.Types {
				continue
			}
			n++
			o := core.Ob{Rule: "R-MARSHALER", Key: fmt.Sprintf("json:%s#%s(%s)", core.FnName(fn), method, named.Obj().Name()), Pos: c.P.Pos(ci.Pos()), Func: core.FnName(fn), Armed: true, Status: core.OK,
				Want: "encoding/json is handed a chat type that carries the custom " + method + " (a defined type `type X Message` does not inherit it), except inside that method itself where the plain struct form is intended"}
			if !hasMethod(named, method) {
				// is there a sibling type with identical underlying type that has the method?
				sibling := ""
				sc := pk.Types.Scope()
				for _, nm := range sc.Names() {
					if tn, ok := sc.Lookup(nm).(*types.TypeName); ok && tn.Type() != types.Type(named) {
						if types.Identical(tn.Type().Underlying(), named.Underlying()) && hasMethod(tn.Type(), method) {
							sibling = nm
						}
					}
				}
				inside := fn.Name() == method
				if sibling != "" && !inside {
					o.Status, o.Got = core.Violated, named.Obj().Name()+" has no "+method+"; json falls back to the plain struct codec (bare strings and lists are rejected), convert to "+sibling
				}
			}
			obs = append(obs, o)
		}
	}
	if n < 2 {
		obs = append(obs, core.Ob{Rule: "R-MARSHALER", Key: "json:count", Status: core.Violated, Armed: true, Want: ">= 2 json calls on chat types", Got: fmt.Sprint(n)})
	}
	return obs
}

// TranslateArgTypes: the dynamic types the decoders append to TranslateArgs are
// the ones the renderers' type switches know (Message) or plain strings.
func (c *Ctx) TranslateArgTypes() []core.Ob {
	var obs []core.Ob
	n := 0
	for _, fn := range c.Funcs() {
		if !inPkgs(fn, "chat") {
			continue
		}
		for _, b := range fn.Blocks {
			for _, in := range b.Instrs {
				call, ok := in.(*ssa.Call)
				if !ok {
					continue
				}
				bi, ok := call.Common().Value.(*ssa.Builtin)
				if !ok || bi.Name() != "append" || len(call.Common().Args) != 2 {
					continue
				}
				// appends to a TranslateArgs value (in its decoders or in helpers they call)
				if nt, ok := types.Unalias(call.Type()).(*types.Named); !ok || nt.Obj().Name() != "TranslateArgs" {
					continue
				}
				// the appended variadic slice: elements boxed into any
				for _, el := range variadicElems(call.Common().Args[1]) {
					mi, ok := el.(*ssa.MakeInterface)
					if !ok {
						continue
					}
					n++
					ts := mi.X.Type().String()
					o := core.Ob{Rule: "T-ARGKIND", Key: fmt.Sprintf("%s#append%d", core.FnName(fn), n), Pos: c.P.Pos(call.Pos()), Func: core.FnName(fn), Armed: true, Status: core.OK,
						Want: "a decoded translation argument is stored as chat.Message (the type ClearString/String dispatch on) or as a string"}
					if !(ts == core.ModPath+"/chat.Message" || ts == "string") {
						o.Status, o.Got = core.Violated, "stored as "+ts+": the plain-text renderer's `case Message` misses it"
					}
					obs = append(obs, o)
				}
			}
		}
	}
	if n < 2 {
		obs = append(obs, core.Ob{Rule: "T-ARGKIND", Key: "count", Status: core.Violated, Armed: true, Want: ">= 2 appends to TranslateArgs in the decoders (messages and numbers)", Got: fmt.Sprint(n)})
	}
	return obs
}

func variadicElems(v ssa.Value) []ssa.Value {
	sl, ok := v.(*ssa.Slice)
	if !ok {
		return nil
	}
	al, ok := sl.X.(*ssa.Alloc)
	if !ok || al.Referrers() == nil {
		return nil
	}
	var out []ssa.Value
	for _, r := range *al.Referrers() {
		if ia, ok := r.(*ssa.IndexAddr); ok && ia.Referrers() != nil {
			for _, s := range *ia.Referrers() {
				if st, ok := s.(*ssa.Store); ok {
					out = append(out, st.Val)
				}
			}
		}
	}
	return out
}

// ------------------------------------------------------------- C18 small rules

// OfflineUUIDInputs: NameToUUID hashes the constant prefix and the whole name.
func (c *Ctx) OfflineUUIDInputs() []core.Ob {
	fn := c.Fn("offline.NameToUUID")
	o := core.Ob{Rule: "R-ORIGIN", Key: "offline:NameToUUID-hashes-whole-name", Armed: true, Status: core.OK,
		Want: "the digest is fed the constant \"OfflinePlayer:\" and then the complete name parameter (converted to bytes, not copied into a fixed buffer)"}
	if fn == nil {
		o.Status, o.Got = core.Violated, "offline.NameToUUID not found"
		return []core.Ob{o}
	}
	o.Pos, o.Func = c.P.Pos(fn.Pos()), core.FnName(fn)
	// everything the digest is fed, in order: hash.Write(b), io.WriteString(h, s), md5.Sum(b) - in
	// NameToUUID or in the helper of the package that computes the digest (nameDigest(name, ..))
	var fed []ssa.Value
	nameVal := ssa.Value(fn.Params[0])
	for _, g := range c.withPkgCallees(fn, 2) {
		var gfed []ssa.Value
		for _, b := range g.Blocks {
			for _, in := range b.Instrs {
				ci, ok := in.(ssa.CallInstruction)
				if !ok {
					continue
				}
				cc := ci.Common()
				switch n := calleeName(cc); {
				case cc.IsInvoke() && (cc.Method.Name() == "Write" || cc.Method.Name() == "WriteString") && len(cc.Args) == 1:
					gfed = append(gfed, cc.Args[0])
				case n == "io.WriteString" && len(cc.Args) == 2:
					gfed = append(gfed, cc.Args[1])
				case n == "crypto/md5.Sum" && len(cc.Args) == 1:
					gfed = append(gfed, cc.Args[0])
				}
			}
		}
		if len(gfed) == 0 {
			continue
		}
		fed = gfed
		if g != fn {
			// which parameter of the helper receives the name
			nameVal = nil
			for _, p := range g.Params {
				as := paramArgs(g, p)
				if len(as) > 0 {
					all := true
					for _, a := range as {
						if a != ssa.Value(fn.Params[0]) {
							all = false
						}
					}
					if all {
						nameVal = p
					}
				}
			}
		}
		break
	}
	// flatten conversions and string concatenations into their leaves
	var leaves []ssa.Value
	var flat func(v ssa.Value, d int)
	flat = func(v ssa.Value, d int) {
		if d > 6 {
			leaves = append(leaves, v)
			return
		}
		switch x := v.(type) {
		case *ssa.Convert:
			flat(x.X, d+1)
		case *ssa.ChangeType:
			flat(x.X, d+1)
		case *ssa.BinOp:
			if x.Op == token.ADD {
				flat(x.X, d+1)
				flat(x.Y, d+1)
				return
			}
			leaves = append(leaves, v)
		default:
			leaves = append(leaves, v)
		}
	}
	for _, a := range fed {
		flat(a, 0)
	}
	prefixOK, nameOK := false, false
	if len(leaves) == 2 {
		if k, ok := leaves[0].(*ssa.Const); ok && k.Value != nil && k.Value.Kind() == constant.String && constant.StringVal(k.Value) == "OfflinePlayer:" {
			prefixOK = true
		}
		nameOK = nameVal != nil && leaves[1] == nameVal
	}
	if !prefixOK || !nameOK {
		o.Status, o.Got = core.Violated, fmt.Sprintf("the digest input is not exactly \"OfflinePlayer:\" followed by the name (%d pieces; prefix=%v, whole name=%v)", len(leaves), prefixOK, nameOK)
	}
	// version / variant bits: known-bits of the values stored into id[6] and id[8]
	v := core.Ob{Rule: "T-UUIDV3", Key: "offline:version-and-variant-bits", Armed: true, Status: core.OK, Pos: o.Pos, Func: o.Func,
		Want: "byte 6 of the digest gets high nibble 0011 (version 3) and byte 8 gets top bits 10 (RFC 4122 variant), keeping the other bits of the digest"}
	stores := map[int64]ssa.Value{}
	for _, g := range c.withPkgCallees(fn, 2) {
		for _, b := range g.Blocks {
			for _, in := range b.Instrs {
				if st, ok := in.(*ssa.Store); ok {
					if ia, ok := st.Addr.(*ssa.IndexAddr); ok {
						if k, ok := constIntVal(ia.Index); ok {
							stores[k] = st.Val
						}
					}
				}
			}
		}
	}
	chk := func(idx int64, keepMask, setBits int64) string {
		val, ok := stores[idx]
		if !ok {
			return fmt.Sprintf("no store to byte %d", idx)
		}
		ones, zeros, ok := knownBits(val, 0)
		if !ok {
			return fmt.Sprintf("byte %d is not (digest & mask) | bits", idx)
		}
		forced := int64(0xff) &^ keepMask
		if ones&forced != setBits || zeros&forced != forced&^setBits {
			return fmt.Sprintf("byte %d: forced bits are ones=%#x zeros=%#x, want ones=%#x in mask %#x", idx, ones&forced, zeros&forced, setBits, forced)
		}
		if (ones|zeros)&keepMask != 0 {
			return fmt.Sprintf("byte %d: digest bits %#x are not preserved", idx, (ones|zeros)&keepMask)
		}
		return ""
	}
	if why := chk(6, 0x0f, 0x30); why != "" {
		v.Status, v.Got = core.Violated, why
	} else if why := chk(8, 0x3f, 0x80); why != "" {
		v.Status, v.Got = core.Violated, why
	}
	return []core.Ob{o, v}
}

// knownBits: bits of an 8-bit expression known to be 1 / known to be 0.
func knownBits(v ssa.Value, depth int) (ones, zeros int64, ok bool) {
	if depth > 8 {
		return 0, 0, false
	}
	v = stripConv(v)
	if k, isK := constIntVal(v); isK {
		return k & 0xff, ^k & 0xff, true
	}
	switch x := v.(type) {
	case *ssa.BinOp:
		lo, lz, lok := knownBits(x.X, depth+1)
		ro, rz, rok := knownBits(x.Y, depth+1)
		if !lok || !rok {
			return 0, 0, false
		}
		switch x.Op {
		case token.AND:
			return lo & ro, (lz | rz) & 0xff, true
		case token.OR:
			return (lo | ro) & 0xff, lz & rz, true
		case token.SHL:
			if k, isK := constIntVal(stripConv(x.Y)); isK && k >= 0 && k < 8 {
				return (lo << uint(k)) & 0xff, ((lz << uint(k)) | (1<<uint(k) - 1)) & 0xff, true
			}
		}
		return 0, 0, false
	case *ssa.UnOp:
		if x.Op == token.MUL {
			return 0, 0, true // a loaded byte: nothing known
		}
	case *ssa.Parameter:
		// a parameter of a helper that every call site gives the same constant (the version number)
		if k, ok := constParamValue(x); ok {
			return k & 0xff, ^k & 0xff, true
		}
	}
	return 0, 0, false
}

// constParamValue: every static call of p's function in its package passes the same integer constant for p.
func constParamValue(p *ssa.Parameter) (int64, bool) {
	fn := p.Parent()
	if fn == nil || fn.Pkg == nil {
		return 0, false
	}
	idx := -1
	for i, q := range fn.Params {
		if q == p {
			idx = i
		}
	}
	if idx < 0 {
		return 0, false
	}
	val, n := int64(0), 0
	for _, m := range fn.Pkg.Members {
		g, ok := m.(*ssa.Function)
		if !ok {
			continue
		}
		fns := append([]*ssa.Function{g}, g.AnonFuncs...)
		for _, h := range fns {
			for _, b := range h.Blocks {
				for _, in := range b.Instrs {
					ci, ok := in.(ssa.CallInstruction)
					if !ok || ci.Common().StaticCallee() != fn || idx >= len(ci.Common().Args) {
						continue
					}
					k, isK := constIntVal(ci.Common().Args[idx])
					if !isK || (n > 0 && k != val) {
						return 0, false
					}
					val = k
					n++
				}
			}
		}
	}
	// methods of the package's types
	return val, n > 0
}

// SignatureHashOrder: in VerifySignature the base64 encoder is closed before
// the line breaker it writes into (inner writer flushed first).
func (c *Ctx) SignatureHashOrder() []core.Ob {
	fn := c.Fn("yggdrasil/user.VerifySignature")
	o := core.Ob{Rule: "R-ORDER", Key: "VerifySignature:writers-closed-inside-out", Armed: true, Status: core.OK,
		Want: "the base64 encoder is closed (flushing its final quantum) before the line breaker it writes into is closed, and both before the hash is summed"}
	if fn == nil {
		o.Status, o.Got = core.Violated, "not found"
		return []core.Ob{o}
	}
	// decided on the inlined view of VerifySignature: the encoder, the line breaker and the hash may
	// be handled in different helpers of the package
	o.Pos, o.Func = c.P.Pos(fn.Pos()), core.FnName(fn)
	v := c.inlineView(fn, 3)
	var encNode *inode
	var encoder, breaker ssa.Value
	for _, n := range v.nodes {
		if ci, ok := n.in.(ssa.CallInstruction); ok && calleeName(ci.Common()) == "encoding/base64.NewEncoder" && len(ci.Common().Args) == 2 {
			if val, ok := ci.(ssa.Value); ok {
				encNode, encoder = n, val
				breaker = ci.Common().Args[1]
				if mi, ok := breaker.(*ssa.MakeInterface); ok {
					breaker = mi.X
				}
			}
		}
	}
	encClose, brkClose, sum := -1, -1, -1
	for _, n := range v.nodes {
		ci, ok := n.in.(ssa.CallInstruction)
		if !ok {
			continue
		}
		cc := ci.Common()
		sameFrame := encNode != nil && n.frame == encNode.frame
		switch {
		case sameFrame && cc.IsInvoke() && cc.Method.Name() == "Close" && cc.Value == encoder:
			encClose = n.id
		case sameFrame && !cc.IsInvoke() && cc.StaticCallee() != nil && cc.StaticCallee().Name() == "Close" && len(cc.Args) > 0 && breaker != nil && cc.Args[0] == breaker:
			brkClose = n.id
		case sameFrame && cc.IsInvoke() && cc.Method.Name() == "Close" && breaker != nil && stripIface(cc.Value) == breaker:
			brkClose = n.id
		case cc.IsInvoke() && cc.Method.Name() == "Sum":
			sum = n.id
		}
	}
	before := func(a, b int) bool { return a >= 0 && b >= 0 && a != b && v.dominates(a, b) }
	if !before(encClose, brkClose) || !before(brkClose, sum) {
		o.Status, o.Got = core.Violated, "close order is not encoder -> line breaker -> Sum: the last base64 quantum never reaches the hash"
	}
	return []core.Ob{o}
}

// --------------------------------------------------------------- C19 / C01 small

// ReceiveBufferPerPacket: the bot's reader goroutine takes a fresh buffer from
// the pool for every packet it pushes into the receive queue.
func (c *Ctx) ReceiveBufferPerPacket() []core.Ob {
	o := core.Ob{Rule: "R-POOL", Key: "bot:receive-loop:buffer-per-packet", Armed: true, Status: core.OK,
		Want: "every packet pushed into the receive queue owns a buffer taken from the pool in the same loop iteration (queued packets never share a backing array)"}
	// the receive loop: the function (goroutine body or method) of package bot that reads packets
	// from the network connection and pushes them into a queue - found by what it calls, not by name
	found := false
	for _, cl := range c.Funcs() {
		if !inPkgs(cl, "bot") {
			continue
		}
		var get, push, read ssa.Instruction
		for _, b := range cl.Blocks {
			for _, in := range b.Instrs {
				ci, ok := in.(ssa.CallInstruction)
				if !ok {
					continue
				}
				n := calleeName(ci.Common())
				if n == "sync.(Pool).Get" {
					get = in
				}
				if strings.HasSuffix(n, "/net.(Conn).ReadPacket") {
					read = in
				}
				if ci.Common().IsInvoke() && ci.Common().Method.Name() == "Push" {
					push = in
				}
			}
		}
		if push == nil || read == nil {
			continue
		}
		found = true
		o.Pos, o.Func = c.P.Pos(cl.Pos()), core.FnName(cl)
		if get == nil {
			o.Status, o.Got = core.Violated, "the reader goroutine pushes packets without taking a buffer from the pool"
			continue
		}
		// both in the same natural loop
		same := false
		for _, lp := range naturalLoops(cl) {
			if lp.body[get.Block()] && lp.body[push.Block()] {
				same = true
			}
		}
		if !same {
			o.Status, o.Got = core.Violated, "pool.Get is outside the receive loop: all queued packets alias one buffer and later frames overwrite earlier ones"
		}
	}
	if !found {
		o.Status, o.Got = core.Violated, "no function of package bot reads packets from the connection and pushes them into a queue"
	}
	return []core.Ob{o}
}

// OmitEmptyTestsField: the encoder applies omitempty to the struct field value
// itself, before any dereferencing done for tag selection.
func (c *Ctx) OmitEmptyTestsField() []core.Ob {
	var fn *ssa.Function
	if ws := c.encoderDispatch(); ws != nil {
		fn = c.Fn(ws.fn)
	}
	o := core.Ob{Rule: "R-ORDER", Key: "nbt.writeValue:omitempty-on-the-field-itself", Armed: true, Status: core.OK,
		Want: "isEmptyValue is applied to the field's own value (a nil pointer / nil interface is empty, a pointer to zero is not), not to the value getTagType dereferenced"}
	if fn == nil {
		o.Status, o.Got = core.Violated, "not found"
		return []core.Ob{o}
	}
	o.Pos, o.Func = c.P.Pos(fn.Pos()), core.FnName(fn)
	// the emptiness test: a nbt function (reflect.Value) bool; the tag selector: a nbt function returning (byte, reflect.Value).
	// Looked for in the encoder's dispatcher and in the helpers of the package it hands the struct fields to.
	var calls []ssa.CallInstruction
	for _, g := range c.withPkgCallees(fn, 2) {
		calls = append(calls, callsIn(g, func(n string, cc *ssa.CallCommon) bool {
			sc := cc.StaticCallee()
			if sc == nil || !inPkgs(sc, "nbt") || len(sc.Params) != 1 || sc.Params[0].Type().String() != "reflect.Value" || sc.Signature.Results().Len() != 1 {
				return false
			}
			b, ok := sc.Signature.Results().At(0).Type().Underlying().(*types.Basic)
			return ok && b.Kind() == types.Bool
		})...)
	}
	if len(calls) == 0 {
		o.Status, o.Got = core.Violated, "no emptiness test (func(reflect.Value) bool) in the struct field loop"
	}
	for _, ci := range calls {
		arg := ci.Common().Args[0]
		if ex, ok := arg.(*ssa.Extract); ok {
			if cl, ok := ex.Tuple.(*ssa.Call); ok {
				if sc := cl.Common().StaticCallee(); sc != nil && inPkgs(sc, "nbt") && sc.Signature.Results().Len() == 2 && sc.Signature.Results().At(1).Type().String() == "reflect.Value" {
					o.Status, o.Got = core.Violated, "omitempty is tested on the value returned by the tag selector (already dereferenced / allocated)"
				}
			}
		}
	}
	return []core.Ob{o}
}

// ------------------------------------------------------------ C10 constructor

// NoRetainedParamSlices: a constructor of cipher state does not keep memory of
// its slice parameters (append on a parameter shares the caller's backing
// array whenever it has spare capacity).
func (c *Ctx) NoRetainedParamSlices(pkg string) []core.Ob {
	var obs []core.Ob
	n := 0
	for _, fn := range c.Funcs() {
		if !inPkgs(fn, pkg) || fn.Parent() != nil {
			continue
		}
		var sliceParams []ssa.Value
		for _, p := range fn.Params {
			if _, ok := p.Type().Underlying().(*types.Slice); ok {
				sliceParams = append(sliceParams, p)
			}
		}
		if len(sliceParams) == 0 {
			continue
		}
		// values aliasing a slice parameter: the parameter, slices of it, append(param, ...)
		alias := map[ssa.Value]bool{}
		for _, p := range sliceParams {
			alias[p] = true
		}
		for changed := true; changed; {
			changed = false
			for _, b := range fn.Blocks {
				for _, in := range b.Instrs {
					v, ok := in.(ssa.Value)
					if !ok || alias[v] {
						continue
					}
					switch x := in.(type) {
					case *ssa.Slice:
						if alias[x.X] {
							alias[v], changed = true, true
						}
					case *ssa.Phi:
						for _, e := range x.Edges {
							if alias[e] {
								alias[v], changed = true, true
							}
						}
					case *ssa.Call:
						if bi, ok := x.Common().Value.(*ssa.Builtin); ok && bi.Name() == "append" && alias[x.Common().Args[0]] {
							alias[v], changed = true, true
						}
					case *ssa.ChangeType:
						if alias[x.X] {
							alias[v], changed = true, true
						}
					}
				}
			}
		}
		for _, b := range fn.Blocks {
			for _, in := range b.Instrs {
				st, ok := in.(*ssa.Store)
				if !ok || !alias[st.Val] {
					continue
				}
				if _, isField := st.Addr.(*ssa.FieldAddr); !isField {
					continue
				}
				n++
				obs = append(obs, core.Ob{Rule: "R-NOALIAS", Key: fmt.Sprintf("%s#retains-parameter%d", core.FnName(fn), n), Pos: c.P.Pos(st.Pos()), Func: core.FnName(fn), Armed: true, Status: core.Violated,
					Want: "cipher state owns its buffers: no field is set to a slice that aliases a slice parameter (append on a parameter reuses the caller's backing array when it has spare capacity)",
					Got:  "a struct field is set to memory shared with the caller: two streams built from the same IV slice corrupt each other"})
			}
		}
	}
	obs = append(obs, core.Ob{Rule: "R-NOALIAS", Key: pkg + ":constructors-copy-their-inputs", Armed: true, Status: core.OK,
		Want: "constructors in " + pkg + " copy their slice parameters", Got: fmt.Sprintf("%d retained aliases", n)})
	return obs
}
