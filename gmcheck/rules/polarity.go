package rules

// R-POLARITY / R-ORIGIN: security and acknowledgement decisions have the right
// sense and use the right operands (named instances).

import (
	"fmt"
	"go/token"
	"go/types"
	"strings"

	"gmcheck/core"

	"golang.org/x/tools/go/ssa"
)

func polOb(c *Ctx, key, want string, fn *ssa.Function) core.Ob {
	o := core.Ob{Rule: "R-POLARITY", Key: key, Want: want, Armed: true, Status: core.OK}
	if fn != nil {
		o.Pos, o.Func = c.P.Pos(fn.Pos()), core.FnName(fn)
	}
	return o
}

// boolTrueOnlyWhenNil: fn returns bool; checks that the returned value is
// (call == nil) for a call satisfying isCall, possibly and-ed with other
// conditions (true only if the call returned nil).
func boolReturnsNilTest(fn *ssa.Function, isCall func(*ssa.Call) bool) (ok bool, why string, call *ssa.Call) {
	found := false
	for _, b := range fn.Blocks {
		for _, in := range b.Instrs {
			r, isR := in.(*ssa.Return)
			if !isR || len(r.Results) != 1 {
				continue
			}
			v := r.Results[0]
			switch x := v.(type) {
			case *ssa.Const:
				// constant false is always fine; constant true needs the success edge
				if x.Value != nil && x.Value.String() == "true" {
					if !dominatedByNilEdge(b, fn, isCall) {
						return false, "returns true on a path that does not pass the == nil edge of the verification call", nil
					}
				}
			case *ssa.BinOp:
				cl, pol, isT := nilTestOf(x, isCall)
				if !isT {
					return false, "the returned comparison is not a nil test of the verification result", nil
				}
				if !pol {
					return false, "returns (err != nil): true exactly when verification FAILED - inverted polarity", cl
				}
				found, call = true, cl
			case *ssa.Phi:
				// short-circuit && : every edge carrying a possibly-true value must be a nil test or come after one
				for i, e := range x.Edges {
					switch ev := e.(type) {
					case *ssa.Const:
						if ev.Value != nil && ev.Value.String() == "true" && !dominatedByNilEdge(x.Block().Preds[i], fn, isCall) {
							return false, "a true constant flows to the result without the == nil edge", nil
						}
					case *ssa.BinOp:
						cl, pol, isT := nilTestOf(ev, isCall)
						if isT {
							if !pol {
								return false, "returns (err != nil): inverted polarity", cl
							}
							found, call = true, cl
						} else if !dominatedByNilEdge(x.Block().Preds[i], fn, isCall) {
							return false, "a non-nil-test boolean flows to the result without the == nil edge", nil
						}
					default:
						if !dominatedByNilEdge(x.Block().Preds[i], fn, isCall) {
							return false, "an unrelated boolean flows to the result without the == nil edge", nil
						}
					}
				}
				found = true
			default:
				return false, "result is not a nil test of the verification call", nil
			}
		}
	}
	if !found {
		// maybe all returns are constants guarded by edges
		for _, b := range fn.Blocks {
			for _, in := range b.Instrs {
				if cl, ok := in.(*ssa.Call); ok && isCall(cl) {
					return true, "", cl
				}
			}
		}
		return false, "no verification call found", nil
	}
	return true, "", call
}

// nilTestOf: x is `call == nil` (pol=true) or `call != nil` (pol=false).
func nilTestOf(x *ssa.BinOp, isCall func(*ssa.Call) bool) (*ssa.Call, bool, bool) {
	if x.Op != token.EQL && x.Op != token.NEQ {
		return nil, false, false
	}
	var cl *ssa.Call
	if c, ok := x.X.(*ssa.Call); ok && isNilConst(x.Y) {
		cl = c
	} else if c, ok := x.Y.(*ssa.Call); ok && isNilConst(x.X) {
		cl = c
	}
	if cl == nil || !isCall(cl) {
		return nil, false, false
	}
	return cl, x.Op == token.EQL, true
}

func dominatedByNilEdge(b *ssa.BasicBlock, fn *ssa.Function, isCall func(*ssa.Call) bool) bool {
	for _, blk := range fn.Blocks {
		if len(blk.Instrs) == 0 {
			continue
		}
		iff, ok := blk.Instrs[len(blk.Instrs)-1].(*ssa.If)
		if !ok {
			continue
		}
		cmp, ok := iff.Cond.(*ssa.BinOp)
		if !ok {
			continue
		}
		_, pol, isT := nilTestOf(cmp, isCall)
		if !isT {
			continue
		}
		succ := blk.Succs[0]
		if !pol {
			succ = blk.Succs[1]
		}
		if len(succ.Preds) == 1 && succ.Dominates(b) {
			return true
		}
	}
	return false
}

// SignaturePolarity: C18.
func (c *Ctx) SignaturePolarity() []core.Ob {
	var obs []core.Ob
	isVerify := func(cl *ssa.Call) bool { return calleeName(cl.Common()) == "crypto/rsa.VerifyPKCS1v15" }
	fn := c.Fn("yggdrasil/user.VerifySignature")
	if fn == nil {
		o := polOb(c, "VerifySignature", "yggdrasil/user.VerifySignature exists", nil)
		o.Status, o.Got = core.Violated, "not found"
		return []core.Ob{o}
	}
	o := polOb(c, "VerifySignature:true-only-on-nil", "VerifySignature returns true only when rsa.VerifyPKCS1v15 returned nil", fn)
	ok, why, call := boolReturnsNilTest(fn, isVerify)
	if !ok {
		o.Status, o.Got = core.Violated, why
	}
	obs = append(obs, o)
	k := polOb(c, "VerifySignature:embedded-key", "the key passed to rsa.VerifyPKCS1v15 is the package-level key parsed from the embedded Mojang DER, not a caller-supplied key", fn)
	k.Rule = "R-ORIGIN"
	if call == nil {
		for _, b := range fn.Blocks {
			for _, in := range b.Instrs {
				if cl, ok := in.(*ssa.Call); ok && isVerify(cl) {
					call = cl
				}
			}
		}
	}
	if call == nil {
		k.Status, k.Got = core.Violated, "no rsa.VerifyPKCS1v15 call"
	} else {
		arg := call.Common().Args[0]
		g := (*ssa.Global)(nil)
		if u, ok := arg.(*ssa.UnOp); ok && u.Op == token.MUL {
			g, _ = u.X.(*ssa.Global)
		}
		if g == nil || g.Pkg != fn.Pkg {
			k.Status, k.Got = core.Violated, "the verification key is not a package-level variable of yggdrasil/user"
		} else if !c.globalInitFromEmbed(g) {
			k.Status, k.Got = core.Violated, "package-level key "+g.Name()+" is not initialised from x509.ParsePKIXPublicKey of the //go:embed-ded bytes"
		} else {
			k.Got = "key = " + g.Name()
		}
	}
	obs = append(obs, k)

	// PublicKey.Verify delegates to VerifySignature and is false when expired
	pv := c.Fn("yggdrasil/user.(*PublicKey).Verify")
	p := polOb(c, "PublicKey.Verify:delegates", "PublicKey.Verify returns the verdict of VerifySignature (false for expired or unencodable keys)", pv)
	if pv == nil {
		p.Status, p.Got = core.Violated, "not found"
	} else {
		calls := callsIn(pv, func(n string, _ *ssa.CallCommon) bool { return strings.HasSuffix(n, "yggdrasil/user.VerifySignature") })
		if len(calls) != 1 {
			p.Status, p.Got = core.Violated, fmt.Sprintf("%d calls to VerifySignature", len(calls))
		} else {
			// every return is the call's value or the constant false
			for _, b := range pv.Blocks {
				for _, in := range b.Instrs {
					if r, ok := in.(*ssa.Return); ok {
						v := r.Results[0]
						var verdictOrFalse func(v ssa.Value, d int) bool
						verdictOrFalse = func(v ssa.Value, d int) bool {
							if v == calls[0].Value() {
								return true
							}
							if kc, ok := v.(*ssa.Const); ok && kc.Value != nil && kc.Value.String() == "false" {
								return true
							}
							// cond && VerifySignature(..): false on the edge where cond failed, the verdict otherwise
							if phi, ok := v.(*ssa.Phi); ok && d < 3 {
								for _, e := range phi.Edges {
									if !verdictOrFalse(e, d+1) {
										return false
									}
								}
								return true
							}
							return false
						}
						if verdictOrFalse(v, 0) {
							continue
						}
						p.Status, p.Got = core.Violated, "a return of PublicKey.Verify is neither VerifySignature's verdict nor false"
					}
				}
			}
		}
	}
	obs = append(obs, p)

	// chat/sign session hash verification
	vh := c.Fn("chat/sign.(*Session).verifyHash")
	if vh != nil {
		s := polOb(c, "sign.verifyHash:true-only-on-nil", "verifyHash returns true only when PublicKey.VerifyMessage returned nil", vh)
		s.Armed = false
		isVM := func(cl *ssa.Call) bool {
			return strings.HasSuffix(calleeName(cl.Common()), "yggdrasil/user.(PublicKey).VerifyMessage")
		}
		if ok, why, _ := boolReturnsNilTest(vh, isVM); !ok {
			s.Status, s.Got = core.Violated, why
		}
		obs = append(obs, s)
	}
	return obs
}

// globalInitFromEmbed: the package initialiser stores into g a value derived
// from x509.ParsePKIXPublicKey(<embedded bytes global>).
func (c *Ctx) globalInitFromEmbed(g *ssa.Global) bool {
	init := g.Pkg.Func("init")
	if init == nil {
		return false
	}
	for _, b := range init.Blocks {
		for _, in := range b.Instrs {
			st, ok := in.(*ssa.Store)
			if !ok || st.Addr != ssa.Value(g) {
				continue
			}
			// walk back from the stored value to a ParsePKIXPublicKey call on a load of a global
			seen := map[ssa.Value]bool{}
			var walk func(v ssa.Value, d int) bool
			walk = func(v ssa.Value, d int) bool {
				if v == nil || seen[v] || d > 12 {
					return false
				}
				seen[v] = true
				if cl, ok := v.(*ssa.Call); ok {
					if calleeName(cl.Common()) == "crypto/x509.ParsePKIXPublicKey" {
						if u, ok := cl.Common().Args[0].(*ssa.UnOp); ok {
							if gg, ok := u.X.(*ssa.Global); ok && gg.Pkg == g.Pkg {
								return true
							}
						}
						return false
					}
				}
				if in, ok := v.(ssa.Instruction); ok {
					for _, op := range in.Operands(nil) {
						if *op != nil && walk(*op, d+1) {
							return true
						}
					}
				}
				return false
			}
			if walk(st.Val, 0) {
				return true
			}
		}
	}
	return false
}

// ------------------------------------------------------------------ C16 RCON

// errNilOnlyOn: every nil error returned by fn flows from a block dominated by
// the given success block; every return reachable from failBlock without
// passing success returns non-nil.
func nilErrReturns(fn *ssa.Function, errIdx int) (nilBlocks []*ssa.BasicBlock, nonNilBlocks []*ssa.BasicBlock) {
	// a return "may succeed" when its error result can be nil there: the nil constant, or a
	// propagated error value (return r.WritePacket(...)) that has not been found non-nil on the way
	freshErr := func(v ssa.Value) bool {
		switch x := v.(type) {
		case *ssa.MakeInterface:
			return true
		case *ssa.Call:
			n := calleeName(x.Common())
			return n == "errors.New" || n == "fmt.Errorf"
		}
		return false
	}
	knownNonNil := func(v ssa.Value, at *ssa.BasicBlock) bool {
		for _, p := range fn.Blocks {
			if len(p.Instrs) == 0 {
				continue
			}
			iff, ok := p.Instrs[len(p.Instrs)-1].(*ssa.If)
			if !ok {
				continue
			}
			cmp, ok := iff.Cond.(*ssa.BinOp)
			if !ok || (cmp.Op != token.NEQ && cmp.Op != token.EQL) {
				continue
			}
			if !((cmp.X == v && isNilConst(cmp.Y)) || (cmp.Y == v && isNilConst(cmp.X))) {
				continue
			}
			nn := p.Succs[0]
			if cmp.Op == token.EQL {
				nn = p.Succs[1]
			}
			if len(nn.Preds) == 1 && nn.Dominates(at) {
				return true
			}
		}
		return false
	}
	classify := func(v ssa.Value, at *ssa.BasicBlock) {
		switch {
		case isNilConst(v):
			nilBlocks = append(nilBlocks, at)
		case freshErr(v) || knownNonNil(v, at):
			nonNilBlocks = append(nonNilBlocks, at)
		default:
			if _, isConst := v.(*ssa.Const); isConst {
				nonNilBlocks = append(nonNilBlocks, at)
			} else {
				nilBlocks = append(nilBlocks, at)
			}
		}
	}
	for _, b := range fn.Blocks {
		for _, in := range b.Instrs {
			r, ok := in.(*ssa.Return)
			if !ok || errIdx >= len(r.Results) {
				continue
			}
			v := r.Results[errIdx]
			if x, ok := v.(*ssa.Phi); ok {
				for i, e := range x.Edges {
					classify(e, x.Block().Preds[i])
				}
				continue
			}
			classify(v, b)
		}
	}
	return
}

func edgeTarget(b *ssa.BasicBlock, eqIsSuccess bool, cmp *ssa.BinOp) (succ, fail *ssa.BasicBlock) {
	t, f := b.Succs[0], b.Succs[1]
	isEq := cmp.Op == token.EQL
	if isEq == eqIsSuccess {
		return t, f
	}
	return f, t
}

// RCON polarity rules.
func (c *Ctx) RCONPolarity() []core.Ob {
	var obs []core.Ob
	// AcceptLogin
	fn := c.Fn("net.(*RCONConn).AcceptLogin")
	if fn == nil {
		o := polOb(c, "rcon.AcceptLogin", "net.(*RCONConn).AcceptLogin exists", nil)
		o.Status, o.Got = core.Violated, "not found"
		return []core.Ob{o}
	}
	o := polOb(c, "rcon.AcceptLogin:success-iff-password-equal", "AcceptLogin echoes the request id and returns nil only on the password-equal edge; on the other edge it writes id -1 and returns an error", fn)
	var pwIf *ssa.If
	var pwCmp *ssa.BinOp
	_ = pwCmp
	var pwCmpVal *ssa.BinOp
	for _, b := range fn.Blocks {
		for _, in := range b.Instrs {
			if cmp, ok := in.(*ssa.BinOp); ok && (cmp.Op == token.EQL || cmp.Op == token.NEQ) {
				if bt, ok := cmp.X.Type().Underlying().(*types.Basic); ok && bt.Kind() == types.String {
					for _, p := range fn.Params[1:] {
						if cmp.X == ssa.Value(p) || cmp.Y == ssa.Value(p) {
							pwCmpVal = cmp
						}
					}
				}
			}
		}
	}
	for _, b := range fn.Blocks {
		if len(b.Instrs) == 0 {
			continue
		}
		iff, ok := b.Instrs[len(b.Instrs)-1].(*ssa.If)
		if !ok {
			continue
		}
		cmp, ok := iff.Cond.(*ssa.BinOp)
		if !ok || (cmp.Op != token.EQL && cmp.Op != token.NEQ) {
			continue
		}
		isPw := func(v ssa.Value) bool {
			for _, p := range fn.Params[1:] {
				if v == ssa.Value(p) {
					return true
				}
			}
			return false
		}
		if bt, ok := cmp.X.Type().Underlying().(*types.Basic); ok && bt.Kind() == types.String && (isPw(cmp.X) || isPw(cmp.Y)) {
			pwIf, pwCmp = iff, cmp
		}
	}
	if pwIf == nil && pwCmpVal == nil {
		o.Status, o.Got = core.Violated, "no comparison of the received payload with the password parameter"
		obs = append(obs, o)
	} else {
		// decided by a case split on the comparison itself, whatever the shape of the code around it
		// (two branches, a flag tested twice, a reply id chosen first and written once): with the
		// comparison assumed true / false, which replies are written and which returns are reached?
		cmpV := pwCmpVal
		type outcome struct {
			ids          []AV
			mayNil, rets int
		}
		run := func(equal bool) outcome {
			var oc outcome
			truth := equal
			if cmpV.Op == token.NEQ {
				truth = !equal
			}
			tv := int64(0)
			if truth {
				tv = 1
			}
			t := c.TLG()
			t.ProbeAssume(fn, cmpV, AV{P: ivOf(tv, tv)}, func(in ssa.Instruction, eval func(ssa.Value) AV, _ func(string) (AV, bool)) {
				switch x := in.(type) {
				case ssa.CallInstruction:
					if strings.HasSuffix(calleeName(x.Common()), "net.(RCONConn).WritePacket") && len(x.Common().Args) > 1 {
						oc.ids = append(oc.ids, eval(x.Common().Args[1]))
					} else if g := x.Common().StaticCallee(); g != nil && g.Parent() == fn {
						// a local closure that sends the reply: the id it passes on is one of its parameters
						for _, wc := range callsIn(g, func(n string, _ *ssa.CallCommon) bool { return strings.HasSuffix(n, "net.(RCONConn).WritePacket") }) {
							if len(wc.Common().Args) < 2 {
								continue
							}
							idArg := wc.Common().Args[1]
							bound := false
							for j, p := range g.Params {
								if idArg == ssa.Value(p) && j < len(x.Common().Args) {
									oc.ids = append(oc.ids, eval(x.Common().Args[j]))
									bound = true
								}
							}
							if !bound {
								if k, ok := constIntVal(idArg); ok {
									oc.ids = append(oc.ids, AV{P: ivOf(k, k)})
								}
							}
						}
					}
				case *ssa.Return:
					if !cmpV.Block().Dominates(x.Block()) || len(x.Results) == 0 {
						return
					}
					oc.rets++
					if !t.ProbeErrNonNil(x.Results[len(x.Results)-1]) {
						oc.mayNil++
					}
				}
			})
			return oc
		}
		isMinusOne := func(av AV) bool {
			all := av.all()
			return all != nil && all.Lo != nil && all.Hi != nil && all.Lo.Cmp(bi(-1)) == 0 && all.Hi.Cmp(bi(-1)) == 0
		}
		eq, ne := run(true), run(false)
		bad := ""
		switch {
		case eq.mayNil == 0:
			bad = "AcceptLogin never returns nil when the password is equal"
		case len(eq.ids) == 0:
			bad = "no reply is written when the password is equal"
		case ne.mayNil > 0:
			bad = "the password-mismatch case reaches a return that may carry a nil error"
		case len(ne.ids) == 0:
			bad = "no rejection reply is written when the password differs"
		}
		for _, id := range eq.ids {
			if isMinusOne(id) {
				bad = "the acceptance reply carries id -1 instead of echoing the request id"
			} else if all := id.all(); all != nil && all.Lo != nil && all.Hi != nil && all.Lo.Cmp(all.Hi) == 0 {
				bad = "the acceptance reply carries a constant id instead of echoing the request id"
			}
		}
		for _, id := range ne.ids {
			if !isMinusOne(id) {
				bad = "the rejection reply does not carry request id -1"
			}
		}
		if bad != "" {
			o.Status, o.Got = core.Violated, bad
		}
		obs = append(obs, o)
	}

	// DialRCON: err == nil only when the response id equals the request id
	d := c.Fn("net.DialRCON")
	do := polOb(c, "rcon.DialRCON:success-iff-id-echoed", "DialRCON reports success only on the edge where the login response id equals the request id it sent", d)
	if d == nil {
		do.Status, do.Got = core.Violated, "not found"
	} else if why := c.idEqualityGuardsNilIn(d); why != "" {
		do.Status, do.Got = core.Violated, why
	}
	obs = append(obs, do)

	r := c.Fn("net.(*RCONConn).Resp")
	ro := polOb(c, "rcon.Resp:accept-only-current-id", "Resp accepts a response only under the request id in use (and type 0)", r)
	if r == nil {
		ro.Status, ro.Got = core.Violated, "not found"
	} else if why := c.idEqualityGuardsNilIn(r); why != "" {
		ro.Status, ro.Got = core.Violated, why
	}
	obs = append(obs, ro)
	return obs
}

// idEqualityGuardsNilIn: the id test lives in fn or in a helper of the package
// that fn calls (DialRCON -> login); the first place that has the comparison decides.
func (c *Ctx) idEqualityGuardsNilIn(fn *ssa.Function) string {
	why := ""
	for _, g := range c.withPkgCallees(fn, 2) {
		res := g.Signature.Results()
		if res.Len() == 0 || !isErrorType(res.At(res.Len()-1).Type()) {
			continue
		}
		w := idEqualityGuardsNil(g, res.Len()-1)
		if w == "" {
			return ""
		}
		if why == "" || !strings.HasPrefix(w, "no comparison") {
			why = w
		}
	}
	if why == "" {
		why = "no comparison of the received request id with the ReqID field"
	}
	return why
}

// idEqualityGuardsNil: in fn (whose error result index is errIdx) there is a
// comparison of the id read from ReadPacket with the ReqID field, and the
// function's error result is nil only on the equal edge (after the ReadPacket).
func idEqualityGuardsNil(fn *ssa.Function, errIdx int) string {
	var iff *ssa.If
	var cmp *ssa.BinOp
	for _, b := range fn.Blocks {
		if len(b.Instrs) == 0 {
			continue
		}
		i, ok := b.Instrs[len(b.Instrs)-1].(*ssa.If)
		if !ok {
			continue
		}
		cm, ok := i.Cond.(*ssa.BinOp)
		if !ok || (cm.Op != token.EQL && cm.Op != token.NEQ) {
			continue
		}
		var isReq func(v ssa.Value) bool
		// a parameter of a helper stands for what every call site in the package passes
		origins := func(v ssa.Value) []ssa.Value {
			v = stripLoadOfLocal(v)
			if p, ok := v.(*ssa.Parameter); ok && p.Parent() == fn {
				if as := paramArgs(fn, p); len(as) > 0 {
					return as
				}
			}
			return []ssa.Value{v}
		}
		isRead := func(v ssa.Value) bool {
			for _, o := range origins(v) {
				ex, ok := stripLoadOfLocal(o).(*ssa.Extract)
				if !ok || ex.Index != 0 {
					return false
				}
				cl, ok := ex.Tuple.(*ssa.Call)
				if !ok || !strings.HasSuffix(calleeName(cl.Common()), "net.(RCONConn).ReadPacket") {
					return false
				}
			}
			return true
		}
		isReq = func(v ssa.Value) bool {
			for _, o := range origins(v) {
				if !loadsField(o, "ReqID") {
					return false
				}
			}
			return true
		}
		if (isReq(cm.X) && isRead(cm.Y)) || (isReq(cm.Y) && isRead(cm.X)) {
			iff, cmp = i, cm
			break
		}
	}
	if iff == nil {
		return "no comparison of the received request id with the ReqID field"
	}
	succ, fail := edgeTarget(iff.Block(), true, cmp)
	// error value at returns: named result err stored through an Alloc or phi
	okEdge := func(b *ssa.BasicBlock) bool { return b == succ || (len(succ.Preds) == 1 && succ.Dominates(b)) }
	badEdge := func(b *ssa.BasicBlock) bool { return b == fail || (len(fail.Preds) == 1 && fail.Dominates(b)) }
	// every error value returned from a block on the mismatch side must be a
	// freshly constructed error; a value that may be nil (nil constant, or the
	// already-checked err of ReadPacket) may only flow from the equal side
	fresh := func(v ssa.Value) bool {
		if mi, ok := v.(*ssa.MakeInterface); ok {
			v = mi.X
		}
		if cl, ok := v.(*ssa.Call); ok {
			n := calleeName(cl.Common())
			return n == "errors.New" || n == "fmt.Errorf"
		}
		_, isAlloc := v.(*ssa.Alloc)
		return isAlloc
	}
	for _, b := range fn.Blocks {
		for _, in := range b.Instrs {
			switch x := in.(type) {
			case *ssa.Return:
				if errIdx < len(x.Results) {
					v := x.Results[errIdx]
					if ph, ok := v.(*ssa.Phi); ok {
						for k, e := range ph.Edges {
							if !fresh(e) && badEdge(ph.Block().Preds[k]) {
								return "a possibly-nil error flows to the result from the id-mismatch edge: the response is accepted under a foreign id"
							}
						}
					} else if !fresh(v) && badEdge(b) {
						return "a possibly-nil error is returned on the id-mismatch edge"
					}
				}
			case *ssa.Store:
				// named result `err` kept in an Alloc: err = nil on the wrong edge
				if isNilConst(x.Val) && types.Identical(x.Val.Type(), types.Universe.Lookup("error").Type()) && badEdge(b) {
					return "err is set to nil on the id-mismatch edge"
				}
			}
		}
	}
	// the mismatch edge must produce an error: some non-nil error construction dominated by it
	found := false
	for _, b := range fn.Blocks {
		if !badEdge(b) {
			continue
		}
		for _, in := range b.Instrs {
			if cl, ok := in.(*ssa.Call); ok {
				n := calleeName(cl.Common())
				if n == "errors.New" || n == "fmt.Errorf" {
					found = true
				}
			}
		}
	}
	_ = okEdge
	if !found {
		return "the id-mismatch edge does not construct an error"
	}
	return ""
}

func stripLoadOfLocal(v ssa.Value) ssa.Value {
	return v
}

// ------------------------------------------------------------------ C10 cipher

// originCall follows v back to the call that produced it (through Extract of
// module function results, phis excluded), returning the callee name and args.
func (c *Ctx) originCall(v ssa.Value, depth int) (*ssa.Call, bool) {
	if depth > 5 {
		return nil, false
	}
	switch x := v.(type) {
	case *ssa.Call:
		return x, true
	case *ssa.MakeInterface:
		return c.originCall(x.X, depth+1)
	case *ssa.ChangeInterface:
		return c.originCall(x.X, depth+1)
	case *ssa.Extract:
		cl, ok := x.Tuple.(*ssa.Call)
		if !ok {
			return nil, false
		}
		callee := cl.Common().StaticCallee()
		if callee == nil || !c.P.InModule(callee) {
			return nil, false
		}
		// the callee's return operand at this index (all returns must agree on the origin)
		var res *ssa.Call
		for _, b := range callee.Blocks {
			for _, in := range b.Instrs {
				if r, ok := in.(*ssa.Return); ok && x.Index < len(r.Results) {
					oc, ok := c.originCall(r.Results[x.Index], depth+1)
					if !ok {
						return nil, false
					}
					if res != nil && calleeName(res.Common()) != calleeName(oc.Common()) {
						return nil, false
					}
					res = oc
				}
			}
		}
		return res, res != nil
	}
	return nil, false
}

// CipherWiring implements R-ORIGIN for C10.
func (c *Ctx) CipherWiring() []core.Ob {
	var obs []core.Ob
	mk := func(key, want string, fn *ssa.Function) core.Ob {
		o := core.Ob{Rule: "R-ORIGIN", Key: "cipher:" + key, Want: want, Armed: true, Status: core.OK}
		if fn != nil {
			o.Pos, o.Func = c.P.Pos(fn.Pos()), core.FnName(fn)
		}
		return o
	}
	sc := c.Fn("net.(*Conn).SetCipher")
	o := mk("SetCipher-wiring", "SetCipher installs the decrypt stream (2nd parameter) on the reader side and the encrypt stream (1st parameter) on the writer side, both over the socket", sc)
	if sc == nil {
		o.Status, o.Got = core.Violated, "net.(*Conn).SetCipher not found"
		return []core.Ob{o}
	}
	// stores into fields named S of cipher.StreamReader / cipher.StreamWriter
	got := map[string]ssa.Value{}
	for _, b := range sc.Blocks {
		for _, in := range b.Instrs {
			st, ok := in.(*ssa.Store)
			if !ok {
				continue
			}
			fa, ok := st.Addr.(*ssa.FieldAddr)
			if !ok {
				continue
			}
			n, ok := types.Unalias(deref(fa.X.Type())).(*types.Named)
			if !ok || n.Obj().Pkg() == nil || n.Obj().Pkg().Path() != "crypto/cipher" {
				continue
			}
			stt := n.Underlying().(*types.Struct)
			got[n.Obj().Name()+"."+stt.Field(fa.Field).Name()] = st.Val
		}
	}
	if len(sc.Params) < 3 {
		o.Status, o.Got = core.Violated, "unexpected signature"
	} else {
		enc, dec := ssa.Value(sc.Params[1]), ssa.Value(sc.Params[2])
		switch {
		case got["StreamReader.S"] != dec:
			o.Status, o.Got = core.Violated, "the reader side does not use the decrypt stream parameter"
		case got["StreamWriter.S"] != enc:
			o.Status, o.Got = core.Violated, "the writer side does not use the encrypt stream parameter"
		case !derivesFromField(got["StreamReader.R"], "Socket") || !derivesFromField(got["StreamWriter.W"], "Socket"):
			o.Status, o.Got = core.Violated, "the cipher streams are not layered over the connection's socket"
		}
	}
	obs = append(obs, o)
	// call sites
	n := 0
	for _, fn := range c.Funcs() {
		for _, ci := range callsIn(fn, func(nm string, _ *ssa.CallCommon) bool { return strings.HasSuffix(nm, "/net.(Conn).SetCipher") }) {
			n++
			s := mk(fmt.Sprintf("call-site:%s#%d", core.FnName(fn), n), "SetCipher is called with (CFB8 encrypter, CFB8 decrypter) built over the same block cipher and IV", fn)
			s.Pos = c.P.Pos(ci.Pos())
			args := ci.Common().Args
			e, ok1 := c.originCall(args[1], 0)
			d, ok2 := c.originCall(args[2], 0)
			switch {
			case !ok1 || !ok2:
				s.Status, s.Got = core.Violated, "cannot trace the stream arguments to their constructors"
			case !strings.HasSuffix(calleeName(e.Common()), "CFB8.NewCFB8Encrypt"):
				s.Status, s.Got = core.Violated, "the first (encrypt) argument is built by "+calleeName(e.Common())
			case !strings.HasSuffix(calleeName(d.Common()), "CFB8.NewCFB8Decrypt"):
				s.Status, s.Got = core.Violated, "the second (decrypt) argument is built by "+calleeName(d.Common())
			default:
				ea, da := e.Common().Args, d.Common().Args
				if len(ea) != 2 || len(da) != 2 || !sameOrigin(ea[0], da[0]) || !sameOrigin(ea[1], da[1]) {
					s.Status, s.Got = core.Violated, "the two streams are not built over the same (block, iv) values"
				}
			}
			obs = append(obs, s)
		}
	}
	if n < 2 {
		obs = append(obs, core.Ob{Rule: "R-ORIGIN", Key: "cipher:call-sites", Status: core.Violated, Armed: true, Want: "both ends (bot and server/auth) enable encryption through SetCipher", Got: fmt.Sprintf("%d call sites", n)})
	}
	return obs
}

func sameOrigin(a, b ssa.Value) bool {
	if a == b || sameValue(a, b) {
		return true
	}
	// the same value boxed twice
	if ma, ok := a.(*ssa.MakeInterface); ok {
		if mb, ok := b.(*ssa.MakeInterface); ok {
			return sameOrigin(ma.X, mb.X)
		}
	}
	return false
}

// paramArgs: the values passed for parameter p at every static call of fn in its package.
func paramArgs(fn *ssa.Function, p *ssa.Parameter) []ssa.Value {
	idx := -1
	for i, q := range fn.Params {
		if q == p {
			idx = i
		}
	}
	if idx < 0 || fn.Pkg == nil {
		return nil
	}
	var out []ssa.Value
	var visit func(g *ssa.Function)
	seen := map[*ssa.Function]bool{}
	visit = func(g *ssa.Function) {
		if g == nil || seen[g] {
			return
		}
		seen[g] = true
		for _, b := range g.Blocks {
			for _, in := range b.Instrs {
				if ci, ok := in.(ssa.CallInstruction); ok && ci.Common().StaticCallee() == fn && idx < len(ci.Common().Args) {
					out = append(out, ci.Common().Args[idx])
				}
			}
		}
		for _, an := range g.AnonFuncs {
			visit(an)
		}
	}
	for _, m := range fn.Pkg.Members {
		switch x := m.(type) {
		case *ssa.Function:
			visit(x)
		case *ssa.Type:
			for _, t := range []types.Type{x.Type(), types.NewPointer(x.Type())} {
				ms := fn.Prog.MethodSets.MethodSet(t)
				for i := 0; i < ms.Len(); i++ {
					visit(fn.Prog.MethodValue(ms.At(i)))
				}
			}
		}
	}
	return out
}
