#!/bin/bash
# usage: refmatrix.sh <dir> [name] [props]   (behaviour-preserving refactorings: <dir>/R3/2/patch.diff or <dir>/R3-2/patch.diff)
# For each patch: one scratch copy, all 20 property checks. Any VIOLATION is a false alarm.
set -u
export GOFLAGS=-mod=mod GOPROXY=off GOSUMDB=off GOTOOLCHAIN=local GOWORK=off
root=${1:-/tmp/wt_out}
only=${2:-}
props=${3:-$(for i in $(seq -w 1 20); do echo C$i; done)}
# two layouts: <root>/R3/2/patch.diff (sub-agent output) and <root>/R3-2/patch.diff (as kept under /verif)
for patch in $(ls $root/[A-Z]*/[0-9]*/patch.diff $root/[A-Z]*-[0-9]*/patch.diff 2>/dev/null | sort -V); do
  name=$(echo "$patch" | sed -E 's#.*/([A-Z]+[0-9]+)/([0-9]+)/patch.diff#\1-\2#; s#.*/([A-Z]+[0-9]+-[0-9]+)/patch.diff#\1#')
  [ -n "$only" ] && [ "$only" != "$name" ] && continue
  scratch=$(mktemp -d /tmp/gmcref.XXXXXX)
  [ -n "$scratch" ] && [ -d "$scratch" ] || { echo "NO-SCRATCH"; exit 9; }
  mkdir -p "$scratch/repo" "$scratch/verif"
  rsync -a --exclude .git /repo/ "$scratch/repo/"
  cp -r /verif/rules /verif/known_findings.json "$scratch/verif/"
  if ! (cd "$scratch/repo" && patch -p1 -s --batch < "$patch" >/dev/null 2>&1); then echo "$name PATCH-FAILED"; rm -rf "$scratch"; continue; fi
  for p in $props; do echo $p; done | xargs -P 6 -I{} sh -c "${GMCHECK:-/verif/bin/gmcheck} -property {} -repo $scratch/repo -verif $scratch/verif -nofixtures > $scratch/{}.out 2>&1"
  for p in $props; do
    if grep -q "^gmcheck: load:" $scratch/$p.out; then echo "$name $p LOAD-FAIL $(grep '^gmcheck: load:' $scratch/$p.out | head -1 | cut -c1-200)"; continue; fi
    if ! grep -q "^gmcheck $p tier=" $scratch/$p.out; then echo "$name $p CRASHED $(grep -m1 -E '^(fatal error|panic|gmcheck:)' $scratch/$p.out | cut -c1-200)"; mkdir -p /tmp/refout; cp $scratch/$p.out /tmp/refout/$name.$p.out; continue; fi
    if grep -q "^VIOLATION" $scratch/$p.out; then
      echo "$name $p FALSE-ALARM"
      grep -B6 '^VIOLATION' $scratch/$p.out | grep -vE '^VIOLATION|^gmcheck' | cut -c1-260 | sed 's/^/    /' | head -40
      mkdir -p /tmp/refout; cp $scratch/$p.out /tmp/refout/$name.$p.out
    fi
  done
  echo "$name done"
  rm -rf "$scratch"
done
