#!/usr/bin/env python3
"""Generates /verif/mutants/<prop>/<name>.diff from (file, old, new) edits against /repo HEAD.
Each mutant must still compile (checked by tools/mutest.sh). /repo is restored after each diff."""
import subprocess, os, sys
R='/repo'
M=[
# prop, name, file, old, new
("C03","list_no_negcheck","nbt/decode.go",'''		if listLen < 0 {
			return errors.New("list length less than 0")
		}

		// If we need parse TAG_List into slice''','''		// If we need parse TAG_List into slice'''),
("C03","bytearray_no_negcheck","nbt/decode.go",'''		if aryLen < 0 {
			return errors.New("byte array len less than 0")
		}
		ba := make([]byte, aryLen)''','''		ba := make([]byte, aryLen)'''),
("C03","dynbt_intarray_no_negcheck","nbt/dynbt/decode.go",'''		size := int64(n)*4 + 4
		if n < 0 || size > math.MaxInt {''','''		size := int64(n)*4 + 4
		if size > math.MaxInt {'''),
("C03","dynbt_string_no_negcheck","nbt/dynbt/decode.go",'''		if n < 0 {
			return errors.New("string length less than 0")
		}
''',''''''),
("C03","rawread_error_to_panic","nbt/decode.go",'''	default:
		return fmt.Errorf("unknown to read %#02x", tagType)
	case TagByte:
		_, err := d.readInt8()''','''	default:
		panic(fmt.Errorf("unknown to read %#02x", tagType))
	case TagByte:
		_, err := d.readInt8()'''),
("C05","varlong_cap_off_by_one","net/packet/types.go",'''		if num >= MaxVarLongLen {''','''		if num > MaxVarLongLen {'''),
("C05","varlong_len_drop_case","net/packet/types.go",'''	case v < 1<<(7*5):
		return 5
''',''''''),
("C05","varint_len_boundary","net/packet/types.go",'''	case v < 1<<(7*2):
		return 2
	case v < 1<<(7*3):''','''	case v <= 1<<(7*2):
		return 2
	case v < 1<<(7*3):'''),
("C06","short_read_not_full","net/packet/types.go",'''func (s *Short) ReadFrom(r io.Reader) (n int64, err error) {
	var bs [2]byte
	if nn, err := io.ReadFull(r, bs[:]); err != nil {''','''func (s *Short) ReadFrom(r io.Reader) (n int64, err error) {
	var bs [2]byte
	if nn, err := r.Read(bs[:]); err != nil {'''),
("C06","position_reads_int","net/packet/types.go",'''func (p *Position) ReadFrom(r io.Reader) (n int64, err error) {
	var v Long''','''func (p *Position) ReadFrom(r io.Reader) (n int64, err error) {
	var v Int'''),
("C06","bitset_drop_reslice","net/packet/types.go",'''	if int(Len) > cap(*b) {
		*b = make([]int64, Len)
	} else {
		*b = (*b)[:Len]
	}''','''	if int(Len) > cap(*b) {
		*b = make([]int64, Len)
	}'''),
("C06","ary_discard_again","net/packet/util.go",'''		array.SetLen(int(Len))''','''		array.Slice(0, int(Len))'''),
("C07","drop_max_check","net/packet/packet.go",'''	if lengthOfData < 0 || lengthOfData > MaxDataLength {''','''	if lengthOfData < 0 {'''),
("C07","drop_buffer_reset","net/packet/packet.go",'''	buff := bufPool.Get().(*bytes.Buffer)
	defer bufPool.Put(buff)
	buff.Reset()

	PacketID := VarInt(p.ID)''','''	buff := bufPool.Get().(*bytes.Buffer)
	defer bufPool.Put(buff)

	PacketID := VarInt(p.ID)'''),
("C07","pack_selects_compression_gt0","net/packet/packet.go",'''func (p *Packet) Pack(w io.Writer, threshold int) error {
	if threshold >= 0 {''','''func (p *Packet) Pack(w io.Writer, threshold int) error {
	if threshold > 0 {'''),
("C08","ary_no_negcheck","net/packet/util.go",'''	if Len < 0 || int64(Len) > math.MaxInt {
		return n, errors.New("array length out of range")
	}
''','''	_ = math.MaxInt
'''),
("C08","string_no_negcheck","net/packet/types.go",'''	if l < 0 {
		return n, errors.New("string length less than zero")
	}
''',''''''),
("C08","palette_no_negcheck","level/palette.go",'''	if size < 0 {
		return n, errors.New("palette size less than zero")
	}
	if int(size) > cap(l.values) {''','''	if int(size) > cap(l.values) {'''),
("C08","execute_no_nil_check","server/command/command.go",'''			if node.Run == nil {
				return errors.New("incomplete command")
			}
''',''''''),
("C08","registry_id_check_dropped","registry/network.go",'''			if id < 0 || int(id) >= len(reg.values) {''','''			if int(id) >= len(reg.values) {'''),
("C09","readint32_short_read","nbt/decode.go",'''func (d *Decoder) readInt32() (int32, error) {
	var data [4]byte
	_, err := io.ReadFull(d.r, data[:])''','''func (d *Decoder) readInt32() (int32, error) {
	var data [4]byte
	_, err := d.r.Read(data[:])'''),
("C12","linear_palette_values_not_resized","level/palette.go",'''	if int(size) > cap(l.values) {
		l.values = make([]T, size)
	} else {
		l.values = l.values[:size]
	}''','''	if int(size) > cap(l.values) {
		l.values = make([]T, size)
	}'''),
("C13","section_swap_states_biomes","level/chunk.go",'''func (s *Section) WriteTo(w io.Writer) (int64, error) {
	return pk.Tuple{
		pk.Short(s.BlockCount),
		s.States,
		s.Biomes,''','''func (s *Section) WriteTo(w io.Writer) (int64, error) {
	return pk.Tuple{
		pk.Short(s.BlockCount),
		s.Biomes,
		s.States,'''),
("C13","setblock_set_before_get","level/chunk.go",'''	if !block.IsAir(s.States.Get(i)) {
		s.BlockCount--
	}
	if !block.IsAir(v) {
		s.BlockCount++
	}
	s.States.Set(i, v)''','''	s.States.Set(i, v)
	if !block.IsAir(s.States.Get(i)) {
		s.BlockCount--
	}
	if !block.IsAir(v) {
		s.BlockCount++
	}'''),
("C13","setblock_inverted_air","level/chunk.go",'''	if !block.IsAir(v) {
		s.BlockCount++
	}''','''	if block.IsAir(v) {
		s.BlockCount++
	}'''),
("C14","existsector_transposed","save/region/mca.go",'''	return r.offsets[z][x] != 0''','''	return r.offsets[x][z] != 0'''),
("C14","readsector_no_neg_check","save/region/mca.go",'''	if length < 0 {
		return nil, ErrSectorNegativeLength
	}
''',''''''),
("C15","sethead_swapped","save/region/mca.go",'''		err := r.setHead(x, z, uint32(r.offsets[z][x]), uint32(time.Now().Unix()))''','''		err := r.setHead(z, x, uint32(r.offsets[z][x]), uint32(time.Now().Unix()))'''),
("C15","extra_writer","save/region/mca.go",'''func (r *Region) ExistSector(x, z int) bool {
	return r.offsets[z][x] != 0''','''func (r *Region) ExistSector(x, z int) bool {
	if x < 0 {
		_, _ = r.f.Write([]byte{0})
	}
	return r.offsets[z][x] != 0'''),
("C16","rcon_no_upper_bound","net/rcon.go",'''	if Length > MaxRCONPackageSize {
		err = errors.New("packet too large")
		return
	}
''',''''''),
("C16","rcon_password_inverted","net/rcon.go",'''	if P != password {''','''	if P == password {'''),
("C16","rcon_resp_accepts_other_id","net/rcon.go",'''	if ReqID != r.ReqID {
		err = errors.New("req ID not match")''','''	if ReqID == r.ReqID {
		err = errors.New("req ID not match")'''),
("C16","rcon_pad_one_byte","net/rcon.go",'''		[]byte{0, 0},                    // pad''','''		[]byte{0},                       // pad'''),
("C16","rcon_min_length_lower","net/rcon.go",'''	if Length < 4+4+0+2 {''','''	if Length < 4+4+0 {'''),
("C17","type_target_error_again","chat/decoration.go",'''		if err != nil {
			return n1 + n2 + n3 + n4, fmt.Errorf("read target name error: %w", err)
		}
		return n1 + n2 + n3 + n4, nil''','''		return n1 + n2 + n3 + n4, fmt.Errorf("read target name error: %w", err)'''),
("C18","verify_polarity_reverted","yggdrasil/user/validator.go",'''signature) == nil''','''signature) != nil'''),
("C19","specific_before_generic","bot/ingame.go",'''	for _, handler := range c.Events.generic {
		if err = handler.F(p); err != nil {
			return PacketHandlerError{ID: packetID, Err: err}
		}
	}
	for _, handler := range c.Events.handlers[packetID] {
		err = handler.F(p)
		if err != nil {
			return PacketHandlerError{ID: packetID, Err: err}
		}
	}''','''	for _, handler := range c.Events.handlers[packetID] {
		err = handler.F(p)
		if err != nil {
			return PacketHandlerError{ID: packetID, Err: err}
		}
	}
	for _, handler := range c.Events.generic {
		if err = handler.F(p); err != nil {
			return PacketHandlerError{ID: packetID, Err: err}
		}
	}'''),
("C19","threshold_before_packet","server/login.go",'''		err = conn.WritePacket(pk.Marshal(
			packetid.ClientboundLoginLoginCompression,
			pk.VarInt(d.Threshold),
		))
		if err != nil {
			return
		}
		conn.SetThreshold(d.Threshold)''','''		conn.SetThreshold(d.Threshold)
		err = conn.WritePacket(pk.Marshal(
			packetid.ClientboundLoginLoginCompression,
			pk.VarInt(d.Threshold),
		))
		if err != nil {
			return
		}'''),
("C19","acceptconfig_error_dropped","server/server.go",'''		err = s.AcceptConfig(conn)
		if err != nil {''','''		_ = s.AcceptConfig(conn)
		if err != nil {'''),
("C19","login_disconnect_then_continue","server/server.go",'''			if s.Logger != nil {
				s.Logger.Printf("client %v login error: %v", conn.Socket.RemoteAddr(), err)
			}
			return
		}
		err = s.AcceptConfig(conn)''','''			if s.Logger != nil {
				s.Logger.Printf("client %v login error: %v", conn.Socket.RemoteAddr(), err)
			}
		}
		err = s.AcceptConfig(conn)'''),
("C19","ascending_priority","bot/event.go",'''		return slice[i].Priority > slice[j].Priority''','''		return slice[i].Priority < slice[j].Priority'''),
("C20","close_signal","net/queue/queue.go",'''	p.closed = true
	p.cond.Broadcast()''','''	p.closed = true
	p.cond.Signal()'''),
("C20","pull_wait_under_if","net/queue/queue.go",'''	for {
		if elem := p.queue.Front(); elem != nil {
			v = p.queue.Remove(elem).(T)
			ok = true
			break
		} else if p.closed {
			break
		}
		p.cond.Wait()
	}''','''	if p.queue.Front() == nil && !p.closed {
		p.cond.Wait()
	}
	if elem := p.queue.Front(); elem != nil {
		v = p.queue.Remove(elem).(T)
		ok = true
	}'''),
("C20","push_no_signal","net/queue/queue.go",'''	p.queue.PushBack(v)
	p.cond.Signal()''','''	p.queue.PushBack(v)'''),
("C20","channel_push_blocking","net/queue/queue.go",'''	select {
	case c <- v:
		return true
	default:
		return false
	}''','''	c <- v
	return true'''),
("C20","playerlist_read_unlocked","server/playerlist.go",'''func (p *PlayerList) Len() int {
	p.playersLock.Lock()
	defer p.playersLock.Unlock()
	return len(p.players)''','''func (p *PlayerList) Len() int {
	return len(p.players)'''),
("C20","pooled_data_alias","net/packet/packet.go",'''	p.ID = int32(PacketID)
	_, err = io.ReadFull(r, p.Data)
	if err != nil {
		return err
	}
	return nil
}''','''	p.ID = int32(PacketID)
	if DataLength == 0 || true {
		// "zero copy": hand out the rest of the pooled buffer
		rest := buff.Bytes()
		if len(rest) >= int(DataLength) && threshold < 0 {
			p.Data = rest[len(rest)-int(DataLength):]
			return nil
		}
	}
	_, err = io.ReadFull(r, p.Data)
	if err != nil {
		return err
	}
	return nil
}'''),
]
def run(*a, **k): return subprocess.run(a, capture_output=True, text=True, **k)
bad=0
for prop,name,f,old,new in M:
    path=os.path.join(R,f)
    s=open(path).read()
    if s.count(old)!=1:
        print("SKIP (anchor count %d)"%s.count(old), prop, name); bad+=1; continue
    open(path,'w').write(s.replace(old,new))
    d=run('git','-C',R,'diff','--',f).stdout
    run('git','-C',R,'checkout','--',f)
    os.makedirs('/verif/mutants/%s'%prop,exist_ok=True)
    open('/verif/mutants/%s/%s.diff'%(prop,name),'w').write(d)
print(len(M)-bad,"mutants written")
