package rules

// Rules added after the second pass over the defects the hunt had reported (DESIGN.md 8.12).

import (
	"fmt"
	"go/ast"
	"go/constant"
	"go/token"
	"go/types"
	"math/big"
	"reflect"
	"sort"
	"strings"

	"gmcheck/core"

	"golang.org/x/tools/go/ssa"
)

// ---------------------------------------------------------------------------
// R-UNKTAG[list-element-tag]: "an unknown tag id is an error". A list header
// carries the tag of its elements; the decoders hand it to their dispatcher
// once per element, and the dispatcher refuses what it does not know. With no
// element the dispatcher is never asked: the header reader itself has to
// refuse the tag. Decided with a case split of R-TLG: with the tag assumed to
// lie above the largest Tag* constant of package nbt, no path from the place
// it is read leaves without an error.

func (c *Ctx) UnknownListTagRefused(pkgs ...string) []core.Ob {
	var obs []core.Ob
	maxTag := c.maxTagConst()
	if maxTag <= 0 {
		return []core.Ob{{Rule: "R-UNKTAG", Key: "tag-constants", Armed: true, Status: core.Violated,
			Want: "package nbt declares its tags as byte constants Tag*", Got: "none found"}}
	}
	fns := []*ssa.Function{}
	for _, fn := range c.Funcs() {
		if inPkgs(fn, pkgs...) && len(fn.Blocks) > 0 {
			fns = append(fns, fn)
		}
	}
	sortFns(fns)
	for _, fn := range fns {
		k := 0
		seen := map[ssa.Value]bool{}
		for _, lp := range naturalLoops(fn) {
			var blocks []*ssa.BasicBlock
			for b := range lp.body {
				blocks = append(blocks, b)
			}
			sort.Slice(blocks, func(i, j int) bool { return blocks[i].Index < blocks[j].Index })
			for _, b := range blocks {
				for _, in := range b.Instrs {
					ci, ok := in.(ssa.CallInstruction)
					if !ok {
						continue
					}
					g := ci.Common().StaticCallee()
					if g == nil || !inPkgs(g, pkgs...) {
						continue
					}
					args := ci.Common().Args
					for ai, arg := range args {
						tag := stripConv(arg)
						if seen[tag] || !isByteType(tag.Type()) || !wireByte(tag) {
							continue
						}
						tin, ok := tag.(ssa.Instruction)
						if !ok || lp.body[tin.Block()] || !tin.Block().Dominates(lp.header) {
							continue
						}
						if !c.tagDispatcherParam(core.Origin(g), ai, 0) {
							continue
						}
						seen[tag] = true
						k++
						obs = append(obs, c.unknownTagOb(fn, tag, tin, ci, k, maxTag))
						obs = append(obs, c.endListOb(fn, tag, tin, ci, lp, k))
					}
				}
			}
		}
	}
	return obs
}

func isByteType(t types.Type) bool {
	b, ok := t.Underlying().(*types.Basic)
	return ok && (b.Kind() == types.Uint8 || b.Kind() == types.Int8)
}

// wireByte: the value is what a call handed back (a byte read from the input), not a constant, a parameter or arithmetic.
func wireByte(v ssa.Value) bool {
	switch x := v.(type) {
	case *ssa.Extract:
		_, ok := x.Tuple.(*ssa.Call)
		return ok
	case *ssa.Call:
		return true
	case *ssa.Index, *ssa.UnOp:
		return true
	}
	return false
}

// maxTagConst: the largest of the byte constants Tag* of package nbt.
func (c *Ctx) maxTagConst() int64 {
	max := int64(-1)
	for _, p := range c.P.SSA.AllPackages() {
		if p.Pkg == nil || !strings.HasSuffix(p.Pkg.Path(), "/nbt") {
			continue
		}
		sc := p.Pkg.Scope()
		for _, n := range sc.Names() {
			k, ok := sc.Lookup(n).(*types.Const)
			if !ok || !strings.HasPrefix(n, "Tag") || !isByteType(k.Type()) {
				continue
			}
			if v, ok := constant.Int64Val(k.Val()); ok && v > max {
				max = v
			}
		}
	}
	return max
}

// tagDispatcherParam: parameter i of fn (counted over the call's arguments, receiver first) is
// compared with at least four different constants (the switch over the tag), here or in a function
// it is handed on to.
func (c *Ctx) tagDispatcherParam(fn *ssa.Function, ai int, depth int) bool {
	if fn == nil || depth > 2 || ai >= len(fn.Params) || len(fn.Blocks) == 0 {
		return false
	}
	p := fn.Params[ai]
	consts := map[int64]bool{}
	var visit func(v ssa.Value, d int) bool
	visit = func(v ssa.Value, d int) bool {
		if v.Referrers() == nil || d > 2 {
			return false
		}
		for _, r := range *v.Referrers() {
			switch x := r.(type) {
			case *ssa.BinOp:
				if x.Op == token.EQL || x.Op == token.NEQ {
					other := x.Y
					if other == v {
						other = x.X
					}
					if k, ok := constIntVal(other); ok {
						consts[k] = true
					}
				}
			case *ssa.Convert:
				if visit(x, d+1) {
					return true
				}
			case *ssa.ChangeType:
				if visit(x, d+1) {
					return true
				}
			case ssa.CallInstruction:
				if g := x.Common().StaticCallee(); g != nil {
					for j, a := range x.Common().Args {
						if a == v && c.tagDispatcherParam(core.Origin(g), j, depth+1) {
							return true
						}
					}
				}
			}
		}
		return len(consts) >= 4
	}
	return visit(p, 0)
}

func (c *Ctx) unknownTagOb(fn *ssa.Function, tag ssa.Value, tin ssa.Instruction, use ssa.CallInstruction, k int, maxTag int64) core.Ob {
	o := core.Ob{Rule: "R-UNKTAG", Key: fmt.Sprintf("list-element-tag:%s#%d", core.FnName(fn), k), Pos: c.P.Pos(use.Pos()), Func: core.FnName(fn), Armed: true, Status: core.OK,
		Want: fmt.Sprintf("the element tag of a list header is refused when it is no tag (> %d) on every path, also the one that decodes no element", maxTag)}
	t := c.TLG()
	// read through a helper of the module that already refuses it: its ok-exit interval says so
	if ex, ok := tag.(*ssa.Extract); ok {
		if call, ok := ex.Tuple.(*ssa.Call); ok {
			if g := call.Call.StaticCallee(); g != nil {
				if rs := t.retOK[core.Origin(g)]; ex.Index < len(rs) {
					if hi := avUpper(rs[ex.Index]); hi != nil && hi.IsInt64() && hi.Int64() <= maxTag {
						o.Got = "refused by the helper that reads it: " + core.FnName(g)
						return o
					}
				}
			}
		}
	}
	region := func(b *ssa.BasicBlock) bool { return tin.Block().Dominates(b) }
	type leave struct {
		pos  token.Pos
		what string
	}
	var leaves []leave
	okReturn := map[*ssa.Return]bool{}
	visited := map[*ssa.BasicBlock]bool{}
	t.ProbeAssumeAll(fn, c.failingCallsUnder(fn, map[ssa.Value]AV{tag: {P: ivOf(maxTag+1, 255)}}), func(in ssa.Instruction, _ func(ssa.Value) AV, _ func(string) (AV, bool)) {
		visited[in.Block()] = true
		ret, ok := in.(*ssa.Return)
		if !ok || !region(in.Block()) {
			return
		}
		n := len(ret.Results)
		if n == 0 || !isErrorType(ret.Results[n-1].Type()) || !t.ProbeErrNonNil(ret.Results[n-1]) {
			okReturn[ret] = true
		}
	})
	feas := t.lastFeas
	for _, b := range fn.Blocks {
		if !visited[b] || !region(b) {
			continue
		}
		if len(b.Instrs) > 0 {
			if ret, ok := b.Instrs[len(b.Instrs)-1].(*ssa.Return); ok && okReturn[ret] {
				leaves = append(leaves, leave{ret.Pos(), "returns without an error"})
			}
		}
		for _, s := range b.Succs {
			if region(s) {
				continue
			}
			if pi := predIndex(s, b); pi >= 0 && feas[s][pi] {
				pos := token.NoPos
				if len(b.Instrs) > 0 {
					pos = b.Instrs[len(b.Instrs)-1].Pos()
				}
				leaves = append(leaves, leave{pos, "goes on behind the list"})
			}
		}
	}
	if len(leaves) > 0 {
		o.Status = core.Violated
		o.Got = fmt.Sprintf("with the element tag assumed in %d..255 the code %s (%d such exits; the dispatcher is only asked per element): an empty list with an unknown element tag is accepted", maxTag+1, leaves[0].what, len(leaves))
		if leaves[0].pos.IsValid() {
			o.Pos = c.P.Pos(leaves[0].pos)
		}
	}
	return o
}

// avUpper: the largest value the abstract value admits; nil when unbounded or empty.
func avUpper(a AV) *big.Int {
	all := a.all()
	if all == nil || all.Hi == nil {
		return nil
	}
	return all.Hi
}

// ---------------------------------------------------------------------------
// T-REGIDX[single-clock]: "the timestamps a fresh Load returns equal those held
// in memory". A write stamps the chunk twice: into the header sector of the
// file and into Region.Timestamps. Where the stamp stored in memory is read
// from the clock in the function that stores it, every stamp the same function
// hands to the package's writers comes from that same clock read: two reads
// straddle a second boundary now and then, and file and memory disagree.

func (c *Ctx) RegionSingleClock(pkg string) []core.Ob {
	var obs []core.Ob
	fns := []*ssa.Function{}
	for _, fn := range c.Funcs() {
		if inPkgs(fn, pkg) && len(fn.Blocks) > 0 {
			fns = append(fns, fn)
		}
	}
	sortFns(fns)
	judged := 0
	for _, fn := range fns {
		var memRoot ssa.Value
		var memPos token.Pos
		var memStores []*ssa.Store
		for _, b := range fn.Blocks {
			for _, in := range b.Instrs {
				st, ok := in.(*ssa.Store)
				if !ok || !addrUnderField(st.Addr, "Timestamps") {
					continue
				}
				if r := c.clockRoot(st.Val, 0); r != nil {
					memRoot, memPos = r, st.Pos()
					memStores = append(memStores, st)
				}
			}
		}
		if memRoot == nil {
			continue
		}
		judged++
		o := core.Ob{Rule: "T-REGIDX", Key: "single-clock:" + core.FnName(fn), Pos: c.P.Pos(memPos), Func: core.FnName(fn), Armed: true, Status: core.OK,
			Want: "the time stamp kept in Region.Timestamps and the one handed to the header writer come from one reading of the clock"}
		for _, b := range fn.Blocks {
			for _, in := range b.Instrs {
				ci, ok := in.(ssa.CallInstruction)
				if !ok {
					continue
				}
				g := ci.Common().StaticCallee()
				if g != nil && !inPkgs(g, pkg) && !ioWriteCallee(ci.Common()) {
					continue
				}
				for _, a := range ci.Common().Args {
					if r := c.clockRoot(a, 0); r != nil && r != memRoot {
						o.Status, o.Pos = core.Violated, c.P.Pos(ci.Pos())
						o.Got = "the stamp handed to " + calleeName(ci.Common()) + " is a second reading of the clock (" + c.P.Pos(r.Pos()) + "); the one stored in memory was read at " + c.P.Pos(memRoot.Pos()) + ": across a second boundary the header on disk and Region.Timestamps differ"
					}
				}
			}
		}
		obs = append(obs, o)
		// ... and the stamp that is kept in memory is also handed to a writer: before the store (on a
		// dominating block) or on every path behind it. A branch that refreshes Region.Timestamps only
		// leaves the table on disk stale, and a fresh Load disagrees with memory.
		for i, st := range memStores {
			w := core.Ob{Rule: "T-REGIDX", Key: fmt.Sprintf("stamp-mirrored:%s#%d", core.FnName(fn), i+1), Pos: c.P.Pos(st.Pos()), Func: core.FnName(fn), Armed: true, Status: core.OK,
				Want: "where a clock reading is stored into Region.Timestamps, the same reading is handed to the package's header writer on that path (before the store or on every path behind it)"}
			root := c.clockRoot(st.Val, 0)
			hands := func(x ssa.Instruction) bool {
				ci, ok := x.(ssa.CallInstruction)
				if !ok {
					return false
				}
				g := ci.Common().StaticCallee()
				if g != nil && !inPkgs(g, pkg) && !ioWriteCallee(ci.Common()) {
					return false
				}
				for _, a := range ci.Common().Args {
					if r := c.clockRoot(a, 0); r != nil && r == root {
						return true
					}
				}
				return false
			}
			before := false
			for _, d := range fn.Blocks {
				if !(d == st.Block() || d.Dominates(st.Block())) {
					continue
				}
				for _, x := range d.Instrs {
					if x == ssa.Instruction(st) {
						break
					}
					if hands(x) {
						before = true
					}
				}
			}
			if !before && !mustFollow(fn, st, hands) {
				w.Status = core.Violated
				w.Got = "on this path the stamp goes into memory only: the time stamp table in the file keeps the old value"
			}
			obs = append(obs, w)
		}
	}
	if judged == 0 {
		obs = append(obs, core.Ob{Rule: "T-REGIDX", Key: "single-clock", Armed: true, Status: core.OK,
			Want: "the time stamp kept in Region.Timestamps and the one written to the file come from one reading of the clock",
			Got:  "no function stores a clock reading into Region.Timestamps itself (the stamp is a parameter where it is stored): nothing to compare"})
	}
	return obs
}

// addrUnderField: the address is (an element of an element of ...) the struct field called name.
func addrUnderField(addr ssa.Value, name string) bool {
	for i := 0; i < 4; i++ {
		switch x := addr.(type) {
		case *ssa.IndexAddr:
			addr = x.X
		case *ssa.FieldAddr:
			st, ok := deref(x.X.Type()).Underlying().(*types.Struct)
			return ok && x.Field < st.NumFields() && st.Field(x.Field).Name() == name
		default:
			return false
		}
	}
	return false
}

// clockRoot: v is (a conversion of, arithmetic on) what time.Now() said, directly or through a
// helper of the module that returns nothing else; the call that read the clock in this function.
func (c *Ctx) clockRoot(v ssa.Value, depth int) ssa.Value {
	if depth > 6 {
		return nil
	}
	switch x := v.(type) {
	case *ssa.Convert:
		return c.clockRoot(x.X, depth+1)
	case *ssa.ChangeType:
		return c.clockRoot(x.X, depth+1)
	case *ssa.BinOp:
		if r := c.clockRoot(x.X, depth+1); r != nil {
			return r
		}
		return c.clockRoot(x.Y, depth+1)
	case *ssa.Call:
		name := calleeName(x.Common())
		if name == "time.Now" {
			return x
		}
		if strings.HasPrefix(name, "time.(Time).") && len(x.Call.Args) > 0 {
			return c.clockRoot(x.Call.Args[0], depth+1)
		}
		if g := x.Call.StaticCallee(); g != nil && len(g.Blocks) > 0 && core.FnPkg(g) != nil && c.clockHelper(core.Origin(g), 0) {
			return x
		}
	}
	return nil
}

// clockHelper: every return of fn hands back a clock reading.
func (c *Ctx) clockHelper(fn *ssa.Function, depth int) bool {
	if depth > 2 || fn.Signature.Results().Len() != 1 {
		return false
	}
	n := 0
	for _, b := range fn.Blocks {
		for _, in := range b.Instrs {
			if ret, ok := in.(*ssa.Return); ok {
				n++
				if len(ret.Results) != 1 || c.clockRoot(ret.Results[0], 3+depth) == nil {
					return false
				}
			}
		}
	}
	return n > 0
}

func ioWriteCallee(cc *ssa.CallCommon) bool {
	n := calleeName(cc)
	if n == "encoding/binary.Write" {
		return true
	}
	if cc.IsInvoke() {
		switch cc.Method.Name() {
		case "Write", "WriteAt":
			return true
		}
	}
	return false
}

// ---------------------------------------------------------------------------
// R-TLG-MAX[id-counts]: "the protocol maximum of 2 MiB for id plus payload".
// The frame readers of net/packet read the frame length L, (with compression:
// the data length D,) then the id, and size the payload from what is left. A
// maximum compared only with what is left lets L - len(id) <= max through:
// frames up to five bytes over the maximum. Decided with case splits of R-TLG
// on the values read from the wire:
//   plain frame:       with L assumed above the maximum no exit without an error is feasible;
//   D = 0 (plain inside compression): with the branch D != 0 cut, L assumed above the
//     maximum by more than a VarInt and the byte count of D within one VarInt, the same.
// A reader of another shape (lengths read by a helper) is not judged.

func (c *Ctx) FrameMaximumCountsID() []core.Ob {
	var obs []core.Ob
	max, ok := c.constValue("net/packet", "MaxDataLength")
	if !ok || !max.IsInt64() {
		return nil // frameMaxObs reports the missing constant
	}
	varLen := int64(5)
	if v, ok := c.constValue("net/packet", "MaxVarIntLen"); ok && v.IsInt64() {
		varLen = v.Int64()
	}
	fns := []*ssa.Function{}
	for _, fn := range c.Funcs() {
		if inPkgs(fn, "net/packet") && len(fn.Blocks) > 0 {
			fns = append(fns, fn)
		}
	}
	sortFns(fns)
	judged := 0
	for _, fn := range fns {
		// local VarInts filled by ReadFrom, in the order of their first read
		type rd struct {
			al    *ssa.Alloc
			calls []*ssa.Call
		}
		var reads []*rd
		byAl := map[*ssa.Alloc]*rd{}
		for _, b := range fn.DomPreorder() {
			for _, in := range b.Instrs {
				call, ok := in.(*ssa.Call)
				if !ok || !strings.HasSuffix(calleeName(call.Common()), "net/packet.(VarInt).ReadFrom") || len(call.Call.Args) == 0 {
					continue
				}
				al, ok := call.Call.Args[0].(*ssa.Alloc)
				if !ok {
					continue
				}
				if byAl[al] == nil {
					byAl[al] = &rd{al: al}
					reads = append(reads, byAl[al])
				}
				byAl[al].calls = append(byAl[al].calls, call)
			}
		}
		if len(reads) < 2 || !storesIntoField(fn, "Data") {
			continue
		}
		// the id is the VarInt that ends up in the field ID; the frame length the first one read
		var idAl *ssa.Alloc
		for _, r := range reads {
			if loadFlowsToField(r.al, "ID") {
				idAl = r.al
			}
		}
		if idAl == nil || reads[0].al == idAl {
			continue
		}
		L := reads[0]
		var D *rd
		for _, r := range reads[1:] {
			if r.al != idAl {
				D = r
			}
		}
		judged++
		assume := map[ssa.Value]AV{}
		what := "plain frame"
		over := max.Int64() + 1
		if D != nil {
			what = "data length 0 (plain frame inside compression)"
			over = max.Int64() + varLen + 1
			// cut the branch D != 0
			cut := false
			for _, ld := range loadsOf(D.al) {
				for _, r := range *ld.Referrers() {
					if cmp, ok := r.(*ssa.BinOp); ok && (cmp.Op == token.NEQ || cmp.Op == token.EQL) {
						if k, ok := constIntVal(cmp.Y); ok && k == 0 && cmp.X == ssa.Value(ld) {
							if cmp.Op == token.NEQ {
								assume[cmp] = AV{P: ivOf(0, 0)}
							} else {
								assume[cmp] = AV{P: ivOf(1, 1)}
							}
							cut = true
						}
					}
				}
			}
			if !cut {
				judged--
				continue
			}
			// the byte count of D is within one VarInt (T-VARLEN decides that of the reader)
			for _, call := range D.calls {
				if refs := call.Referrers(); refs != nil {
					for _, r := range *refs {
						if ex, ok := r.(*ssa.Extract); ok && ex.Index == 0 {
							assume[ex] = AV{P: ivOf(0, varLen)}
						}
					}
				}
			}
		}
		for _, ld := range loadsOf(L.al) {
			assume[ld] = AV{P: ivOf(over, 1<<31-1)}
		}
		o := core.Ob{Rule: "R-TLG-MAX", Key: "id-counts:" + core.FnName(fn), Pos: c.P.Pos(L.calls[0].Pos()), Func: core.FnName(fn), Armed: true, Status: core.OK,
			Want: fmt.Sprintf("%s: a frame whose id plus payload exceed MaxDataLength (%d) is refused (with the frame length assumed >= %d no exit without an error is feasible)", what, max.Int64(), over)}
		t := c.TLG()
		var okExit token.Pos
		n := 0
		t.ProbeAssumeAll(fn, assume, func(in ssa.Instruction, _ func(ssa.Value) AV, _ func(string) (AV, bool)) {
			ret, isRet := in.(*ssa.Return)
			if !isRet {
				return
			}
			k := len(ret.Results)
			if k == 0 || !isErrorType(ret.Results[k-1].Type()) || !t.ProbeErrNonNil(ret.Results[k-1]) {
				n++
				okExit = ret.Pos()
			}
		})
		if n > 0 {
			o.Status = core.Violated
			o.Got = "an exit without an error stays feasible: the maximum is compared with what is left after the id only, frames of up to MaxDataLength + len(id) bytes are accepted"
			if okExit.IsValid() {
				o.Pos = c.P.Pos(okExit)
			}
		}
		obs = append(obs, o)
	}
	if judged == 0 {
		obs = append(obs, core.Ob{Rule: "R-TLG-MAX", Key: "id-counts", Armed: true, Status: core.OK,
			Want: "a frame whose id plus payload exceed MaxDataLength is refused",
			Got:  "no frame reader of the recognised shape (frame length and id read into local VarInts in one function): not judged"})
	}
	return obs
}

func loadsOf(al *ssa.Alloc) []*ssa.UnOp {
	var out []*ssa.UnOp
	if al.Referrers() == nil {
		return nil
	}
	for _, r := range *al.Referrers() {
		if ld, ok := r.(*ssa.UnOp); ok && ld.Op == token.MUL && ld.Referrers() != nil {
			out = append(out, ld)
		}
	}
	return out
}

func storesIntoField(fn *ssa.Function, name string) bool {
	for _, b := range fn.Blocks {
		for _, in := range b.Instrs {
			if st, ok := in.(*ssa.Store); ok {
				if fa, ok := st.Addr.(*ssa.FieldAddr); ok {
					if s, ok := deref(fa.X.Type()).Underlying().(*types.Struct); ok && s.Field(fa.Field).Name() == name {
						return true
					}
				}
			}
		}
	}
	return false
}

// loadFlowsToField: a load of the local (through conversions) is stored into the field called name.
func loadFlowsToField(al *ssa.Alloc, name string) bool {
	for _, ld := range loadsOf(al) {
		work := []ssa.Value{ld}
		for d := 0; d < 4 && len(work) > 0; d++ {
			var next []ssa.Value
			for _, v := range work {
				if v.Referrers() == nil {
					continue
				}
				for _, r := range *v.Referrers() {
					switch x := r.(type) {
					case *ssa.Convert:
						next = append(next, x)
					case *ssa.ChangeType:
						next = append(next, x)
					case *ssa.Store:
						if fa, ok := x.Addr.(*ssa.FieldAddr); ok && x.Val == v {
							if s, ok := deref(fa.X.Type()).Underlying().(*types.Struct); ok && s.Field(fa.Field).Name() == name {
								return true
							}
						}
					}
				}
			}
			work = next
		}
	}
	return false
}

// ---------------------------------------------------------------------------
// T-FMTCODE: "rendering ... removes section-sign formatting codes in plain mode".
//  [plain-removes-every-match]: the replacement callback of the formatting-code pattern is
//    asked in two modes by a captured flag of its parent; with the flag false (plain text),
//    every feasible return hands back "" - whatever the pattern matched is removed, whether
//    or not the colour table knows the code (R-TLG case split on the flag).
//  [plain-cleans-string-arguments]: the plain renderer passes the translation arguments to
//    the format; an argument that is a string is cleaned like the text itself (it is
//    type-tested for string and that string goes through the cleaning function).

func (c *Ctx) PlainRenderingRemovesCodes(pkg string) []core.Ob {
	var obs []core.Ob
	fns := []*ssa.Function{}
	for _, fn := range c.Funcs() {
		if inPkgs(fn, pkg) && len(fn.Blocks) > 0 && fn.Parent() == nil {
			fns = append(fns, fn)
		}
	}
	sortFns(fns)
	cleaners := map[*ssa.Function]int{} // the function with the mode flag -> index of the flag parameter
	judged := 0
	for _, fn := range fns {
		for _, b := range fn.Blocks {
			for _, in := range b.Instrs {
				call, ok := in.(*ssa.Call)
				if !ok || !strings.HasSuffix(calleeName(call.Common()), "regexp.(Regexp).ReplaceAllStringFunc") || len(call.Call.Args) < 3 {
					continue
				}
				mc, ok := call.Call.Args[2].(*ssa.MakeClosure)
				if !ok {
					continue
				}
				cl := mc.Fn.(*ssa.Function)
				// the captured flag: a free variable *bool bound to the spill slot of a bool parameter of the parent
				for bi, bnd := range mc.Bindings {
					al, ok := bnd.(*ssa.Alloc)
					if !ok || bi >= len(cl.FreeVars) {
						continue
					}
					if bt, ok := deref(al.Type()).Underlying().(*types.Basic); !ok || bt.Kind() != types.Bool {
						continue
					}
					pi := -1
					if sv := singleStore(al); sv != nil {
						for i, p := range fn.Params {
							if sv == ssa.Value(p) {
								pi = i
							}
						}
					}
					if pi < 0 {
						continue
					}
					cleaners[fn] = pi
					judged++
					o := core.Ob{Rule: "T-FMTCODE", Key: "plain-removes-every-match:" + core.FnName(fn), Pos: c.P.Pos(cl.Pos()), Func: core.FnName(cl), Armed: true, Status: core.OK,
						Want: "with the mode flag " + fn.Params[pi].Name() + " false, the replacement for whatever the formatting-code pattern matched is the empty string on every path"}
					assume := map[ssa.Value]AV{}
					fv := cl.FreeVars[bi]
					if fv.Referrers() != nil {
						for _, r := range *fv.Referrers() {
							if ld, ok := r.(*ssa.UnOp); ok && ld.Op == token.MUL {
								assume[ld] = AV{P: ivOf(0, 0)}
								if ld.Referrers() != nil {
									for _, r2 := range *ld.Referrers() {
										if nt, ok := r2.(*ssa.UnOp); ok && nt.Op == token.NOT {
											assume[nt] = AV{P: ivOf(1, 1)}
										}
									}
								}
							}
						}
					}
					c.TLG().ProbeAssumeAll(cl, assume, func(in ssa.Instruction, _ func(ssa.Value) AV, _ func(string) (AV, bool)) {
						ret, ok := in.(*ssa.Return)
						if !ok || len(ret.Results) != 1 {
							return
						}
						if k, ok := ret.Results[0].(*ssa.Const); ok && k.Value != nil && k.Value.Kind() == constant.String && constant.StringVal(k.Value) == "" {
							return
						}
						o.Status, o.Pos = core.Violated, c.P.Pos(ret.Pos())
						o.Got = "in plain mode a match can be handed back unchanged (a code the table does not list - §k, an upper-case letter - stays in the text)"
					})
					obs = append(obs, o)
				}
			}
		}
	}
	if judged == 0 {
		obs = append(obs, core.Ob{Rule: "T-FMTCODE", Key: "plain-removes-every-match", Armed: true, Status: core.OK,
			Want: "in plain mode every match of the formatting-code pattern is removed",
			Got:  "no replacement callback with a captured mode flag found: not judged"})
		return obs
	}
	// the plain renderers: functions that call a cleaner with the flag false and format the translation arguments
	for _, fn := range fns {
		plain := false
		for _, ci := range callsIn(fn, func(_ string, cc *ssa.CallCommon) bool {
			g := cc.StaticCallee()
			if g == nil {
				return false
			}
			pi, ok := cleaners[core.Origin(g)]
			if !ok || pi >= len(cc.Args) {
				return false
			}
			k, ok := cc.Args[pi].(*ssa.Const)
			return ok && k.Value != nil && k.Value.Kind() == constant.Bool && !constant.BoolVal(k.Value)
		}) {
			_ = ci
			plain = true
		}
		if !plain {
			continue
		}
		// loads of elements of the field With
		var elems []ssa.Value
		for _, b := range fn.Blocks {
			for _, in := range b.Instrs {
				ld, ok := in.(*ssa.UnOp)
				if !ok || ld.Op != token.MUL {
					continue
				}
				ia, ok := ld.X.(*ssa.IndexAddr)
				if !ok {
					continue
				}
				if fieldNameOf(ia.X) == "With" {
					elems = append(elems, ld)
				}
			}
		}
		if len(elems) == 0 {
			continue
		}
		o := core.Ob{Rule: "T-FMTCODE", Key: "plain-cleans-string-arguments:" + core.FnName(fn), Pos: c.P.Pos(fn.Pos()), Func: core.FnName(fn), Armed: true, Status: core.OK,
			Want: "a translation argument that is a string is type-tested for string and cleaned by the function that cleans the text before it is formatted"}
		cleaned := false
		// the elements, and the parameters of local closures / helpers of the package they are handed to
		seenV := map[ssa.Value]bool{}
		for i := 0; i < len(elems); i++ {
			e := elems[i]
			if seenV[e] || e.Referrers() == nil {
				continue
			}
			seenV[e] = true
			for _, r := range *e.Referrers() {
				if call, ok := r.(*ssa.Call); ok && len(elems) < 32 {
					var callee *ssa.Function
					fv := call.Call.Value
					if ld, ok := fv.(*ssa.UnOp); ok && ld.Op == token.MUL {
						if al, ok := ld.X.(*ssa.Alloc); ok {
							if sv := singleStore(al); sv != nil {
								fv = sv
							}
						}
					}
					if mc, ok := fv.(*ssa.MakeClosure); ok {
						callee, _ = mc.Fn.(*ssa.Function)
					} else if g := call.Call.StaticCallee(); g != nil && inPkgs(g, pkg) {
						callee = g
					}
					if callee != nil && len(callee.Blocks) > 0 {
						for ai, a := range call.Call.Args {
							if a == e && ai < len(callee.Params) {
								elems = append(elems, callee.Params[ai])
							}
						}
					}
				}
			}
		}
		for _, e := range elems {
			if e.Referrers() == nil {
				continue
			}
			for _, r := range *e.Referrers() {
				ta, ok := r.(*ssa.TypeAssert)
				if !ok {
					continue
				}
				if bt, ok := ta.AssertedType.Underlying().(*types.Basic); !ok || bt.Kind() != types.String {
					continue
				}
				// the asserted string reaches a cleaner with the flag false
				var sv ssa.Value = ta
				if ta.CommaOk && ta.Referrers() != nil {
					for _, r2 := range *ta.Referrers() {
						if ex, ok := r2.(*ssa.Extract); ok && ex.Index == 0 {
							sv = ex
						}
					}
				}
				if sv.Referrers() == nil {
					continue
				}
				for _, u := range *sv.Referrers() {
					if call, ok := u.(*ssa.Call); ok {
						if g := call.Call.StaticCallee(); g != nil {
							if _, isCl := cleaners[core.Origin(g)]; isCl {
								cleaned = true
							}
						}
					}
				}
			}
		}
		if !cleaned {
			o.Status = core.Violated
			o.Got = "the arguments are tested for Message only: a string argument with formatting codes is formatted as it is"
		}
		obs = append(obs, o)
	}
	return obs
}

// fieldNameOf: v is (a load of) the struct field called so.
func fieldNameOf(v ssa.Value) string {
	for i := 0; i < 3; i++ {
		switch x := v.(type) {
		case *ssa.UnOp:
			v = x.X
		case *ssa.FieldAddr:
			if s, ok := deref(x.X.Type()).Underlying().(*types.Struct); ok && x.Field < s.NumFields() {
				return s.Field(x.Field).Name()
			}
			return ""
		case *ssa.Field:
			if s, ok := x.X.Type().Underlying().(*types.Struct); ok && x.Field < s.NumFields() {
				return s.Field(x.Field).Name()
			}
			return ""
		default:
			return ""
		}
	}
	return ""
}

// ---------------------------------------------------------------------------
// R-POOL[handler-keeps-buffer]: the bot's game loop takes the buffer of every
// received packet back into its pool as soon as the handlers have returned,
// and the receiving goroutine reads the next packet into it. A handler
// (any function of bot/... with a pk.Packet parameter) that builds a new packet
// around the very same Data slice and hands it to something that keeps it -
// the send queue of bot.Conn - lets the answer be overwritten before it is
// written: it has to copy (pk.Marshal of the scanned fields does).

func (c *Ctx) HandlerKeepsBuffer(pkgs ...string) []core.Ob {
	var obs []core.Ob
	fns := []*ssa.Function{}
	for _, fn := range c.Funcs() {
		if inPkgs(fn, pkgs...) && len(fn.Blocks) > 0 {
			fns = append(fns, fn)
		}
	}
	sortFns(fns)
	for _, fn := range fns {
		for _, p := range fn.Params {
			if !isNamed(p.Type(), core.ModPath+"/net/packet", "Packet") {
				continue
			}
			if _, isPtr := p.Type().(*types.Pointer); isPtr {
				continue
			}
			alias := c.bufferAliases(fn, p)
			if len(alias) == 0 {
				continue
			}
			o := core.Ob{Rule: "R-POOL", Key: core.FnName(fn) + "#handler-keeps-buffer:" + p.Name(), Pos: c.P.Pos(fn.Pos()), Func: core.FnName(fn), Armed: true, Status: core.OK,
				Want: "the Data slice of the received packet " + p.Name() + " (pooled: recycled when the handler returns) is not put into a packet that is queued, nor stored away; answers are built from copies"}
			for _, b := range fn.Blocks {
				for _, in := range b.Instrs {
					switch x := in.(type) {
					case *ssa.Store:
						if !alias[x.Val] {
							continue
						}
						root := addrRoot(x.Addr)
						if al, ok := root.(*ssa.Alloc); ok {
							// a local packet built around the same buffer: where does it go?
							if where := c.localStructKept(al, 0); where != "" {
								o.Status, o.Pos = core.Violated, c.P.Pos(x.Pos())
								o.Got = "a packet built around the received buffer is handed to " + where + ", which keeps it; the buffer goes back to the pool when the handler returns and the next received packet overwrites the queued answer"
							}
							continue
						}
						o.Status, o.Pos = core.Violated, c.P.Pos(x.Pos())
						o.Got = "the received buffer itself is stored outside the handler's locals; it goes back to the pool when the handler returns"
					case *ssa.MapUpdate:
						if alias[x.Value] {
							o.Status, o.Pos = core.Violated, c.P.Pos(x.Pos())
							o.Got = "the received buffer itself is stored in a map; it goes back to the pool when the handler returns"
						}
					case *ssa.Send:
						if alias[x.X] {
							o.Status, o.Pos = core.Violated, c.P.Pos(x.Pos())
							o.Got = "the received buffer itself is sent on a channel; it goes back to the pool when the handler returns"
						}
					}
				}
			}
			obs = append(obs, o)
		}
	}
	return obs
}

// bufferAliases: the values of fn that are the Data slice of the packet parameter p (or a reslice /
// slice-type conversion of it).
func (c *Ctx) bufferAliases(fn *ssa.Function, p *ssa.Parameter) map[ssa.Value]bool {
	alias := map[ssa.Value]bool{}
	isData := func(st types.Type, i int) bool {
		s, ok := deref(st).Underlying().(*types.Struct)
		return ok && i < s.NumFields() && s.Field(i).Name() == "Data"
	}
	// spill slots of the parameter
	spills := map[ssa.Value]bool{}
	if p.Referrers() != nil {
		for _, r := range *p.Referrers() {
			if st, ok := r.(*ssa.Store); ok && st.Val == ssa.Value(p) {
				if al, ok := st.Addr.(*ssa.Alloc); ok && singleStore(al) == ssa.Value(p) {
					spills[al] = true
				}
			}
		}
	}
	for changed := true; changed; {
		changed = false
		for _, b := range fn.Blocks {
			for _, in := range b.Instrs {
				v, ok := in.(ssa.Value)
				if !ok || alias[v] {
					continue
				}
				hit := false
				switch x := in.(type) {
				case *ssa.Field:
					hit = x.X == ssa.Value(p) && isData(x.X.Type(), x.Field)
				case *ssa.UnOp:
					if x.Op == token.MUL {
						if fa, ok := x.X.(*ssa.FieldAddr); ok && spills[fa.X] && isData(fa.X.Type(), fa.Field) {
							hit = true
						}
					}
				case *ssa.Slice:
					hit = alias[x.X]
				case *ssa.ChangeType:
					hit = alias[x.X]
				case *ssa.Convert:
					_, toSlice := x.Type().Underlying().(*types.Slice)
					_, fromSlice := x.X.Type().Underlying().(*types.Slice)
					hit = alias[x.X] && toSlice && fromSlice
				case *ssa.Phi:
					for _, e := range x.Edges {
						if alias[e] {
							hit = true
						}
					}
				}
				if hit {
					alias[v] = true
					changed = true
				}
			}
		}
	}
	return alias
}

func addrRoot(a ssa.Value) ssa.Value {
	for i := 0; i < 6; i++ {
		switch x := a.(type) {
		case *ssa.FieldAddr:
			a = x.X
		case *ssa.IndexAddr:
			a = x.X
		default:
			return a
		}
	}
	return a
}

// localStructKept: the local struct (a packet literal) is loaded and handed to a call that keeps
// its argument; the name of that callee, or "".
func (c *Ctx) localStructKept(al *ssa.Alloc, depth int) string {
	if al.Referrers() == nil {
		return ""
	}
	for _, r := range *al.Referrers() {
		ld, ok := r.(*ssa.UnOp)
		if !ok || ld.Op != token.MUL || ld.Referrers() == nil {
			continue
		}
		for _, u := range *ld.Referrers() {
			switch x := u.(type) {
			case ssa.CallInstruction:
				for i, a := range x.Common().Args {
					if a == ssa.Value(ld) && c.calleeKeepsArg(x.Common(), i, 0) {
						return calleeName(x.Common())
					}
				}
			case *ssa.Store:
				if x.Val == ssa.Value(ld) {
					if _, local := addrRoot(x.Addr).(*ssa.Alloc); !local {
						return "a field or variable outside the handler (" + c.P.Pos(x.Pos()) + ")"
					}
				}
			case *ssa.Send:
				if x.X == ssa.Value(ld) {
					return "a channel"
				}
			}
		}
	}
	return ""
}

// calleeKeepsArg: the call keeps its i-th argument beyond its return: a queue's Push, or a function
// of the module that pushes, sends or stores that parameter (followed two calls deep).
func (c *Ctx) calleeKeepsArg(cc *ssa.CallCommon, i int, depth int) bool {
	if cc.IsInvoke() {
		if cc.Method.Name() == "Push" && cc.Method.Pkg() != nil && strings.HasSuffix(cc.Method.Pkg().Path(), "/net/queue") {
			return true
		}
		return false
	}
	g := cc.StaticCallee()
	if g == nil || depth > 2 || len(g.Blocks) == 0 {
		return false
	}
	// the receiver is argument 0 of a method call
	if i >= len(g.Params) {
		return false
	}
	p := g.Params[i]
	vals := map[ssa.Value]bool{p: true}
	if p.Referrers() != nil {
		for _, r := range *p.Referrers() {
			if st, ok := r.(*ssa.Store); ok && st.Val == ssa.Value(p) {
				if al, ok := st.Addr.(*ssa.Alloc); ok && al.Referrers() != nil {
					for _, r2 := range *al.Referrers() {
						if ld, ok := r2.(*ssa.UnOp); ok && ld.Op == token.MUL {
							vals[ld] = true
						}
					}
				} else if !ok {
					return true // stored into a field / global
				}
			}
		}
	}
	for _, b := range g.Blocks {
		for _, in := range b.Instrs {
			switch x := in.(type) {
			case ssa.CallInstruction:
				for j, a := range x.Common().Args {
					if vals[a] {
						if x.Common().IsInvoke() {
							// Args of an invoke do not include the receiver
							if c.calleeKeepsArg(x.Common(), j, depth+1) {
								return true
							}
						} else if c.calleeKeepsArg(x.Common(), j, depth+1) {
							return true
						}
					}
				}
			case *ssa.Send:
				if vals[x.X] {
					return true
				}
			case *ssa.Store:
				if vals[x.Val] && x.Val != ssa.Value(p) {
					if _, local := addrRoot(x.Addr).(*ssa.Alloc); !local {
						return true
					}
				}
			case *ssa.MapUpdate:
				if vals[x.Value] {
					return true
				}
			}
		}
	}
	return false
}

// ---------------------------------------------------------------------------
// R-LOCK[assert-under-lock]: the linked queue keeps its items in a
// container/list (element type any) and asserts them back to T under its
// lock. For an interface-typed T a nil item is a nil `any`: the one-result
// assertion x.(T) panics with the lock held, and every other producer and
// consumer of the queue blocks for good. Inside the generic queue functions an
// assertion to the type parameter has the two-result form.

func (c *Ctx) AssertToTypeParam(pkg string) []core.Ob {
	var obs []core.Ob
	fns := []*ssa.Function{}
	for _, fn := range c.Funcs() {
		if inPkgs(fn, pkg) && len(fn.Blocks) > 0 && core.Origin(fn) == fn {
			fns = append(fns, fn)
		}
	}
	sortFns(fns)
	n := 0
	for _, fn := range fns {
		k := 0
		for _, b := range fn.Blocks {
			for _, in := range b.Instrs {
				ta, ok := in.(*ssa.TypeAssert)
				if !ok {
					continue
				}
				if _, isTP := types.Unalias(ta.AssertedType).(*types.TypeParam); !isTP {
					continue
				}
				k++
				n++
				o := core.Ob{Rule: "R-LOCK", Key: fmt.Sprintf("%s#assert-to-type-parameter%d", core.FnName(fn), k), Pos: c.P.Pos(ta.Pos()), Func: core.FnName(fn), Armed: true, Status: core.OK,
					Want: "an item taken out of the untyped container is asserted back to the type parameter with the two-result form: a nil item of an interface-typed queue does not panic under the lock"}
				if !ta.CommaOk {
					o.Status = core.Violated
					o.Got = "one-result assertion to the type parameter: for T = an interface type a nil item panics here with the queue's lock held; every later Push and Pull blocks"
				}
				obs = append(obs, o)
			}
		}
	}
	if n == 0 {
		obs = append(obs, core.Ob{Rule: "R-LOCK", Key: "assert-to-type-parameter", Armed: true, Status: core.OK,
			Want: "items are asserted back to the type parameter with the two-result form", Got: "no assertion to a type parameter in " + pkg + " (typed container)"})
	}
	return obs
}

// ---------------------------------------------------------------------------
// R-COUNT[failed-part-counted]: "the byte counts returned by WriteTo and ReadFrom
// equal the bytes actually produced and consumed". A composite codec (a method
// with results (int64, error)) that calls a part's ReadFrom / WriteTo / io.ReadFull
// / Write and leaves on that call's error hands back a count that includes what
// the failed part reported: the part may have moved bytes before it failed.
// Structural: on the error exit that follows the call, the count operand of the
// return derives from the call's own count result.

func (c *Ctx) FailedPartCounted(pkgs ...string) []core.Ob {
	var obs []core.Ob
	fns := []*ssa.Function{}
	for _, fn := range c.Funcs() {
		if !inPkgs(fn, pkgs...) || len(fn.Blocks) == 0 {
			continue
		}
		r := fn.Signature.Results()
		if r.Len() != 2 || !isErrorType(r.At(1).Type()) {
			continue
		}
		if b, ok := r.At(0).Type().Underlying().(*types.Basic); !ok || (b.Kind() != types.Int64 && b.Kind() != types.Int) {
			continue
		}
		switch fn.Name() {
		case "ReadFrom", "WriteTo":
			fns = append(fns, fn)
		}
	}
	sortFns(fns)
	for _, fn := range fns {
		k := 0
		for _, b := range fn.Blocks {
			for _, in := range b.Instrs {
				call, ok := in.(*ssa.Call)
				if !ok {
					continue
				}
				tup, ok := call.Type().(*types.Tuple)
				if !ok || tup.Len() != 2 || !isErrorType(tup.At(1).Type()) {
					continue
				}
				if bt, ok := tup.At(0).Type().Underlying().(*types.Basic); !ok || (bt.Kind() != types.Int64 && bt.Kind() != types.Int) {
					continue
				}
				if !movesBytes(call.Common()) {
					continue
				}
				var cnt, errv *ssa.Extract
				if call.Referrers() != nil {
					for _, r := range *call.Referrers() {
						if ex, ok := r.(*ssa.Extract); ok {
							if ex.Index == 0 {
								cnt = ex
							} else {
								errv = ex
							}
						}
					}
				}
				if errv == nil {
					continue
				}
				// the error exits that test this call's error
				for _, ret := range errExitsOf(errv) {
					if len(ret.Results) != 2 {
						continue
					}
					k++
					o := core.Ob{Rule: "R-COUNT", Key: fmt.Sprintf("%s#failed-part-counted%d", core.FnName(fn), k), Pos: c.P.Pos(call.Pos()), Func: core.FnName(fn), Armed: true, Status: core.OK,
						Want: "the count returned together with the error of " + shortCallee(call.Common()) + " includes what that call reported (it may have moved bytes before failing)"}
					if cnt == nil || !derivesFrom(ret.Results[0], cnt, 0) {
						o.Status = core.Violated
						o.Got = "the count returned on this error exit does not depend on the failed call's count: bytes the part produced or consumed before it failed are not reported"
						o.Pos = c.P.Pos(ret.Pos())
					}
					obs = append(obs, o)
				}
			}
		}
	}
	return obs
}

func shortCallee(cc *ssa.CallCommon) string {
	n := calleeName(cc)
	if i := strings.LastIndex(n, "/"); i >= 0 {
		n = n[i+1:]
	}
	return n
}

// movesBytes: the call reads from or writes to a stream: ReadFrom/WriteTo/Read/Write methods, io.ReadFull & co.
func movesBytes(cc *ssa.CallCommon) bool {
	if cc.IsInvoke() {
		switch cc.Method.Name() {
		case "ReadFrom", "WriteTo", "Read", "Write":
			return true
		}
		return false
	}
	g := cc.StaticCallee()
	if g == nil {
		return false
	}
	switch g.Name() {
	case "ReadFrom", "WriteTo", "Read", "Write":
		return g.Signature.Recv() != nil
	case "ReadFull", "ReadAtLeast", "CopyN", "Copy", "WriteString":
		return core.FnPkg(g) != nil && core.FnPkg(g).Pkg.Path() == "io"
	}
	return false
}

// errExitsOf: the returns reached on the non-nil edge of a test `errv != nil` (directly, within two jumps).
func errExitsOf(errv ssa.Value) []*ssa.Return {
	var out []*ssa.Return
	if errv.Referrers() == nil {
		return nil
	}
	for _, r := range *errv.Referrers() {
		cmp, ok := r.(*ssa.BinOp)
		if !ok || (cmp.Op != token.NEQ && cmp.Op != token.EQL) || cmp.Referrers() == nil {
			continue
		}
		if !isNilConst(cmp.X) && !isNilConst(cmp.Y) {
			continue
		}
		for _, u := range *cmp.Referrers() {
			iff, ok := u.(*ssa.If)
			if !ok {
				continue
			}
			e := iff.Block().Succs[0]
			if cmp.Op == token.EQL {
				e = iff.Block().Succs[1]
			}
			for d := 0; d < 3 && e != nil; d++ {
				if ret, ok := e.Instrs[len(e.Instrs)-1].(*ssa.Return); ok {
					out = append(out, ret)
					break
				}
				if len(e.Succs) != 1 {
					break
				}
				e = e.Succs[0]
			}
		}
	}
	return out
}

// derivesFrom: v is src, or sums / converts / merges values one of which is - computed after src
// in the same pass through a loop (a running total merged at a loop header above src holds what
// earlier rounds reported, not this one).
func derivesFrom(v, src ssa.Value, depth int) bool {
	if v == src {
		return true
	}
	if depth > 12 {
		return false
	}
	srcBlock := src.(ssa.Instruction).Block()
	switch x := v.(type) {
	case *ssa.BinOp:
		return derivesFrom(x.X, src, depth+1) || derivesFrom(x.Y, src, depth+1)
	case *ssa.Convert:
		return derivesFrom(x.X, src, depth+1)
	case *ssa.ChangeType:
		return derivesFrom(x.X, src, depth+1)
	case *ssa.Phi:
		if x.Block() == srcBlock || x.Block().Dominates(srcBlock) {
			return false
		}
		for _, e := range x.Edges {
			if derivesFrom(e, src, depth+1) {
				return true
			}
		}
	case *ssa.UnOp:
		// a named result / local spilled to memory: a store of a deriving value into the same cell, made after src
		if al, ok := x.X.(*ssa.Alloc); ok && x.Op == token.MUL && al.Referrers() != nil {
			for _, r := range *al.Referrers() {
				if st, ok := r.(*ssa.Store); ok && st.Addr == ssa.Value(al) && (st.Block() == srcBlock || srcBlock.Dominates(st.Block())) && derivesFrom(st.Val, src, depth+1) {
					return true
				}
			}
		}
	}
	return false
}

// R-UNKTAG[end-list]: "never loops without consuming input". TAG_End has no payload; a list header
// that names it as the element type with a positive length would have its elements "decoded" without
// a byte being read (a million dynbt values out of eight bytes). With the element tag assumed 0 and
// the loop bound assumed positive, no edge leaves the list case without an error.
func (c *Ctx) endListOb(fn *ssa.Function, tag ssa.Value, tin ssa.Instruction, use ssa.CallInstruction, lp loopInfo, k int) core.Ob {
	o := core.Ob{Rule: "R-UNKTAG", Key: fmt.Sprintf("end-list:%s#%d", core.FnName(fn), k), Pos: c.P.Pos(use.Pos()), Func: core.FnName(fn), Armed: true, Status: core.OK,
		Want: "a list header with element tag TAG_End and a positive length is refused (its elements have no bytes: the element loop would make no progress)"}
	// the loop bound: the header compares its counter with a value read before the loop
	var bound ssa.Value
	if iff, ok := lp.header.Instrs[len(lp.header.Instrs)-1].(*ssa.If); ok {
		if cmp, ok := iff.Cond.(*ssa.BinOp); ok {
			for _, side := range []ssa.Value{cmp.Y, cmp.X} {
				v := stripConv(side)
				if in, ok := v.(ssa.Instruction); ok && !lp.body[in.Block()] {
					switch v.(type) {
					case *ssa.Extract, *ssa.Call:
						bound = v
					}
				}
			}
		}
	}
	if bound == nil {
		o.Got = "the element loop's bound is not a value read before the loop (not judged)"
		return o
	}
	t := c.TLG()
	region := func(b *ssa.BasicBlock) bool { return tin.Block().Dominates(b) }
	okReturn := map[*ssa.Return]bool{}
	visited := map[*ssa.BasicBlock]bool{}
	// header read by a helper of the module that hands back tag, length and error together: whether
	// it refuses the pair is a relation between two of its results, which the intervals do not carry
	if ex, ok := tag.(*ssa.Extract); ok {
		if hc, ok := ex.Tuple.(*ssa.Call); ok {
			if g := hc.Call.StaticCallee(); g != nil && c.P.InModule(g) && g.Signature.Results().Len() >= 3 {
				o.Armed = false
				o.Got = "tag and length come out of one helper (" + core.FnName(g) + "): not judged here"
				return o
			}
		}
	}
	t.ProbeAssumeAll(fn, c.failingCallsUnder(fn, map[ssa.Value]AV{tag: {P: ivOf(0, 0)}, bound: {P: ivOf(1, 1<<31-1)}}), func(in ssa.Instruction, _ func(ssa.Value) AV, _ func(string) (AV, bool)) {
		visited[in.Block()] = true
		ret, ok := in.(*ssa.Return)
		if !ok || !region(in.Block()) {
			return
		}
		n := len(ret.Results)
		if n == 0 || !isErrorType(ret.Results[n-1].Type()) || !t.ProbeErrNonNil(ret.Results[n-1]) {
			okReturn[ret] = true
		}
	})
	feas := t.lastFeas
	n := 0
	var pos token.Pos
	for _, b := range fn.Blocks {
		if !visited[b] || !region(b) {
			continue
		}
		if ret, ok := b.Instrs[len(b.Instrs)-1].(*ssa.Return); ok && okReturn[ret] {
			n++
			pos = ret.Pos()
		}
		for _, s := range b.Succs {
			if !region(s) {
				if pi := predIndex(s, b); pi >= 0 && feas[s][pi] {
					n++
					pos = b.Instrs[len(b.Instrs)-1].Pos()
				}
			}
		}
	}
	if n > 0 {
		o.Status = core.Violated
		o.Got = "with the element tag assumed TAG_End and the length assumed >= 1 the list case can still end without an error: whether such a list is refused is left to what the element decoder does with TAG_End (an Unmarshaler element accepts it and reads nothing)"
		if pos.IsValid() {
			o.Pos = c.P.Pos(pos)
		}
	}
	return o
}

// ---------------------------------------------------------------------------
// R-ERRFLOW[end-sentinel]: net/packet turns the NBT decoder's "unexpected
// TAG_End" into "this optional NBT is absent". That is right for a lone TAG_End
// byte only: the same sentinel comes (wrapped) out of the middle of a document.
// And an absent value must not leave the destination holding what an earlier
// read put there ("regardless of what the destination variable held before").
// Where a function of the package tests errors.Is(err, nbt.ErrEND) and goes on
// to report success: (a) that path also lies behind the equal edge of a
// comparison of a byte counter with 1, (b) it resets the destination through
// reflect (SetZero / Set).

func (c *Ctx) EndSentinelSwallow(pkg string) []core.Ob {
	var obs []core.Ob
	fns := []*ssa.Function{}
	for _, fn := range c.Funcs() {
		if inPkgs(fn, pkg) && len(fn.Blocks) > 0 {
			fns = append(fns, fn)
		}
	}
	sortFns(fns)
	n := 0
	for _, fn := range fns {
		for _, ci := range callsIn(fn, func(name string, cc *ssa.CallCommon) bool {
			if name != "errors.Is" || len(cc.Args) != 2 {
				return false
			}
			ld, ok := cc.Args[1].(*ssa.UnOp)
			if !ok {
				return false
			}
			g, ok := ld.X.(*ssa.Global)
			return ok && g.Name() == "ErrEND"
		}) {
			call, ok := ci.(*ssa.Call)
			if !ok || call.Referrers() == nil {
				continue
			}
			n++
			o := core.Ob{Rule: "R-ERRFLOW", Key: fmt.Sprintf("end-sentinel:%s", core.FnName(fn)), Pos: c.P.Pos(call.Pos()), Func: core.FnName(fn), Armed: true, Status: core.OK,
				Want: "the decoder's TAG_End sentinel is taken for \"absent\" only where exactly one byte was consumed, and then the destination is reset"}
			// the block reached when errors.Is answered true
			var isTrue *ssa.BasicBlock
			for _, r := range *call.Referrers() {
				switch x := r.(type) {
				case *ssa.If:
					isTrue = x.Block().Succs[0]
				case *ssa.UnOp:
					if x.Op == token.NOT && x.Referrers() != nil {
						for _, u := range *x.Referrers() {
							if iff, ok := u.(*ssa.If); ok {
								isTrue = iff.Block().Succs[1]
							}
						}
					}
				}
			}
			if isTrue == nil {
				o.Got = "the answer of errors.Is does not decide a branch (not judged)"
				obs = append(obs, o)
				continue
			}
			// success returns that can be reached from there
			reach := func(avoid map[*ssa.BasicBlock]bool) []*ssa.BasicBlock {
				var out []*ssa.BasicBlock
				seen := map[*ssa.BasicBlock]bool{}
				work := []*ssa.BasicBlock{isTrue}
				for len(work) > 0 {
					b := work[len(work)-1]
					work = work[:len(work)-1]
					if seen[b] || avoid[b] {
						continue
					}
					seen[b] = true
					if ret, isRet := b.Instrs[len(b.Instrs)-1].(*ssa.Return); isRet && len(ret.Results) > 0 {
						last := ret.Results[len(ret.Results)-1]
						if isErrorType(last.Type()) && !errKnownNonNil(last, b) {
							out = append(out, b)
						}
					}
					work = append(work, b.Succs...)
				}
				return out
			}
			okRets := reach(nil)
			if len(okRets) == 0 {
				o.Got = "the sentinel is not turned into success here"
				obs = append(obs, o)
				continue
			}
			// (a) equal edges of comparisons with the constant 1
			oneEdges := map[*ssa.BasicBlock]bool{}
			for _, b := range fn.Blocks {
				iff, isIf := b.Instrs[len(b.Instrs)-1].(*ssa.If)
				if !isIf {
					continue
				}
				under := func(x *ssa.BasicBlock) bool { return x == isTrue || isTrue.Dominates(x) }
				// the comparison itself, or the merged result of `a && n == 1` / `a || n != 1` where it is
				// evaluated as a value (a case clause): the other incoming values are the constant that
				// decides the branch the other way
				var cmp *ssa.BinOp
				viaPhi := false
				switch x := iff.Cond.(type) {
				case *ssa.BinOp:
					cmp = x
				case *ssa.Phi:
					var others []bool
					for _, e := range x.Edges {
						switch y := e.(type) {
						case *ssa.BinOp:
							cmp = y
						case *ssa.Const:
							if y.Value != nil && y.Value.Kind() == constant.Bool {
								others = append(others, constant.BoolVal(y.Value))
							}
						}
					}
					viaPhi = cmp != nil && len(others) == len(x.Edges)-1
					for _, o := range others {
						// n == 1 needs the other inputs false (&&), n != 1 needs them true (||)
						if cmp != nil && o != (cmp.Op == token.NEQ) {
							viaPhi = false
						}
					}
					if !viaPhi {
						cmp = nil
					}
				}
				if cmp == nil || (cmp.Op != token.EQL && cmp.Op != token.NEQ) || !under(cmp.Block()) {
					continue
				}
				if k, isK := constIntVal(cmp.Y); !isK || k != 1 {
					continue
				}
				e := b.Succs[1]
				if cmp.Op == token.EQL {
					e = b.Succs[0]
				}
				if len(e.Preds) == 1 {
					oneEdges[e] = true
				}
			}
			reset := false
			for e := range oneEdges {
				for _, b := range fn.Blocks {
					if !(b == e || e.Dominates(b)) {
						continue
					}
					for _, in := range b.Instrs {
						if cl, isCall := in.(ssa.CallInstruction); isCall {
							switch calleeName(cl.Common()) {
							case "reflect.(Value).SetZero", "reflect.(Value).Set":
								reset = true
							}
						}
					}
				}
			}
			// (c) nothing is reported as read without the decoder having been asked: a shortcut that
			// recognises the absent case by itself (peek at the tag byte, return) skips both the count
			// test and the reset
			decodes := func(cc *ssa.CallCommon, depth int) bool { return false }
			decodes = func(cc *ssa.CallCommon, depth int) bool {
				if strings.HasSuffix(calleeName(cc), "nbt.(Decoder).Decode") {
					return true
				}
				if g := cc.StaticCallee(); g != nil && depth < 2 && inPkgs(g, pkg) {
					for _, ci := range callsIn(core.Origin(g), func(string, *ssa.CallCommon) bool { return true }) {
						if decodes(ci.Common(), depth+1) {
							return true
						}
					}
				}
				return false
			}
			var decBlocks []*ssa.BasicBlock
			for _, b := range fn.Blocks {
				for _, in := range b.Instrs {
					if ci, ok := in.(ssa.CallInstruction); ok && decodes(ci.Common(), 0) {
						decBlocks = append(decBlocks, b)
					}
				}
			}
			shortcut := false
			for _, b := range fn.Blocks {
				ret, isRet := b.Instrs[len(b.Instrs)-1].(*ssa.Return)
				if !isRet || len(ret.Results) == 0 {
					continue
				}
				last := ret.Results[len(ret.Results)-1]
				if !isErrorType(last.Type()) || errKnownNonNil(last, b) {
					continue
				}
				dom := false
				for _, db := range decBlocks {
					if db == b || db.Dominates(b) {
						dom = true
					}
				}
				if !dom && len(decBlocks) > 0 {
					shortcut = true
					o.Status, o.Pos = core.Violated, c.P.Pos(ret.Pos())
					o.Got = "a return that may report success lies before the decoder is asked: an \"absent\" recognised by a shortcut of its own leaves a re-used destination holding the previous value"
				}
			}
			if shortcut {
				obs = append(obs, o)
				continue
			}
			if around := reach(oneEdges); len(around) > 0 {
				rb := around[0]
				o.Status, o.Pos = core.Violated, c.P.Pos(rb.Instrs[len(rb.Instrs)-1].Pos())
				o.Got = "success is reported for the sentinel wherever it came from: a TAG_End refused in the middle of a document (a non-empty list of TAG_End) ends the field with a nil error and a partly filled value, and the next field is read from the wrong offset"
			} else if !reset {
				rb := okRets[0]
				o.Status, o.Pos = core.Violated, c.P.Pos(rb.Instrs[len(rb.Instrs)-1].Pos())
				o.Got = "the absent case leaves the destination as it was: a re-used destination keeps the value of the previous read"
			}
			obs = append(obs, o)
		}
	}
	if n == 0 {
		obs = append(obs, core.Ob{Rule: "R-ERRFLOW", Key: "end-sentinel", Armed: true, Status: core.OK,
			Want: "the decoder's TAG_End sentinel is taken for \"absent\" only where exactly one byte was consumed", Got: "no function of " + pkg + " tests for the sentinel"})
	}
	return obs
}

// ---------------------------------------------------------------------------
// R-RESET[append-target-truncated]: a decoder method that fills a slice of its
// receiver by appending inside a loop starts from an empty slice: the same
// location is assigned (x[:0], nil, a fresh slice) on a block that dominates
// the loop. Otherwise a second decode into the same value keeps the entries of
// the first (the carrier then re-encodes both documents' entries).

func (c *Ctx) AppendTargetsTruncated(method string, pkgs ...string) []core.Ob {
	var obs []core.Ob
	fns := []*ssa.Function{}
	for _, fn := range c.Funcs() {
		if inPkgs(fn, pkgs...) && len(fn.Blocks) > 0 && fn.Name() == method && fn.Signature.Recv() != nil && len(fn.Params) > 0 {
			if _, isPtr := fn.Params[0].Type().Underlying().(*types.Pointer); isPtr {
				fns = append(fns, fn)
			}
		}
	}
	sortFns(fns)
	for _, fn := range fns {
		recv := fn.Params[0]
		k := 0
		for _, lp := range naturalLoops(fn) {
			var blocks []*ssa.BasicBlock
			for b := range lp.body {
				blocks = append(blocks, b)
			}
			sort.Slice(blocks, func(i, j int) bool { return blocks[i].Index < blocks[j].Index })
			for _, b := range blocks {
				for _, in := range b.Instrs {
					st, ok := in.(*ssa.Store)
					if !ok {
						continue
					}
					path := recvPath(st.Addr, recv)
					if path == "" {
						continue
					}
					call, ok := st.Val.(*ssa.Call)
					if !ok {
						continue
					}
					if bi, isB := call.Call.Value.(*ssa.Builtin); !isB || bi.Name() != "append" || len(call.Call.Args) == 0 {
						continue
					}
					if ld, ok := call.Call.Args[0].(*ssa.UnOp); !ok || ld.Op != token.MUL || recvPath(ld.X, recv) != path {
						continue
					}
					k++
					o := core.Ob{Rule: "R-RESET", Key: fmt.Sprintf("%s#append-target%d:%s", core.FnName(fn), k, path), Pos: c.P.Pos(st.Pos()), Func: core.FnName(fn), Armed: true, Status: core.OK,
						Want: "the slice " + path + " the loop appends to is emptied before the loop (a second decode into the same value does not keep the first one's entries)"}
					reset := false
					for _, d := range fn.Blocks {
						if lp.body[d] || !d.Dominates(lp.header) {
							continue
						}
						for _, x := range d.Instrs {
							if s2, ok := x.(*ssa.Store); ok && recvPath(s2.Addr, recv) == path {
								reset = true
							}
						}
					}
					if !reset {
						o.Status = core.Violated
						o.Got = "nothing assigns " + path + " before the loop: decoding twice into the same value appends the second document's entries to the first's"
					}
					obs = append(obs, o)
				}
			}
		}
	}
	return obs
}

// recvPath: addr is the receiver pointer itself ("*") or a chain of field addresses below it ("comp.kvs"); "" otherwise.
func recvPath(addr ssa.Value, recv *ssa.Parameter) string {
	var parts []string
	for i := 0; i < 5; i++ {
		if addr == ssa.Value(recv) {
			if len(parts) == 0 {
				return "*"
			}
			return strings.Join(parts, ".")
		}
		fa, ok := addr.(*ssa.FieldAddr)
		if !ok {
			return ""
		}
		st, ok := deref(fa.X.Type()).Underlying().(*types.Struct)
		if !ok || fa.Field >= st.NumFields() {
			return ""
		}
		parts = append([]string{st.Field(fa.Field).Name()}, parts...)
		addr = fa.X
	}
	return ""
}

// ---------------------------------------------------------------------------
// T-SCANSTATE[error-is-recorded]: the text decoder trusts the scanner's final
// answer: a scan error must still be there when the end of the input is
// reached. Every function of the scanner that answers with the error code has,
// on the way to that return, recorded the error in the scanner (stored its
// error context or its step) or looked at the recorded context. An overflow of
// the nesting stack that only *returns* the code is forgotten by the next byte:
// the text is accepted and an unreadable document written.

func (c *Ctx) ScannerErrorRecorded(pkg string) []core.Ob {
	var obs []core.Ob
	var errCode *big.Int
	for _, pk := range c.P.Pkgs {
		if core.Rel(pk.PkgPath) == pkg {
			if k, ok := pk.Types.Scope().Lookup("scanError").(*types.Const); ok {
				if v, ok := constant.Int64Val(k.Val()); ok {
					errCode = bi(v)
				}
			}
		}
	}
	if errCode == nil {
		return []core.Ob{{Rule: "T-SCANSTATE", Key: "error-is-recorded:anchor", Armed: true, Status: core.Violated, Want: "the scanner's error code is a constant scanError of the package", Got: "not found"}}
	}
	fns := []*ssa.Function{}
	for _, fn := range c.Funcs() {
		if !inPkgs(fn, pkg) || len(fn.Blocks) == 0 || len(fn.Params) == 0 || fn.Parent() != nil {
			continue
		}
		st, ok := deref(fn.Params[0].Type()).Underlying().(*types.Struct)
		if !ok {
			continue
		}
		has := false
		for i := 0; i < st.NumFields(); i++ {
			if st.Field(i).Name() == "errContext" {
				has = true
			}
		}
		if has {
			fns = append(fns, fn)
		}
	}
	sortFns(fns)
	for _, fn := range fns {
		scn := fn.Params[0]
		touches := func(b *ssa.BasicBlock) bool {
			for _, in := range b.Instrs {
				switch x := in.(type) {
				case *ssa.Store:
					if p := recvPath(x.Addr, scn); p == "errContext" || p == "step" {
						return true
					}
				case *ssa.UnOp:
					if x.Op == token.MUL && recvPath(x.X, scn) == "errContext" {
						return true
					}
				case ssa.CallInstruction:
					// a helper of the scanner that records it: s.error(c, "...")
					if g := x.Common().StaticCallee(); g != nil && len(x.Common().Args) > 0 && x.Common().Args[0] == ssa.Value(scn) && g != fn && storesField(g, "errContext") {
						return true
					}
				}
			}
			return false
		}
		k := 0
		// a state function that does nothing but answer with the code is the error state itself
		if len(fn.Blocks) == 1 && len(fn.Blocks[0].Instrs) == 1 {
			continue
		}
		for _, b := range fn.Blocks {
			ret, ok := b.Instrs[len(b.Instrs)-1].(*ssa.Return)
			if !ok || len(ret.Results) != 1 {
				continue
			}
			type cand struct {
				v    ssa.Value
				from *ssa.BasicBlock
			}
			cands := []cand{{ret.Results[0], b}}
			if phi, ok := ret.Results[0].(*ssa.Phi); ok && phi.Block() == b {
				cands = nil
				for i, e := range phi.Edges {
					cands = append(cands, cand{e, b.Preds[i]})
				}
			}
			for _, cd := range cands {
				kv, ok := constIntVal(cd.v)
				if !ok || kv != errCode.Int64() {
					continue
				}
				k++
				o := core.Ob{Rule: "T-SCANSTATE", Key: fmt.Sprintf("error-is-recorded:%s#%d", core.FnName(fn), k), Pos: c.P.Pos(ret.Pos()), Func: core.FnName(fn), Armed: true, Status: core.OK,
					Want: "where a scanner function answers with the error code, the error has been recorded in the scanner (error context / step) on the way"}
				rec := false
				for _, d := range fn.Blocks {
					if (d == cd.from || d.Dominates(cd.from)) && touches(d) {
						rec = true
					}
				}
				if !rec {
					o.Status = core.Violated
					o.Got = "the error code is returned without anything being recorded: the next byte is scanned as if nothing had happened, and the end-of-input check reports success"
				}
				obs = append(obs, o)
			}
		}
	}
	return obs
}

func storesField(fn *ssa.Function, name string) bool {
	if len(fn.Params) == 0 {
		return false
	}
	for _, b := range fn.Blocks {
		for _, in := range b.Instrs {
			if st, ok := in.(*ssa.Store); ok && recvPath(st.Addr, fn.Params[0]) == name {
				return true
			}
		}
	}
	return false
}

// ---------------------------------------------------------------------------
// T-SCANSTATE[delegate-makes-current]: some state functions go on with a
// literal without touching the scanner's step (they answer "continue" and
// rely on being the current state already). A state that hands a byte to such
// a function has made it the current state first; otherwise the delegating
// state stays current and every later byte goes through it again (`[Bogus;1b]`
// was taken for a byte array: the prefix state stayed current for the whole word).

func (c *Ctx) ScannerDelegateMakesCurrent(pkg string) []core.Ob {
	var obs []core.Ob
	var cont *big.Int
	for _, pk := range c.P.Pkgs {
		if core.Rel(pk.PkgPath) == pkg {
			if k, ok := pk.Types.Scope().Lookup("scanContinue").(*types.Const); ok {
				if v, ok := constant.Int64Val(k.Val()); ok {
					cont = bi(v)
				}
			}
		}
	}
	if cont == nil {
		return []core.Ob{{Rule: "T-SCANSTATE", Key: "delegate-makes-current:anchor", Armed: true, Status: core.Violated, Want: "the scanner's continue code is a constant scanContinue of the package", Got: "not found"}}
	}
	isState := func(fn *ssa.Function) bool {
		sig := fn.Signature
		if sig.Recv() != nil || sig.Params().Len() != 2 || sig.Results().Len() != 1 || fn.Parent() != nil || len(fn.Blocks) == 0 {
			return false
		}
		if _, ok := deref(sig.Params().At(0).Type()).Underlying().(*types.Struct); !ok {
			return false
		}
		b, ok := sig.Params().At(1).Type().Underlying().(*types.Basic)
		r, ok2 := sig.Results().At(0).Type().Underlying().(*types.Basic)
		return ok && ok2 && b.Kind() == types.Uint8 && r.Kind() == types.Int
	}
	var states []*ssa.Function
	for _, fn := range c.Funcs() {
		if inPkgs(fn, pkg) && isState(fn) {
			states = append(states, fn)
		}
	}
	sortFns(states)
	// states that answer "continue" on a path on which they have not set the step
	assumesCurrent := map[*ssa.Function]bool{}
	for _, g := range states {
		for _, b := range g.Blocks {
			ret, ok := b.Instrs[len(b.Instrs)-1].(*ssa.Return)
			if !ok || len(ret.Results) != 1 {
				continue
			}
			type cand struct {
				v    ssa.Value
				from *ssa.BasicBlock
			}
			cands := []cand{{ret.Results[0], b}}
			if phi, ok := ret.Results[0].(*ssa.Phi); ok && phi.Block() == b {
				cands = nil
				for i, e := range phi.Edges {
					cands = append(cands, cand{e, b.Preds[i]})
				}
			}
			for _, cd := range cands {
				if kv, ok := constIntVal(cd.v); !ok || kv != cont.Int64() {
					continue
				}
				set := false
				for _, d := range g.Blocks {
					if d == cd.from || d.Dominates(cd.from) {
						for _, in := range d.Instrs {
							if st, ok := in.(*ssa.Store); ok && recvPath(st.Addr, g.Params[0]) == "step" {
								set = true
							}
						}
					}
				}
				if !set {
					assumesCurrent[g] = true
				}
			}
		}
	}
	for _, f := range states {
		k := 0
		for _, b := range f.Blocks {
			for idx, in := range b.Instrs {
				call, ok := in.(*ssa.Call)
				if !ok {
					continue
				}
				g := call.Call.StaticCallee()
				if g == nil || core.Origin(g) == f || !assumesCurrent[core.Origin(g)] {
					continue
				}
				g = core.Origin(g)
				k++
				o := core.Ob{Rule: "T-SCANSTATE", Key: fmt.Sprintf("delegate-makes-current:%s->%s#%d", core.FnName(f), g.Name(), k), Pos: c.P.Pos(call.Pos()), Func: core.FnName(f), Armed: true, Status: core.OK,
					Want: "before a byte is handed to " + g.Name() + " (which goes on with a literal without setting the step) that state has been made the current one"}
				made := false
				isG := func(v ssa.Value) bool {
					// (the step may be of a named function type: the function value is converted on the way)
					if fv, ok := stripConv(v).(*ssa.Function); ok {
						return core.Origin(fv) == g
					}
					return false
				}
				for _, d := range f.Blocks {
					if !(d == b || d.Dominates(b)) {
						continue
					}
					for j, x := range d.Instrs {
						if d == b && j >= idx {
							break
						}
						if st, ok := x.(*ssa.Store); ok && recvPath(st.Addr, f.Params[0]) == "step" && isG(st.Val) {
							made = true
						}
					}
				}
				if !made {
					o.Status = core.Violated
					o.Got = "the delegating state stays current: the bytes that follow are handed to " + f.Name() + " again instead of continuing the literal in " + g.Name()
				}
				obs = append(obs, o)
			}
		}
	}
	return obs
}

// ---------------------------------------------------------------------------
// R-ORDER[compressor-closed]: a gzip / zlib writer holds back its last block
// and the trailer until Close. A function of the module that creates one over
// a buffer and hands the buffer's bytes out has a Close call that the created
// writer can reach (directly, through the interface variable it was put in, or
// through an assertion to io.Closer) and from which the exit is reached.
// Without it the stream is cut short and cannot be read back.

func (c *Ctx) CompressorClosed(pkgs ...string) []core.Ob {
	var obs []core.Ob
	fns := []*ssa.Function{}
	for _, fn := range c.Funcs() {
		if inPkgs(fn, pkgs...) && len(fn.Blocks) > 0 {
			fns = append(fns, fn)
		}
	}
	sortFns(fns)
	for _, fn := range fns {
		k := 0
		for _, ci := range callsIn(fn, func(name string, _ *ssa.CallCommon) bool {
			switch name {
			case "compress/gzip.NewWriter", "compress/gzip.NewWriterLevel", "compress/zlib.NewWriter", "compress/zlib.NewWriterLevel", "compress/zlib.NewWriterLevelDict", "compress/flate.NewWriter":
				return true
			}
			return false
		}) {
			call, ok := ci.(*ssa.Call)
			if !ok {
				continue
			}
			k++
			o := core.Ob{Rule: "R-ORDER", Key: fmt.Sprintf("compressor-closed:%s#%d", core.FnName(fn), k), Pos: c.P.Pos(call.Pos()), Func: core.FnName(fn), Armed: true, Status: core.OK,
				Want: "the compressing writer created here is closed before the function hands out what was written (Close flushes the last block and the trailer)"}
			// the writer escapes to the caller (returned / stored in a result): closing is the caller's business
			flows := map[ssa.Value]bool{}
			var walk func(v ssa.Value, d int)
			escapes := false
			walk = func(v ssa.Value, d int) {
				if flows[v] || d > 8 {
					return
				}
				flows[v] = true
				if v.Referrers() == nil {
					return
				}
				for _, r := range *v.Referrers() {
					switch x := r.(type) {
					case *ssa.Extract:
						if x.Index == 0 {
							walk(x, d+1)
						}
					case *ssa.MakeInterface:
						walk(x, d+1)
					case *ssa.ChangeInterface:
						walk(x, d+1)
					case *ssa.Phi:
						walk(x, d+1)
					case *ssa.TypeAssert:
						walk(x, d+1)
					case *ssa.Store:
						if x.Val == v {
							if al, ok := x.Addr.(*ssa.Alloc); ok && al.Referrers() != nil {
								for _, r2 := range *al.Referrers() {
									if ld, ok := r2.(*ssa.UnOp); ok && ld.Op == token.MUL {
										walk(ld, d+1)
									}
								}
							} else {
								escapes = true
							}
						}
					case *ssa.Return:
						escapes = true
					}
				}
			}
			walk(call, 0)
			if escapes {
				o.Got = "the writer is handed to the caller"
				obs = append(obs, o)
				continue
			}
			closed := false
			for _, b := range fn.Blocks {
				for _, in := range b.Instrs {
					cl, ok := in.(ssa.CallInstruction)
					if !ok {
						continue
					}
					cc := cl.Common()
					isClose := false
					var recv ssa.Value
					if cc.IsInvoke() && cc.Method.Name() == "Close" {
						isClose, recv = true, cc.Value
					} else if g := cc.StaticCallee(); g != nil && g.Name() == "Close" && len(cc.Args) > 0 {
						isClose, recv = true, cc.Args[0]
					}
					if isClose && flows[recv] {
						if _, isDefer := in.(*ssa.Defer); isDefer {
							// a deferred Close runs after the bytes were taken out for the return value
							continue
						}
						closed = true
					}
				}
			}
			if !closed {
				o.Status = core.Violated
				o.Got = "no Close of this writer before the function returns: the compressed stream lacks its last block and trailer (a reader reports an unexpected end of file)"
			}
			obs = append(obs, o)
		}
	}
	return obs
}

// ---------------------------------------------------------------------------
// R-REFLKIND[interface-target-empty]: a tag decodes to int8, string,
// map[string]any ...; reflect.Value.Set stores that into a target of kind
// Interface only if the interface type has no methods, and panics otherwise
// (`struct{E fmt.Stringer}`, `[]error`). In a decoder function that Sets a
// freshly decoded value on its target parameter, a test of NumMethod() with an
// error exit comes first.
//
// R-PANIC[nil-pointer-target]: an entry point that refuses a non-pointer
// destination (a comparison of Kind() with Ptr that leads to an error) refuses
// a nil pointer too (IsNil in the same function): indirect would Set through it.

func (c *Ctx) InterfaceAndNilTargets(pkg string) []core.Ob {
	var obs []core.Ob
	fns := []*ssa.Function{}
	for _, fn := range c.Funcs() {
		if inPkgs(fn, pkg) && len(fn.Blocks) > 0 && fn.Parent() == nil {
			fns = append(fns, fn)
		}
	}
	sortFns(fns)
	for _, fn := range fns {
		// ---- Set on a reflect.Value parameter (or what indirect made of it)
		var sets []*ssa.Call
		for _, ci := range callsIn(fn, func(n string, _ *ssa.CallCommon) bool { return n == "reflect.(Value).Set" }) {
			if call, ok := ci.(*ssa.Call); ok && len(call.Call.Args) == 2 {
				if mk, ok := call.Call.Args[1].(*ssa.Call); ok && calleeName(mk.Common()) == "reflect.ValueOf" {
					sets = append(sets, call)
				}
			}
		}
		hasValParam := false
		for _, p := range fn.Params {
			if types.TypeString(p.Type(), nil) == "reflect.Value" {
				hasValParam = true
			}
		}
		if len(sets) >= 3 && hasValParam {
			o := core.Ob{Rule: "R-REFLKIND", Key: "interface-target-empty:" + core.FnName(fn), Pos: c.P.Pos(fn.Pos()), Func: core.FnName(fn), Armed: true, Status: core.OK,
				Want: "before a decoded value is Set on a target of kind Interface, the target's method set is tested (NumMethod) with an error exit: only the empty interface can hold it"}
			// a NumMethod() call compared with a constant, on a block that dominates every such Set
			var tests []*ssa.BasicBlock
			for _, ci := range callsIn(fn, func(n string, _ *ssa.CallCommon) bool {
				return n == "reflect.(Value).NumMethod" || strings.HasSuffix(n, ".NumMethod")
			}) {
				v, ok := ci.(ssa.Value)
				if !ok || v.Referrers() == nil {
					continue
				}
				for _, r := range *v.Referrers() {
					if cmp, ok := r.(*ssa.BinOp); ok && cmp.Referrers() != nil {
						for _, u := range *cmp.Referrers() {
							if iff, ok := u.(*ssa.If); ok && (failsOnlyBlock(iff.Block().Succs[0]) || failsOnlyBlock(iff.Block().Succs[1])) {
								tb := iff.Block()
								tests = append(tests, tb)
								// `if v.Kind() == Interface && v.NumMethod() != 0`: the method test sits on the Interface edge of
								// a kind test; for a Set under `case Interface` of the same value the kind test stands for both
								if p := tb.Idom(); p != nil {
									if pif, ok := p.Instrs[len(p.Instrs)-1].(*ssa.If); ok {
										if kc, ok := pif.Cond.(*ssa.BinOp); ok && kc.Op == token.EQL && p.Succs[0] == tb {
											if k, isK := constIntVal(kc.Y); isK && k == int64(reflect.Interface) {
												tests = append(tests, p)
											}
										}
									}
								}
							}
						}
					}
				}
			}
			for _, s := range sets {
				guarded := false
				for _, tb := range tests {
					if tb != s.Block() && tb.Dominates(s.Block()) {
						guarded = true
					}
				}
				if !guarded && o.Status == core.OK {
					o.Status, o.Pos = core.Violated, c.P.Pos(s.Pos())
					o.Got = "Set(reflect.ValueOf(decoded)) is reached without a test of the target's method set: a target such as fmt.Stringer or error panics (value of type int8 is not assignable to type fmt.Stringer)"
				}
			}
			obs = append(obs, o)
		}
		// ---- entry guards on Kind() != Ptr
		for _, b := range fn.Blocks {
			iff, ok := b.Instrs[len(b.Instrs)-1].(*ssa.If)
			if !ok {
				continue
			}
			cmp, ok := iff.Cond.(*ssa.BinOp)
			if !ok || (cmp.Op != token.NEQ && cmp.Op != token.EQL) {
				continue
			}
			k, isK := constIntVal(cmp.Y)
			kc, isCall := cmp.X.(*ssa.Call)
			if !isK || k != int64(reflect.Ptr) || !isCall || calleeName(kc.Common()) != "reflect.(Value).Kind" {
				continue
			}
			// the value is reflect.ValueOf(parameter), and the non-pointer edge fails
			rv := kc.Call.Args[0]
			src := rv
			if ld, ok := rv.(*ssa.UnOp); ok && ld.Op == token.MUL {
				if al, ok := ld.X.(*ssa.Alloc); ok {
					if sv := singleStore(al); sv != nil {
						src = sv
					}
				}
			}
			vo, ok := src.(*ssa.Call)
			if !ok || calleeName(vo.Common()) != "reflect.ValueOf" {
				continue
			}
			bad := b.Succs[0]
			if cmp.Op == token.EQL {
				bad = b.Succs[1]
			}
			if !failsOnlyBlock(bad) {
				continue
			}
			o := core.Ob{Rule: "R-PANIC", Key: "nil-pointer-target:" + core.FnName(fn), Pos: c.P.Pos(cmp.Pos()), Func: core.FnName(fn), Armed: true, Status: core.OK,
				Want: "an entry point that refuses a non-pointer destination refuses a nil pointer as well (IsNil): decoding would Set through it"}
			isNil := false
			for _, ci := range callsIn(fn, func(n string, _ *ssa.CallCommon) bool { return n == "reflect.(Value).IsNil" }) {
				if a := ci.Common().Args[0]; a == rv || sameReflectValue(a, rv) {
					isNil = true
				}
			}
			if !isNil {
				o.Status = core.Violated
				o.Got = "only the kind is tested: Decode((*T)(nil)) panics in reflect (Set using unaddressable value) instead of returning an error"
			}
			obs = append(obs, o)
		}
	}
	return obs
}

// failsOnlyBlock: the block (followed over at most two jumps) ends in a return whose last result is an error that is not the nil constant.
func failsOnlyBlock(b *ssa.BasicBlock) bool {
	for d := 0; d < 3 && b != nil; d++ {
		if ret, ok := b.Instrs[len(b.Instrs)-1].(*ssa.Return); ok {
			if len(ret.Results) == 0 {
				return false
			}
			last := ret.Results[len(ret.Results)-1]
			if !isErrorType(last.Type()) {
				return false
			}
			k, isConst := last.(*ssa.Const)
			return !(isConst && k.IsNil())
		}
		if len(b.Succs) != 1 {
			return false
		}
		b = b.Succs[0]
	}
	return false
}

// ---------------------------------------------------------------------------
// R-PANIC[optional-pointer-deref]: a pointer field that the package itself
// compares with nil somewhere (the writer's "has target" flag is `t.TargetName
// != nil`) is nil by design when the peer left the optional part out. Every
// dereference of such a field lies behind the non-nil edge of a nil test of the
// same field, or behind an assignment of a fresh value to it in the same function.

func (c *Ctx) OptionalPointerDerefs(pkgs ...string) []core.Ob {
	var obs []core.Ob
	fns := []*ssa.Function{}
	for _, fn := range c.Funcs() {
		if inPkgs(fn, pkgs...) && len(fn.Blocks) > 0 {
			fns = append(fns, fn)
		}
	}
	sortFns(fns)
	fieldOf := func(v ssa.Value) (*types.Var, ssa.Value) {
		ld, ok := v.(*ssa.UnOp)
		if !ok || ld.Op != token.MUL {
			return nil, nil
		}
		fa, ok := ld.X.(*ssa.FieldAddr)
		if !ok {
			return nil, nil
		}
		st, ok := deref(fa.X.Type()).Underlying().(*types.Struct)
		if !ok || fa.Field >= st.NumFields() {
			return nil, nil
		}
		f := st.Field(fa.Field)
		if _, isPtr := f.Type().Underlying().(*types.Pointer); !isPtr {
			return nil, nil
		}
		return f, fa.X
	}
	// fields compared with nil somewhere in the packages
	optional := map[*types.Var]bool{}
	for _, fn := range fns {
		for _, b := range fn.Blocks {
			for _, in := range b.Instrs {
				cmp, ok := in.(*ssa.BinOp)
				if !ok || (cmp.Op != token.EQL && cmp.Op != token.NEQ) {
					continue
				}
				for _, pair := range [][2]ssa.Value{{cmp.X, cmp.Y}, {cmp.Y, cmp.X}} {
					if isNilConst(pair[1]) {
						if f, _ := fieldOf(pair[0]); f != nil {
							optional[f] = true
						}
					}
				}
			}
		}
	}
	for _, fn := range fns {
		k := 0
		for _, b := range fn.Blocks {
			for _, in := range b.Instrs {
				var ptr ssa.Value
				switch x := in.(type) {
				case *ssa.UnOp:
					if x.Op == token.MUL {
						ptr = x.X
					}
				case *ssa.FieldAddr:
					ptr = x.X
				}
				if ptr == nil {
					continue
				}
				f, base := fieldOf(ptr)
				if f == nil || !optional[f] {
					continue
				}
				k++
				o := core.Ob{Rule: "R-PANIC", Key: fmt.Sprintf("%s#optional-pointer-deref%d:%s", core.FnName(fn), k, f.Name()), Pos: c.P.Pos(in.Pos()), Func: core.FnName(fn), Armed: true, Status: core.OK,
					Want: "the optional pointer field " + f.Name() + " (nil when the peer left the part out) is dereferenced only behind a nil test or a fresh assignment"}
				guarded := false
				for _, d := range fn.Blocks {
					if !(d == b || d.Dominates(b)) {
						continue
					}
					// a fresh value stored into the field on the way
					for _, x := range d.Instrs {
						if x == in {
							break
						}
						if st, ok := x.(*ssa.Store); ok {
							if fa, ok := st.Addr.(*ssa.FieldAddr); ok && sameValue(fa.X, base) {
								if s2, ok := deref(fa.X.Type()).Underlying().(*types.Struct); ok && s2.Field(fa.Field) == f {
									if _, isAlloc := st.Val.(*ssa.Alloc); isAlloc {
										guarded = true
									}
								}
							}
						}
					}
					if d == b {
						continue
					}
					iff, ok := d.Instrs[len(d.Instrs)-1].(*ssa.If)
					if !ok {
						continue
					}
					// (the test itself, or a flag computed from it: has := pk.Boolean(t.F != nil); if has { ... })
					cmp, ok := stripConv(iff.Cond).(*ssa.BinOp)
					if !ok || (cmp.Op != token.EQL && cmp.Op != token.NEQ) {
						continue
					}
					for _, pair := range [][2]ssa.Value{{cmp.X, cmp.Y}, {cmp.Y, cmp.X}} {
						if !isNilConst(pair[1]) {
							continue
						}
						if f2, base2 := fieldOf(pair[0]); f2 == f && sameValue(base2, base) {
							nonNil := d.Succs[0]
							if cmp.Op == token.EQL {
								nonNil = d.Succs[1]
							}
							if len(nonNil.Preds) == 1 && (nonNil == b || nonNil.Dominates(b)) {
								guarded = true
							}
						}
					}
				}
				if !guarded {
					o.Status = core.Violated
					o.Got = "dereferenced without a nil test: when the optional part is absent (as the peer may choose) this panics with a nil pointer dereference"
				}
				obs = append(obs, o)
			}
		}
	}
	return obs
}

// ---------------------------------------------------------------------------
// R-ERRFLOW[goroutine-error-kept]: the bot moves packets between the socket
// and its queues in two goroutines. A goroutine has no caller to return an
// error to: where it gives up its loop because a call failed, the error is
// kept somewhere (stored, or handed to a call) so that the methods of the
// connection can report it. The receiving side does (rerr); a sending side
// that only breaks leaves WritePacket answering nil for packets that are never
// written.

func (c *Ctx) GoroutineErrorsKept(pkg string) []core.Ob {
	var obs []core.Ob
	fns := []*ssa.Function{}
	for _, fn := range c.Funcs() {
		if inPkgs(fn, pkg) && len(fn.Blocks) > 0 {
			fns = append(fns, fn)
		}
	}
	sortFns(fns)
	for _, fn := range fns {
		for _, b := range fn.Blocks {
			for _, in := range b.Instrs {
				g, ok := in.(*ssa.Go)
				if !ok {
					continue
				}
				var body *ssa.Function
				switch v := g.Call.Value.(type) {
				case *ssa.MakeClosure:
					body, _ = v.Fn.(*ssa.Function)
				case *ssa.Function:
					body = v
				}
				if body == nil || len(body.Blocks) == 0 {
					continue
				}
				loops := naturalLoops(body)
				k := 0
				for _, bb := range body.Blocks {
					for _, x := range bb.Instrs {
						call, ok := x.(*ssa.Call)
						if !ok {
							continue
						}
						// the call's error result
						var errv ssa.Value
						if isErrorType(call.Type()) {
							errv = call
						} else if tup, ok := call.Type().(*types.Tuple); ok && tup.Len() > 0 && isErrorType(tup.At(tup.Len()-1).Type()) && call.Referrers() != nil {
							for _, r := range *call.Referrers() {
								if ex, ok := r.(*ssa.Extract); ok && ex.Index == tup.Len()-1 {
									errv = ex
								}
							}
						}
						if errv == nil || errv.Referrers() == nil {
							continue
						}
						// tested, and the failing edge leaves the loop the call is in
						leaves := false
						for _, r := range *errv.Referrers() {
							cmp, ok := r.(*ssa.BinOp)
							if !ok || (cmp.Op != token.NEQ && cmp.Op != token.EQL) || cmp.Referrers() == nil {
								continue
							}
							for _, u := range *cmp.Referrers() {
								iff, ok := u.(*ssa.If)
								if !ok {
									continue
								}
								bad := iff.Block().Succs[0]
								if cmp.Op == token.EQL {
									bad = iff.Block().Succs[1]
								}
								for _, lp := range loops {
									if lp.body[bb] && !lp.body[bad] {
										leaves = true
									}
									// (a block of the loop that only jumps out)
									if lp.body[bb] && lp.body[bad] && len(bad.Succs) == 1 && !lp.body[bad.Succs[0]] {
										leaves = true
									}
								}
							}
						}
						if !leaves {
							continue
						}
						k++
						o := core.Ob{Rule: "R-ERRFLOW", Key: fmt.Sprintf("goroutine-error-kept:%s#%d", core.FnName(body), k), Pos: c.P.Pos(call.Pos()), Func: core.FnName(body), Armed: true, Status: core.OK,
							Want: "a goroutine that gives up its loop on the error of " + shortCallee(call.Common()) + " keeps that error (stores it or hands it on) for the connection's methods to report"}
						kept := false
						for _, r := range *errv.Referrers() {
							switch y := r.(type) {
							case *ssa.Store:
								if y.Val == errv {
									kept = true
								}
							case ssa.CallInstruction:
								kept = true
							case *ssa.MakeInterface, *ssa.Send:
								kept = true
							}
						}
						if !kept {
							o.Status = core.Violated
							o.Got = "the error is only tested and the loop left: nothing remembers it, later calls on the connection keep answering nil for work that is never done"
						}
						obs = append(obs, o)
					}
				}
			}
		}
	}
	return obs
}

// ---------------------------------------------------------------------------
// R-SCHEMA[reply-is-read]: the bot answers some clientbound packets of the
// login and configuration states with a serverbound one (login success ->
// login acknowledged, finish configuration -> finish configuration). Where the
// server's gate sends such a packet, it reads the answer before it hands the
// connection on: otherwise the answer is taken for the first packet of the
// next state and every later packet is off by one.

func (c *Ctx) GateRepliesRead() []core.Ob {
	var obs []core.Ob
	// initialisers of constants declared in the two packages (const x = packetid.Y)
	localConstInit := map[*types.Const]ast.Expr{}
	for _, pk := range c.P.Pkgs {
		if r := core.Rel(pk.PkgPath); r != "bot" && r != "server" {
			continue
		}
		for _, f := range pk.Syntax {
			ast.Inspect(f, func(n ast.Node) bool {
				vs, ok := n.(*ast.ValueSpec)
				if !ok {
					return true
				}
				for i, nm := range vs.Names {
					if k, ok := pk.TypesInfo.Defs[nm].(*types.Const); ok && i < len(vs.Values) {
						localConstInit[k] = vs.Values[i]
					}
				}
				return true
			})
		}
	}
	// the name of a packet id constant of data/packetid the expression denotes ("" otherwise)
	idName := func(info *types.Info, e ast.Expr) string {
		for {
			switch x := ast.Unparen(e).(type) {
			case *ast.CallExpr: // a conversion: int32(packetid.X), packetid.ServerboundPacketID(p.ID)
				if len(x.Args) == 1 {
					if tv, ok := info.Types[x.Fun]; ok && tv.IsType() {
						e = x.Args[0]
						continue
					}
				}
				return ""
			case *ast.SelectorExpr:
				if k, ok := info.Uses[x.Sel].(*types.Const); ok && k.Pkg() != nil && strings.HasSuffix(k.Pkg().Path(), "/data/packetid") {
					return k.Name()
				}
				return ""
			case *ast.Ident:
				// a local constant that stands for one: const ackID = packetid.ServerboundConfigFinishConfiguration
				if k, ok := info.Uses[x].(*types.Const); ok {
					if init := localConstInit[k]; init != nil {
						e = init
						continue
					}
				}
				return ""
			default:
				return ""
			}
		}
	}
	marshalID := func(info *types.Info, call *ast.CallExpr) string {
		sel, ok := ast.Unparen(call.Fun).(*ast.SelectorExpr)
		if !ok || sel.Sel.Name != "Marshal" || len(call.Args) == 0 {
			return ""
		}
		return idName(info, call.Args[0])
	}
	// ---- what the bot answers with what: case Clientbound...: ... Marshal(Serverbound..., ...)
	pairs := map[[2]string]token.Pos{}
	for _, pk := range c.P.Pkgs {
		if core.Rel(pk.PkgPath) != "bot" {
			continue
		}
		for _, f := range pk.Syntax {
			ast.Inspect(f, func(n ast.Node) bool {
				cc, ok := n.(*ast.CaseClause)
				if !ok {
					return true
				}
				var xs []string
				for _, e := range cc.List {
					if nm := idName(pk.TypesInfo, e); strings.HasPrefix(nm, "Clientbound") {
						xs = append(xs, nm)
					}
				}
				if len(xs) == 0 {
					return true
				}
				for _, st := range cc.Body {
					ast.Inspect(st, func(m ast.Node) bool {
						if call, ok := m.(*ast.CallExpr); ok {
							if y := marshalID(pk.TypesInfo, call); strings.HasPrefix(y, "Serverbound") {
								for _, x := range xs {
									pairs[[2]string{x, y}] = call.Pos()
								}
							}
						}
						return true
					})
				}
				return true
			})
		}
	}
	// ---- where the server's gate sends X
	n := 0
	for _, pk := range c.P.Pkgs {
		if core.Rel(pk.PkgPath) != "server" {
			continue
		}
		pk := pk
		declOf := map[*types.Func]*ast.FuncDecl{}
		for _, f := range pk.Syntax {
			for _, d := range f.Decls {
				if fd, ok := d.(*ast.FuncDecl); ok && fd.Body != nil {
					if obj, ok := pk.TypesInfo.Defs[fd.Name].(*types.Func); ok {
						declOf[obj] = fd
					}
				}
			}
		}
		// mentions: behind position after, the function compares a packet id with the constant named y
		// (== / != / case), itself or in a function of the package it calls there (two deep)
		var mentions func(fd *ast.FuncDecl, after token.Pos, y string, depth int) bool
		mentions = func(fd *ast.FuncDecl, after token.Pos, y string, depth int) bool {
			found := false
			ast.Inspect(fd.Body, func(q ast.Node) bool {
				if found || q == nil {
					return false
				}
				switch x := q.(type) {
				case *ast.BinaryExpr:
					if x.Pos() > after && (x.Op == token.EQL || x.Op == token.NEQ) && (idName(pk.TypesInfo, x.X) == y || idName(pk.TypesInfo, x.Y) == y) {
						found = true
					}
				case *ast.CaseClause:
					for _, e := range x.List {
						if x.Pos() > after && idName(pk.TypesInfo, e) == y {
							found = true
						}
					}
				case *ast.CallExpr:
					if x.Pos() > after && depth < 2 {
						// the id handed to a helper that expects it: expectPacket(conn, packetid.X)
						for _, a := range x.Args {
							if idName(pk.TypesInfo, a) == y {
								found = true
							}
						}
						if g := declOf[calleeObj(pk.TypesInfo, x)]; g != nil && g != fd && mentions(g, token.NoPos, y, depth+1) {
							found = true
						}
					}
				}
				return !found
			})
			return found
		}
		for _, f := range pk.Syntax {
			for _, d := range f.Decls {
				fd, ok := d.(*ast.FuncDecl)
				if !ok || fd.Body == nil {
					continue
				}
				ast.Inspect(fd.Body, func(m ast.Node) bool {
					call, ok := m.(*ast.CallExpr)
					if !ok {
						return true
					}
					x := marshalID(pk.TypesInfo, call)
					if !strings.HasPrefix(x, "Clientbound") {
						return true
					}
					var keys [][2]string
					for pr := range pairs {
						if pr[0] == x {
							keys = append(keys, pr)
						}
					}
					sort.Slice(keys, func(i, j int) bool { return keys[i][1] < keys[j][1] })
					for _, pr := range keys {
						n++
						fname := fd.Name.Name
						if fd.Recv != nil && len(fd.Recv.List) > 0 {
							fname = types.ExprString(fd.Recv.List[0].Type) + "." + fname
						}
						o := core.Ob{Rule: "R-SCHEMA", Key: fmt.Sprintf("reply-is-read:server.%s:%s->%s", fname, pr[0], pr[1]), Pos: c.P.Pos(call.Pos()), Func: "server." + fname, Armed: true, Status: core.OK,
							Want: "the bot answers " + pr[0] + " with " + pr[1] + " (" + c.P.Pos(pairs[pr]) + "); the function that sends it tests a received packet's id for the answer before it returns"}
						// the answer is looked for behind the send: in this function, in a function of the package it
						// calls afterwards (awaitFinishConfiguration(conn)), or - where the send sits in a helper of
						// its own - behind the helper's call in its callers
						read := mentions(fd, call.Pos(), pr[1], 0)
						if !read {
							if obj, ok := pk.TypesInfo.Defs[fd.Name].(*types.Func); ok {
								callers := 0
								all := true
								for _, f2 := range pk.Syntax {
									for _, d2 := range f2.Decls {
										g, ok := d2.(*ast.FuncDecl)
										if !ok || g.Body == nil || g == fd {
											continue
										}
										ast.Inspect(g.Body, func(q ast.Node) bool {
											if c2, ok := q.(*ast.CallExpr); ok && calleeObj(pk.TypesInfo, c2) == obj {
												callers++
												if !mentions(g, c2.Pos(), pr[1], 0) {
													all = false
												}
											}
											return true
										})
									}
								}
								read = callers > 0 && all
							}
						}
						if !read {
							o.Status = core.Violated
							o.Got = "the packet is sent and the function never looks for the bot's answer: the answer arrives as the first packet of the next state, every later packet is off by one"
						}
						obs = append(obs, o)
					}
					return true
				})
			}
		}
	}
	if n == 0 {
		obs = append(obs, core.Ob{Rule: "R-SCHEMA", Key: "reply-is-read", Armed: true, Status: core.OK,
			Want: "packets the bot answers are followed by a read of the answer on the server's side", Got: fmt.Sprintf("%d request/answer pairs on the bot's side, none of the requests is sent by package server", len(pairs))})
	}
	return obs
}

// failingCallsUnder: calls in fn that hand an assumed value to a function of the module which,
// with its parameter assumed likewise, has no feasible exit without an error (checkListHeader(tag, n)).
// For each, the comparison of the call's error with nil is added to the assumptions as decided, so
// that the case split in fn does not follow the "no error" edge.
func (c *Ctx) failingCallsUnder(fn *ssa.Function, assume map[ssa.Value]AV) map[ssa.Value]AV {
	out := map[ssa.Value]AV{}
	for k, v := range assume {
		out[k] = v
	}
	t := c.TLG()
	for _, b := range fn.Blocks {
		for _, in := range b.Instrs {
			call, ok := in.(*ssa.Call)
			if !ok {
				continue
			}
			g := call.Call.StaticCallee()
			if g == nil || len(g.Blocks) == 0 || !c.P.InModule(g) || core.Origin(g) == fn {
				continue
			}
			res := g.Signature.Results()
			if res.Len() == 0 || !isErrorType(res.At(res.Len()-1).Type()) {
				continue
			}
			sub := map[ssa.Value]AV{}
			for i, a := range call.Call.Args {
				if av, ok := assume[stripConv(a)]; ok && i < len(g.Params) {
					sub[g.Params[i]] = av
				} else if av, ok := assume[a]; ok && i < len(g.Params) {
					sub[g.Params[i]] = av
				}
			}
			if len(sub) == 0 {
				continue
			}
			okExit := false
			t.ProbeAssumeAll(g, sub, func(x ssa.Instruction, _ func(ssa.Value) AV, _ func(string) (AV, bool)) {
				ret, isRet := x.(*ssa.Return)
				if !isRet {
					return
				}
				n := len(ret.Results)
				if n == 0 || !t.ProbeErrNonNil(ret.Results[n-1]) {
					okExit = true
				}
			})
			if okExit {
				continue
			}
			var errv ssa.Value = call
			if res.Len() > 1 {
				errv = nil
				if call.Referrers() != nil {
					for _, r := range *call.Referrers() {
						if ex, ok := r.(*ssa.Extract); ok && ex.Index == res.Len()-1 {
							errv = ex
						}
					}
				}
			}
			if errv == nil || errv.Referrers() == nil {
				continue
			}
			for _, r := range *errv.Referrers() {
				if cmp, ok := r.(*ssa.BinOp); ok && (isNilConst(cmp.X) || isNilConst(cmp.Y)) {
					switch cmp.Op {
					case token.NEQ:
						out[cmp] = AV{P: ivOf(1, 1)}
					case token.EQL:
						out[cmp] = AV{P: ivOf(0, 0)}
					}
				}
			}
		}
	}
	return out
}

// ---------------------------------------------------------------------------
// R-ORDER[queue-before-stored-error]: the receiving goroutine stores the error
// that ended it and closes the queue; what it had queued before is still to be
// handed out ("packets ... arrive intact and in order", also the last ones
// before a disconnect). A method that pulls from a queue reports a stored error
// (a value that does not come out of a call made in the method) only behind the
// Pull: a fail-fast check in front of it drops the queued packets.

func (c *Ctx) QueueBeforeStoredError(pkg string) []core.Ob {
	var obs []core.Ob
	fns := []*ssa.Function{}
	for _, fn := range c.Funcs() {
		if inPkgs(fn, pkg) && len(fn.Blocks) > 0 && hasErrorResult(fn) {
			fns = append(fns, fn)
		}
	}
	sortFns(fns)
	for _, fn := range fns {
		var pulls []*ssa.BasicBlock
		for _, b := range fn.Blocks {
			for _, in := range b.Instrs {
				if ci, ok := in.(ssa.CallInstruction); ok && ci.Common().IsInvoke() && ci.Common().Method.Name() == "Pull" {
					pulls = append(pulls, b)
				}
			}
		}
		if len(pulls) == 0 {
			continue
		}
		o := core.Ob{Rule: "R-ORDER", Key: "queue-before-stored-error:" + core.FnName(fn), Pos: c.P.Pos(fn.Pos()), Func: core.FnName(fn), Armed: true, Status: core.OK,
			Want: "an error kept from earlier (a field, an atomic pointer) is returned only behind the Pull from the queue: what was queued before the failure is still delivered"}
		for _, b := range fn.Blocks {
			ret, ok := b.Instrs[len(b.Instrs)-1].(*ssa.Return)
			if !ok || len(ret.Results) == 0 {
				continue
			}
			last := ret.Results[len(ret.Results)-1]
			if !isErrorType(last.Type()) {
				continue
			}
			if k, isK := last.(*ssa.Const); isK && k.IsNil() {
				continue
			}
			behind := false
			for _, pb := range pulls {
				if pb == b || pb.Dominates(b) {
					behind = true
				}
			}
			if !behind {
				o.Status, o.Pos = core.Violated, c.P.Pos(ret.Pos())
				o.Got = "an error is returned before the queue is asked: packets that were received before the connection failed are never handed out"
			}
		}
		obs = append(obs, o)
	}
	return obs
}

// ---------------------------------------------------------------------------
// R-ORIGIN[rcon-verbatim]: "commands reach the server verbatim ... each
// response is accepted only under the request id in use". The strings that the
// RCON methods of package net hand out (AcceptCmd, Resp) are the payload as
// ReadPacket delivered it: the returned string is a result of ReadPacket (or of
// a function of the package that only passes one on), not the result of a call
// that edits it (strings.Trim*, ToLower, a conversion through []byte with
// changes).

func (c *Ctx) RCONVerbatim() []core.Ob {
	var obs []core.Ob
	fns := []*ssa.Function{}
	for _, fn := range c.Funcs() {
		if !inPkgs(fn, "net") || len(fn.Blocks) == 0 || fn.Signature.Recv() == nil {
			continue
		}
		if !strings.Contains(types.TypeString(fn.Signature.Recv().Type(), nil), "RCON") {
			continue
		}
		res := fn.Signature.Results()
		if res.Len() != 2 || !isErrorType(res.At(1).Type()) {
			continue
		}
		if b, ok := res.At(0).Type().Underlying().(*types.Basic); !ok || b.Kind() != types.String {
			continue
		}
		fns = append(fns, fn)
	}
	sortFns(fns)
	for _, fn := range fns {
		o := core.Ob{Rule: "R-ORIGIN", Key: "rcon-verbatim:" + core.FnName(fn), Pos: c.P.Pos(fn.Pos()), Func: core.FnName(fn), Armed: true, Status: core.OK,
			Want: "the string handed out is the payload as the packet reader delivered it (no call edits it on the way)"}
		var verbatim func(v ssa.Value, d int) bool
		verbatim = func(v ssa.Value, d int) bool {
			if d > 6 {
				return false
			}
			switch x := v.(type) {
			case *ssa.Const:
				return true
			case *ssa.Extract:
				call, ok := x.Tuple.(*ssa.Call)
				if !ok {
					return false
				}
				g := call.Call.StaticCallee()
				return g != nil && inPkgs(g, "net")
			case *ssa.Phi:
				for _, e := range x.Edges {
					if !verbatim(e, d+1) {
						return false
					}
				}
				return true
			case *ssa.UnOp:
				if al, ok := x.X.(*ssa.Alloc); ok && x.Op == token.MUL && al.Referrers() != nil {
					for _, r := range *al.Referrers() {
						if st, ok := r.(*ssa.Store); ok && st.Addr == ssa.Value(al) && !verbatim(st.Val, d+1) {
							return false
						}
					}
					return true
				}
			}
			return false
		}
		for _, b := range fn.Blocks {
			ret, ok := b.Instrs[len(b.Instrs)-1].(*ssa.Return)
			if !ok || len(ret.Results) != 2 {
				continue
			}
			if k, isK := ret.Results[1].(*ssa.Const); !(isK && k.IsNil()) {
				continue // error exits may hand out anything
			}
			if !verbatim(ret.Results[0], 0) {
				o.Status, o.Pos = core.Violated, c.P.Pos(ret.Pos())
				o.Got = "the string returned with a nil error is computed from the payload by another call: what the peer sent does not arrive byte for byte"
			}
		}
		obs = append(obs, o)
	}
	return obs
}

// ---------------------------------------------------------------------------
// R-RECV[value-receiver-decoder]: a ReadFrom / UnmarshalNBT / UnmarshalJSON
// method with a value receiver decodes into a copy: whatever it assigns to the
// fields of its receiver is gone when it returns, and the caller goes on with
// what the variable held before (nil pointers where the peer sent data). A
// method that stores into fields of its own by-value receiver is such a decoder.
// (A value receiver that only writes *through* a pointer or slice it holds -
// pk.Ary, pk.Opt, pk.Tuple - stores nothing into its own fields.)

func (c *Ctx) ValueReceiverDecoders(include func(*ssa.Function) bool) []core.Ob {
	var obs []core.Ob
	fns := []*ssa.Function{}
	for _, fn := range c.Funcs() {
		if !include(fn) || len(fn.Blocks) == 0 || fn.Signature.Recv() == nil || len(fn.Params) == 0 || fn.Parent() != nil {
			continue
		}
		switch fn.Name() {
		case "ReadFrom", "UnmarshalNBT", "UnmarshalJSON", "UnmarshalText", "UnmarshalBinary":
		default:
			continue
		}
		if _, isPtr := fn.Signature.Recv().Type().Underlying().(*types.Pointer); isPtr {
			continue
		}
		if _, isStruct := fn.Signature.Recv().Type().Underlying().(*types.Struct); !isStruct {
			continue
		}
		fns = append(fns, fn)
	}
	sortFns(fns)
	for _, fn := range fns {
		recv := fn.Params[0]
		// the receiver's spill slot
		var slot *ssa.Alloc
		if recv.Referrers() != nil {
			for _, r := range *recv.Referrers() {
				if st, ok := r.(*ssa.Store); ok && st.Val == ssa.Value(recv) {
					if al, ok := st.Addr.(*ssa.Alloc); ok {
						slot = al
					}
				}
			}
		}
		o := core.Ob{Rule: "R-RECV", Key: "value-receiver-decoder:" + core.FnName(fn), Pos: c.P.Pos(fn.Pos()), Func: core.FnName(fn), Armed: true, Status: core.OK,
			Want: "a decoding method with a value receiver assigns nothing to the fields of that receiver (the assignments would be made to a copy)"}
		if slot != nil {
			for _, b := range fn.Blocks {
				for _, in := range b.Instrs {
					switch x := in.(type) {
					case *ssa.Store:
						if fa, ok := x.Addr.(*ssa.FieldAddr); ok && fa.X == ssa.Value(slot) {
							st := deref(slot.Type()).Underlying().(*types.Struct)
							o.Status, o.Pos = core.Violated, c.P.Pos(x.Pos())
							o.Got = "the field " + st.Field(fa.Field).Name() + " of the by-value receiver is assigned: the decoded value is stored into a copy and lost, the caller's variable keeps what it held"
						}
					case ssa.CallInstruction:
						// the address of a receiver field handed to a decoder: (*pk.VarInt)(&p.ID).ReadFrom(r)
						for _, a := range x.Common().Args {
							if fa, ok := stripConv(a).(*ssa.FieldAddr); ok && fa.X == ssa.Value(slot) {
								switch x.Common().StaticCallee().Name() {
								case "ReadFrom", "UnmarshalNBT", "UnmarshalJSON", "Decode", "Scan":
									st := deref(slot.Type()).Underlying().(*types.Struct)
									o.Status, o.Pos = core.Violated, c.P.Pos(x.Pos())
									o.Got = "the field " + st.Field(fa.Field).Name() + " of the by-value receiver is decoded into: the value is read into a copy and lost"
								}
							}
						}
					}
				}
			}
		}
		obs = append(obs, o)
	}
	return obs
}

// ---------------------------------------------------------------------------
// T-KIND[map-key]: "structs and string-keyed maps become compounds". The
// decoder refuses a map whose key type is not a string; the encoder names each
// entry by its key, and for a key that is neither a string nor a Stringer
// reflect's String() yields the same placeholder ("<int32 Value>") for every
// entry. Where an encoder function of the package ranges over a reflected map
// (MapRange / MapKeys), a test of the key type's kind with an error exit lies
// on a dominating block - the sibling of the decoder's test.

func (c *Ctx) MapKeyKindChecked(pkg string) []core.Ob {
	var obs []core.Ob
	fns := []*ssa.Function{}
	for _, fn := range c.Funcs() {
		if inPkgs(fn, pkg) && len(fn.Blocks) > 0 {
			fns = append(fns, fn)
		}
	}
	sortFns(fns)
	for _, fn := range fns {
		k := 0
		for _, ci := range callsIn(fn, func(n string, _ *ssa.CallCommon) bool {
			return n == "reflect.(Value).MapRange" || n == "reflect.(Value).MapKeys"
		}) {
			k++
			o := core.Ob{Rule: "T-KIND", Key: fmt.Sprintf("map-key:%s#%d", core.FnName(fn), k), Pos: c.P.Pos(ci.Pos()), Func: core.FnName(fn), Armed: true, Status: core.OK,
				Want: "before the entries of a reflected map are written under their keys, the key type's kind is tested (string, or a Stringer) with an error exit"}
			tested := false
			for _, kc := range callsIn(fn, func(n string, _ *ssa.CallCommon) bool { return strings.HasSuffix(n, ".Key") && strings.HasPrefix(n, "reflect.") }) {
				kv, ok := kc.(ssa.Value)
				if !ok || kv.Referrers() == nil {
					continue
				}
				// Key().Kind() compared, on a block that dominates the range, with one side failing
				for _, r := range *kv.Referrers() {
					kind, ok := r.(*ssa.Call)
					if !ok || !strings.HasSuffix(calleeName(kind.Common()), ".Kind") || kind.Referrers() == nil {
						continue
					}
					for _, u := range *kind.Referrers() {
						cmp, ok := u.(*ssa.BinOp)
						if !ok || cmp.Referrers() == nil {
							continue
						}
						if cmp.Block() == ci.Block() || cmp.Block().Dominates(ci.Block()) {
							tested = true
						}
					}
				}
			}
			if !tested {
				o.Status = core.Violated
				o.Got = "no test of the key type: a map[int32]string is written with every entry under the key \"<int32 Value>\" (and the decoder refuses such a map)"
			}
			obs = append(obs, o)
		}
	}
	return obs
}
