package core

import (
	"encoding/json"
	"fmt"
	"os"
	"path/filepath"
	"sort"
	"strings"
	"time"
)

// Status of one obligation.
type Status string

const (
	OK       Status = "discharged"
	Violated Status = "violated"
	Allowed  Status = "allowed" // one-symbol exception with a reason (rules/allow.json or rule-internal idiom)
)

// Ob is one obligation: a rule applied to one construct of the program.
type Ob struct {
	Rule   string   `json:"rule"`
	Key    string   `json:"key"` // rule-specific, line-independent construct key
	Pos    string   `json:"pos"`
	Func   string   `json:"func,omitempty"`
	Want   string   `json:"want,omitempty"`
	Got    string   `json:"got,omitempty"`
	Status Status   `json:"status"`
	Armed  bool     `json:"armed"` // false: informational (outside the property's stated scope)
	Path   []string `json:"path,omitempty"`
	Reason string   `json:"reason,omitempty"`
}

func (o Ob) ID() string { return o.Rule + "|" + o.Key }

// Known finding / fixed entry (committed file /verif/known_findings.json).
type Finding struct {
	Property string `json:"property"`
	Rule     string `json:"rule"`
	Key      string `json:"key"`
	Status   string `json:"status"` // "known" or "fixed"
	Commit   string `json:"commit,omitempty"`
	What     string `json:"what"`
	Input    string `json:"failing_input,omitempty"`
}

type FindingsFile struct {
	Comment  string    `json:"comment"`
	Findings []Finding `json:"findings"`
}

func LoadFindings(path string) (*FindingsFile, error) {
	var ff FindingsFile
	b, err := os.ReadFile(path)
	if err != nil {
		if os.IsNotExist(err) {
			return &ff, nil
		}
		return nil, err
	}
	if err := json.Unmarshal(b, &ff); err != nil {
		return nil, fmt.Errorf("%s: %w", path, err)
	}
	return &ff, nil
}

// Anchors: the frozen instance table of one property. Every key listed must be
// present among the obligations of a run (else the rule would pass vacuously),
// and the per-rule obligation counts must not fall below Min.
type Anchors struct {
	Min  map[string]int `json:"min"`
	Keys []string       `json:"keys"`
}

// Allow entry: a one-symbol exception with a reason.
type Allow struct {
	Rule   string `json:"rule"`
	Key    string `json:"key"`
	Reason string `json:"reason"`
}

// Report is what a property run produces.
type Report struct {
	Property    string
	Tier        string
	Seed        int64
	Obs         []Ob
	Notes       []string // free-form coverage notes (what was analysed)
	Explanation string
	Assumptions []string
	TrustedBase []string
	Counts      map[string]int // packages, functions, ...
	Extra       map[string]any
	Start       time.Time
}

func (r *Report) Add(o ...Ob) { r.Obs = append(r.Obs, o...) }

// Finish applies allow list, anchors and known findings; writes evidence and
// replay files; prints the protocol lines; returns the process exit code.
func (r *Report) Finish(verifDir string, anchors *Anchors, allow []Allow, ff *FindingsFile, checkerCmd string) int {
	// stable order
	sort.SliceStable(r.Obs, func(i, j int) bool { return r.Obs[i].ID() < r.Obs[j].ID() })
	// duplicate keys get a numeric suffix so that every obligation is addressable
	seen := map[string]int{}
	for i := range r.Obs {
		id := r.Obs[i].ID()
		seen[id]++
		if seen[id] > 1 {
			r.Obs[i].Key = fmt.Sprintf("%s~%d", r.Obs[i].Key, seen[id])
		}
	}
	for i := range r.Obs {
		o := &r.Obs[i]
		if o.Status != Violated {
			continue
		}
		for _, a := range allow {
			if a.Rule == o.Rule && a.Key == o.Key {
				o.Status = Allowed
				o.Reason = a.Reason
			}
		}
	}
	have := map[string]bool{}
	perRule := map[string]int{}
	for _, o := range r.Obs {
		have[o.ID()] = true
		if strings.HasPrefix(o.Key, "control:") {
			continue // fixture controls are not instances found in the repository
		}
		perRule[o.Rule]++
	}
	var viol []Ob
	if anchors != nil {
		for _, k := range anchors.Keys {
			if !have[k] {
				parts := strings.SplitN(k, "|", 2)
				rule, key := parts[0], ""
				if len(parts) == 2 {
					key = parts[1]
				}
				viol = append(viol, Ob{Rule: rule, Key: "anchor-missing:" + key, Status: Violated, Armed: true,
					Want: "confirmed rule instance is still discovered", Got: "not found in this tree: the rule would pass vacuously (anchor renamed/removed: re-confirm it)"})
			}
		}
		var rules []string
		for rule := range anchors.Min {
			rules = append(rules, rule)
		}
		sort.Strings(rules)
		for _, rule := range rules {
			if perRule[rule] < anchors.Min[rule] {
				viol = append(viol, Ob{Rule: rule, Key: "instance-count", Status: Violated, Armed: true,
					Want: fmt.Sprintf(">= %d obligations", anchors.Min[rule]), Got: fmt.Sprintf("%d", perRule[rule])})
			}
		}
	}
	known := map[string]Finding{}
	for _, f := range ff.Findings {
		if f.Property == r.Property && f.Status == "known" {
			known[f.Rule+"|"+f.Key] = f
		}
	}
	var knownHit []Finding
	nOK, nInfoViol, nAllowed := 0, 0, 0
	var infoViol []Ob
	for _, o := range r.Obs {
		switch {
		case o.Status == OK:
			nOK++
		case o.Status == Allowed:
			nAllowed++
		case o.Status == Violated && !o.Armed:
			nInfoViol++
			infoViol = append(infoViol, o)
		case o.Status == Violated:
			if f, ok := known[o.ID()]; ok {
				knownHit = append(knownHit, f)
			} else {
				viol = append(viol, o)
			}
		}
	}
	r.Obs = append(r.Obs, viol[:0:0]...)
	// protocol output
	for _, f := range knownHit {
		fmt.Printf("KNOWN-FINDING: property=%s %s %s: %s\n", r.Property, f.Rule, f.Key, f.What)
	}
	replayDir := filepath.Join(verifDir, "replay", r.Property)
	_ = os.RemoveAll(replayDir)
	for i, o := range viol {
		_ = os.MkdirAll(replayDir, 0o755)
		path := filepath.Join(replayDir, fmt.Sprintf("%03d.json", i))
		b, _ := json.MarshalIndent(map[string]any{"property": r.Property, "obligation": o,
			"replay": "gmcheck -property " + r.Property + " -only '" + o.ID() + "'"}, "", " ")
		_ = os.WriteFile(path, b, 0o644)
		fmt.Printf("%s %s [%s] %s\n    want: %s\n    got:  %s\n", o.Pos, o.Rule, o.Key, o.Func, o.Want, o.Got)
		for _, p := range o.Path {
			fmt.Printf("      | %s\n", p)
		}
		fmt.Printf("VIOLATION property=%s replay=%s\n", r.Property, path)
	}
	// evidence
	total := len(r.Obs)
	armed := 0
	for _, o := range r.Obs {
		if o.Armed {
			armed++
		}
	}
	samples := []any{}
	perRuleSample := map[string]int{}
	for _, o := range r.Obs {
		if perRuleSample[o.Rule] < 6 {
			perRuleSample[o.Rule]++
			samples = append(samples, o)
		}
	}
	cov := map[string]any{
		"explanation":          r.Explanation,
		"obligations":          total + len(viol) - countIn(viol, r.Obs),
		"discharged":           nOK + nAllowed,
		"armed_obligations":    armed,
		"allowed_with_reason":  nAllowed,
		"informational_open":   nInfoViol,
		"known_findings":       len(knownHit),
		"per_rule":             perRule,
		"checker_cmd":          checkerCmd,
		"trusted_base":         r.TrustedBase,
		"exhaustive":           true,
		"samples":              samples,
		"notes":                r.Notes,
		"counts":               r.Counts,
		"informational_detail": infoViol,
		"violation_detail":     viol,
	}
	for k, v := range r.Extra {
		cov[k] = v
	}
	if r.Assumptions == nil {
		r.Assumptions = []string{"the analysed tree type-checks with the build configuration(s) listed under coverage.build_configurations", "trusted base as listed in coverage.trusted_base"}
	}
	if r.Notes == nil {
		r.Notes = []string{}
	}
	ev := map[string]any{
		"property_id": r.Property,
		"tier":        r.Tier,
		"seed":        r.Seed,
		"level":       "other",
		"coverage":    cov,
		"assumptions": r.Assumptions,
		"wall_s":      time.Since(r.Start).Seconds(),
		"violations":  len(viol),
	}
	_ = os.MkdirAll(filepath.Join(verifDir, "evidence"), 0o755)
	b, _ := json.MarshalIndent(ev, "", " ")
	if err := os.WriteFile(filepath.Join(verifDir, "evidence", r.Property+".json"), append(b, '\n'), 0o644); err != nil {
		fmt.Fprintf(os.Stderr, "gmcheck: cannot write evidence: %v\n", err)
		return 2
	}
	fmt.Printf("gmcheck %s tier=%s: %d obligations (%d armed), %d discharged, %d allowed, %d informational-open, %d known findings, %d violations, %.1fs\n",
		r.Property, r.Tier, total, armed, nOK, nAllowed, nInfoViol, len(knownHit), len(viol), time.Since(r.Start).Seconds())
	if len(viol) > 0 {
		return 1
	}
	return 0
}

func countIn(sub, all []Ob) int {
	m := map[string]bool{}
	for _, o := range all {
		m[o.ID()] = true
	}
	n := 0
	for _, o := range sub {
		if m[o.ID()] {
			n++
		}
	}
	return n
}

// ReadJSON loads a JSON file into v (missing file = zero value).
func ReadJSON(path string, v any) error {
	b, err := os.ReadFile(path)
	if err != nil {
		if os.IsNotExist(err) {
			return nil
		}
		return err
	}
	return json.Unmarshal(b, v)
}
