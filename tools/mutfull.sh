#!/bin/bash
# usage: mutfull.sh <patch> <prop>  -- prints the full checker output for a patched scratch copy
export GOFLAGS=-mod=mod GOPROXY=off GOSUMDB=off GOTOOLCHAIN=local GOWORK=off
patch=$(readlink -f "$1"); p=$2   # env: GMCHECK (binary), EXTRA (flags), ENVX (env assignments)
scratch=$(mktemp -d /tmp/gmcmut.XXXXXX); trap 'rm -rf "$scratch"' EXIT
mkdir -p "$scratch/repo" "$scratch/verif"
rsync -a --exclude .git /repo/ "$scratch/repo/"
cp -r /verif/rules /verif/known_findings.json "$scratch/verif/"
(cd "$scratch/repo" && patch -p1 -s --batch < "$patch") || { echo PATCH-FAILED; exit 3; }
env $ENVX ${GMCHECK:-/tmp/gmcheck_dev} -property "$p" -repo "$scratch/repo" -verif "$scratch/verif" -nofixtures $EXTRA 2>&1 | sed "s#$scratch/##g"
