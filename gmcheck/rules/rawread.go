package rules

import (
	"fmt"
	"go/token"
	"go/types"

	"gmcheck/core"

	"golang.org/x/tools/go/ssa"
)

// informationalPkg: packages that DESIGN.md section 5 places outside every
// property's stated scope (unfinished / stale upstream code). Rules still
// analyse them; open obligations there are informational.
func informationalPkg(fn *ssa.Function) bool {
	return inPkgs(fn, "level/component", "bot/screen", "bot/world", "bot/msg", "bot/basic", "bot/playerlist", "realms", "yggdrasil")
}

// isReadSig: func([]byte) (int, error)
func isReadSig(sig *types.Signature) bool {
	if sig.Params().Len() != 1 || sig.Results().Len() != 2 {
		return false
	}
	s, ok := sig.Params().At(0).Type().Underlying().(*types.Slice)
	if !ok {
		return false
	}
	b, ok := s.Elem().Underlying().(*types.Basic)
	if !ok || b.Kind() != types.Uint8 {
		return false
	}
	r0, ok := sig.Results().At(0).Type().Underlying().(*types.Basic)
	if !ok || r0.Kind() != types.Int {
		return false
	}
	return types.Identical(sig.Results().At(1).Type(), types.Universe.Lookup("error").Type())
}

// rawReadCall reports whether the call is a direct Read([]byte)(int,error)
// method call (interface or concrete) and returns the buffer argument.
func rawReadCall(call *ssa.CallCommon) (ssa.Value, bool) {
	if call.IsInvoke() {
		if call.Method.Name() != "Read" {
			return nil, false
		}
		sig, _ := call.Method.Type().(*types.Signature)
		if sig == nil || !isReadSig(sig) {
			return nil, false
		}
		return call.Args[0], true
	}
	f := call.StaticCallee()
	if f == nil || f.Name() != "Read" || f.Signature.Recv() == nil {
		return nil, false
	}
	// strip receiver
	sig := types.NewSignatureType(nil, nil, nil, f.Signature.Params(), f.Signature.Results(), false)
	if !isReadSig(sig) {
		return nil, false
	}
	if len(call.Args) < 2 {
		return nil, false
	}
	return call.Args[1], true
}

// oneByteBuf: the buffer is a full slice of a [1]byte array.
func oneByteBuf(v ssa.Value) bool {
	sl, ok := v.(*ssa.Slice)
	if !ok {
		return false
	}
	t := deref(sl.X.Type())
	a, ok := t.Underlying().(*types.Array)
	return ok && a.Len() == 1
}

// valueUsed: the extracted result index i of a tuple-valued call has at least
// one referrer that is not a debug ref.
func tupleResultUsed(call ssa.Value, idx int) bool {
	refs := call.Referrers()
	if refs == nil {
		return false
	}
	for _, r := range *refs {
		if ex, ok := r.(*ssa.Extract); ok && ex.Index == idx {
			if rr := ex.Referrers(); rr != nil {
				for _, u := range *rr {
					if _, isDbg := u.(*ssa.DebugRef); !isDbg {
						return true
					}
				}
			}
		}
	}
	return false
}

// RawRead implements R-RAWREAD over every module function.
func (c *Ctx) RawRead() []core.Ob {
	var obs []core.Ob
	for _, fn := range c.Funcs() {
		k, kc := 0, 0
		for _, b := range fn.Blocks {
			for _, in := range b.Instrs {
				call, ok := in.(*ssa.Call)
				if !ok {
					continue
				}
				// io.Copy out of an io.LimitReader stops quietly at the source's EOF: it is a read of
				// "up to n bytes" like a bare Read, and a full read only if its count is compared with n
				if calleeName(call.Common()) == "io.Copy" && len(call.Call.Args) == 2 {
					src := call.Call.Args[1]
					if mi, isMI := src.(*ssa.MakeInterface); isMI {
						src = mi.X
					}
					limited := false
					if lc, isCall := src.(*ssa.Call); isCall && calleeName(lc.Common()) == "io.LimitReader" {
						limited = true
					}
					if pt, isPtr := src.Type().(*types.Pointer); isPtr && types.TypeString(pt.Elem(), nil) == "io.LimitedReader" {
						limited = true
					}
					if limited {
						kc++
						ob := core.Ob{Rule: "R-RAWREAD", Key: fmt.Sprintf("%s#LimitedCopy%d", core.FnName(fn), kc), Pos: c.P.Pos(call.Pos()),
							Func: core.FnName(fn), Armed: !informationalPkg(fn), Status: core.OK,
							Want: "io.Copy from an io.LimitReader reports success at the source's end of file however little it copied: its count is looked at (or io.CopyN / io.ReadFull is used)"}
						if !tupleResultUsed(call, 0) {
							ob.Status, ob.Got = core.Violated, "the number of bytes copied is discarded: a payload cut short is taken for a complete one"
						} else {
							ob.Got = "count result is used"
						}
						obs = append(obs, ob)
					}
					continue
				}
				// io.ReadAtLeast(r, buf, min) with min below len(buf) is a read of "at least min, at most
				// len(buf)": what it takes beyond min belongs to whatever follows in the stream, and how
				// much that is depends on how the bytes arrive
				if calleeName(call.Common()) == "io.ReadAtLeast" && len(call.Call.Args) == 3 {
					kc++
					ob := core.Ob{Rule: "R-RAWREAD", Key: fmt.Sprintf("%s#ReadAtLeast%d", core.FnName(fn), kc), Pos: c.P.Pos(call.Pos()),
						Func: core.FnName(fn), Armed: !informationalPkg(fn), Status: core.OK,
						Want: "io.ReadAtLeast asks for exactly the buffer (min = len(buf)): a smaller minimum reads ahead into the bytes of the next item"}
					exact := false
					if lc, isCall := stripConv(call.Call.Args[2]).(*ssa.Call); isCall {
						if bi, isB := lc.Call.Value.(*ssa.Builtin); isB && bi.Name() == "len" && len(lc.Call.Args) == 1 && sameValue(stripConv(lc.Call.Args[0]), stripConv(call.Call.Args[1])) {
							exact = true
						}
					}
					// buf[:n] with min n
					if sl, isSl := call.Call.Args[1].(*ssa.Slice); isSl && sl.Low == nil && sl.High != nil && sameValue(stripConv(sl.High), stripConv(call.Call.Args[2])) {
						exact = true
					}
					if k, isK := constIntVal(call.Call.Args[2]); isK {
						if sl, isSl := call.Call.Args[1].(*ssa.Slice); isSl {
							if arr, isArr := deref(sl.X.Type()).Underlying().(*types.Array); isArr && sl.Low == nil && sl.High == nil && arr.Len() == k {
								exact = true
							}
							if hk, isHK := constIntVal(sl.High); isHK && sl.Low == nil && hk == k {
								exact = true
							}
						}
					}
					if !exact {
						ob.Status, ob.Got = core.Violated, "the minimum is not the buffer's length: the call may consume bytes of the following packet, and whether it does depends on the chunking of the stream"
					} else {
						ob.Got = "min = len(buf)"
					}
					obs = append(obs, ob)
					continue
				}
				buf, ok := rawReadCall(call.Common())
				if !ok {
					continue
				}
				k++
				ob := core.Ob{Rule: "R-RAWREAD", Key: fmt.Sprintf("%s#Read%d", core.FnName(fn), k), Pos: c.P.Pos(call.Pos()),
					Func: core.FnName(fn), Armed: !informationalPkg(fn),
					Want: "a direct Read is a forwarding Read wrapper or a one-byte read whose count is looked at; anything else goes through io.ReadFull/io.CopyN/binary.Read"}
				enclosingIsRead := fn.Name() == "Read" && fn.Signature.Recv() != nil &&
					isReadSig(types.NewSignatureType(nil, nil, nil, fn.Signature.Params(), fn.Signature.Results(), false))
				switch {
				case enclosingIsRead && isParamOf(fn, buf):
					ob.Status = core.OK
					ob.Got = "forwarding wrapper: enclosing function is itself a Read method and passes its own buffer (short reads are its caller's business)"
				case oneByteBuf(buf) && tupleResultUsed(call, 0):
					ob.Status = core.OK
					ob.Got = "one-byte read, count result is used"
					// ... and used to decide: an exit that reports success lies behind the edge on which
					// the count was found to be 1 (not merely next to a test of it)
					if why := successWithoutCount(call); why != "" {
						ob.Status, ob.Got = core.Violated, why
					}
				default:
					ob.Status = core.Violated
					ob.Got = "multi-byte (or count-discarding) direct Read: a short read is taken for a full one"
				}
				obs = append(obs, ob)
			}
		}
	}
	return obs
}

func isParamOf(fn *ssa.Function, v ssa.Value) bool {
	for _, p := range fn.Params {
		if p == v {
			return true
		}
	}
	return false
}

// Discard implements R-DISCARD: the result of a side-effect-free call is unused.
func (c *Ctx) Discard() []core.Ob {
	pure := map[string]bool{"Slice": true, "Slice3": true, "Elem": true, "Index": true, "Field": true, "Convert": true, "Addr": true}
	var obs []core.Ob
	for _, fn := range c.Funcs() {
		k := 0
		for _, b := range fn.Blocks {
			for _, in := range b.Instrs {
				call, ok := in.(*ssa.Call)
				if !ok {
					continue
				}
				cc := call.Common()
				name := ""
				if bi, ok := cc.Value.(*ssa.Builtin); ok && bi.Name() == "append" {
					name = "append"
				} else if f := cc.StaticCallee(); f != nil && f.Signature.Recv() != nil && pure[f.Name()] &&
					isNamed(f.Signature.Recv().Type(), "reflect", "Value") {
					name = "reflect.Value." + f.Name()
				}
				if name == "" {
					continue
				}
				k++
				ob := core.Ob{Rule: "R-DISCARD", Key: fmt.Sprintf("%s#%s%d", core.FnName(fn), name, k), Pos: c.P.Pos(call.Pos()),
					Func: core.FnName(fn), Armed: !informationalPkg(fn), Want: "result of the pure call " + name + " is used"}
				used := false
				if refs := call.Referrers(); refs != nil {
					for _, r := range *refs {
						if _, dbg := r.(*ssa.DebugRef); !dbg {
							used = true
						}
					}
				}
				if used {
					ob.Status = core.OK
				} else {
					ob.Status = core.Violated
					ob.Got = "result discarded: the call has no effect"
				}
				obs = append(obs, ob)
			}
		}
	}
	return obs
}

// successWithoutCount: a return with a nil error is reachable from the one-byte Read without passing
// the edge of a comparison that establishes count >= 1 ("" if none).
// derivesFromCallErrAtSomeReturn: some return of the function hands back the error result of the call.
func derivesFromCallErrAtSomeReturn(call *ssa.Call) bool {
	for _, b := range call.Parent().Blocks {
		if ret, ok := b.Instrs[len(b.Instrs)-1].(*ssa.Return); ok && len(ret.Results) > 0 {
			last := ret.Results[len(ret.Results)-1]
			if kc, ok := last.(*ssa.Const); !(ok && kc.IsNil()) && derivesFromCallErr(last, call, 0) {
				return true
			}
		}
	}
	return false
}

func successWithoutCount(call *ssa.Call) string {
	fn := call.Parent()
	if !hasErrorResult(fn) {
		return ""
	}
	var n ssa.Value
	if refs := call.Referrers(); refs != nil {
		for _, r := range *refs {
			if ex, ok := r.(*ssa.Extract); ok && ex.Index == 0 {
				n = ex
			}
		}
	}
	if n == nil || n.Referrers() == nil {
		return ""
	}
	// edges on which n >= 1 holds (n itself, or the loop variable it flows into)
	var good []*ssa.BasicBlock
	var cmps []*ssa.BinOp
	nvals := map[ssa.Value]bool{n: true}
	for _, r := range *n.Referrers() {
		if phi, ok := r.(*ssa.Phi); ok {
			nvals[phi] = true
		}
	}
	for nv := range nvals {
		if nv.Referrers() == nil {
			continue
		}
		for _, r := range *nv.Referrers() {
			if cmp, ok := r.(*ssa.BinOp); ok && nvals[cmp.X] {
				cmps = append(cmps, cmp)
			}
		}
	}
	for _, cmp := range cmps {
		if cmp.Referrers() == nil {
			continue
		}
		k, isK := constIntVal(cmp.Y)
		if !isK {
			continue
		}
		for _, u := range *cmp.Referrers() {
			iff, ok := u.(*ssa.If)
			if !ok {
				continue
			}
			t, f := iff.Block().Succs[0], iff.Block().Succs[1]
			switch {
			case cmp.Op == token.EQL && k == 1, cmp.Op == token.GTR && k == 0, cmp.Op == token.GEQ && k == 1, cmp.Op == token.NEQ && k == 0:
				good = append(good, t)
			case cmp.Op == token.EQL && k == 0, cmp.Op == token.LSS && k == 1, cmp.Op == token.LEQ && k == 0, cmp.Op == token.NEQ && k == 1:
				good = append(good, f)
			}
		}
	}
	if len(good) == 0 {
		// the count is only handed on (returned, added up), never looked at here. A function that is not
		// itself a Read method then passes the Read's error through whatever the count was: a last byte
		// that arrives together with io.EOF is reported as a failure, and a (0, nil) read as a byte.
		if derivesFromCallErrAtSomeReturn(call) {
			return "the count of the one-byte Read is handed on but never compared: the Read's error is returned as it is, so a byte that arrives together with io.EOF counts as a failure and a (0, nil) read as success (io.ReadFull decides both)"
		}
		return ""
	}
	// behind an edge on which a byte is known to have been read, the byte is delivered: the error handed
	// back there is nil (a Reader may return the last byte together with io.EOF)
	for _, g := range good {
		seenG := map[*ssa.BasicBlock]bool{g: true}
		workG := []*ssa.BasicBlock{g}
		for len(workG) > 0 {
			b := workG[len(workG)-1]
			workG = workG[:len(workG)-1]
			if ret, ok := b.Instrs[len(b.Instrs)-1].(*ssa.Return); ok && len(ret.Results) > 0 {
				last := ret.Results[len(ret.Results)-1]
				if kc, ok := last.(*ssa.Const); !(ok && kc.IsNil()) && derivesFromCallErr(last, call, 0) {
					return "where the one-byte Read is known to have delivered its byte, the function still returns the Read's error: a final byte that arrives together with io.EOF is lost"
				}
			}
			for _, sx := range b.Succs {
				if !seenG[sx] && sx != call.Block() {
					seenG[sx] = true
					workG = append(workG, sx)
				}
			}
		}
	}
	// search from the call for a success return avoiding entry through the good edges
	isGood := map[*ssa.BasicBlock]bool{}
	for _, g := range good {
		if len(g.Preds) == 1 {
			isGood[g] = true
		}
	}
	seen := map[*ssa.BasicBlock]bool{call.Block(): true}
	work := []*ssa.BasicBlock{call.Block()}
	for len(work) > 0 {
		b := work[len(work)-1]
		work = work[:len(work)-1]
		if ret, ok := b.Instrs[len(b.Instrs)-1].(*ssa.Return); ok && len(ret.Results) > 0 {
			last := ret.Results[len(ret.Results)-1]
			if kc, ok := last.(*ssa.Const); ok && kc.IsNil() {
				return "a success exit is reachable from the one-byte Read without the count having been found to be 1: at end of input a byte that was never read is handed on"
			}
			// ... or hands back the Read's own error without having found it non-nil: a Reader may answer
			// (0, nil), and then a byte nobody read is reported with a nil error
			if derivesFromCallErr(last, call, 0) && !errKnownNonNil(last, b) {
				return "where the count was not found to be 1 the Read's own error is returned untested: a (0, nil) read (legal for an io.Reader) comes out as a zero byte with a nil error (io.ReadFull repeats such a read)"
			}
		}
		for _, s := range b.Succs {
			if !seen[s] && !isGood[s] {
				seen[s] = true
				work = append(work, s)
			}
		}
	}
	return ""
}

// derivesFromCallErr: v is the error result of call, or a phi one of whose inputs is.
func derivesFromCallErr(v ssa.Value, call *ssa.Call, d int) bool {
	if d > 3 {
		return false
	}
	switch x := v.(type) {
	case *ssa.Extract:
		if c2, ok := x.Tuple.(*ssa.Call); ok {
			// the error of this Read, or of a repetition of it on the same receiver
			return c2 == call || (c2.Common().IsInvoke() && call.Common().IsInvoke() && c2.Common().Method == call.Common().Method)
		}
	case *ssa.Phi:
		for _, e := range x.Edges {
			if e != v && derivesFromCallErr(e, call, d+1) {
				return true
			}
		}
	}
	return false
}
