package main

import (
	"bytes"
	"fmt"

	"github.com/Tnze/go-mc/chat"
	"github.com/Tnze/go-mc/level"
	"github.com/Tnze/go-mc/nbt"
	"github.com/Tnze/go-mc/save"
)

func try(name string, f func() error) {
	defer func() {
		if r := recover(); r != nil {
			fmt.Printf("%-34s PANIC %v\n", name, r)
		}
	}()
	err := f()
	fmt.Printf("%-34s err=%v\n", name, err)
}

func main() {
	try("Marshal(uint16)", func() error { _, e := nbt.Marshal(uint16(1)); return e })
	try("Marshal(uint32)", func() error { _, e := nbt.Marshal(uint32(1)); return e })
	try("Marshal(uint64)", func() error { _, e := nbt.Marshal(uint64(1)); return e })
	try("Marshal([4]byte)", func() error { _, e := nbt.Marshal([4]byte{1, 2, 3, 4}); return e })
	try("Marshal([2]int8)", func() error { _, e := nbt.Marshal([2]int8{1, 2}); return e })
	try("Marshal(struct{P *int32}) value", func() error { _, e := nbt.Marshal(struct{ P *int32 }{}); return e })
	try("Marshal(&struct{P *int32}) mutates", func() error {
		v := &struct{ P *int32 }{}
		_, e := nbt.Marshal(v)
		if v.P != nil {
			return fmt.Errorf("INPUT MUTATED: P is now non-nil")
		}
		return e
	})
	try("[]bool round trip", func() error {
		b, e := nbt.Marshal([]bool{true, false})
		if e != nil {
			return e
		}
		var out []bool
		return nbt.Unmarshal(b, &out)
	})
	try("[]uint32 round trip", func() error {
		b, e := nbt.Marshal([]uint32{1, 2})
		if e != nil {
			return e
		}
		var out []uint32
		return nbt.Unmarshal(b, &out)
	})
	try("SNBT [I;1I] (writer's own form)", func() error {
		var s nbt.StringifiedMessage
		b, _ := nbt.Marshal([]int32{1})
		if e := nbt.Unmarshal(b, &s); e != nil {
			return e
		}
		_, e := nbt.Marshal(s)
		if e != nil {
			return fmt.Errorf("text %q rejected: %v", string(s), e)
		}
		return nil
	})
	try("chat.Message NBT round trip", func() error {
		var buf bytes.Buffer
		m := chat.Text("hi")
		if _, e := m.WriteTo(&buf); e != nil {
			return e
		}
		fmt.Printf("   bytes: % x\n", buf.Bytes())
		var m2 chat.Message
		_, e := m2.ReadFrom(&buf)
		return e
	})
	try("chat hover event encodes", func() error {
		m := chat.Text("hi")
		m.HoverEvent = chat.ShowText(chat.Text("tip"))
		var buf bytes.Buffer
		_, e := m.WriteTo(&buf)
		return e
	})
	try("heightmaps save->level->save", func() error {
		c := &save.Chunk{Heightmaps: map[string][]uint64{"WORLD_SURFACE": make([]uint64, 37), "WORLD_SURFACE_WG": make([]uint64, 37)}}
		c.Heightmaps["WORLD_SURFACE"][0] = 111
		c.Heightmaps["WORLD_SURFACE_WG"][0] = 222
		lc, e := level.ChunkFromSave(c)
		if e != nil {
			return e
		}
		var out save.Chunk
		if e := level.ChunkToSave(lc, &out); e != nil {
			return e
		}
		if out.Heightmaps["WORLD_SURFACE"][0] != 111 {
			return fmt.Errorf("WORLD_SURFACE came back as %d (swapped with WORLD_SURFACE_WG)", out.Heightmaps["WORLD_SURFACE"][0])
		}
		return nil
	})
}
