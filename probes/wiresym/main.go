package main

import (
	"bytes"
	"fmt"

	"github.com/Tnze/go-mc/chat"
	"github.com/Tnze/go-mc/level"
)

func main() {
	tgt := chat.Text("bob")
	t := chat.Type{ID: 1, SenderName: chat.Text("alice"), TargetName: &tgt}
	var buf bytes.Buffer
	_, err := t.WriteTo(&buf)
	fmt.Println("Type.WriteTo err:", err)
	var t2 chat.Type
	_, err = t2.ReadFrom(&buf)
	fmt.Println("Type.ReadFrom (with target) err:", err, "left:", buf.Len())

	c := level.EmptyChunk(4)
	var b2 bytes.Buffer
	n, err := c.WriteTo(&b2)
	fmt.Println("Chunk.WriteTo", n, err)
	c2 := level.EmptyChunk(4)
	m, err := c2.ReadFrom(&b2)
	fmt.Println("Chunk.ReadFrom", m, err, "left:", b2.Len())
}
