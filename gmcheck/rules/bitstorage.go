package rules

import (
	"fmt"
	"go/token"
	"go/types"

	"gmcheck/core"

	"golang.org/x/tools/go/ssa"
)

// bitStorageLayout finds the roles of BitStorage's fields by what the exported
// API does with them, not by their names: the packed longs (the []uint64
// field), the element count (what Len() returns), the value mask (the field
// that is given (1<<bits)-1 somewhere in the package).
type bsLayout struct {
	data, length, mask string
	why                string
}

func (c *Ctx) bitStorageLayout() bsLayout {
	var l bsLayout
	pk := c.P.Pkg("level")
	if pk == nil {
		return bsLayout{why: "package level not found"}
	}
	tn, _ := pk.Types.Scope().Lookup("BitStorage").(*types.TypeName)
	if tn == nil {
		return bsLayout{why: "type level.BitStorage not found"}
	}
	st, _ := tn.Type().Underlying().(*types.Struct)
	if st == nil {
		return bsLayout{why: "level.BitStorage is not a struct"}
	}
	for i := 0; i < st.NumFields(); i++ {
		f := st.Field(i)
		if sl, ok := f.Type().Underlying().(*types.Slice); ok {
			if b, ok := sl.Elem().Underlying().(*types.Basic); ok && b.Kind() == types.Uint64 {
				if l.data != "" {
					return bsLayout{why: "two []uint64 fields: the packed data is ambiguous"}
				}
				l.data = f.Name()
			}
		}
	}
	if ln := c.Fn("level.(*BitStorage).Len"); ln != nil {
		for _, b := range ln.Blocks {
			for _, in := range b.Instrs {
				if r, ok := in.(*ssa.Return); ok && len(r.Results) == 1 {
					if p := rootFieldOfAddr(loadAddr(r.Results[0]), ln.Params[0]); p != "" {
						l.length = p
					}
				}
			}
		}
	}
	isStruct := func(t types.Type) bool {
		n, ok := types.Unalias(deref(t)).(*types.Named)
		return ok && n.Obj() == tn
	}
	for _, fn := range c.Funcs() {
		if !inPkgs(fn, "level") {
			continue
		}
		for _, b := range fn.Blocks {
			for _, in := range b.Instrs {
				s, ok := in.(*ssa.Store)
				if !ok {
					continue
				}
				fa, ok := s.Addr.(*ssa.FieldAddr)
				if !ok || !isStruct(fa.X.Type()) {
					continue
				}
				// (1 << x) - 1, written out or handed back by a straight-line helper of the package
				if isMaskExpr(s.Val, 0) {
					l.mask = st.Field(fa.Field).Name()
				}
			}
		}
	}
	switch {
	case l.data == "":
		l.why = "no []uint64 field in level.BitStorage"
	case l.length == "":
		l.why = "Len() does not return a field of the storage"
	case l.mask == "":
		l.why = "no field of the storage is given (1<<bits)-1"
	}
	return l
}

// helperEffects: what a method does to its receiver, including the methods it
// calls on the same receiver (depth 2): the fields it divides by, whether it
// reads / writes elements of the given slice field.
type bsEffects struct {
	divisors      []string
	reads, writes bool
}

func helperEffects(fn *ssa.Function, dataField string, depth int) bsEffects {
	var e bsEffects
	if len(fn.Params) == 0 || depth > 2 {
		return e
	}
	recv := fn.Params[0]
	for _, b := range fn.Blocks {
		for _, in := range b.Instrs {
			switch x := in.(type) {
			case *ssa.BinOp:
				if x.Op == token.QUO || x.Op == token.REM {
					if p := rootFieldOfAddr(loadAddr(stripConv(x.Y)), recv); p != "" {
						e.divisors = append(e.divisors, p)
					}
				}
			case *ssa.IndexAddr:
				if rootFieldOfAddr(x.X, recv) == dataField {
					e.reads = true
				}
			case *ssa.Store:
				if ia, ok := x.Addr.(*ssa.IndexAddr); ok && rootFieldOfAddr(ia.X, recv) == dataField {
					e.writes = true
				}
			case *ssa.Call:
				sc := x.Common().StaticCallee()
				if sc == nil || len(x.Common().Args) == 0 || x.Common().Args[0] != ssa.Value(recv) || core.Origin(sc) == fn {
					continue
				}
				sub := helperEffects(core.Origin(sc), dataField, depth+1)
				e.divisors = append(e.divisors, sub.divisors...)
				e.reads = e.reads || sub.reads
				e.writes = e.writes || sub.writes
			}
		}
	}
	return e
}

func divisorFields(fn *ssa.Function) []string { return helperEffects(fn, "", 0).divisors }

// BitStorageGuards: C11 - at every access of the packed data in Get/Set/Swap
// the index parameter is proven in [0, length-1] and (for writes) the value in
// [0, mask]; Fix and the constructor refuse a wrong raw length.
func (c *Ctx) BitStorageGuards() []core.Ob {
	var obs []core.Ob
	t := c.TLG()
	lay := c.bitStorageLayout()
	if lay.why != "" {
		return []core.Ob{{Rule: "R-GUARD", Key: "BitStorage:layout", Status: core.Violated, Armed: true,
			Want: "the roles of BitStorage's fields (packed longs, element count, value mask) are recognisable from the exported API", Got: lay.why}}
	}
	for _, m := range []string{"Get", "Set", "Swap"} {
		fn := c.Fn("level.(*BitStorage)." + m)
		if fn == nil {
			obs = append(obs, core.Ob{Rule: "R-GUARD", Key: "BitStorage." + m, Status: core.Violated, Armed: true, Want: "method exists", Got: "not found"})
			continue
		}
		recv := fn.Params[0]
		idxParam := fn.Params[1]
		var valParam *ssa.Parameter
		if len(fn.Params) > 2 {
			valParam = fn.Params[2]
		}
		nAcc, nStore := 0, 0
		io := core.Ob{Rule: "R-GUARD", Key: "BitStorage." + m + ":index-in-range", Pos: c.P.Pos(fn.Pos()), Func: core.FnName(fn), Armed: true, Status: core.OK,
			Want: "at every access of the packed longs the index parameter is proven to satisfy 0 <= i <= length-1 (an out-of-range index has panicked before, modifying nothing)"}
		vo := core.Ob{Rule: "R-GUARD", Key: "BitStorage." + m + ":value-in-range", Pos: c.P.Pos(fn.Pos()), Func: core.FnName(fn), Armed: true, Status: core.OK,
			Want: "at every store into the packed longs the value parameter is proven to satisfy 0 <= v <= mask"}
		zo := core.Ob{Rule: "R-GUARD", Key: "BitStorage." + m + ":zero-width-short-circuit", Pos: c.P.Pos(fn.Pos()), Func: core.FnName(fn), Armed: true, Status: core.OK,
			Want: "with 0 bits per value the method returns before any index arithmetic: every division by a field of the storage (values per long) happens with that field proven non-zero"}
		nDiv := 0
		checkNZ := func(field string, pos token.Pos, locAV func(string) (AV, bool), what string) {
			nDiv++
			av, ok := locAV("p:" + recv.Name() + "." + field)
			if !ok || !av.nonZero() {
				zo.Status, zo.Got, zo.Pos = core.Violated, what+" is reachable with the divisor field "+field+" possibly 0 (division by zero)", c.P.Pos(pos)
			}
		}
		t.Probe(fn, func(in ssa.Instruction, eval func(ssa.Value) AV, locAV func(string) (AV, bool)) {
			checkIndex := func(pos token.Pos, where string) {
				nAcc++
				av := eval(idxParam)
				ok := nonNeg(av.all())
				bounded := false
				for _, u := range av.UB {
					if u.Kind == 'v' && u.Key == "p:"+recv.Name()+"."+lay.length && u.K <= -1 {
						bounded = true
					}
				}
				if !ok || !bounded {
					io.Status, io.Got, io.Pos = core.Violated, where+", i is only known to be "+av.String(), c.P.Pos(pos)
				}
			}
			checkValue := func(pos token.Pos, where string) {
				nStore++
				av := eval(valParam)
				ok := nonNeg(av.all())
				bounded := false
				for _, u := range av.UB {
					if u.Kind == 'v' && u.Key == "p:"+recv.Name()+"."+lay.mask && u.K <= 0 {
						bounded = true
					}
				}
				if !ok || !bounded {
					vo.Status, vo.Got, vo.Pos = core.Violated, where+", v is only known to be "+av.String(), c.P.Pos(pos)
				}
			}
			switch x := in.(type) {
			case *ssa.IndexAddr:
				if rootFieldOfAddr(x.X, recv) != lay.data {
					return
				}
				checkIndex(x.Pos(), "at the access")
			case *ssa.Store:
				ia, isIA := x.Addr.(*ssa.IndexAddr)
				if !isIA || rootFieldOfAddr(ia.X, recv) != lay.data || valParam == nil {
					return
				}
				checkValue(x.Pos(), "at the store")
			case *ssa.BinOp:
				if x.Op == token.QUO || x.Op == token.REM {
					if f := rootFieldOfAddr(loadAddr(stripConv(x.Y)), recv); f != "" {
						checkNZ(f, x.Pos(), locAV, "a division")
					}
				}
			case *ssa.Call:
				// a helper of the package that divides by a field of the same storage
				sc := x.Common().StaticCallee()
				if sc == nil || !inPkgs(sc, "level") || len(x.Common().Args) == 0 {
					return
				}
				if x.Common().Args[0] != ssa.Value(recv) {
					// a plain function that is handed fields of the storage and divides by one of them: cellOf(n, b.perLong, b.bits)
					for _, pi := range paramDivisors(core.Origin(sc), 0) {
						if pi < len(x.Common().Args) {
							if f := rootFieldOfAddr(loadAddr(stripConv(x.Common().Args[pi])), recv); f != "" {
								checkNZ(f, x.Pos(), locAV, "the call of "+sc.Name()+" (which divides by the argument it is given)")
							}
						}
					}
					return
				}
				eff := helperEffects(core.Origin(sc), lay.data, 0)
				for _, f := range eff.divisors {
					checkNZ(f, x.Pos(), locAV, "the call of "+sc.Name()+" (which divides by it)")
				}
				// the packed longs are accessed inside the helper: the index (and the value) must have
				// been validated before it is handed over
				passes := func(p *ssa.Parameter) bool {
					if p == nil {
						return false
					}
					for _, a := range x.Common().Args {
						if stripConv(a) == ssa.Value(p) {
							return true
						}
					}
					return false
				}
				if eff.reads && passes(idxParam) {
					checkIndex(x.Pos(), "at the call of "+sc.Name()+" (which accesses the packed longs)")
				}
				if eff.writes && passes(valParam) {
					checkValue(x.Pos(), "at the call of "+sc.Name()+" (which stores into the packed longs)")
				}
			}
		})
		if nAcc == 0 {
			io.Status, io.Got = core.Violated, "no access of the packed longs found"
		}
		if nDiv == 0 {
			zo.Status, zo.Got = core.Violated, "no division by a field of the storage found in the method or its helpers: the index arithmetic is not recognised"
		}
		obs = append(obs, io, zo)
		if valParam != nil {
			if nStore == 0 {
				vo.Status, vo.Got = core.Violated, "no store into the packed longs found"
			}
			obs = append(obs, vo)
		}
	}
	// Set and Swap are siblings: the same store expression
	obs = append(obs, c.bitStorageLengthChecks()...)
	return obs
}

// bitStorageLengthChecks: NewBitStorage and Fix refuse a raw array whose length
// is not calcBitStorageSize(bits, length).
// nilOnlyBehindLenCheck: every nil return of g (a method of the storage) lies behind the equal edge of
// a comparison of len(<data field of its receiver>) with a computed size.
func (c *Ctx) nilOnlyBehindLenCheck(g *ssa.Function, dataField string) bool {
	if len(g.Blocks) == 0 || len(g.Params) == 0 {
		return false
	}
	isLen := func(v ssa.Value) bool {
		cl, ok := stripConv(v).(*ssa.Call)
		if !ok {
			return false
		}
		bi, ok := cl.Common().Value.(*ssa.Builtin)
		return ok && bi.Name() == "len" && rootFieldOfAddr(loadAddr(cl.Common().Args[0]), g.Params[0]) == dataField
	}
	var eqEdges []*ssa.BasicBlock
	for _, b := range g.Blocks {
		if len(b.Succs) != 2 {
			continue
		}
		iff, ok := b.Instrs[len(b.Instrs)-1].(*ssa.If)
		if !ok {
			continue
		}
		cmp, ok := iff.Cond.(*ssa.BinOp)
		if !ok || (cmp.Op != token.EQL && cmp.Op != token.NEQ) || !(isLen(cmp.X) || isLen(cmp.Y)) {
			continue
		}
		eq := b.Succs[0]
		if cmp.Op == token.NEQ {
			eq = b.Succs[1]
		}
		eqEdges = append(eqEdges, eq)
	}
	if len(eqEdges) == 0 {
		return false
	}
	n := 0
	for _, b := range g.Blocks {
		r, ok := b.Instrs[len(b.Instrs)-1].(*ssa.Return)
		if !ok || len(r.Results) != 1 {
			continue
		}
		type vb struct {
			v ssa.Value
			b *ssa.BasicBlock
		}
		vals := []vb{{r.Results[0], b}}
		if ph, ok := r.Results[0].(*ssa.Phi); ok {
			vals = nil
			for i, e := range ph.Edges {
				vals = append(vals, vb{e, ph.Block().Preds[i]})
			}
		}
		for _, x := range vals {
			if !isNilConst(x.v) {
				continue
			}
			n++
			dom := false
			for _, e := range eqEdges {
				if e == x.b || (len(e.Preds) == 1 && e.Dominates(x.b)) {
					dom = true
				}
			}
			if !dom {
				return false
			}
		}
	}
	return n > 0
}

func (c *Ctx) bitStorageLengthChecks() []core.Ob {
	var obs []core.Ob
	lay := c.bitStorageLayout()
	// Fix: every nil return is either on the bits==0 edge or after the length comparison succeeded
	fx := c.Fn("level.(*BitStorage).Fix")
	o := core.Ob{Rule: "R-ORDER", Key: "BitStorage.Fix:length-checked", Armed: true, Status: core.OK,
		Want: "Fix returns nil only for 0 bits or after comparing len(data) with calcBitStorageSize(bits, length) (a wrong raw length is refused)"}
	if fx == nil {
		o.Status, o.Got = core.Violated, "Fix not found"
		return append(obs, o)
	}
	o.Pos, o.Func = c.P.Pos(fx.Pos()), core.FnName(fx)
	// len(b.data) compared with a call result of calcBitStorageSize
	isLen := func(v ssa.Value) bool {
		cl, ok := stripConv(v).(*ssa.Call)
		if !ok {
			return false
		}
		bi, ok := cl.Common().Value.(*ssa.Builtin)
		return ok && bi.Name() == "len" && rootFieldOfAddr(loadAddr(cl.Common().Args[0]), fx.Params[0]) == lay.data
	}
	// the required size: computed (a call of a function of the package, or arithmetic), not a constant
	isSize := func(v ssa.Value) bool {
		switch x := stripConv(v).(type) {
		case *ssa.Call:
			sc := x.Common().StaticCallee()
			return sc != nil && inPkgs(sc, "level")
		case *ssa.BinOp:
			return true
		}
		return false
	}
	var okBlocks []*ssa.BasicBlock
	for _, b := range fx.Blocks {
		if len(b.Instrs) == 0 {
			continue
		}
		iff, isIf := b.Instrs[len(b.Instrs)-1].(*ssa.If)
		if !isIf {
			continue
		}
		cmp, isCmp := iff.Cond.(*ssa.BinOp)
		if !isCmp || (cmp.Op != token.EQL && cmp.Op != token.NEQ) {
			continue
		}
		if (isLen(cmp.X) && isSize(cmp.Y)) || (isLen(cmp.Y) && isSize(cmp.X)) {
			eq := b.Succs[0]
			if cmp.Op == token.NEQ {
				eq = b.Succs[1]
			}
			okBlocks = append(okBlocks, eq)
			continue
		}
		// err := b.checkLen(bits); if err != nil { return err }: the nil edge of a helper of the package
		// that returns nil only behind its own comparison of len(data) with the required size
		if isNilConst(cmp.Y) || isNilConst(cmp.X) {
			ev := cmp.X
			if isNilConst(ev) {
				ev = cmp.Y
			}
			if hc, ok := ev.(*ssa.Call); ok && isErrorType(hc.Type()) {
				// check(len(b.data), size): nil only when the two numbers are equal
				if sc := hc.Common().StaticCallee(); sc != nil {
					viaArgs := false
					for j, a := range hc.Common().Args {
						if isLen(a) && eqChecker(sc, j) {
							viaArgs = true
						}
					}
					if viaArgs {
						nilEdge := b.Succs[0]
						if cmp.Op == token.NEQ {
							nilEdge = b.Succs[1]
						}
						okBlocks = append(okBlocks, nilEdge)
						continue
					}
				}
				if g := hc.Common().StaticCallee(); g != nil && inPkgs(g, "level") && len(g.Params) > 0 && len(hc.Common().Args) > 0 && hc.Common().Args[0] == ssa.Value(fx.Params[0]) && c.nilOnlyBehindLenCheck(core.Origin(g), lay.data) {
					nilEdge := b.Succs[0]
					if cmp.Op == token.NEQ {
						nilEdge = b.Succs[1]
					}
					okBlocks = append(okBlocks, nilEdge)
					continue
				}
			}
		}
		// bits == 0
		if k, ok := constIntVal(cmp.Y); ok && k == 0 && len(fx.Params) > 1 && cmp.X == ssa.Value(fx.Params[1]) {
			z := b.Succs[0]
			if cmp.Op == token.NEQ {
				z = b.Succs[1]
			}
			okBlocks = append(okBlocks, z)
		}
	}
	nNil := 0
	for _, b := range fx.Blocks {
		for _, in := range b.Instrs {
			r, ok := in.(*ssa.Return)
			if !ok || len(r.Results) != 1 {
				continue
			}
			vals := []struct {
				v ssa.Value
				b *ssa.BasicBlock
			}{{r.Results[0], b}}
			if ph, ok := r.Results[0].(*ssa.Phi); ok {
				vals = vals[:0]
				for i, e := range ph.Edges {
					vals = append(vals, struct {
						v ssa.Value
						b *ssa.BasicBlock
					}{e, ph.Block().Preds[i]})
				}
			}
			for _, vb := range vals {
				// return check(len(b.data), size): nil only when the lengths are equal
				if hc, ok := vb.v.(*ssa.Call); ok {
					if sc := hc.Common().StaticCallee(); sc != nil {
						for j, a := range hc.Common().Args {
							if isLen(a) && eqChecker(sc, j) {
								okBlocks = append(okBlocks, vb.b)
								nNil++
							}
						}
					}
				}
				if !isNilConst(vb.v) {
					continue
				}
				nNil++
				dominated := false
				for _, ob := range okBlocks {
					if ob == vb.b || (len(ob.Preds) == 1 && ob.Dominates(vb.b)) {
						dominated = true
					}
				}
				if !dominated {
					o.Status, o.Got = core.Violated, "a nil return is reachable without the length comparison (and not on the 0-bits path)"
				}
			}
		}
	}
	if nNil == 0 || len(okBlocks) < 2 {
		o.Status, o.Got = core.Violated, fmt.Sprintf("%d nil returns, %d guarding edges recognised", nNil, len(okBlocks))
	}
	obs = append(obs, o)

	// NewBitStorage: the copy of caller data is dominated by the length comparison
	nb := c.Fn("level.NewBitStorage")
	n := core.Ob{Rule: "R-ORDER", Key: "NewBitStorage:length-checked-before-copy", Armed: true, Status: core.OK,
		Want: "NewBitStorage copies caller-supplied longs only after comparing their count with calcBitStorageSize(bits, length)"}
	if nb == nil {
		n.Status, n.Got = core.Violated, "NewBitStorage not found"
		return append(obs, n)
	}
	n.Pos, n.Func = c.P.Pos(nb.Pos()), core.FnName(nb)
	copies := callsIn(nb, func(nm string, _ *ssa.CallCommon) bool { return nm == "builtin.copy" })
	if len(copies) != 1 {
		n.Status, n.Got = core.Violated, fmt.Sprintf("%d copy calls", len(copies))
	} else if !lenGuarded(nb, copies[0].Block(), copies[0].Common().Args[1]) {
		n.Status, n.Got = core.Violated, "the copy is not guarded by a len(data) comparison with a panic/return on mismatch"
	}
	obs = append(obs, n)
	return obs
}

func loadAddr(v ssa.Value) ssa.Value {
	if u, ok := v.(*ssa.UnOp); ok && u.Op == token.MUL {
		return u.X
	}
	return v
}

// isMaskExpr: v is (1 << x) - 1, or the result of a one-block function of the module that returns that.
func isMaskExpr(v ssa.Value, depth int) bool {
	v = stripConv(v)
	if call, ok := v.(*ssa.Call); ok && depth < 2 {
		if g := call.Call.StaticCallee(); g != nil && len(g.Blocks) == 1 && core.FnPkg(g) != nil {
			if ret, ok := g.Blocks[0].Instrs[len(g.Blocks[0].Instrs)-1].(*ssa.Return); ok && len(ret.Results) == 1 {
				return isMaskExpr(ret.Results[0], depth+1)
			}
		}
		return false
	}
	sub, ok := v.(*ssa.BinOp)
	if !ok || sub.Op != token.SUB {
		return false
	}
	if k, ok := constIntVal(sub.Y); !ok || k != 1 {
		return false
	}
	if shl, ok := stripConv(sub.X).(*ssa.BinOp); ok && shl.Op == token.SHL {
		if k, ok := constIntVal(stripConv(shl.X)); ok && k == 1 {
			return true
		}
	}
	return false
}

// paramDivisors: the indices of the parameters of fn that fn (or a function it hands them on to)
// divides by.
func paramDivisors(fn *ssa.Function, depth int) []int {
	var out []int
	if depth > 1 {
		return nil
	}
	idx := func(v ssa.Value) int {
		v = stripConv(v)
		for i, p := range fn.Params {
			if v == ssa.Value(p) {
				return i
			}
		}
		return -1
	}
	for _, b := range fn.Blocks {
		for _, in := range b.Instrs {
			switch x := in.(type) {
			case *ssa.BinOp:
				if x.Op == token.QUO || x.Op == token.REM {
					if i := idx(x.Y); i >= 0 {
						out = append(out, i)
					}
				}
			case *ssa.Call:
				if g := x.Call.StaticCallee(); g != nil && core.Origin(g) != fn && len(g.Blocks) > 0 {
					for _, gi := range paramDivisors(core.Origin(g), depth+1) {
						if gi < len(x.Call.Args) {
							if i := idx(x.Call.Args[gi]); i >= 0 {
								out = append(out, i)
							}
						}
					}
				}
			}
		}
	}
	return out
}
