package rules

import (
	"path/filepath"
	"strings"

	"gmcheck/core"

	"golang.org/x/tools/go/ssa"
)

// PropDef binds a property to the rules that decide its structural clauses.
type PropDef struct {
	Explanation string
	Assumptions []string
	Run         func(c *Ctx) []core.Ob
	Fixtures    []string // fixture rule names to run as controls
}

// Props is filled by init functions in prop_*.go.
var Props = map[string]PropDef{}

// RunFixtures analyses the control package under /verif/fixtures with the
// generic rule engines: every construct named ...Bad must be reported and every
// ...Good must not. A rule whose expected count on go-mc is zero is thereby
// shown to be able to fire on every run.
func RunFixtures(verif string, def PropDef) ([]core.Ob, error) {
	saved := core.ModPath
	core.ModPath = "gmcfix"
	defer func() { core.ModPath = saved }()
	p, err := core.Load(core.LoadOpts{Dir: filepath.Join(verif, "fixtures"), MinPkgs: 1})
	if err != nil {
		return nil, err
	}
	c := NewCtx(p)
	c.Verif = verif
	all := func(*ssa.Function) bool { return true }
	var got []core.Ob
	got = append(got, c.TLGObs(all, all, false)...)
	got = append(got, c.RawRead()...)
	got = append(got, c.Discard()...)
	got = append(got, c.lockPairingEverywhere(nil)...)
	got = append(got, c.Pools("ctl")...)
	got = append(got, c.ErrFlow(all, all)...)
	got = append(got, c.FuncFieldCalls(all, all)...)
	status := map[string][]core.Status{}
	for _, o := range got {
		fn := o.Func
		if fn == "" {
			fn = o.Key
		}
		i := strings.LastIndex(fn, ".")
		name := fn[i+1:]
		status[o.Rule+"|"+name] = append(status[o.Rule+"|"+name], o.Status)
	}
	expect := []struct{ rule, fn string }{
		{"R-TLG", "TLG"}, {"R-TLG", "TLGResize"}, {"R-RAWREAD", "RawRead"}, {"R-DISCARD", "Discard"}, {"R-LOCK", "Pair"},
		{"R-POOL", "Pool"}, {"R-ERRFLOW", "Err"}, {"R-PANIC", "Field"},
	}
	var obs []core.Ob
	for _, e := range expect {
		o := core.Ob{Rule: e.rule, Key: "control:" + e.fn, Armed: true, Status: core.OK, Pos: "fixtures/ctl/ctl.go",
			Want: "positive control " + e.fn + "Bad is reported and negative control " + e.fn + "Good is not (the rule can fire and does not over-fire)"}
		bad, good := status[e.rule+"|"+e.fn+"Bad"], status[e.rule+"|"+e.fn+"Good"]
		anyViol := func(ss []core.Status) bool {
			for _, s := range ss {
				if s == core.Violated {
					return true
				}
			}
			return false
		}
		switch {
		case len(bad) == 0 || !anyViol(bad):
			o.Status, o.Got = core.Violated, "the violating control was NOT reported: the rule engine is broken"
		case len(good) == 0:
			o.Status, o.Got = core.Violated, "the conforming control produced no obligation: the rule does not see the construct"
		case anyViol(good):
			o.Status, o.Got = core.Violated, "the conforming control was reported: the rule over-fires"
		}
		obs = append(obs, o)
	}
	// the second R-ERRFLOW control (nil returned on the error edge)
	o := core.Ob{Rule: "R-ERRFLOW", Key: "control:ErrEdge", Armed: true, Status: core.OK, Pos: "fixtures/ctl/ctl.go", Want: "a nil error returned on the err != nil edge is reported"}
	found := false
	for _, s := range status["R-ERRFLOW|ErrEdgeBad"] {
		if s == core.Violated {
			found = true
		}
	}
	if !found {
		o.Status, o.Got = core.Violated, "not reported"
	}
	obs = append(obs, o)
	return obs, nil
}
