package rules

// T-DISPATCH, T-KIND, T-ENDIAN, R-REFLKIND for the NBT codec (C01, C02, C03, C04, C17).

import (
	"fmt"
	"go/ast"
	"go/constant"
	"go/token"
	"go/types"
	"os"
	"sort"
	"strings"

	"gmcheck/core"

	"golang.org/x/tools/go/packages"
	"golang.org/x/tools/go/ssa"
)

var nbtPath = core.ModPath + "/nbt"

// tagConst: e denotes one of the nbt.Tag* constants; returns its name and value.
func tagConst(info *types.Info, e ast.Expr) (string, int64, bool) {
	e = ast.Unparen(e)
	var obj types.Object
	switch v := e.(type) {
	case *ast.Ident:
		obj = info.Uses[v]
	case *ast.SelectorExpr:
		obj = info.Uses[v.Sel]
	}
	k, ok := obj.(*types.Const)
	if !ok || k.Pkg() == nil || k.Pkg().Path() != nbtPath || !strings.HasPrefix(k.Name(), "Tag") {
		return "", 0, false
	}
	n, ok := constant.Int64Val(k.Val())
	return k.Name(), n, ok
}

type tagSwitch struct {
	fn      string
	pos     token.Pos
	sw      *ast.SwitchStmt
	pkg     *packages.Package
	cases   map[int64]*ast.CaseClause
	names   map[int64]string
	deflt   *ast.CaseClause
	decl    *ast.FuncDecl
	ordinal int
}

// tagSwitches finds every switch statement over NBT tag constants in the given packages.
func (c *Ctx) tagSwitches(pkgs ...string) []*tagSwitch {
	var out []*tagSwitch
	for _, pk := range c.P.Pkgs {
		rel := core.Rel(pk.PkgPath)
		ok := false
		for _, p := range pkgs {
			if rel == p {
				ok = true
			}
		}
		if !ok {
			continue
		}
		for _, f := range pk.Syntax {
			for _, d := range f.Decls {
				fd, isFn := d.(*ast.FuncDecl)
				if !isFn || fd.Body == nil {
					continue
				}
				obj, _ := pk.TypesInfo.Defs[fd.Name].(*types.Func)
				if obj == nil {
					continue
				}
				fd = normDecl(pk, fd)
				ord := 0
				ast.Inspect(fd.Body, func(n ast.Node) bool {
					sw, isSw := n.(*ast.SwitchStmt)
					if !isSw || sw.Tag == nil {
						return true
					}
					ts := &tagSwitch{fn: funcObjName(obj), pos: sw.Pos(), sw: sw, pkg: pk, cases: map[int64]*ast.CaseClause{}, names: map[int64]string{}, decl: fd}
					for _, s := range sw.Body.List {
						cc := s.(*ast.CaseClause)
						if cc.List == nil {
							ts.deflt = cc
							continue
						}
						for _, e := range cc.List {
							if name, v, ok := tagConst(pk.TypesInfo, e); ok {
								ts.cases[v] = cc
								ts.names[v] = name
							}
						}
					}
					if len(ts.cases) >= 2 {
						ord++
						ts.ordinal = ord
						out = append(out, ts)
					}
					return true
				})
			}
		}
	}
	return out
}

// recvTypeName: name of the receiver's named type of a "pkg.(*T).m" function name.
func recvTypeName(fn string) string {
	i := strings.Index(fn, "(")
	j := strings.Index(fn, ")")
	if i < 0 || j < i {
		return ""
	}
	return strings.TrimPrefix(fn[i+1:j], "*")
}

// dispatchOf finds a full tag dispatch by structure, not by function name:
// the receiver's type name and whether its clauses talk about reflect kinds.
func (c *Ctx) dispatchOf(recv string, wantKinds bool) *tagSwitch {
	var best *tagSwitch
	// the dispatch may have moved out of the type's method into a function of the package the
	// method hands its work to
	reachable := map[string]bool{}
	for _, fn := range c.Funcs() {
		if inPkgs(fn, "nbt") && fn.Parent() == nil && recvTypeName(core.FnName(fn)) == recv {
			for _, g := range c.withPkgCallees(fn, 2) {
				reachable[core.FnName(g)] = true
			}
		}
	}
	for pass := 0; pass < 2 && best == nil; pass++ {
		for _, ts := range c.tagSwitches("nbt") {
			if len(ts.cases) < 9 {
				continue
			}
			if pass == 0 && recvTypeName(ts.fn) != recv {
				continue
			}
			if pass == 1 && (!reachable[ts.fn] || recvTypeName(ts.fn) != "") {
				continue
			}
			// (the kinds a dispatcher talks about, in its clauses or in the helpers they call)
			ks := map[string]bool{}
			for _, cc := range ts.cases {
				for k := range c.clauseKinds(ts, cc) {
					ks[k] = true
				}
			}
			if wantKinds != (len(ks) >= 8) {
				continue
			}
			if best == nil || len(ts.cases) > len(best.cases) {
				best = ts
			}
		}
	}
	return best
}

// clauseKinds: the reflect kinds mentioned by a clause of a dispatcher, including
// the helpers of the module the clause hands its work to (decodeByte(val), ...).
func (c *Ctx) clauseKinds(ts *tagSwitch, cc *ast.CaseClause) map[string]bool {
	out := map[string]bool{}
	for _, hb := range c.withHelpers(ts.pkg, cc, ts.decl, 2) {
		for k := range kindsIn(hb.pk.TypesInfo, hb.node) {
			out[k] = true
		}
	}
	return out
}

// encoderDispatch: the encoder's full tag dispatch (whether or not its clauses mention kinds).
func (c *Ctx) encoderDispatch() *tagSwitch {
	if ws := c.dispatchOf("Encoder", false); ws != nil {
		return ws
	}
	return c.dispatchOf("Encoder", true)
}

// clauseFails: the clause ends by returning a freshly built / package-level
// error, or assigns one to the named error result.
func clauseFails(info *types.Info, cc *ast.CaseClause) bool {
	if cc == nil || len(cc.Body) == 0 {
		return false
	}
	w := &wctx{info: info}
	if w.returnsFreshError(cc.Body) {
		return true
	}
	// err = errors.New(...)
	if as, ok := cc.Body[len(cc.Body)-1].(*ast.AssignStmt); ok && len(as.Rhs) == 1 {
		if t := info.TypeOf(as.Lhs[0]); t != nil && types.Identical(t, types.Universe.Lookup("error").Type()) {
			if _, isCall := ast.Unparen(as.Rhs[0]).(*ast.CallExpr); isCall {
				return true
			}
		}
	}
	return false
}

// dispatchParam: the SSA function of a tag dispatcher and the parameter it switches on, if it is one.
func (c *Ctx) dispatchParam(ts *tagSwitch) (*ssa.Function, *ssa.Parameter) {
	id, ok := ast.Unparen(ts.sw.Tag).(*ast.Ident)
	if !ok {
		return nil, nil
	}
	obj, ok := ts.pkg.TypesInfo.Uses[id].(*types.Var)
	if !ok {
		return nil, nil
	}
	fn := c.Fn(ts.fn)
	if fn == nil {
		return nil, nil
	}
	for _, p := range fn.Params {
		if p.Object() == types.Object(obj) {
			return fn, p
		}
	}
	return nil, nil
}

// firstTagCompare: the block of the first comparison of the parameter with a constant.
func firstTagCompare(fn *ssa.Function, p *ssa.Parameter) *ssa.BasicBlock {
	for _, b := range fn.Blocks {
		for _, in := range b.Instrs {
			if bo, ok := in.(*ssa.BinOp); ok && (bo.Op == token.EQL || bo.Op == token.NEQ) {
				if (bo.X == ssa.Value(p) || bo.Y == ssa.Value(p)) && (isConstVal(bo.X) || isConstVal(bo.Y)) {
					// a comparison that decides a branch (not one computed as an argument)
					if refs := bo.Referrers(); refs != nil {
						for _, r := range *refs {
							if _, isIf := r.(*ssa.If); isIf {
								return b
							}
						}
					}
				}
			}
		}
	}
	return nil
}

func isConstVal(v ssa.Value) bool { _, ok := v.(*ssa.Const); return ok }

// followingStmts: the statements after target in the statement list that contains it.
func followingStmts(root ast.Node, target ast.Stmt) []ast.Stmt {
	var out []ast.Stmt
	find := func(list []ast.Stmt) {
		for i, s := range list {
			if s == target {
				out = list[i+1:]
			}
		}
	}
	ast.Inspect(root, func(n ast.Node) bool {
		switch v := n.(type) {
		case *ast.BlockStmt:
			find(v.List)
		case *ast.CaseClause:
			find(v.Body)
		case *ast.CommClause:
			find(v.Body)
		}
		return out == nil
	})
	return out
}

// straightLine: no statement of the list branches or loops.
func straightLine(list []ast.Stmt) bool {
	for _, s := range list {
		switch s.(type) {
		case *ast.AssignStmt, *ast.ExprStmt, *ast.ReturnStmt, *ast.DeclStmt, *ast.IncDecStmt:
		default:
			return false
		}
	}
	return len(list) > 0
}

// TagDispatch implements T-DISPATCH.
func (c *Ctx) TagDispatch(pkgs ...string) []core.Ob {
	var obs []core.Ob
	sws := c.tagSwitches(pkgs...)
	sort.Slice(sws, func(i, j int) bool {
		return sws[i].fn < sws[j].fn || (sws[i].fn == sws[j].fn && sws[i].ordinal < sws[j].ordinal)
	})
	// TagEnd may be a value only for dynbt.Value (root "no value"); every other dispatcher must fail on it
	endAllowed := map[string]string{
		"nbt/dynbt.(*Value).UnmarshalNBT": "dynbt.Value deliberately represents 'no value' as a root TagEnd; non-empty lists of TagEnd are rejected separately",
		"nbt/dynbt.(*Value).MarshalNBT":   "writes back the TagEnd root it decoded",
	}
	for _, ts := range sws {
		key := fmt.Sprintf("%s#switch%d", ts.fn, ts.ordinal)
		full := len(ts.cases) >= 9
		isCodecMethod := strings.HasSuffix(ts.fn, ".UnmarshalNBT") || strings.HasSuffix(ts.fn, ".MarshalNBT")
		if !full && !isCodecMethod {
			// a mapping between tags (e.g. element tag -> array tag), not a dispatch on input
			continue
		}
		// Where the dispatch is on a parameter of the function the three obligations are decided from
		// the flow graph, whatever the spelling (switch, if chain, range guard up front): with the
		// parameter assumed to be a given tag id, every return reached after the first tag comparison
		// must carry a definite error for ids nothing handles, and may succeed for the value tags.
		if fn, param := c.dispatchParam(ts); fn != nil && (full || isCodecMethod) {
			outcome := func(v int64) (reached, allErr bool) {
				entry := firstTagCompare(fn, param)
				allErr = true
				c.TLG().ProbeAssume(fn, param, AV{P: ivOf(v, v)}, func(in ssa.Instruction, _ func(ssa.Value) AV, _ func(string) (AV, bool)) {
					r, ok := in.(*ssa.Return)
					if !ok || entry == nil || !entry.Dominates(r.Block()) || len(r.Results) == 0 {
						return
					}
					last := r.Results[len(r.Results)-1]
					if !isErrorType(last.Type()) {
						return
					}
					reached = true
					if !c.TLG().ProbeErrNonNil(last) {
						allErr = false
						if os.Getenv("GMCHECK_DISPATCH_DEBUG") != "" {
							fmt.Printf("dispatch %s tag=%d: return at %s may be nil (%s)\n", ts.fn, v, c.P.Pos(r.Pos()), last)
						}
					}
				})
				return
			}
			d := core.Ob{Rule: "T-DISPATCH", Key: key + ":unknown-tag-is-error", Pos: c.P.Pos(ts.pos), Func: ts.fn, Armed: true, Status: core.OK,
				Want: "a tag id that no case handles leads to an error (a default clause that fails)"}
			unknown := []int64{13, 100, 255}
			if !full {
				// a codec method that takes a few tags: every other id is unknown to it
				// (the tags any dispatch of this function lists, or compares its parameter with, are its own)
				handled := map[int64]bool{}
				for _, other := range sws {
					if other.fn == ts.fn {
						for v := range other.cases {
							handled[v] = true
						}
					}
				}
				for _, b := range fn.Blocks {
					for _, in := range b.Instrs {
						if bo, ok := in.(*ssa.BinOp); ok && (bo.X == ssa.Value(param) || bo.Y == ssa.Value(param)) {
							if k, ok := constIntVal(bo.X); ok {
								handled[k] = true
							}
							if k, ok := constIntVal(bo.Y); ok {
								handled[k] = true
							}
						}
					}
				}
				// (a table indexed by the tag - a map of widths, an array of kinds - handles ids no
				// comparison names: then only the ids that are no tag at all are known to be unknown)
				tableDriven := false
				for _, b := range fn.Blocks {
					for _, in := range b.Instrs {
						switch x := in.(type) {
						case *ssa.Lookup:
							if stripConv(x.Index) == ssa.Value(param) {
								tableDriven = true
							}
						case *ssa.IndexAddr:
							if stripConv(x.Index) == ssa.Value(param) {
								tableDriven = true
							}
						case *ssa.Index:
							if stripConv(x.Index) == ssa.Value(param) {
								tableDriven = true
							}
						}
					}
				}
				if tableDriven {
					// whether an id is in the table is a fact about data, which the case split cannot see
					d.Armed = false
					d.Got = "the method looks its tag parameter up in a table: which ids it handles is not decided from the flow graph (not judged)"
					obs = append(obs, d)
					continue
				}
				for v := int64(0); v <= 12; v++ {
					if !handled[v] {
						unknown = append(unknown, v)
					}
				}
			}
			for _, v := range unknown {
				if reached, allErr := outcome(v); reached && !allErr {
					d.Status, d.Got = core.Violated, fmt.Sprintf("with tag id %d a return that may carry a nil error is reachable: an unknown tag id is silently accepted", v)
				}
			}
			if !full {
				obs = append(obs, d)
				continue
			}
			cov := core.Ob{Rule: "T-DISPATCH", Key: key + ":covers-all-tags", Pos: c.P.Pos(ts.pos), Func: ts.fn, Armed: true, Status: core.OK,
				Want: "a full tag dispatch handles every value tag TagByte..TagLongArray (1..12)"}
			var missing []string
			for v := int64(1); v <= 12; v++ {
				if reached, allErr := outcome(v); !reached || allErr {
					missing = append(missing, fmt.Sprint(v))
				}
			}
			if len(missing) > 0 {
				cov.Status, cov.Got = core.Violated, "tags that can only fail: "+strings.Join(missing, ",")
			}
			e := core.Ob{Rule: "T-DISPATCH", Key: key + ":TagEnd-is-error", Pos: c.P.Pos(ts.pos), Func: ts.fn, Armed: true, Status: core.OK,
				Want: "TagEnd where a value is expected is an error (explicit failing case, or left to the failing default)"}
			if why, allowed := endAllowed[ts.fn]; allowed {
				e.Status, e.Reason, e.Got = core.Allowed, why, why
			} else if reached, allErr := outcome(0); reached && !allErr {
				e.Status, e.Got = core.Violated, "TagEnd is handled as a value"
			}
			obs = append(obs, d, cov, e)
			continue
		}
		// (1) unknown tag ids are errors
		d := core.Ob{Rule: "T-DISPATCH", Key: key + ":unknown-tag-is-error", Pos: c.P.Pos(ts.pos), Func: ts.fn, Armed: true, Status: core.OK,
			Want: "a tag id that no case handles leads to an error (a default clause that fails)"}
		if ts.deflt == nil {
			if after := followingStmts(ts.decl.Body, ts.sw); full && straightLine(after) && (&wctx{info: ts.pkg.TypesInfo}).returnsFreshError(after) {
				d.Got = "no default clause; the statement after the switch fails with an error (implicit default)"
			} else if full {
				d.Status, d.Got = core.Violated, "no default clause: an unknown tag id is silently accepted"
			} else {
				d.Got = "partial dispatch without default (falls through to shared handling)"
			}
		} else if !clauseFails(ts.pkg.TypesInfo, ts.deflt) {
			d.Status, d.Got = core.Violated, "the default clause does not fail with an error"
		}
		obs = append(obs, d)
		if !full {
			continue
		}
		// (2) all 12 value tags covered
		cov := core.Ob{Rule: "T-DISPATCH", Key: key + ":covers-all-tags", Pos: c.P.Pos(ts.pos), Func: ts.fn, Armed: true, Status: core.OK,
			Want: "a full tag dispatch handles every value tag TagByte..TagLongArray (1..12)"}
		var missing []string
		for v := int64(1); v <= 12; v++ {
			if _, ok := ts.cases[v]; !ok {
				missing = append(missing, fmt.Sprint(v))
			}
		}
		if len(missing) > 0 {
			cov.Status, cov.Got = core.Violated, "tags not handled: "+strings.Join(missing, ",")
		}
		obs = append(obs, cov)
		// (3) TagEnd where a value is expected is an error
		e := core.Ob{Rule: "T-DISPATCH", Key: key + ":TagEnd-is-error", Pos: c.P.Pos(ts.pos), Func: ts.fn, Armed: true, Status: core.OK,
			Want: "TagEnd where a value is expected is an error (explicit failing case, or left to the failing default)"}
		if cc, ok := ts.cases[0]; ok {
			if why, allowed := endAllowed[ts.fn]; allowed {
				e.Status, e.Reason, e.Got = core.Allowed, why, why
			} else if !clauseFails(ts.pkg.TypesInfo, cc) || len(cc.List) != 1 {
				e.Status, e.Got = core.Violated, "TagEnd is handled as a value"
			}
		}
		obs = append(obs, e)
	}
	if len(sws) < 2*len(pkgs) {
		obs = append(obs, core.Ob{Rule: "T-DISPATCH", Key: "switch-count", Status: core.Violated, Armed: true,
			Want: fmt.Sprintf("the confirmed tag dispatchers are found (>= %d in %s)", 2*len(pkgs), strings.Join(pkgs, ",")), Got: fmt.Sprintf("%d found", len(sws))})
	}
	return obs
}

// ------------------------------------------------------------------- T-KIND

// boundKindParams: while a helper body is walked for one particular call, its reflect.Kind-typed
// parameters that the call gives a constant (integerBits(val, reflect.Uint32)) read as that constant.
var boundKindParams = map[types.Object]string{}

func reflectKindName(info *types.Info, e ast.Expr) (string, bool) {
	e = ast.Unparen(e)
	if id, isId := e.(*ast.Ident); isId {
		if k, ok := boundKindParams[info.Uses[id]]; ok {
			return k, true
		}
	}
	sel, ok := e.(*ast.SelectorExpr)
	if !ok {
		return "", false
	}
	k, ok := info.Uses[sel.Sel].(*types.Const)
	if !ok || k.Pkg() == nil || k.Pkg().Path() != "reflect" {
		return "", false
	}
	if n, ok := k.Type().(*types.Named); !ok || n.Obj().Name() != "Kind" {
		return "", false
	}
	name := k.Name()
	if name == "Ptr" {
		name = "Pointer"
	}
	return name, true
}

// kindsIn: all reflect.Kind constants mentioned in the node.
func kindsIn(info *types.Info, n ast.Node) map[string]bool {
	out := map[string]bool{}
	ast.Inspect(n, func(x ast.Node) bool {
		if e, ok := x.(ast.Expr); ok {
			if k, ok := reflectKindName(info, e); ok {
				out[k] = true
			}
		}
		return true
	})
	return out
}

// encoderKindTable: kind -> tag from the Kind switch of getTagTypeByType.
func (c *Ctx) encoderKindTable() (map[string]int64, map[int64]string, token.Pos, string) {
	// the kind->tag table: the function of package nbt with a switch whose clauses list
	// reflect.Kind constants and return tag constants (found by structure)
	pk := c.P.Pkg("nbt")
	if pk == nil {
		return nil, nil, token.NoPos, "package nbt not found"
	}
	var fd *ast.FuncDecl
	bestN := 0
	for _, f := range pk.Syntax {
		for _, d := range f.Decls {
			cand, ok := d.(*ast.FuncDecl)
			if !ok || cand.Body == nil {
				continue
			}
			cand = normDecl(pk, cand)
			n := 0
			ast.Inspect(cand.Body, func(x ast.Node) bool {
				cc, ok := x.(*ast.CaseClause)
				if !ok || cc.List == nil || len(cc.Body) != 1 {
					return true
				}
				ret, ok := cc.Body[0].(*ast.ReturnStmt)
				if !ok || len(ret.Results) != 1 {
					return true
				}
				if _, _, isTag := tagConst(pk.TypesInfo, ret.Results[0]); !isTag {
					return true
				}
				for _, e := range cc.List {
					if _, isKind := reflectKindName(pk.TypesInfo, e); isKind {
						n++
					}
				}
				return true
			})
			if n > bestN {
				bestN, fd = n, cand
			}
		}
	}
	if fd == nil || bestN < 10 {
		// the table as data: a package-level map or array literal from reflect kinds to tag constants
		table := map[string]int64{}
		names := map[int64]string{}
		var pos token.Pos
		for _, f := range pk.Syntax {
			for _, d := range f.Decls {
				gd, ok := d.(*ast.GenDecl)
				if !ok || gd.Tok != token.VAR {
					continue
				}
				for _, sp := range gd.Specs {
					vs, ok := sp.(*ast.ValueSpec)
					if !ok {
						continue
					}
					for _, v := range vs.Values {
						cl, ok := ast.Unparen(v).(*ast.CompositeLit)
						if !ok {
							continue
						}
						t := map[string]int64{}
						for _, el := range cl.Elts {
							kv, ok := el.(*ast.KeyValueExpr)
							if !ok {
								continue
							}
							k, isKind := reflectKindName(pk.TypesInfo, kv.Key)
							name, tv, isTag := tagConst(pk.TypesInfo, kv.Value)
							if isKind && isTag {
								if tv != 0 { // TagEnd marks "cannot be encoded"
									t[k] = tv
									names[tv] = name
								}
							}
						}
						if len(t) > len(table) {
							table, pos = t, cl.Pos()
						}
					}
				}
			}
		}
		if len(table) >= 10 {
			return table, names, pos, ""
		}
	}
	if fd == nil {
		return nil, nil, token.NoPos, "no kind->tag table (switch or literal) found in package nbt"
	}
	table := map[string]int64{}
	names := map[int64]string{}
	ast.Inspect(fd.Body, func(n ast.Node) bool {
		sw, ok := n.(*ast.SwitchStmt)
		if !ok {
			return true
		}
		for _, s := range sw.Body.List {
			cc := s.(*ast.CaseClause)
			if cc.List == nil || len(cc.Body) == 0 {
				continue
			}
			ret, ok := cc.Body[len(cc.Body)-1].(*ast.ReturnStmt)
			if !ok || len(ret.Results) != 1 {
				continue
			}
			name, tv, ok := tagConst(pk.TypesInfo, ret.Results[0])
			if !ok {
				continue
			}
			names[tv] = name
			for _, e := range cc.List {
				if k, ok := reflectKindName(pk.TypesInfo, e); ok {
					table[k] = tv
				}
			}
		}
		return false
	})
	if len(table) < 10 {
		return nil, nil, fd.Pos(), fmt.Sprintf("only %d kind->tag entries extracted", len(table))
	}
	return table, names, fd.Pos(), ""
}

// KindTables implements T-KIND: every kind the encoder maps to a tag is
// accepted back by the decoder's case for that tag.
func (c *Ctx) KindTables() []core.Ob {
	var obs []core.Ob
	enc, tagNames, pos, why := c.encoderKindTable()
	if why != "" {
		return []core.Ob{{Rule: "T-KIND", Key: "encoder-table", Status: core.Violated, Armed: true, Want: "the encoder's kind->tag table is extractable", Got: why}}
	}
	// documented mapping (DESIGN / property C01): as a table
	doc := map[string]string{"Bool": "TagByte", "Int8": "TagByte", "Uint8": "TagByte", "Int16": "TagShort", "Uint16": "TagShort", "Int32": "TagInt", "Uint32": "TagInt",
		"Float32": "TagFloat", "Int64": "TagLong", "Uint64": "TagLong", "Float64": "TagDouble", "String": "TagString", "Struct": "TagCompound", "Map": "TagCompound"}
	d := core.Ob{Rule: "T-KIND", Key: "encoder-table:documented-mapping", Pos: c.P.Pos(pos), Armed: true, Status: core.OK,
		Want: "the encoder's kind->tag table is the documented one (bool/int8/uint8->Byte, 16-bit->Short, 32-bit->Int, 64-bit->Long, float32->Float, float64->Double, string->String, struct/map->Compound)"}
	var diffs []string
	for k, t := range doc {
		if tv, ok := enc[k]; !ok || tagNames[tv] != t {
			diffs = append(diffs, fmt.Sprintf("%s->%s (want %s)", k, tagNames[enc[k]], t))
		}
	}
	for k, tv := range enc {
		if _, ok := doc[k]; !ok {
			diffs = append(diffs, fmt.Sprintf("extra %s->%s", k, tagNames[tv]))
		}
	}
	sort.Strings(diffs)
	if len(diffs) > 0 {
		d.Status, d.Got = core.Violated, strings.Join(diffs, "; ")
	}
	obs = append(obs, d)

	// decoder side: kinds mentioned in each tag case of (*Decoder).unmarshal
	dec := c.dispatchOf("Decoder", true)
	if dec == nil {
		return append(obs, core.Ob{Rule: "T-KIND", Key: "decoder-dispatch", Status: core.Violated, Armed: true, Want: "the decoder's tag dispatch is found", Got: "not found"})
	}
	accepted := map[int64]map[string]bool{}
	for tv, cc := range dec.cases {
		accepted[tv] = c.clauseKinds(dec, cc)
	}
	var kinds []string
	for k := range enc {
		kinds = append(kinds, k)
	}
	sort.Strings(kinds)
	for _, k := range kinds {
		tv := enc[k]
		o := core.Ob{Rule: "T-KIND", Key: "scalar:" + k + "->" + tagNames[tv], Pos: c.P.Pos(dec.cases[tv].Pos()), Func: dec.fn, Armed: true, Status: core.OK,
			Want: "the decoder's case for " + tagNames[tv] + " accepts kind " + k + ", which the encoder maps to that tag (no asymmetric failure by kind)"}
		if !accepted[tv][k] {
			o.Status, o.Got = core.Violated, "a "+k+" value encodes as "+tagNames[tv]+" but cannot be decoded back into a "+k
		}
		obs = append(obs, o)
	}
	// typed arrays: element kinds
	for _, ar := range []struct {
		elemTag  string
		arrayTag int64
		name     string
	}{{"TagByte", 7, "TagByteArray"}, {"TagInt", 11, "TagIntArray"}, {"TagLong", 12, "TagLongArray"}} {
		for _, k := range kinds {
			if tagNames[enc[k]] != ar.elemTag {
				continue
			}
			cc := dec.cases[ar.arrayTag]
			o := core.Ob{Rule: "T-KIND", Key: "array-elem:" + k + "->" + ar.name, Func: dec.fn, Armed: true, Status: core.OK,
				Want: "the decoder's case for " + ar.name + " accepts slices whose element kind is " + k + " (the encoder turns such slices into " + ar.name + ")"}
			if cc == nil {
				o.Status, o.Got = core.Violated, "no case for "+ar.name
			} else {
				o.Pos = c.P.Pos(cc.Pos())
				if !accepted[ar.arrayTag][k] && !(k == "Uint8" && ar.arrayTag == 7) {
					o.Status, o.Got = core.Violated, "[]"+strings.ToLower(k)+" encodes as "+ar.name+" but the decoder's case never admits element kind "+k
				}
			}
			obs = append(obs, o)
		}
		// ... and both containers: the encoder's kind table sends fixed-size arrays and slices of these
		// element kinds the same way ([4]int8 -> TagByteArray), so the case reads into either
		for _, cont := range []string{"Slice", "Array"} {
			cc := dec.cases[ar.arrayTag]
			if cc == nil {
				continue
			}
			o := core.Ob{Rule: "T-KIND", Key: "array-container:" + cont + "->" + ar.name, Pos: c.P.Pos(cc.Pos()), Func: dec.fn, Armed: true, Status: core.OK,
				Want: "the decoder's case for " + ar.name + " has a branch for reflect." + cont + " targets (the encoder writes both slices and fixed-size arrays as " + ar.name + ")"}
			if !accepted[ar.arrayTag][cont] {
				o.Status, o.Got = core.Violated, "a fixed-size array of these elements encodes as "+ar.name+" but the decoder's case never mentions reflect."+cont+": the value cannot be read back"
			}
			obs = append(obs, o)
		}
	}
	return obs
}

// ---------------------------------------------------------------- R-REFLKIND

var accessorKinds = map[string][]string{
	"Int":           {"Int", "Int8", "Int16", "Int32", "Int64"},
	"Uint":          {"Uint", "Uint8", "Uint16", "Uint32", "Uint64", "Uintptr"},
	"Float":         {"Float32", "Float64"},
	"Bool":          {"Bool"},
	"Len":           {"Array", "Chan", "Map", "Slice", "String"},
	"Index":         {"Array", "Slice", "String"},
	"Bytes":         {"Slice"}, // arrays only when addressable: a value passed to Marshal is not
	"UnsafePointer": {"Chan", "Func", "Map", "Pointer", "Slice", "UnsafePointer"},
	"MapRange":      {"Map"},
	"IsNil":         {"Chan", "Func", "Interface", "Map", "Pointer", "Slice", "UnsafePointer"},
	"NumField":      {"Struct"},
	"Field":         {"Struct"},
}

func setOf(xs ...string) map[string]bool {
	m := map[string]bool{}
	for _, x := range xs {
		m[x] = true
	}
	return m
}

// ReflKind implements R-REFLKIND for the encoder's writeValue: every
// kind-restricted reflect accessor on the encoded value is valid for every
// kind the tag table routes to that tag case.
func (c *Ctx) ReflKind() []core.Ob {
	var obs []core.Ob
	enc, tagNames, _, why := c.encoderKindTable()
	if why != "" {
		return []core.Ob{{Rule: "R-REFLKIND", Key: "encoder-table", Status: core.Violated, Armed: true, Got: why}}
	}
	ws := c.encoderDispatch()
	if ws == nil {
		return []core.Ob{{Rule: "R-REFLKIND", Key: "writeValue-dispatch", Status: core.Violated, Armed: true, Want: "the encoder's tag dispatch is found", Got: "not found"}}
	}
	info := ws.pkg.TypesInfo
	// the encoded value: the reflect.Value parameter of writeValue
	var valObj types.Object
	for _, f := range ws.decl.Type.Params.List {
		if t := info.TypeOf(f.Type); t != nil && t.String() == "reflect.Value" && len(f.Names) > 0 {
			valObj = info.Defs[f.Names[0]]
		}
	}
	if valObj == nil {
		return []core.Ob{{Rule: "R-REFLKIND", Key: "writeValue-param", Status: core.Violated, Armed: true, Got: "no reflect.Value parameter"}}
	}
	// kinds reaching each clause
	seenClause := map[*ast.CaseClause]bool{}
	var tvs []int64
	for tv := range ws.cases {
		tvs = append(tvs, tv)
	}
	sort.Slice(tvs, func(i, j int) bool { return tvs[i] < tvs[j] })
	n := 0
	for _, tv := range tvs {
		cc := ws.cases[tv]
		if seenClause[cc] {
			continue
		}
		seenClause[cc] = true
		reach := map[string]bool{}
		for _, e := range cc.List {
			if _, v, ok := tagConst(info, e); ok {
				switch v {
				case 7, 11, 12, 9: // arrays and lists: containers
					reach["Slice"], reach["Array"] = true, true
				case 10:
					reach["Struct"], reach["Map"], reach["Interface"] = true, true, true
				default:
					for k, t := range enc {
						if t == v {
							reach[k] = true
						}
					}
				}
			}
		}
		var tags []string
		for _, e := range cc.List {
			if nm, _, ok := tagConst(info, e); ok {
				tags = append(tags, nm)
			}
		}
		visiting := map[*ast.FuncDecl]bool{}
		var walk func(info *types.Info, valObj types.Object, n ast.Node, kinds map[string]bool)
		scopeOf := map[types.Object]ast.Node{valObj: ws.decl.Body}
		walk = func(info *types.Info, valObj types.Object, node ast.Node, kinds map[string]bool) {
			// variables holding val.Kind(), declared anywhere in the function (kind := val.Kind() before the dispatch)
			scope := scopeOf[valObj]
			if scope == nil {
				scope = node
			}
			aliases := kindAliases(info, scope, valObj)
			ast.Inspect(node, func(x ast.Node) bool {
				switch v := x.(type) {
				case *ast.BlockStmt:
					// a guard that leaves the function narrows what follows it in the block:
					// if val.Kind() == k { return ... }; rest
					cur := kinds
					narrowed := false
					for _, st := range v.List {
						if ifs, ok := st.(*ast.IfStmt); ok && ifs.Else == nil && terminates(ifs.Body.List) {
							bd := boolDefs(info, scope)
							if _, elseF, any := kindCond(info, ifs.Cond, valObj, aliases, bd, 0); any {
								walk(info, valObj, st, cur)
								cur = elseF(cur)
								narrowed = true
								continue
							}
						}
						if narrowed {
							walk(info, valObj, st, cur)
						}
					}
					if narrowed {
						// the statements before the first guard were not walked above
						for _, st := range v.List {
							if ifs, ok := st.(*ast.IfStmt); ok && ifs.Else == nil && terminates(ifs.Body.List) {
								bd := boolDefs(info, scope)
								if _, _, any := kindCond(info, ifs.Cond, valObj, aliases, bd, 0); any {
									break
								}
							}
							walk(info, valObj, st, kinds)
						}
						return false
					}
				case *ast.SwitchStmt:
					// switch val.Kind() { ... } refines
					if id, isId := ast.Unparen(v.Tag).(*ast.Ident); v.Tag != nil && (switchesOnKindOf(info, v, valObj) || (isId && aliases[info.Uses[id]])) {
						if v.Init != nil {
							walk(info, valObj, v.Init, kinds)
						}
						listed := map[string]bool{}
						for _, s := range v.Body.List {
							for _, e := range s.(*ast.CaseClause).List {
								if k, ok := reflectKindName(info, e); ok {
									listed[k] = true
								}
							}
						}
						for _, s := range v.Body.List {
							c2 := s.(*ast.CaseClause)
							sub := map[string]bool{}
							if c2.List == nil {
								// default: the reaching kinds no other clause takes
								for k := range kinds {
									if !listed[k] {
										sub[k] = true
									}
								}
							}
							for _, e := range c2.List {
								if k, ok := reflectKindName(info, e); ok && kinds[k] {
									sub[k] = true
								}
							}
							for _, b := range c2.Body {
								walk(info, valObj, b, sub)
							}
						}
						return false
					}
				case *ast.IfStmt:
					// a condition that (also) tests the kind of the value: if elemKind == reflect.Uint8 && isSlice { val.Bytes() }
					bd := boolDefs(info, scope)
					thenF, elseF, any := kindCond(info, v.Cond, valObj, aliases, bd, 0)
					if !any {
						return true
					}
					if v.Init != nil {
						walk(info, valObj, v.Init, kinds)
					}
					walk(info, valObj, v.Cond, kinds)
					walk(info, valObj, v.Body, thenF(kinds))
					if v.Else != nil {
						walk(info, valObj, v.Else, elseF(kinds))
					}
					return false
				case *ast.ForStmt:
					// for val.Kind() == reflect.Interface { val = val.Elem() }: unwraps; afterwards the table kinds apply
					if v.Cond != nil && isKindOf(info, v.Cond, valObj) {
						return false
					}
				case *ast.CallExpr:
					// the value handed on to a helper of the module: the helper's body runs under the same kinds
					if fo := calleeObj(info, v); fo != nil && fo.Pkg() != nil && strings.HasPrefix(fo.Pkg().Path(), core.ModPath) {
						for ai, arg := range v.Args {
							id, ok := ast.Unparen(arg).(*ast.Ident)
							if !ok || info.Uses[id] != valObj {
								continue
							}
							hd, hpk := c.declOfObj(fo)
							if hd == nil || visiting[hd] || hd == ws.decl {
								continue
							}
							sig := fo.Type().(*types.Signature)
							if ai >= sig.Params().Len() || sig.Variadic() {
								continue
							}
							hn := normDecl(hpk, hd)
							// the parameter object: by position in the syntax
							var pobj types.Object
							idx := 0
							for _, f := range hn.Type.Params.List {
								for _, nm := range f.Names {
									if idx == ai {
										pobj = hpk.TypesInfo.Defs[nm]
									}
									idx++
								}
							}
							if pobj == nil {
								continue
							}
							// kind constants handed to the helper's other parameters
							var bound []types.Object
							pidx := 0
							for _, f := range hn.Type.Params.List {
								for _, nm := range f.Names {
									if pidx < len(v.Args) && pidx != ai {
										if kn, isKind := reflectKindName(info, v.Args[pidx]); isKind {
											if po := hpk.TypesInfo.Defs[nm]; po != nil {
												boundKindParams[po] = kn
												bound = append(bound, po)
											}
										}
									}
									pidx++
								}
							}
							visiting[hd] = true
							scopeOf[pobj] = hn.Body
							walk(hpk.TypesInfo, pobj, hn.Body, kinds)
							visiting[hd] = false
							for _, po := range bound {
								delete(boundKindParams, po)
							}
						}
					}
					sel, ok := v.Fun.(*ast.SelectorExpr)
					if !ok {
						return true
					}
					id, ok := ast.Unparen(sel.X).(*ast.Ident)
					if !ok || info.Uses[id] != valObj {
						return true
					}
					valid, restricted := accessorKinds[sel.Sel.Name]
					if !restricted {
						return true
					}
					n++
					vs := setOf(valid...)
					var bad []string
					for k := range kinds {
						if !vs[k] {
							bad = append(bad, k)
						}
					}
					sort.Strings(bad)
					o := core.Ob{Rule: "R-REFLKIND", Key: fmt.Sprintf("writeValue:%s:val.%s#%d", strings.Join(tags, "+"), sel.Sel.Name, n), Pos: c.P.Pos(v.Pos()), Func: ws.fn, Armed: true, Status: core.OK,
						Want: "reflect.Value." + sel.Sel.Name + " is valid for every kind the encoder's table routes into this case"}
					if len(bad) > 0 {
						o.Status = core.Violated
						o.Got = "kinds " + strings.Join(bad, ",") + " reach val." + sel.Sel.Name + "() and make it panic"
					}
					obs = append(obs, o)
				}
				return true
			})
		}
		for _, b := range cc.Body {
			walk(info, valObj, b, reach)
		}
	}
	_ = tagNames
	if n < 8 {
		obs = append(obs, core.Ob{Rule: "R-REFLKIND", Key: "accessor-count", Status: core.Violated, Armed: true, Want: ">= 8 kind-restricted accessor calls found in writeValue", Got: fmt.Sprint(n)})
	}
	return obs
}

// kindCond reads a condition as a test of the kind of obj where it is one:
// thenF / elseF narrow the set of kinds for the two branches; any reports
// whether some part of the condition tests the kind at all. Parts that test
// something else narrow nothing (sound: the sets only shrink where a kind test
// must hold).
func kindCond(info *types.Info, e ast.Expr, obj types.Object, aliases map[types.Object]bool, bdefs map[types.Object]ast.Expr, depth int) (thenF, elseF func(map[string]bool) map[string]bool, any bool) {
	id := func(k map[string]bool) map[string]bool { return k }
	if depth > 6 {
		return id, id, false
	}
	only := func(set map[string]bool) func(map[string]bool) map[string]bool {
		return func(k map[string]bool) map[string]bool {
			out := map[string]bool{}
			for x := range k {
				if set[x] {
					out[x] = true
				}
			}
			return out
		}
	}
	without := func(set map[string]bool) func(map[string]bool) map[string]bool {
		return func(k map[string]bool) map[string]bool {
			out := map[string]bool{}
			for x := range k {
				if !set[x] {
					out[x] = true
				}
			}
			return out
		}
	}
	isKindExpr := func(x ast.Expr) bool {
		x = ast.Unparen(x)
		if i, ok := x.(*ast.Ident); ok {
			return aliases[info.Uses[i]]
		}
		if call, ok := x.(*ast.CallExpr); ok {
			if sel, ok := call.Fun.(*ast.SelectorExpr); ok && sel.Sel.Name == "Kind" {
				if i, ok := ast.Unparen(sel.X).(*ast.Ident); ok && info.Uses[i] == obj {
					return true
				}
			}
		}
		return false
	}
	switch v := ast.Unparen(e).(type) {
	case *ast.Ident:
		if def, ok := bdefs[info.Uses[v]]; ok {
			return kindCond(info, def, obj, aliases, bdefs, depth+1)
		}
	case *ast.UnaryExpr:
		if v.Op == token.NOT {
			t, f, a := kindCond(info, v.X, obj, aliases, bdefs, depth+1)
			return f, t, a
		}
	case *ast.BinaryExpr:
		switch v.Op {
		case token.EQL, token.NEQ:
			l, r := v.X, v.Y
			if _, isK := reflectKindName(info, l); isK {
				l, r = r, l
			}
			k, isK := reflectKindName(info, r)
			if !isK || !isKindExpr(l) {
				return id, id, false
			}
			set := map[string]bool{k: true}
			if v.Op == token.EQL {
				return only(set), without(set), true
			}
			return without(set), only(set), true
		case token.LAND:
			t1, f1, a1 := kindCond(info, v.X, obj, aliases, bdefs, depth+1)
			t2, f2, a2 := kindCond(info, v.Y, obj, aliases, bdefs, depth+1)
			_, _ = f1, f2
			// both hold in the then-branch; the else-branch knows only that one of them fails
			return func(k map[string]bool) map[string]bool { return t2(t1(k)) }, id, a1 || a2
		case token.LOR:
			t1, f1, a1 := kindCond(info, v.X, obj, aliases, bdefs, depth+1)
			t2, f2, a2 := kindCond(info, v.Y, obj, aliases, bdefs, depth+1)
			// both fail in the else-branch; the then-branch is the union of what each allows
			return func(k map[string]bool) map[string]bool {
				out := map[string]bool{}
				for x := range t1(k) {
					out[x] = true
				}
				for x := range t2(k) {
					out[x] = true
				}
				return out
			}, func(k map[string]bool) map[string]bool { return f2(f1(k)) }, a1 || a2
		}
	}
	return id, id, false
}

// kindAliases: variables defined once as obj.Kind() and never reassigned.
func kindAliases(info *types.Info, node ast.Node, obj types.Object) map[types.Object]bool {
	out := map[types.Object]bool{}
	reassigned := map[types.Object]bool{}
	ast.Inspect(node, func(n ast.Node) bool {
		as, ok := n.(*ast.AssignStmt)
		if !ok {
			return true
		}
		for i, l := range as.Lhs {
			id, ok := l.(*ast.Ident)
			if !ok {
				continue
			}
			if as.Tok == token.DEFINE && len(as.Lhs) == len(as.Rhs) && info.Defs[id] != nil {
				if call, ok := ast.Unparen(as.Rhs[i]).(*ast.CallExpr); ok && isKindOf(info, call, obj) {
					if sel, ok := call.Fun.(*ast.SelectorExpr); ok && sel.Sel.Name == "Kind" {
						out[info.Defs[id]] = true
					}
				}
			} else if o := info.Uses[id]; o != nil {
				reassigned[o] = true
			}
		}
		return true
	})
	for o := range reassigned {
		delete(out, o)
	}
	// obj itself reassigned (val = val.Elem()) invalidates aliases taken before; the
	// unwrap loop is the only such idiom and precedes the dispatch
	return out
}

// switchesOnKindOf: the switch's tag is obj.Kind(), directly or through a
// variable the switch's init statement binds to it.
func switchesOnKindOf(info *types.Info, sw *ast.SwitchStmt, obj types.Object) bool {
	if isKindOf(info, sw.Tag, obj) {
		return true
	}
	id, ok := ast.Unparen(sw.Tag).(*ast.Ident)
	if !ok {
		return false
	}
	if as, ok := sw.Init.(*ast.AssignStmt); ok && len(as.Lhs) == 1 && len(as.Rhs) == 1 {
		if l, ok := as.Lhs[0].(*ast.Ident); ok && info.ObjectOf(l) == info.ObjectOf(id) {
			return isKindOf(info, as.Rhs[0], obj)
		}
	}
	return false
}

// isKindOf: e mentions obj.Kind() (possibly obj.Type().Elem().Kind() is NOT a kind of obj itself).
func isKindOf(info *types.Info, e ast.Expr, obj types.Object) bool {
	found := false
	ast.Inspect(e, func(n ast.Node) bool {
		call, ok := n.(*ast.CallExpr)
		if !ok {
			return true
		}
		sel, ok := call.Fun.(*ast.SelectorExpr)
		if !ok || sel.Sel.Name != "Kind" {
			return true
		}
		if id, ok := ast.Unparen(sel.X).(*ast.Ident); ok && info.Uses[id] == obj {
			found = true
		}
		return true
	})
	return found
}

// -------------------------------------------------------------------- T-ENDIAN

// shiftPairs: for a value built as OR of (conv(data[i]) << s) returns {i: s}.
func shiftPairsRead(v ssa.Value, out map[int64]int64) bool {
	v = stripConv(v)
	switch x := v.(type) {
	case *ssa.BinOp:
		switch x.Op {
		case token.OR, token.ADD:
			return shiftPairsRead(x.X, out) && shiftPairsRead(x.Y, out)
		case token.SHL:
			s, ok := constIntVal(x.Y)
			if !ok {
				return false
			}
			i, ok := loadIndex(x.X)
			if !ok {
				return false
			}
			out[i] = s
			return true
		}
	case *ssa.UnOp:
		if i, ok := loadIndex(x); ok {
			out[i] = 0
			return true
		}
	}
	return false
}

func loadIndex(v ssa.Value) (int64, bool) {
	v = stripConv(v)
	u, ok := v.(*ssa.UnOp)
	if !ok || u.Op != token.MUL {
		return 0, false
	}
	ia, ok := u.X.(*ssa.IndexAddr)
	if !ok {
		return 0, false
	}
	return constIntVal(ia.Index)
}

// Endian implements T-ENDIAN for packages nbt and nbt/dynbt, by what the code
// does rather than by the names of the fixed-width helpers: every use of an
// encoding/binary byte order is the big-endian one, every integer assembled
// from constant-indexed bytes of a buffer shifts byte k by 8*(n-1-k), and every
// integer spread over constant-indexed bytes stores n >> 8*(n-1-k) into byte k.
func (c *Ctx) Endian() []core.Ob {
	var obs []core.Ob
	total := 0
	for _, fn := range c.Funcs() {
		if !inPkgs(fn, "nbt", "nbt/dynbt") {
			continue
		}
		name := core.FnName(fn)
		k := 0
		mk := func(pos token.Pos, want string) core.Ob {
			k++
			total++
			return core.Ob{Rule: "T-ENDIAN", Key: fmt.Sprintf("%s#%d", name, k), Pos: c.P.Pos(pos), Func: name, Armed: true, Status: core.OK, Want: want}
		}
		// operands of a larger OR/ADD tree are not roots of their own
		inner := map[ssa.Value]bool{}
		for _, b := range fn.Blocks {
			for _, in := range b.Instrs {
				if bo, ok := in.(*ssa.BinOp); ok && (bo.Op == token.OR || bo.Op == token.ADD) {
					inner[stripConv(bo.X)], inner[stripConv(bo.Y)] = true, true
				}
			}
		}
		stores := map[ssa.Value]map[int64]int64{}
		storePos := map[ssa.Value]token.Pos{}
		type lowStore struct {
			idx int64
			of  ssa.Value
		}
		shifted := map[ssa.Value]ssa.Value{}
		lowByte := map[ssa.Value][]lowStore{}
		for _, b := range fn.Blocks {
			for _, in := range b.Instrs {
				switch x := in.(type) {
				case ssa.CallInstruction:
					n := calleeName(x.Common())
					switch {
					case strings.HasPrefix(n, "encoding/binary.(bigEndian)."):
						o := mk(x.Pos(), "encoding/binary is used with the big-endian byte order")
						o.Got = n
						obs = append(obs, o)
					case strings.HasPrefix(n, "encoding/binary.(littleEndian)."):
						o := mk(x.Pos(), "encoding/binary is used with the big-endian byte order")
						o.Status, o.Got = core.Violated, n+": NBT integers are big-endian"
						obs = append(obs, o)
					case n == "encoding/binary.Read" || n == "encoding/binary.Write":
						o := mk(x.Pos(), "encoding/binary is used with the big-endian byte order")
						if mi, ok := x.Common().Args[1].(*ssa.MakeInterface); !ok || !strings.HasSuffix(mi.X.Type().String(), "bigEndian") {
							o.Status, o.Got = core.Violated, n+" with a byte order other than binary.BigEndian"
						}
						obs = append(obs, o)
					}
				case *ssa.BinOp:
					if (x.Op != token.OR && x.Op != token.ADD) || inner[x] {
						continue
					}
					pairs := map[int64]int64{}
					if !shiftPairsRead(x, pairs) || len(pairs) < 2 {
						continue
					}
					n := int64(len(pairs))
					o := mk(x.Pos(), fmt.Sprintf("byte k of the %d bytes read is shifted left by 8*(%d-k) (big-endian)", n, n-1))
					for i := int64(0); i < n; i++ {
						if sh, ok := pairs[i]; !ok || sh != 8*(n-1-i) {
							o.Status, o.Got = core.Violated, fmt.Sprintf("byte %d is shifted by %d, big-endian needs %d", i, pairs[i], 8*(n-1-i))
							break
						}
					}
					obs = append(obs, o)
				case *ssa.Store:
					ia, ok := x.Addr.(*ssa.IndexAddr)
					if !ok {
						continue
					}
					idx, ok := constIntVal(ia.Index)
					if !ok {
						continue
					}
					v := stripConv(x.Val)
					sh := int64(-1)
					if bo, ok := v.(*ssa.BinOp); ok && bo.Op == token.SHR {
						if s, ok := constIntVal(bo.Y); ok && s%8 == 0 {
							sh = s
							shifted[ia.X] = stripConv(bo.X)
						}
					} else if _, isParam := v.(*ssa.Parameter); isParam && v != x.Val {
						sh = 0 // byte(n): the low byte
					} else if cv, isConv := x.Val.(*ssa.Convert); isConv {
						// byte(n) of a local: the low byte, if the other bytes of this buffer are shifts of the same n
						if bt, ok := cv.Type().Underlying().(*types.Basic); ok && bt.Kind() == types.Uint8 {
							lowByte[ia.X] = append(lowByte[ia.X], lowStore{idx, stripConv(cv.X)})
						}
					}
					if sh < 0 {
						continue
					}
					if stores[ia.X] == nil {
						stores[ia.X] = map[int64]int64{}
						storePos[ia.X] = x.Pos()
					}
					stores[ia.X][idx] = sh
				}
			}
		}
		for base, lows := range lowByte {
			for _, l := range lows {
				if stores[base] != nil && shifted[base] == l.of {
					stores[base][l.idx] = 0
				}
			}
		}
		var bases []ssa.Value
		for b := range stores {
			bases = append(bases, b)
		}
		sort.Slice(bases, func(i, j int) bool { return storePos[bases[i]] < storePos[bases[j]] })
		for _, base := range bases {
			pairs := stores[base]
			if len(pairs) < 2 {
				continue
			}
			n := int64(len(pairs))
			o := mk(storePos[base], fmt.Sprintf("output byte k of the %d bytes written is n >> 8*(%d-k) (big-endian)", n, n-1))
			for i := int64(0); i < n; i++ {
				if sh, ok := pairs[i]; !ok || sh != 8*(n-1-i) {
					o.Status, o.Got = core.Violated, fmt.Sprintf("output byte %d is n >> %d, big-endian needs %d", i, pairs[i], 8*(n-1-i))
					break
				}
			}
			obs = append(obs, o)
		}
	}
	if total < 6 {
		obs = append(obs, core.Ob{Rule: "T-ENDIAN", Key: "sites", Status: core.Violated, Armed: true,
			Want: "the fixed-width integer readers and writers of nbt and nbt/dynbt are recognised (>= 6 byte-order sites)", Got: fmt.Sprintf("%d sites", total)})
	}
	return obs
}
