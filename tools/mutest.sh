#!/bin/bash
# usage: mutest.sh <patch.diff> <property> [<property>...]
# Applies the patch to a scratch copy of /repo (never to /repo), checks that the
# mutant still compiles, and runs the given property checks against the copy.
# Prints KILLED/SURVIVED per property. The copy is removed afterwards.
set -u
export GOFLAGS=-mod=mod GOPROXY=off GOSUMDB=off GOTOOLCHAIN=local GOWORK=off
patch=$(readlink -f "$1"); shift
scratch=$(mktemp -d "${TMPDIR:-/tmp}/gmcmut.XXXXXX")
trap 'rm -rf "$scratch"' EXIT
mkdir -p "$scratch/repo" "$scratch/verif"
rsync -a --exclude .git /repo/ "$scratch/repo/"
cp -r /verif/rules /verif/known_findings.json "$scratch/verif/" 2>/dev/null
[ -d /verif/fixtures ] && cp -r /verif/fixtures "$scratch/verif/"
if ! (cd "$scratch/repo" && patch -p1 -s < "$patch"); then echo "PATCH-FAILED $patch"; exit 3; fi
if ! (cd "$scratch/repo" && go build ./... 2>"$scratch/build.log"); then echo "MUTANT-DOES-NOT-COMPILE $patch"; head -5 "$scratch/build.log"; exit 4; fi
rc=0
for p in "$@"; do
  out=$(/verif/bin/gmcheck -property "$p" -repo "$scratch/repo" -verif "$scratch/verif" -nofixtures 2>&1)
  if echo "$out" | grep -q "^VIOLATION property=$p"; then
    echo "KILLED $p $(basename "$patch"): $(echo "$out" | grep -B4 '^VIOLATION' | grep -E '^\S+:[0-9]+:[0-9]+ ' | head -3 | tr '\n' ';')"
  else
    echo "SURVIVED $p $(basename "$patch")"; rc=1
  fi
done
exit $rc
