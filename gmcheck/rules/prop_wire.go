package rules

import (
	"fmt"
	"go/types"
	"sort"
	"strings"

	"gmcheck/core"
)

// wireScope selects WireSym obligations by package / type name.
func (c *Ctx) wireObs(sel func(pkgRel, typ string) bool) []core.Ob {
	var out []core.Ob
	for _, o := range c.WireSym(func(p, t string) bool { return true }) {
		i := strings.LastIndex(o.Key, ".")
		if i < 0 {
			continue
		}
		if sel(o.Key[:i], o.Key[i+1:]) {
			out = append(out, o)
		}
	}
	return out
}

func init() {
	Props["C06"] = PropDef{
		Explanation: "R-WIRESYM: for every net/packet field type with both WriteTo and ReadFrom the sequence of wire elements written (nested field kinds inlined down to Raw(n) byte widths) equals the sequence read, on every non-error path. R-DISCARD: no result of a pure reflect.Value call or of append is dropped (the destination re-slice must be assigned). R-COUNT: returned byte counts accumulate every sub-count. R-ORDER: Tuple/Marshal/Scan/Builder iterate their fields front to back. Not decided: value equality, Position bit packing, float bit patterns.",
		Run: func(c *Ctx) []core.Ob {
			obs := c.wireObs(func(p, t string) bool { return p == "net/packet" })
			for _, o := range c.Discard() {
				if strings.HasPrefix(o.Key, "net/packet.") {
					obs = append(obs, o)
				}
			}
			in := pkgPred("net/packet")
			obs = append(obs, c.TLGObs(in, in, false)...)
			for _, o := range c.RawRead() {
				if strings.HasPrefix(o.Key, "net/packet.") {
					obs = append(obs, o)
				}
			}
			obs = append(obs, c.ErrFlow(in, in)...)
			// composition: Marshal/Builder must not hand out memory that is recycled
			obs = append(obs, c.Pools("net/packet")...)
			obs = append(obs, c.VarLen()...)
			obs = append(obs, c.BitFields("net/packet")...)
			obs = append(obs, c.GroupOrder("net/packet")...)
			obs = append(obs, c.LengthPrefixes("net/packet")...)
			obs = append(obs, filterObs(c.NoReadAhead(), func(o core.Ob) bool { return strings.Contains(o.Key, "packet") || o.Key == "scope" })...)
			obs = append(obs, c.CountingWrappers("net/packet")...)
			obs = append(obs, c.FixedBitSetSize()...)
			return obs
		},
	}
	Props["C12"] = PropDef{
		Explanation: "R-WIRESYM for PaletteContainer, the four palettes and BitStorage (reader and writer agree on [bits byte, palette, data array]); R-TLG for palette/data sizes read from the wire. Not decided: array semantics across palette upgrades, bits bookkeeping.",
		Run: func(c *Ctx) []core.Ob {
			// the palette kinds: whatever types of the package implement the interface of the container's palette slot
			names := map[string]bool{"PaletteContainer": true, "BitStorage": true}
			for _, t := range c.implementersOf("level", "PaletteContainer", func(f *types.Var) bool {
				it := f.Type().Underlying().(*types.Interface)
				for i := 0; i < it.NumMethods(); i++ {
					if it.Method(i).Name() == "ReadFrom" {
						return true
					}
				}
				return false
			}) {
				names[t] = true
			}
			obs := c.wireObs(func(p, t string) bool { return p == "level" && names[t] })
			if len(names) < 4 {
				obs = append(obs, core.Ob{Rule: "R-WIRESYM", Key: "level:palette-kinds", Status: core.Violated, Armed: true, Want: "the palette implementations of package level are found", Got: fmt.Sprintf("%d types", len(names)-2)})
			}
			var tnames []string
			for t := range names {
				tnames = append(tnames, t)
			}
			sort.Strings(tnames)
			in := c.reachFromTypes("level", tnames, "NewStatesPaletteContainerWithData", "NewBiomesPaletteContainerWithData")
			obs = append(obs, c.TLGObs(in, in, false)...)
			obs = append(obs, c.PaletteResizeCopiesAll()...)
			obs = append(obs, c.PaletteReadResets()...)
			obs = append(obs, c.ResizeWidth()...)
			obs = append(obs, c.BitStorageReadLength()...)
			obs = append(obs, c.BitWidthInverse()...)
			obs = append(obs, c.PaletteConfig()...)
			obs = append(obs, c.BitStorageFixSibling()...)
			return obs
		},
	}
	Props["C13"] = PropDef{
		Explanation: "R-WIRESYM for Chunk, Section, BlockEntity, lightData, ChunkPos: the network writer and reader list the same wire kinds in the same order at every level. R-PANIC(G): height maps from the wire are length-checked before NewBitStorage. R-ORDER: SetBlock reads the old state before storing the new one and updates BlockCount by one conditional decrement (old not air) and one conditional increment (new not air). R-NOALIAS: in the save<->network conversions a decode target that outlives a loop iteration is not copied out inside the loop (nbt.RawMessage re-uses its buffer). Not decided: value preservation, registry bijection, light arrays.",
		Run: func(c *Ctx) []core.Ob {
			names := map[string]bool{"Chunk": true, "Section": true, "BlockEntity": true, "lightData": true, "ChunkPos": true}
			obs := c.wireObs(func(p, t string) bool { return p == "level" && names[t] })
			in := c.reachFromTypes("level", []string{"Chunk", "Section", "BlockEntity", "ChunkPos"}, "ChunkFromSave", "ChunkToSave", "EmptyChunk")
			obs = append(obs, c.GuardedCalls("level.NewBitStorage", 2, c.NetworkRoots(), in, in)...)
			obs = append(obs, c.TLGObs(in, in, false)...)
			obs = append(obs, c.SetBlockCounter()...)
			obs = append(obs, c.HeightMapBits()...)
			obs = append(obs, c.HeightMapKeys()...)
			obs = append(obs, c.PaletteResizeCopiesAll()...)
			obs = append(obs, c.LoopDecodeTargets("level", "save")...)
			obs = append(obs, c.HeightMapNetwork()...)
			obs = append(obs, c.BitFields("level")...)
			obs = append(obs, c.BitWidthInverse()...)
			obs = append(obs, c.InitOrder("level", "level/block", "level/biome", "level/component", "level/block/states")...)
			obs = append(obs, c.ResizeWidth()...)
			obs = append(obs, c.PaletteReadResets()...)
			return obs
		},
	}
	Props["C17"] = PropDef{
		Explanation: "R-WIRESYM for chat.Type, chat.Message, chat.JsonMessage (packet-field adapters agree; the chat-type header reader does not manufacture an error). Not decided: equality after a round trip, rendering.",
		Run: func(c *Ctx) []core.Ob {
			obs := c.wireObs(func(p, t string) bool { return p == "chat" })
			obs = append(obs, filterObs(c.MarshalerContract(), func(o core.Ob) bool { return strings.HasPrefix(o.Key, "chat") })...)
			obs = append(obs, c.TagDispatch("chat")...)
			obs = append(obs, c.JSONCustomCodec()...)
			obs = append(obs, c.TranslateArgTypes()...)
			obs = append(obs, c.OptFlags("chat")...)
			obs = append(obs, c.RuneTruncation("chat")...)
			obs = append(obs, c.ShortFormCoversFields("chat")...)
			obs = append(obs, c.StringIndexGuards(pkgPred("chat"))...)
			obs = append(obs, c.LenMinusGuards(pkgPred("chat"))...)
			obs = append(obs, c.StringVarIndexGuards(pkgPred("chat"))...)
			obs = append(obs, c.ConvertedStructTags("chat")...)
			obs = append(obs, c.SignedArrayTargets("chat")...)
			return obs
		},
	}
	Props["C19"] = PropDef{
		Explanation: "R-SCHEMA: for every gate packet id for which the bot and the server hold a sender (pk.Marshal site) and a receiver (Packet.Scan or a bytes.NewReader(p.Data) read chain control-dependent on the same packet-id constant), the receiver scans a prefix of what the sender marshals. R-WIRESYM for the login-success property list and data-pack types. R-ORDER: handler tables are kept with a stable sort and a strict descending Priority comparator; handlePacket runs generic before id-specific handlers and stops on the first error; the server writes the set-compression packet immediately before SetThreshold; the offline-mode UUID comes from offline.NameToUUID on every path. Not decided: that a join completes, queue behaviour, play-state payloads.",
		Run: func(c *Ctx) []core.Ob {
			obs := c.Schema()
			obs = append(obs, c.HandlerSort()...)
			obs = append(obs, c.DispatchOrder()...)
			obs = append(obs, c.CompressionSwitch()...)
			obs = append(obs, c.OfflineUUID()...)
			obs = append(obs, c.ReceiveBufferPerPacket()...)
			obs = append(obs, c.Pools("net/packet")...)
			obs = append(obs, c.DrainBeforeClose("net/queue")...)
			obs = append(obs, filterObs(c.LengthPrefixes("net/packet"), func(o core.Ob) bool { return strings.Contains(o.Key, "(String)") || strings.Contains(o.Key, "(Identifier)") })...)
			gate := pkgPred("server", "server/auth", "bot")
			gateArmed := pkgPred("server", "server/auth")
			obs = append(obs, c.ErrFlow(gate, gateArmed)...)
			obs = append(obs, c.wireObs(func(p, t string) bool { return p == "yggdrasil/user" || (p == "bot" && t == "DataPack") })...)
			return obs
		},
	}
	Props["C20"] = PropDef{
		Explanation: "R-LOCK on the confirmed guarded-by instances (LinkedListQueue{queue,closed|cond.L}, PlayerList{players|playersLock}): guarded-by on every access, release on every exit incl. panics, Cond.Wait in a loop with the lock held, Signal/Broadcast after every state change before Unlock (Broadcast for the terminal flag), check-then-act in one critical section, non-blocking bounded Push; lock pairing for every other mutex-holding method. R-POOL on net/packet, nbt, nbt/dynbt, level: pooled objects are Reset before use, Put on all exits, nothing aliasing them escapes; no package-level map/slice is written outside init. Not decided: linearizability / exactly-once FIFO over interleavings, data races in general.",
		Run: func(c *Ctx) []core.Ob {
			obs := c.Locks()
			obs = append(obs, c.Pools("net/packet", "nbt", "nbt/dynbt", "level")...)
			obs = append(obs, c.DrainBeforeClose("net/queue")...)
			obs = append(obs, c.ReceiveBufferPerPacket()...)
			obs = append(obs, c.CachedValuesImmutable("nbt", "nbt/dynbt", "net/packet", "level")...)
			return obs
		},
	}
}
