package rules

import (
	"fmt"
	"go/token"
	"strings"

	"gmcheck/core"

	"golang.org/x/tools/go/ssa"
)

// BitStorageGuards: C11 - at every access of the packed data in Get/Set/Swap
// the index parameter is proven in [0, length-1] and (for writes) the value in
// [0, mask]; Fix and the constructor refuse a wrong raw length.
func (c *Ctx) BitStorageGuards() []core.Ob {
	var obs []core.Ob
	t := c.TLG()
	for _, m := range []string{"Get", "Set", "Swap"} {
		fn := c.Fn("level.(*BitStorage)." + m)
		if fn == nil {
			obs = append(obs, core.Ob{Rule: "R-GUARD", Key: "BitStorage." + m, Status: core.Violated, Armed: true, Want: "method exists", Got: "not found"})
			continue
		}
		recv := fn.Params[0]
		idxParam := fn.Params[1]
		var valParam *ssa.Parameter
		if len(fn.Params) > 2 {
			valParam = fn.Params[2]
		}
		nAcc, nStore := 0, 0
		io := core.Ob{Rule: "R-GUARD", Key: "BitStorage." + m + ":index-in-range", Pos: c.P.Pos(fn.Pos()), Func: core.FnName(fn), Armed: true, Status: core.OK,
			Want: "at every access of the packed longs the index parameter is proven to satisfy 0 <= i <= length-1 (an out-of-range index has panicked before, modifying nothing)"}
		vo := core.Ob{Rule: "R-GUARD", Key: "BitStorage." + m + ":value-in-range", Pos: c.P.Pos(fn.Pos()), Func: core.FnName(fn), Armed: true, Status: core.OK,
			Want: "at every store into the packed longs the value parameter is proven to satisfy 0 <= v <= mask"}
		zo := core.Ob{Rule: "R-GUARD", Key: "BitStorage." + m + ":zero-width-short-circuit", Pos: c.P.Pos(fn.Pos()), Func: core.FnName(fn), Armed: true, Status: core.OK,
			Want: "with 0 bits per value (valuesPerLong == 0) the method returns before any index arithmetic (calcIndex divides by valuesPerLong)"}
		t.Probe(fn, func(in ssa.Instruction, eval func(ssa.Value) AV, locAV func(string) (AV, bool)) {
			switch x := in.(type) {
			case *ssa.IndexAddr:
				if rootFieldOfAddr(x.X, recv) != "data" {
					return
				}
				nAcc++
				av := eval(idxParam)
				ok := nonNeg(av.all())
				bounded := false
				for _, u := range av.UB {
					if u.Kind == 'v' && u.Key == "p:"+recv.Name()+".length" && u.K <= -1 {
						bounded = true
					}
				}
				if !ok || !bounded {
					io.Status, io.Got, io.Pos = core.Violated, "at the access, i is only known to be "+av.String(), c.P.Pos(x.Pos())
				}
			case *ssa.Store:
				ia, isIA := x.Addr.(*ssa.IndexAddr)
				if !isIA || rootFieldOfAddr(ia.X, recv) != "data" || valParam == nil {
					return
				}
				nStore++
				av := eval(valParam)
				ok := nonNeg(av.all())
				bounded := false
				for _, u := range av.UB {
					if u.Kind == 'v' && u.Key == "p:"+recv.Name()+".mask" && u.K <= 0 {
						bounded = true
					}
				}
				if !ok || !bounded {
					vo.Status, vo.Got, vo.Pos = core.Violated, "at the store, v is only known to be "+av.String(), c.P.Pos(x.Pos())
				}
			case *ssa.Call:
				if strings.HasSuffix(calleeName(x.Common()), "level.(BitStorage).calcIndex") {
					av, ok := locAV("p:" + recv.Name() + ".valuesPerLong")
					if !ok || !av.nonZero() {
						zo.Status, zo.Got, zo.Pos = core.Violated, "calcIndex is reachable with valuesPerLong possibly 0 (division by zero)", c.P.Pos(x.Pos())
					}
				}
			}
		})
		if nAcc == 0 {
			io.Status, io.Got = core.Violated, "no access of the data field found"
		}
		obs = append(obs, io, zo)
		if valParam != nil {
			if nStore == 0 {
				vo.Status, vo.Got = core.Violated, "no store into the data field found"
			}
			obs = append(obs, vo)
		}
	}
	// Set and Swap are siblings: the same store expression
	obs = append(obs, c.bitStorageLengthChecks()...)
	return obs
}

// bitStorageLengthChecks: NewBitStorage and Fix refuse a raw array whose length
// is not calcBitStorageSize(bits, length).
func (c *Ctx) bitStorageLengthChecks() []core.Ob {
	var obs []core.Ob
	// Fix: every nil return is either on the bits==0 edge or after the length comparison succeeded
	fx := c.Fn("level.(*BitStorage).Fix")
	o := core.Ob{Rule: "R-ORDER", Key: "BitStorage.Fix:length-checked", Armed: true, Status: core.OK,
		Want: "Fix returns nil only for 0 bits or after comparing len(data) with calcBitStorageSize(bits, length) (a wrong raw length is refused)"}
	if fx == nil {
		o.Status, o.Got = core.Violated, "Fix not found"
		return append(obs, o)
	}
	o.Pos, o.Func = c.P.Pos(fx.Pos()), core.FnName(fx)
	var okBlocks []*ssa.BasicBlock
	for _, b := range fx.Blocks {
		if len(b.Instrs) == 0 {
			continue
		}
		iff, isIf := b.Instrs[len(b.Instrs)-1].(*ssa.If)
		if !isIf {
			continue
		}
		cmp, isCmp := iff.Cond.(*ssa.BinOp)
		if !isCmp || (cmp.Op != token.EQL && cmp.Op != token.NEQ) {
			continue
		}
		// len(b.data) compared with a call result of calcBitStorageSize
		isLen := func(v ssa.Value) bool {
			cl, ok := stripConv(v).(*ssa.Call)
			if !ok {
				return false
			}
			bi, ok := cl.Common().Value.(*ssa.Builtin)
			return ok && bi.Name() == "len" && rootFieldOfAddr(loadAddr(cl.Common().Args[0]), fx.Params[0]) == "data"
		}
		isSize := func(v ssa.Value) bool {
			cl, ok := stripConv(v).(*ssa.Call)
			return ok && strings.HasSuffix(calleeName(cl.Common()), "level.calcBitStorageSize")
		}
		if (isLen(cmp.X) && isSize(cmp.Y)) || (isLen(cmp.Y) && isSize(cmp.X)) {
			eq := b.Succs[0]
			if cmp.Op == token.NEQ {
				eq = b.Succs[1]
			}
			okBlocks = append(okBlocks, eq)
			continue
		}
		// bits == 0
		if k, ok := constIntVal(cmp.Y); ok && k == 0 && len(fx.Params) > 1 && cmp.X == ssa.Value(fx.Params[1]) {
			z := b.Succs[0]
			if cmp.Op == token.NEQ {
				z = b.Succs[1]
			}
			okBlocks = append(okBlocks, z)
		}
	}
	nNil := 0
	for _, b := range fx.Blocks {
		for _, in := range b.Instrs {
			r, ok := in.(*ssa.Return)
			if !ok || len(r.Results) != 1 {
				continue
			}
			vals := []struct {
				v ssa.Value
				b *ssa.BasicBlock
			}{{r.Results[0], b}}
			if ph, ok := r.Results[0].(*ssa.Phi); ok {
				vals = vals[:0]
				for i, e := range ph.Edges {
					vals = append(vals, struct {
						v ssa.Value
						b *ssa.BasicBlock
					}{e, ph.Block().Preds[i]})
				}
			}
			for _, vb := range vals {
				if !isNilConst(vb.v) {
					continue
				}
				nNil++
				dominated := false
				for _, ob := range okBlocks {
					if ob == vb.b || (len(ob.Preds) == 1 && ob.Dominates(vb.b)) {
						dominated = true
					}
				}
				if !dominated {
					o.Status, o.Got = core.Violated, "a nil return is reachable without the length comparison (and not on the 0-bits path)"
				}
			}
		}
	}
	if nNil == 0 || len(okBlocks) < 2 {
		o.Status, o.Got = core.Violated, fmt.Sprintf("%d nil returns, %d guarding edges recognised", nNil, len(okBlocks))
	}
	obs = append(obs, o)

	// NewBitStorage: the copy of caller data is dominated by the length comparison
	nb := c.Fn("level.NewBitStorage")
	n := core.Ob{Rule: "R-ORDER", Key: "NewBitStorage:length-checked-before-copy", Armed: true, Status: core.OK,
		Want: "NewBitStorage copies caller-supplied longs only after comparing their count with calcBitStorageSize(bits, length)"}
	if nb == nil {
		n.Status, n.Got = core.Violated, "NewBitStorage not found"
		return append(obs, n)
	}
	n.Pos, n.Func = c.P.Pos(nb.Pos()), core.FnName(nb)
	copies := callsIn(nb, func(nm string, _ *ssa.CallCommon) bool { return nm == "builtin.copy" })
	if len(copies) != 1 {
		n.Status, n.Got = core.Violated, fmt.Sprintf("%d copy calls", len(copies))
	} else if !lenGuarded(nb, copies[0].Block(), copies[0].Common().Args[1]) {
		n.Status, n.Got = core.Violated, "the copy is not guarded by a len(data) comparison with a panic/return on mismatch"
	}
	obs = append(obs, n)
	return obs
}

func loadAddr(v ssa.Value) ssa.Value {
	if u, ok := v.(*ssa.UnOp); ok && u.Op == token.MUL {
		return u.X
	}
	return v
}
