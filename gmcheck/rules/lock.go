package rules

// R-LOCK: guarded-by, pairing on all exits, wait-in-loop, notify-after-write,
// broadcast-on-terminal-flag, single critical section for check-then-act,
// non-blocking bounded push (DESIGN.md section 3, Appendix C).

import (
	"fmt"
	"go/token"
	"go/types"
	"path/filepath"
	"sort"
	"strings"

	"gmcheck/core"

	"golang.org/x/tools/go/ssa"
)

// LockInstance: one confirmed guarded-by instance (rules/lock.json).
type LockInstance struct {
	Type     string   `json:"type"`     // pkgrel.TypeName
	Lock     string   `json:"lock"`     // field path of the lock from the receiver, e.g. "cond.L" or "playersLock"
	Cond     string   `json:"cond"`     // field name of the sync.Cond ("" if none)
	Fields   []string `json:"fields"`   // guarded sibling fields
	ReadOnly []string `json:"readonly"` // methods of guarded objects that do not mutate (for notify-after-write)
}

type lockOp struct {
	kind string // lock, unlock, wait, signal, broadcast
	id   string // lock / cond field path
}

// fieldPathFromRecv: for an address value rooted at the receiver parameter
// returns the dotted field path ("cond.L"); ok=false otherwise.
func fieldPathFromRecv(v ssa.Value, recv *ssa.Parameter) (string, bool) {
	switch x := v.(type) {
	case *ssa.Parameter:
		if x == recv {
			return "", true
		}
	case *ssa.FieldAddr:
		base, ok := fieldPathFromRecv(x.X, recv)
		if !ok {
			return "", false
		}
		st, _ := deref(x.X.Type()).Underlying().(*types.Struct)
		if st == nil {
			return "", false
		}
		n := st.Field(x.Field).Name()
		if base == "" {
			return n, true
		}
		return base + "." + n, true
	case *ssa.UnOp:
		if x.Op == token.MUL {
			return fieldPathFromRecv(x.X, recv)
		}
	case *ssa.Alloc:
		// the receiver spilled into a local cell because a closure captures it: the cell holds
		// the receiver if the parameter is the only thing ever stored into it
		if spilledParam(x) == ssa.Value(recv) {
			return "", true
		}
	case *ssa.FreeVar:
		// inside a closure: the captured cell of the enclosing method's receiver
		if fn := x.Parent(); fn != nil && fn.Parent() != nil {
			for i, fv := range fn.FreeVars {
				if fv != x {
					continue
				}
				// find the MakeClosure in the parent and look at the binding
				for _, b := range fn.Parent().Blocks {
					for _, in := range b.Instrs {
						if mc, ok := in.(*ssa.MakeClosure); ok && mc.Fn == ssa.Value(fn) && i < len(mc.Bindings) {
							if p, ok := mc.Bindings[i].(*ssa.Parameter); ok && p == recv {
								return "", true
							}
							if al, ok := mc.Bindings[i].(*ssa.Alloc); ok && spilledParam(al) == ssa.Value(recv) {
								return "", true
							}
						}
					}
				}
			}
		}
	case *ssa.Field:
		base, ok := fieldPathFromRecv(x.X, recv)
		if !ok {
			return "", false
		}
		st, _ := x.X.Type().Underlying().(*types.Struct)
		if st == nil {
			return "", false
		}
		n := st.Field(x.Field).Name()
		if base == "" {
			return n, true
		}
		return base + "." + n, true
	}
	return "", false
}

// classifyLockOp recognises sync operations on fields of the receiver.
func classifyLockOp(cc *ssa.CallCommon, recv *ssa.Parameter) (lockOp, bool) {
	name := calleeName(cc)
	var target ssa.Value
	if cc.IsInvoke() {
		target = cc.Value
	} else if len(cc.Args) > 0 {
		target = cc.Args[0]
	}
	if target == nil {
		return lockOp{}, false
	}
	path, ok := fieldPathFromRecv(target, recv)
	if !ok {
		return lockOp{}, false
	}
	switch name {
	case "sync.(Mutex).Lock", "sync.(RWMutex).Lock", "sync.(Locker).Lock", "sync.(RWMutex).RLock":
		return lockOp{"lock", path}, true
	case "sync.(Mutex).Unlock", "sync.(RWMutex).Unlock", "sync.(Locker).Unlock", "sync.(RWMutex).RUnlock":
		return lockOp{"unlock", path}, true
	case "sync.(Cond).Wait":
		return lockOp{"wait", path}, true
	case "sync.(Cond).Signal":
		return lockOp{"signal", path}, true
	case "sync.(Cond).Broadcast":
		return lockOp{"broadcast", path}, true
	}
	return lockOp{}, false
}

type lockState struct {
	held     bool // lock definitely held
	deferred bool // a deferred unlock is registered
	pending  bool // guarded state mutated since the last notify (may)
	pendingB bool // a terminal bool was stored since the last Broadcast (may)
	readSeen bool // a guarded read happened in this invocation (may)
	unlAfter bool // an unlock happened after a guarded read (may)
}

func joinLock(a, b lockState) lockState {
	return lockState{held: a.held && b.held, deferred: a.deferred && b.deferred, pending: a.pending || b.pending,
		pendingB: a.pendingB || b.pendingB, readSeen: a.readSeen || b.readSeen, unlAfter: a.unlAfter || b.unlAfter}
}

// Locks implements R-LOCK for the instances of rules/lock.json.
func (c *Ctx) Locks() []core.Ob {
	var table []LockInstance
	if err := core.ReadJSON(filepath.Join(c.Verif, "rules", "lock.json"), &table); err != nil {
		return []core.Ob{{Rule: "R-LOCK", Key: "table", Status: core.Violated, Armed: true, Got: err.Error()}}
	}
	var obs []core.Ob
	for i := range table {
		if why := c.discoverLock(&table[i]); why != "" {
			obs = append(obs, core.Ob{Rule: "R-LOCK", Key: table[i].Type + "#instance", Status: core.Violated, Armed: true,
				Want: "the lock, the condition variable and the fields they guard are recognisable from the type's methods", Got: why})
			continue
		}
		c.Notes = append(c.Notes, fmt.Sprintf("R-LOCK instance %s: lock %s, cond %q, guarded fields %v (discovered from the struct layout and the methods' mutations)",
			table[i].Type, table[i].Lock, table[i].Cond, table[i].Fields))
	}
	for _, inst := range table {
		if inst.Lock == "" {
			continue
		}
		obs = append(obs, c.lockInstance(inst)...)
	}
	obs = append(obs, c.lockPairingEverywhere(table)...)
	obs = append(obs, c.chanQueuePush()...)
	return obs
}

// discoverLock fills in what rules/lock.json leaves open for a type: the lock is
// the receiver field path its methods call Lock on, the condition variable the
// field of type sync.Cond, the guarded fields those the methods mutate (a
// store, a map update, or a call of a mutating method on the field's object).
// Field names are read from the program, not frozen in the table.
func (c *Ctx) discoverLock(inst *LockInstance) string {
	methods := methodsOfType(c, inst.Type)
	if len(methods) == 0 {
		return "type " + inst.Type + " has no methods (renamed or removed)"
	}
	var st *types.Struct
	if n, ok := types.Unalias(deref(methods[0].Signature.Recv().Type())).(*types.Named); ok {
		st, _ = n.Underlying().(*types.Struct)
	}
	if st == nil {
		return inst.Type + " is not a struct"
	}
	isSync := func(t types.Type) bool {
		n, ok := types.Unalias(deref(t)).(*types.Named)
		return ok && n.Obj().Pkg() != nil && n.Obj().Pkg().Path() == "sync"
	}
	if inst.Cond == "" {
		for i := 0; i < st.NumFields(); i++ {
			if n, ok := types.Unalias(deref(st.Field(i).Type())).(*types.Named); ok && n.Obj().Pkg() != nil && n.Obj().Pkg().Path() == "sync" && n.Obj().Name() == "Cond" {
				inst.Cond = st.Field(i).Name()
			}
		}
	}
	lockUse := map[string]int{}
	mutated := map[string]bool{}
	for _, fn := range methods {
		if len(fn.Params) == 0 {
			continue
		}
		recv := fn.Params[0]
		top := func(path string) string {
			if i := strings.Index(path, "."); i >= 0 {
				return path[:i]
			}
			return path
		}
		for _, b := range fn.Blocks {
			for _, in := range b.Instrs {
				switch x := in.(type) {
				case ssa.CallInstruction:
					cc := x.Common()
					if op, ok := classifyLockOp(cc, recv); ok {
						if op.kind == "lock" {
							lockUse[op.id]++
						}
						continue
					}
					var tgt ssa.Value
					mname := ""
					if cc.IsInvoke() {
						tgt, mname = cc.Value, cc.Method.Name()
					} else if len(cc.Args) > 0 && cc.StaticCallee() != nil && cc.StaticCallee().Signature.Recv() != nil {
						tgt, mname = cc.Args[0], cc.StaticCallee().Name()
					}
					if tgt != nil {
						if path, ok := fieldPathFromRecv(tgt, recv); ok && path != "" && !contains(inst.ReadOnly, mname) {
							if _, isPtr := tgt.Type().Underlying().(*types.Pointer); isPtr {
								mutated[top(path)] = true
							}
						}
					}
				case *ssa.Store:
					if path, ok := fieldPathFromRecv(x.Addr, recv); ok && path != "" {
						mutated[top(path)] = true
					}
				case *ssa.MapUpdate:
					if path, ok := fieldPathFromRecv(x.Map, recv); ok && path != "" {
						mutated[top(path)] = true
					}
				}
			}
		}
	}
	if inst.Lock == "" {
		best := ""
		for p, n := range lockUse {
			if best == "" || n > lockUse[best] || (n == lockUse[best] && p < best) {
				best = p
			}
		}
		if best == "" {
			return "no method of " + inst.Type + " takes a lock"
		}
		inst.Lock = best
	}
	if len(inst.Fields) == 0 {
		for i := 0; i < st.NumFields(); i++ {
			f := st.Field(i)
			if isSync(f.Type()) || !mutated[f.Name()] {
				continue
			}
			inst.Fields = append(inst.Fields, f.Name())
		}
		sort.Strings(inst.Fields)
	}
	if len(inst.Fields) == 0 {
		return "no field of " + inst.Type + " is mutated by its methods: nothing to guard"
	}
	return ""
}

func methodsOfType(c *Ctx, typ string) []*ssa.Function {
	var out []*ssa.Function
	for _, fn := range c.Funcs() {
		if fn.Parent() != nil || fn.Signature.Recv() == nil {
			continue
		}
		n, ok := types.Unalias(deref(fn.Signature.Recv().Type())).(*types.Named)
		if !ok || n.Obj().Pkg() == nil {
			continue
		}
		if core.Rel(n.Obj().Pkg().Path())+"."+n.Obj().Name() == typ {
			out = append(out, fn)
		}
	}
	return out
}

func contains(list []string, s string) bool {
	for _, x := range list {
		if x == s {
			return true
		}
	}
	return false
}

func (c *Ctx) lockInstance(inst LockInstance) []core.Ob {
	var obs []core.Ob
	methods := methodsOfType(c, inst.Type)
	mk := func(key, want string, pos token.Pos, fn *ssa.Function) core.Ob {
		return core.Ob{Rule: "R-LOCK", Key: inst.Type + "#" + key, Want: want, Pos: c.P.Pos(pos), Func: core.FnName(fn), Armed: true, Status: core.OK}
	}
	if len(methods) == 0 {
		return []core.Ob{{Rule: "R-LOCK", Key: inst.Type + "#methods", Status: core.Violated, Armed: true, Want: "confirmed guarded type has methods", Got: "type not found"}}
	}
	accessCount := map[string]int{}
	// methods that take the lock themselves and read guarded state: calling one
	// is a guarded read in a critical section of its own
	selfLocking := map[*ssa.Function]bool{}
	for _, fn := range methods {
		if len(fn.Params) == 0 {
			continue
		}
		locks, reads := false, false
		for _, b := range fn.Blocks {
			for _, in := range b.Instrs {
				switch x := in.(type) {
				case ssa.CallInstruction:
					if op, ok := classifyLockOp(x.Common(), fn.Params[0]); ok && op.kind == "lock" && op.id == inst.Lock {
						locks = true
					}
				case *ssa.UnOp:
					if x.Op == token.MUL {
						if path, ok := fieldPathFromRecv(x.X, fn.Params[0]); ok && contains(inst.Fields, path) {
							reads = true
						}
					}
				}
			}
		}
		if locks && reads {
			selfLocking[fn] = true
		}
	}
	isMethod := map[*ssa.Function]bool{}
	for _, m := range methods {
		isMethod[m] = true
	}
	// helpers that run with the caller's lock held ("the caller must hold the lock"): unexported
	// methods that never lock themselves and whose every call site is in a method of the type at a
	// point where the lock is held. They are analysed with the lock held on entry, and what they do to
	// the guarded state counts for the calling method's notify obligations.
	callHeld := map[*ssa.Function][]bool{}
	helper := map[*ssa.Function]bool{}
	helperMut := map[*ssa.Function][2]bool{} // mutates guarded state, stores a terminal bool
	var analyse func(fn *ssa.Function, report bool)
	analyse = func(fn *ssa.Function, report bool) {
		if len(fn.Params) == 0 || len(fn.Blocks) == 0 {
			return
		}
		recv := fn.Params[0]
		fname := fn.Name()
		waits := false
		for _, b := range fn.Blocks {
			for _, in := range b.Instrs {
				if ci, ok := in.(ssa.CallInstruction); ok {
					if op, ok := classifyLockOp(ci.Common(), recv); ok && op.kind == "wait" {
						waits = true
					}
				}
			}
		}
		in := map[*ssa.BasicBlock]lockState{}
		seen := map[*ssa.BasicBlock]bool{}
		in[fn.Blocks[0]] = lockState{held: helper[fn]}
		seen[fn.Blocks[0]] = true
		work := []*ssa.BasicBlock{fn.Blocks[0]}
		type finding struct {
			key, got string
			pos      token.Pos
		}
		var finds map[string]finding
		run := func(report bool) {
			finds = map[string]finding{}
			ord := map[string]int{}
			add := func(kind, got string, pos token.Pos) {
				ord[kind]++
				k := fmt.Sprintf("%s.%s#%d", fname, kind, ord[kind])
				finds[k] = finding{k, got, pos}
			}
			for _, b := range fn.Blocks {
				st, ok := in[b]
				if !ok {
					continue
				}
				for _, insn := range b.Instrs {
					switch x := insn.(type) {
					case *ssa.Defer:
						if op, ok := classifyLockOp(x.Common(), recv); ok && op.kind == "unlock" && op.id == inst.Lock {
							st.deferred = true
						}
					case *ssa.Call:
						if op, ok := classifyLockOp(x.Common(), recv); ok {
							switch {
							case op.kind == "lock" && op.id == inst.Lock:
								st.held = true
							case op.kind == "unlock" && op.id == inst.Lock:
								if report && inst.Cond != "" && !waits {
									if st.pending {
										add("notify-before-unlock", "guarded state changed but no Signal/Broadcast before Unlock on some path: a blocked consumer is not woken", x.Pos())
									}
									if st.pendingB {
										add("broadcast-on-terminal-flag", "terminal flag stored but no Broadcast before Unlock: only one of several blocked consumers wakes up", x.Pos())
									}
								}
								st.held = false
								if st.readSeen {
									st.unlAfter = true
								}
							case op.kind == "signal" && op.id == inst.Cond:
								st.pending = false
							case op.kind == "broadcast" && op.id == inst.Cond:
								st.pending = false
								st.pendingB = false
							case op.kind == "wait" && op.id == inst.Cond:
								if report {
									ok := st.held
									inLoop := blockInCycle(b)
									k := "wait"
									ord[k]++
									key := fmt.Sprintf("%s.%s#%d", fname, k, ord[k])
									o := mk(key, "Cond.Wait is called with the lock held, inside a loop that re-checks the guarded state", x.Pos(), fn)
									if !ok || !inLoop {
										o.Status = core.Violated
										o.Got = fmt.Sprintf("lock held=%v, inside loop=%v", ok, inLoop)
									}
									obs = append(obs, o)
								}
							}
							continue
						}
						// call of a sibling method on the same receiver: remember whether the lock is held here
						if sc := x.Common().StaticCallee(); sc != nil && isMethod[core.Origin(sc)] && len(x.Common().Args) > 0 && x.Common().Args[0] == ssa.Value(recv) {
							g := core.Origin(sc)
							if !report {
								callHeld[g] = append(callHeld[g], st.held)
							}
							if helper[g] {
								eff := helperMut[g]
								st.readSeen = true
								if eff[0] {
									st.pending = true
								}
								if eff[1] {
									st.pendingB = true
								}
								continue
							}
						}
						// call of a sibling method that locks internally and reads guarded state
						if sc := x.Common().StaticCallee(); sc != nil && selfLocking[core.Origin(sc)] && len(x.Common().Args) > 0 && x.Common().Args[0] == ssa.Value(recv) {
							if report && st.held {
								ord["self-deadlock"]++
								o := mk(fmt.Sprintf("%s.self-deadlock#%d", fname, ord["self-deadlock"]), "a method that takes "+inst.Lock+" is not called with the lock already held", x.Pos(), fn)
								o.Status, o.Got = core.Violated, sc.Name()+" locks the non-reentrant mutex again"
								obs = append(obs, o)
							}
							st.readSeen = true
							st.unlAfter = true
							continue
						}
						// call of a method on a guarded object: p.queue.PushBack(v)
						cc := x.Common()
						var tgt ssa.Value
						if cc.IsInvoke() {
							tgt = cc.Value
						} else if len(cc.Args) > 0 && cc.StaticCallee() != nil && cc.StaticCallee().Signature.Recv() != nil {
							tgt = cc.Args[0]
						}
						if tgt != nil {
							if path, ok := fieldPathFromRecv(tgt, recv); ok && contains(inst.Fields, path) {
								mname := ""
								if cc.IsInvoke() {
									mname = cc.Method.Name()
								} else {
									mname = cc.StaticCallee().Name()
								}
								if !contains(inst.ReadOnly, mname) {
									st.pending = true
								}
							}
						}
					case *ssa.Store:
						if path, ok := fieldPathFromRecv(x.Addr, recv); ok && contains(inst.Fields, path) {
							accessCount[path]++
							if report {
								ord["access"]++
								o := mk(fmt.Sprintf("%s.write(%s)#%d", fname, path, ord["access"]), "guarded field "+path+" is written only with "+inst.Lock+" held, in the critical section of the check that decided it", x.Pos(), fn)
								switch {
								case !st.held:
									o.Status, o.Got = core.Violated, "write without the lock held on some path"
								case st.unlAfter:
									o.Status, o.Got = core.Violated, "the lock was released between an earlier guarded read and this write: check-then-act is not atomic"
								}
								obs = append(obs, o)
							}
							st.pending = true
							if b, ok := x.Val.Type().Underlying().(*types.Basic); ok && b.Kind() == types.Bool {
								st.pendingB = true
							}
						}
					case *ssa.MapUpdate:
						if path, ok := fieldPathFromRecv(x.Map, recv); ok && contains(inst.Fields, path) {
							accessCount[path]++
							if report {
								ord["access"]++
								o := mk(fmt.Sprintf("%s.write(%s)#%d", fname, path, ord["access"]), "guarded map "+path+" is updated only with "+inst.Lock+" held, in the critical section of the check that decided it", x.Pos(), fn)
								switch {
								case !st.held:
									o.Status, o.Got = core.Violated, "map update without the lock held on some path"
								case st.unlAfter:
									o.Status, o.Got = core.Violated, "the lock was released between an earlier guarded read and this update: check-then-act is not atomic"
								}
								obs = append(obs, o)
							}
							st.pending = true
						}
					case *ssa.UnOp:
						if x.Op == token.MUL {
							if path, ok := fieldPathFromRecv(x.X, recv); ok && contains(inst.Fields, path) {
								accessCount[path]++
								if report {
									ord["access"]++
									o := mk(fmt.Sprintf("%s.read(%s)#%d", fname, path, ord["access"]), "guarded field "+path+" is read only with "+inst.Lock+" held", x.Pos(), fn)
									if !st.held {
										o.Status, o.Got = core.Violated, "read without the lock held on some path"
									}
									obs = append(obs, o)
								}
								st.readSeen = true
							}
						}
					case *ssa.Return, *ssa.Panic:
						if report {
							ord["exit"]++
							kind := "return"
							if _, isP := x.(*ssa.Panic); isP {
								kind = "panic"
							}
							o := mk(fmt.Sprintf("%s.exit(%s)#%d", fname, kind, ord["exit"]), inst.Lock+" is released on every exit (explicitly or by a deferred Unlock)", insn.Pos(), fn)
							if st.held && !st.deferred && !helper[fn] {
								o.Status, o.Got = core.Violated, "function exits ("+kind+") with the lock still held: every later operation blocks forever"
							}
							if helper[fn] {
								o.Want = "a helper that runs under the caller's lock hands it back held when it returns (it may release it before panicking)"
								if !st.held && kind == "return" {
									o.Status, o.Got = core.Violated, "the helper returns with the caller's lock released on some path"
								}
							}
							if st.deferred && inst.Cond != "" && !waits && (st.pending || st.pendingB) {
								o.Status, o.Got = core.Violated, "guarded state changed without Signal/Broadcast before the deferred Unlock"
							}
							obs = append(obs, o)
						}
					}
				}
				if !report {
					for _, s := range b.Succs {
						if !seen[s] {
							seen[s] = true
							in[s] = st
							work = append(work, s)
						} else {
							j := joinLock(in[s], st)
							if j != in[s] {
								in[s] = j
								work = append(work, s)
							}
						}
					}
				}
			}
			if report {
				var ks []string
				for k := range finds {
					ks = append(ks, k)
				}
				sort.Strings(ks)
				for _, k := range ks {
					f := finds[k]
					o := mk(f.key, "every state change under the lock is followed by Signal/Broadcast before Unlock (Broadcast for a terminal flag)", f.pos, fn)
					o.Status, o.Got = core.Violated, f.got
					obs = append(obs, o)
				}
				// positive record of the notify discipline for mutating, non-waiting methods
				if inst.Cond != "" && !waits && len(finds) == 0 {
					mut := false
					for _, b := range fn.Blocks {
						for _, insn := range b.Instrs {
							if s, ok := insn.(*ssa.Store); ok {
								if path, ok := fieldPathFromRecv(s.Addr, recv); ok && contains(inst.Fields, path) {
									mut = true
								}
							}
							if call, ok := insn.(*ssa.Call); ok {
								cc := call.Common()
								if !cc.IsInvoke() && len(cc.Args) > 0 && cc.StaticCallee() != nil && cc.StaticCallee().Signature.Recv() != nil {
									if path, ok := fieldPathFromRecv(cc.Args[0], recv); ok && contains(inst.Fields, path) && !contains(inst.ReadOnly, cc.StaticCallee().Name()) {
										mut = true
									}
								}
							}
						}
					}
					if mut {
						obs = append(obs, mk(fname+".notify", "every state change under the lock is followed by Signal/Broadcast before Unlock (Broadcast for a terminal flag)", fn.Pos(), fn))
					}
				}
			}
		}
		// fixpoint (the closure above propagates when report=false)
		for iter := 0; iter < 200; iter++ {
			work = work[:0]
			run(false)
			if len(work) == 0 {
				break
			}
		}
		if report {
			run(true)
		}
	}
	locksItself := func(fn *ssa.Function) bool {
		for _, b := range fn.Blocks {
			for _, in := range b.Instrs {
				if ci, ok := in.(ssa.CallInstruction); ok && len(fn.Params) > 0 {
					// (a helper may release the caller's lock on its way to a panic: only taking it disqualifies)
					if op, ok := classifyLockOp(ci.Common(), fn.Params[0]); ok && op.kind == "lock" && op.id == inst.Lock {
						return true
					}
				}
			}
		}
		return false
	}
	cg := c.P.CallGraph()
	for round := 0; round < 3; round++ {
		for k := range callHeld {
			delete(callHeld, k)
		}
		for _, fn := range methods {
			analyse(fn, false)
		}
		changed := false
		for _, m := range methods {
			if helper[m] || len(m.Params) == 0 || (m.Object() != nil && m.Object().Exported()) || locksItself(m) || len(callHeld[m]) == 0 {
				continue
			}
			all := true
			for _, h := range callHeld[m] {
				all = all && h
			}
			// no caller outside the type's methods
			if n := cg.Nodes[m]; n != nil {
				for _, e := range n.In {
					if e.Caller != nil && e.Caller.Func != nil && !isMethod[core.Origin(e.Caller.Func)] {
						all = false
					}
				}
			}
			for _, inst2 := range c.instancesOf(m) {
				if n := cg.Nodes[inst2]; n != nil {
					for _, e := range n.In {
						if e.Caller != nil && e.Caller.Func != nil && !isMethod[core.Origin(e.Caller.Func)] {
							all = false
						}
					}
				}
			}
			if !all {
				continue
			}
			helper[m] = true
			changed = true
			var eff [2]bool
			for _, b := range m.Blocks {
				for _, insn := range b.Instrs {
					switch x := insn.(type) {
					case *ssa.Store:
						if path, ok := fieldPathFromRecv(x.Addr, m.Params[0]); ok && contains(inst.Fields, path) {
							eff[0] = true
							if bt, ok := x.Val.Type().Underlying().(*types.Basic); ok && bt.Kind() == types.Bool {
								eff[1] = true
							}
						}
					case *ssa.MapUpdate:
						if path, ok := fieldPathFromRecv(x.Map, m.Params[0]); ok && contains(inst.Fields, path) {
							eff[0] = true
						}
					case *ssa.Call:
						cc := x.Common()
						if !cc.IsInvoke() && len(cc.Args) > 0 && cc.StaticCallee() != nil && cc.StaticCallee().Signature.Recv() != nil {
							if path, ok := fieldPathFromRecv(cc.Args[0], m.Params[0]); ok && contains(inst.Fields, path) && !contains(inst.ReadOnly, cc.StaticCallee().Name()) {
								eff[0] = true
							}
						}
					}
				}
			}
			helperMut[m] = eff
		}
		if !changed {
			break
		}
	}
	for _, fn := range methods {
		analyse(fn, true)
	}
	for _, f := range inst.Fields {
		o := core.Ob{Rule: "R-LOCK", Key: inst.Type + "#field(" + f + ")", Armed: true, Want: "confirmed guarded field is still accessed by the type's methods", Status: core.OK}
		if accessCount[f] == 0 {
			o.Status, o.Got = core.Violated, "no access found: anchor renamed or removed"
		}
		obs = append(obs, o)
	}
	return obs
}

func blockInCycle(b *ssa.BasicBlock) bool {
	seen := map[*ssa.BasicBlock]bool{}
	var stack []*ssa.BasicBlock
	stack = append(stack, b.Succs...)
	for len(stack) > 0 {
		x := stack[len(stack)-1]
		stack = stack[:len(stack)-1]
		if x == b {
			return true
		}
		if seen[x] {
			continue
		}
		seen[x] = true
		stack = append(stack, x.Succs...)
	}
	return false
}

// lockPairingEverywhere: for every module method that locks a mutex field of
// its receiver (any type, also outside the table) the lock is released on all
// exits.
func (c *Ctx) lockPairingEverywhere(table []LockInstance) []core.Ob {
	var obs []core.Ob
	inTable := map[string]bool{}
	for _, t := range table {
		inTable[t.Type] = true
	}
	for _, fn := range c.Funcs() {
		if fn.Parent() != nil || fn.Signature.Recv() == nil || len(fn.Params) == 0 || len(fn.Blocks) == 0 {
			continue
		}
		n, ok := types.Unalias(deref(fn.Signature.Recv().Type())).(*types.Named)
		if !ok || n.Obj().Pkg() == nil {
			continue
		}
		tname := core.Rel(n.Obj().Pkg().Path()) + "." + n.Obj().Name()
		if inTable[tname] {
			continue
		}
		recv := fn.Params[0]
		locks := map[string]bool{}
		for _, b := range fn.Blocks {
			for _, in := range b.Instrs {
				if ci, ok := in.(ssa.CallInstruction); ok {
					if op, ok := classifyLockOp(ci.Common(), recv); ok && op.kind == "lock" {
						locks[op.id] = true
					}
				}
			}
		}
		var ids []string
		for id := range locks {
			ids = append(ids, id)
		}
		sort.Strings(ids)
		for _, id := range ids {
			// may-held dataflow
			type st struct{ held, deferred bool }
			in := map[*ssa.BasicBlock]st{fn.Blocks[0]: {}}
			work := []*ssa.BasicBlock{fn.Blocks[0]}
			bad := token.NoPos
			for len(work) > 0 {
				b := work[0]
				work = work[1:]
				s := in[b]
				for _, insn := range b.Instrs {
					switch x := insn.(type) {
					case *ssa.Defer:
						if op, ok := classifyLockOp(x.Common(), recv); ok && op.kind == "unlock" && op.id == id {
							s.deferred = true
						}
					case *ssa.Call:
						if op, ok := classifyLockOp(x.Common(), recv); ok && op.id == id {
							if op.kind == "lock" {
								s.held = true
							} else if op.kind == "unlock" {
								s.held = false
							}
						}
					case *ssa.Return, *ssa.Panic:
						if s.held && !s.deferred && !bad.IsValid() {
							bad = insn.Pos()
							if !bad.IsValid() {
								bad = fn.Pos()
							}
						}
					}
				}
				for _, nx := range b.Succs {
					old, seen := in[nx]
					j := s
					if seen {
						j = st{old.held || s.held, old.deferred && s.deferred}
					}
					if !seen || j != old {
						in[nx] = j
						work = append(work, nx)
					}
				}
			}
			o := core.Ob{Rule: "R-LOCK", Key: core.FnName(fn) + "#pairing(" + id + ")", Pos: c.P.Pos(fn.Pos()), Func: core.FnName(fn), Armed: !informationalPkg(fn),
				Want: "the mutex " + id + " locked by this method is released on every exit", Status: core.OK}
			if bad.IsValid() {
				o.Status, o.Got, o.Pos = core.Violated, "an exit is reachable with the lock held", c.P.Pos(bad)
			}
			obs = append(obs, o)
		}
	}
	return obs
}

// chanQueuePush: a Push method of a channel-based queue sends only inside a
// non-blocking select.
func (c *Ctx) chanQueuePush() []core.Ob {
	var obs []core.Ob
	for _, fn := range c.Funcs() {
		if fn.Parent() != nil || fn.Signature.Recv() == nil || fn.Name() != "Push" {
			continue
		}
		if _, isChan := deref(fn.Signature.Recv().Type()).Underlying().(*types.Chan); !isChan {
			continue
		}
		o := core.Ob{Rule: "R-LOCK", Key: core.FnName(fn) + "#nonblocking-send", Pos: c.P.Pos(fn.Pos()), Func: core.FnName(fn), Armed: true,
			Want: "the bounded queue refuses when full: the only send is a case of a select with a default clause, and the default path returns false", Status: core.OK}
		sends, nbSel := 0, 0
		for _, b := range fn.Blocks {
			for _, in := range b.Instrs {
				switch x := in.(type) {
				case *ssa.Send:
					sends++
				case *ssa.Select:
					hasSend := false
					for _, s := range x.States {
						if s.Dir == types.SendOnly {
							hasSend = true
						}
					}
					if hasSend {
						if x.Blocking {
							sends++
						} else {
							nbSel++
						}
					}
				}
			}
		}
		if sends > 0 || nbSel == 0 {
			o.Status = core.Violated
			o.Got = fmt.Sprintf("%d blocking send(s), %d non-blocking select send(s)", sends, nbSel)
		}
		// the default path must return the constant false
		if o.Status == core.OK && !returnsBoolConsts(fn) {
			o.Status, o.Got = core.Violated, "Push does not return both true (sent) and false (full)"
		}
		obs = append(obs, o)
	}
	if len(obs) == 0 {
		obs = append(obs, core.Ob{Rule: "R-LOCK", Key: "chanqueue#found", Status: core.Violated, Armed: true, Want: "a channel-based queue with a Push method exists", Got: "none found"})
	}
	return obs
}

func returnsBoolConsts(fn *ssa.Function) bool {
	t, f := false, false
	var visit func(v ssa.Value, d int)
	visit = func(v ssa.Value, d int) {
		if d > 4 {
			return
		}
		switch x := v.(type) {
		case *ssa.Const:
			if x.Value != nil {
				if strings.Contains(x.Value.String(), "true") {
					t = true
				} else {
					f = true
				}
			}
		case *ssa.Phi:
			// pushed := false; select { case c <- v: pushed = true; default: }; return pushed
			for _, e := range x.Edges {
				visit(e, d+1)
			}
		}
	}
	for _, b := range fn.Blocks {
		for _, in := range b.Instrs {
			if r, ok := in.(*ssa.Return); ok && len(r.Results) == 1 {
				visit(r.Results[0], 0)
			}
		}
	}
	return t && f
}

// spilledParam: the parameter that is the only value ever stored into the local cell (nil otherwise).
func spilledParam(al *ssa.Alloc) ssa.Value {
	if al.Referrers() == nil {
		return nil
	}
	var only ssa.Value
	n := 0
	for _, r := range *al.Referrers() {
		if st, ok := r.(*ssa.Store); ok && st.Addr == ssa.Value(al) {
			n++
			only = st.Val
		}
	}
	if n != 1 {
		return nil
	}
	if p, ok := only.(*ssa.Parameter); ok {
		return p
	}
	return nil
}
