package rules

import (
	"fmt"
	"go/constant"
	"go/token"
	"go/types"
	"path/filepath"
	"sort"
	"strings"

	"gmcheck/core"

	"golang.org/x/tools/go/ssa"
)

// PanicSite is one triaged explicit panic (rules/panic_sites.json).
type PanicSite struct {
	Class  string `json:"class"` // P programmer-error guard, A internal assertion, G guarded at call sites
	Reason string `json:"reason"`
}

// isSig reports whether fn is a method `name` whose parameters/results match
// the given type strings.
func methodNamed(fn *ssa.Function, name string) bool {
	return fn.Name() == name && fn.Signature.Recv() != nil
}

func isReaderFromSig(sig *types.Signature) bool {
	if sig.Params().Len() != 1 || sig.Results().Len() != 2 {
		return false
	}
	return sig.Params().At(0).Type().String() == "io.Reader" && sig.Results().At(0).Type().String() == "int64" &&
		sig.Results().At(1).Type().String() == "error"
}

// DecoderRoots: every function of the module that consumes untrusted bytes,
// found by signature (not by a list).
func (c *Ctx) DecoderRoots() []*ssa.Function {
	var roots []*ssa.Function
	for _, fn := range c.Funcs() {
		if fn.Parent() != nil {
			continue
		}
		name := core.FnName(fn)
		switch {
		case methodNamed(fn, "ReadFrom") && isReaderFromSig(fn.Signature),
			methodNamed(fn, "UnmarshalNBT"), methodNamed(fn, "UnmarshalJSON"), methodNamed(fn, "UnmarshalText"),
			name == "net/packet.(*Packet).UnPack", name == "net/packet.(Packet).Scan",
			name == "nbt.(*Decoder).Decode", name == "nbt.Unmarshal", name == "nbt.(RawMessage).String", name == "nbt.(RawMessage).Unmarshal",
			name == "nbt.(StringifiedMessage).MarshalNBT", name == "nbt.(StringifiedMessage).TagType",
			name == "net.(*RCONConn).ReadPacket", name == "save/region.(*Region).ReadSector", name == "save/region.Load",
			name == "server/command.(*Graph).Execute", name == "registry.(*Registry).ReadTagsFrom",
			name == "level.(*Chunk).PutData", name == "level.ChunkFromSave", name == "save.(*Chunk).Load":
			roots = append(roots, fn)
		}
	}
	return roots
}

func panicDesc(p *ssa.Panic) string {
	x := p.X
	if mi, ok := x.(*ssa.MakeInterface); ok {
		x = mi.X
	}
	switch v := x.(type) {
	case *ssa.Const:
		if v.Value != nil && v.Value.Kind() == constant.String {
			s := constant.StringVal(v.Value)
			if len(s) > 48 {
				s = s[:48]
			}
			return fmt.Sprintf("%q", s)
		}
	case *ssa.BinOp:
		if v.Op == token.ADD {
			// "prefix" + dynamic
			l := v.X
			for {
				if b, ok := l.(*ssa.BinOp); ok && b.Op == token.ADD {
					l = b.X
					continue
				}
				break
			}
			if k, ok := l.(*ssa.Const); ok && k.Value != nil && k.Value.Kind() == constant.String {
				s := constant.StringVal(k.Value)
				if len(s) > 40 {
					s = s[:40]
				}
				return fmt.Sprintf("%q+...", s)
			}
		}
	}
	t := x.Type().String()
	if i := strings.LastIndex(t, "/"); i >= 0 {
		t = t[i+1:]
	}
	return "<" + t + ">"
}

// Panics implements the explicit-panic part of R-PANIC: every panic statement
// reachable from the roots must be triaged in rules/panic_sites.json.
func (c *Ctx) Panics(verif string, roots []*ssa.Function, include, armed func(*ssa.Function) bool) []core.Ob {
	var table map[string]PanicSite
	_ = core.ReadJSON(filepath.Join(verif, "rules", "panic_sites.json"), &table)
	var inst []*ssa.Function
	for _, r := range roots {
		inst = append(inst, c.instancesOf(r)...)
	}
	reach := c.Reach(inst, nil)
	byOrigin := map[*ssa.Function][]*ssa.Function{}
	for f, chain := range reach {
		o := core.Origin(f)
		if old, ok := byOrigin[o]; !ok || len(chain) < len(old) {
			byOrigin[o] = chain
		}
	}
	// closures of reachable functions are reachable too (MakeClosure edges are
	// in the call graph only when called; be conservative)
	var fns []*ssa.Function
	for f := range byOrigin {
		fns = append(fns, f)
	}
	sort.Slice(fns, func(i, j int) bool { return core.FnName(fns[i]) < core.FnName(fns[j]) })
	c.Notes = append(c.Notes, fmt.Sprintf("R-PANIC: %d roots, %d module functions reachable", len(roots), len(fns)))
	var obs []core.Ob
	type site struct {
		ob       core.Ob
		fn, desc string
		matched  bool
	}
	var sites []*site
	for _, fn := range fns {
		if !include(fn) || len(fn.Blocks) == 0 {
			continue
		}
		cnt := map[string]int{}
		for _, b := range fn.Blocks {
			for _, in := range b.Instrs {
				p, ok := in.(*ssa.Panic)
				if !ok {
					continue
				}
				d := panicDesc(p)
				cnt[d]++
				key := fmt.Sprintf("%s#panic(%s)", core.FnName(fn), d)
				if cnt[d] > 1 {
					key = fmt.Sprintf("%s#%d", key, cnt[d])
				}
				ob := core.Ob{Rule: "R-PANIC", Key: key, Pos: c.P.Pos(p.Pos()), Func: core.FnName(fn), Armed: armed(fn),
					Want: "an explicit panic reachable from a decoder of untrusted bytes is triaged (programmer-error guard / internal assertion / guarded precondition)",
					Path: chainString(byOrigin[fn])}
				ob.Status = core.Violated
				ob.Got = "untriaged panic reachable from " + core.FnName(byOrigin[fn][0])
				sites = append(sites, &site{ob: ob, fn: core.FnName(fn), desc: d})
			}
		}
	}
	// triage. (1) exact site key. (2) a triaged site whose function was renamed, or whose panic was
	// moved into a helper of the same package, is recognised by package + panic value; one whose
	// panic value was reworded by its function. Only table entries whose own site no longer exists
	// anywhere in the program take part in (2), each at most once, so a panic that is added next to
	// the triaged ones is still reported.
	used := map[string]bool{}
	take := func(st *site, k string) {
		e := table[k]
		st.matched, used[k] = true, true
		st.ob.Status = core.Allowed
		st.ob.Reason = "class " + e.Class + ": " + e.Reason
		if k != st.ob.Key {
			st.ob.Reason += " (triaged as " + k + ")"
		}
		st.ob.Got = st.ob.Reason
	}
	for _, st := range sites {
		if _, ok := table[st.ob.Key]; ok {
			take(st, st.ob.Key)
		}
	}
	// all panic sites of the module (not only the reachable ones) decide whether an entry is orphaned
	exists := map[string]bool{}
	for _, fn := range c.Funcs() {
		cnt := map[string]int{}
		for _, b := range fn.Blocks {
			for _, in := range b.Instrs {
				if p, ok := in.(*ssa.Panic); ok {
					d := panicDesc(p)
					cnt[d]++
					k := fmt.Sprintf("%s#panic(%s)", core.FnName(fn), d)
					if cnt[d] > 1 {
						k = fmt.Sprintf("%s#%d", k, cnt[d])
					}
					exists[k] = true
				}
			}
		}
	}
	var orphans []string
	for k := range table {
		if !used[k] && !exists[k] {
			orphans = append(orphans, k)
		}
	}
	sort.Strings(orphans)
	split := func(k string) (fn, desc string) {
		i := strings.Index(k, "#panic(")
		if i < 0 {
			return k, ""
		}
		d := k[i+len("#panic("):]
		if j := strings.LastIndex(d, ")"); j >= 0 {
			d = d[:j]
		}
		return k[:i], d
	}
	pkgOf := func(fn string) string {
		if i := strings.Index(fn, ".("); i >= 0 {
			return fn[:i]
		}
		if i := strings.LastIndex(fn, "."); i >= 0 {
			return fn[:i]
		}
		return fn
	}
	// pass 2: moved into a helper of the same package *and* reworded (the message is built elsewhere)
	for pass := 0; pass < 3; pass++ {
		for _, st := range sites {
			if st.matched {
				continue
			}
			for _, k := range orphans {
				if used[k] {
					continue
				}
				efn, edesc := split(k)
				if (pass == 0 && pkgOf(efn) == pkgOf(st.fn) && edesc == st.desc) || (pass == 1 && efn == st.fn) || (pass == 2 && pkgOf(efn) == pkgOf(st.fn)) {
					take(st, k)
					break
				}
			}
		}
	}
	for _, st := range sites {
		obs = append(obs, st.ob)
	}
	return obs
}

// FuncFieldCalls: a call through a func-typed struct field must be dominated
// by a non-nil test of that field (R-PANIC, nil handler clause).
func (c *Ctx) FuncFieldCalls(include, armed func(*ssa.Function) bool) []core.Ob {
	var obs []core.Ob
	for _, fn := range c.Funcs() {
		if !include(fn) {
			continue
		}
		k := 0
		for _, b := range fn.Blocks {
			for _, in := range b.Instrs {
				call, ok := in.(ssa.CallInstruction)
				if !ok {
					continue
				}
				cc := call.Common()
				if cc.IsInvoke() {
					continue
				}
				ld, ok := cc.Value.(*ssa.UnOp)
				if !ok || ld.Op != token.MUL {
					continue
				}
				fa, ok := ld.X.(*ssa.FieldAddr)
				if !ok {
					continue
				}
				if _, isFn := ld.Type().Underlying().(*types.Signature); !isFn {
					continue
				}
				st, _ := deref(fa.X.Type()).Underlying().(*types.Struct)
				if st == nil || !st.Field(fa.Field).Exported() {
					// unexported func fields are initialised by the package itself
					continue
				}
				k++
				fname := st.Field(fa.Field).Name()
				ob := core.Ob{Rule: "R-PANIC", Key: fmt.Sprintf("%s#call-field(%s)%d", core.FnName(fn), fname, k), Pos: c.P.Pos(in.Pos()),
					Func: core.FnName(fn), Armed: armed(fn), Want: "a call through the func-typed field " + fname + " is dominated by a non-nil test of that field"}
				if nilGuarded(fn, b, fa) {
					ob.Status = core.OK
					ob.Got = "guarded by a dominating != nil test"
				} else {
					ob.Status = core.Violated
					ob.Got = "no dominating nil test: a nil handler panics"
				}
				obs = append(obs, ob)
			}
		}
	}
	return obs
}

// sameFieldAddr: two FieldAddr instructions denote the same field of the same base value.
func sameFieldAddr(a, b *ssa.FieldAddr) bool {
	if a.Field != b.Field {
		return false
	}
	return sameValue(a.X, b.X)
}

func sameValue(a, b ssa.Value) bool {
	if a == b {
		return true
	}
	switch x := a.(type) {
	case *ssa.UnOp:
		y, ok := b.(*ssa.UnOp)
		return ok && x.Op == y.Op && sameValue(x.X, y.X)
	case *ssa.FieldAddr:
		y, ok := b.(*ssa.FieldAddr)
		return ok && sameFieldAddr(x, y)
	case *ssa.Phi:
		// loop-carried variable: same phi only
		return false
	}
	return false
}

func nilGuarded(fn *ssa.Function, at *ssa.BasicBlock, fa *ssa.FieldAddr) bool {
	for _, b := range fn.Blocks {
		if len(b.Instrs) == 0 {
			continue
		}
		iff, ok := b.Instrs[len(b.Instrs)-1].(*ssa.If)
		if !ok {
			continue
		}
		cmp, ok := iff.Cond.(*ssa.BinOp)
		if !ok || (cmp.Op != token.NEQ && cmp.Op != token.EQL) {
			continue
		}
		var other ssa.Value
		var ld *ssa.UnOp
		if u, ok := cmp.X.(*ssa.UnOp); ok && u.Op == token.MUL {
			ld, other = u, cmp.Y
		} else if u, ok := cmp.Y.(*ssa.UnOp); ok && u.Op == token.MUL {
			ld, other = u, cmp.X
		}
		if ld == nil {
			continue
		}
		k, ok := other.(*ssa.Const)
		if !ok || !k.IsNil() {
			continue
		}
		fa2, ok := ld.X.(*ssa.FieldAddr)
		if !ok || !sameFieldAddr(fa, fa2) {
			continue
		}
		nonNil := b.Succs[0]
		if cmp.Op == token.EQL {
			nonNil = b.Succs[1]
		}
		// the non-nil successor must dominate the call and must not be reachable from the nil edge only
		if nonNil.Dominates(at) && len(nonNil.Preds) == 1 {
			return true
		}
	}
	return false
}

// GuardedCalls implements class G of R-PANIC: the callee states a precondition
// on the length of a slice argument as a panic; every call on a path from a
// network decoder root must pass nil or be dominated by a comparison of
// len(<that argument>) whose failing edge leaves the function.
func (c *Ctx) GuardedCalls(callee string, argIdx int, roots []*ssa.Function, include, armed func(*ssa.Function) bool) []core.Ob {
	target := c.Fn(callee)
	if target == nil {
		return []core.Ob{{Rule: "R-PANIC", Key: "guarded-callee:" + callee, Status: core.Violated, Armed: true,
			Want: "helper with a panicking precondition is found", Got: "not found"}}
	}
	var inst []*ssa.Function
	for _, r := range roots {
		inst = append(inst, c.instancesOf(r)...)
	}
	reach := c.Reach(inst, nil)
	seen := map[*ssa.Function]bool{}
	var obs []core.Ob
	var fns []*ssa.Function
	for f := range reach {
		o := core.Origin(f)
		if !seen[o] {
			seen[o] = true
			fns = append(fns, o)
		}
	}
	sort.Slice(fns, func(i, j int) bool { return core.FnName(fns[i]) < core.FnName(fns[j]) })
	for _, fn := range fns {
		if !include(fn) {
			continue
		}
		k := 0
		for _, b := range fn.Blocks {
			for _, in := range b.Instrs {
				call, ok := in.(*ssa.Call)
				if !ok {
					continue
				}
				sc := call.Common().StaticCallee()
				if sc == nil || core.Origin(sc) != target || argIdx >= len(call.Common().Args) {
					continue
				}
				k++
				arg := call.Common().Args[argIdx]
				ob := core.Ob{Rule: "R-PANIC", Key: fmt.Sprintf("%s#guarded-call(%s)%d", core.FnName(fn), target.Name(), k), Pos: c.P.Pos(call.Pos()),
					Func: core.FnName(fn), Armed: armed(fn),
					Want: fmt.Sprintf("argument %d of %s is nil or its length is compared (with an error exit) before the call: the helper panics on a length mismatch", argIdx, callee)}
				switch {
				case isNilConst(arg):
					ob.Status, ob.Got = core.OK, "nil argument"
				case lenGuarded(fn, b, arg):
					ob.Status, ob.Got = core.OK, "dominated by a len() comparison with an exit on mismatch"
				case c.guardedAtCallers(fn, arg, 0, func(f *ssa.Function) bool { return seen[core.Origin(f)] }):
					ob.Status, ob.Got = core.OK, "the enclosing unexported wrapper passes its own parameter on; every call site of the wrapper passes nil or a length-checked slice"
				default:
					ob.Status, ob.Got = core.Violated, "peer-sized slice passed without a length check: mismatch panics in "+callee
				}
				obs = append(obs, ob)
			}
		}
	}
	return obs
}

func isNilConst(v ssa.Value) bool {
	k, ok := v.(*ssa.Const)
	return ok && k.IsNil()
}

// lenGuarded: on every path from the entry to `at`, either a comparison of
// len(arg) was passed on its non-exiting edge (the other edge leaves the
// function), or arg was found to be nil. Must-dataflow over the CFG.
func lenGuarded(fn *ssa.Function, at *ssa.BasicBlock, arg ssa.Value) bool {
	establishes := func(b *ssa.BasicBlock, i int) bool {
		if len(b.Instrs) == 0 {
			return false
		}
		iff, ok := b.Instrs[len(b.Instrs)-1].(*ssa.If)
		if !ok {
			return false
		}
		cmp, ok := iff.Cond.(*ssa.BinOp)
		if !ok {
			return false
		}
		switch cmp.Op {
		case token.EQL, token.NEQ, token.LSS, token.GTR, token.LEQ, token.GEQ:
		default:
			return false
		}
		// err := check(arg, ...); if err != nil { exit }: the nil-error edge of a helper that
		// returns a nil error only for a nil or length-checked slice
		if cmp.Op == token.EQL || cmp.Op == token.NEQ {
			ev, other := cmp.X, cmp.Y
			if isNilConst(ev) {
				ev, other = other, ev
			}
			if hc, isCall := ev.(*ssa.Call); isCall && isNilConst(other) && isErrorType(hc.Type()) {
				if sc := hc.Common().StaticCallee(); sc != nil && !hc.Common().IsInvoke() {
					nilEdge := 0
					if cmp.Op == token.NEQ {
						nilEdge = 1
					}
					for j, a := range hc.Common().Args {
						if sameValue(a, arg) && i == nilEdge && lenChecker(sc, j, 0) {
							return true
						}
						// check(len(arg), want): a helper that returns nil only when the two numbers are equal
						if isLenOf(a, arg) && i == nilEdge && eqChecker(sc, j) {
							return true
						}
					}
				}
			}
		}
		if isLenOf(cmp.X, arg) || isLenOf(cmp.Y, arg) {
			return exitsWithout(b.Succs[1-i], at)
		}
		// arg == nil on this edge
		if cmp.Op == token.EQL || cmp.Op == token.NEQ {
			var other ssa.Value
			if sameValue(cmp.X, arg) {
				other = cmp.Y
			} else if sameValue(cmp.Y, arg) {
				other = cmp.X
			}
			if other != nil && isNilConst(other) {
				nilEdge := 0
				if cmp.Op == token.NEQ {
					nilEdge = 1
				}
				return i == nilEdge
			}
		}
		return false
	}
	in := map[*ssa.BasicBlock]bool{}
	for _, b := range fn.Blocks {
		in[b] = true
	}
	in[fn.Blocks[0]] = false
	for changed := true; changed; {
		changed = false
		for _, b := range fn.Blocks[1:] {
			v := len(b.Preds) > 0
			for _, p := range b.Preds {
				idx := 0
				for k, s := range p.Succs {
					if s == b {
						idx = k
					}
				}
				if !(in[p] || establishes(p, idx)) {
					v = false
				}
			}
			if v != in[b] {
				in[b] = v
				changed = true
			}
		}
	}
	return in[at]
}

// lenChecker: g returns a nil error only when its j-th parameter is nil or has
// had its length compared (every return that may yield nil is so guarded).
func lenChecker(g *ssa.Function, j, depth int) bool {
	if depth > 2 || len(g.Blocks) == 0 || j >= len(g.Params) || g.Signature.Results().Len() != 1 {
		return false
	}
	n := 0
	for _, b := range g.Blocks {
		for _, in := range b.Instrs {
			r, ok := in.(*ssa.Return)
			if !ok || len(r.Results) != 1 {
				continue
			}
			switch x := r.Results[0].(type) {
			case *ssa.MakeInterface:
				continue // a concrete error value: never nil
			case *ssa.Call:
				if nm := calleeName(x.Common()); nm == "errors.New" || nm == "fmt.Errorf" {
					continue
				}
			}
			n++
			if !lenGuarded(g, b, g.Params[j]) {
				return false
			}
		}
	}
	return n > 0
}

// eqChecker: g returns a nil error only when its j-th (integer) parameter has
// been compared with another value and found equal (checkLen(got, want) error).
func eqChecker(g *ssa.Function, j int) bool {
	if len(g.Blocks) == 0 || j >= len(g.Params) || g.Signature.Results().Len() != 1 || !isErrorType(g.Signature.Results().At(0).Type()) {
		return false
	}
	p := ssa.Value(g.Params[j])
	var eqEdges []*ssa.BasicBlock
	for _, b := range g.Blocks {
		if len(b.Instrs) == 0 {
			continue
		}
		iff, ok := b.Instrs[len(b.Instrs)-1].(*ssa.If)
		if !ok {
			continue
		}
		cmp, ok := iff.Cond.(*ssa.BinOp)
		if !ok || (cmp.Op != token.EQL && cmp.Op != token.NEQ) || (stripConv(cmp.X) != p && stripConv(cmp.Y) != p) {
			continue
		}
		eq := b.Succs[0]
		if cmp.Op == token.NEQ {
			eq = b.Succs[1]
		}
		eqEdges = append(eqEdges, eq)
	}
	if len(eqEdges) == 0 {
		return false
	}
	n := 0
	for _, b := range g.Blocks {
		for _, in := range b.Instrs {
			r, ok := in.(*ssa.Return)
			if !ok || len(r.Results) != 1 {
				continue
			}
			switch x := r.Results[0].(type) {
			case *ssa.MakeInterface:
				continue
			case *ssa.Call:
				if nm := calleeName(x.Common()); nm == "errors.New" || nm == "fmt.Errorf" {
					continue
				}
			}
			n++
			ok = false
			for _, e := range eqEdges {
				if e == b || (len(e.Preds) == 1 && e.Dominates(b)) {
					ok = true
				}
			}
			if !ok {
				return false
			}
		}
	}
	return n > 0
}

func isLenOf(v ssa.Value, arg ssa.Value) bool {
	for {
		switch x := v.(type) {
		case *ssa.Convert:
			v = x.X
			continue
		case *ssa.ChangeType:
			v = x.X
			continue
		}
		break
	}
	call, ok := v.(*ssa.Call)
	if !ok {
		return false
	}
	b, ok := call.Common().Value.(*ssa.Builtin)
	if !ok || b.Name() != "len" {
		return false
	}
	return sameValue(call.Common().Args[0], arg)
}

// exitsWithout: every path from s ends in return/panic without passing `at`.
func exitsWithout(s, at *ssa.BasicBlock) bool {
	seen := map[*ssa.BasicBlock]bool{}
	var walk func(b *ssa.BasicBlock) bool
	walk = func(b *ssa.BasicBlock) bool {
		if b == at {
			return false
		}
		if seen[b] {
			return true
		}
		seen[b] = true
		if len(b.Succs) == 0 {
			return true
		}
		for _, n := range b.Succs {
			if !walk(n) {
				return false
			}
		}
		return true
	}
	return walk(s)
}

// NetworkRoots: decoder roots fed by a network peer (save-file readers excluded).
func (c *Ctx) NetworkRoots() []*ssa.Function {
	var out []*ssa.Function
	for _, r := range c.DecoderRoots() {
		n := core.FnName(r)
		if inPkgs(r, "save/...") || n == "level.ChunkFromSave" {
			continue
		}
		out = append(out, r)
	}
	return out
}

// guardedAtCallers: arg is a parameter of the unexported function fn, and at every call site of fn
// in the module the corresponding argument is nil, length-guarded there, or again such a parameter.
func (c *Ctx) guardedAtCallers(fn *ssa.Function, arg ssa.Value, depth int, inScope func(*ssa.Function) bool) bool {
	p, ok := arg.(*ssa.Parameter)
	if !ok || depth > 2 {
		return false
	}
	if obj := fn.Object(); fn.Parent() == nil && obj != nil && obj.Exported() {
		return false
	}
	idx := -1
	for i, q := range fn.Params {
		if q == p {
			idx = i
		}
	}
	node := c.P.CallGraph().Nodes[fn]
	if idx < 0 || node == nil {
		return false
	}
	n := 0
	for _, e := range node.In {
		if e.Site == nil || e.Caller == nil || e.Caller.Func == nil || !c.P.InModule(e.Caller.Func) {
			continue
		}
		if !inScope(e.Caller.Func) {
			continue // a caller that is not on a path from the untrusted-input roots
		}
		if e.Site.Common().StaticCallee() != fn {
			return false // reached through a function value: call sites unknown
		}
		args := e.Site.Common().Args
		if idx >= len(args) {
			return false
		}
		n++
		a := args[idx]
		caller := e.Caller.Func
		if isNilConst(a) || lenGuarded(caller, e.Site.Block(), a) || c.guardedAtCallers(caller, a, depth+1, inScope) {
			continue
		}
		return false
	}
	return n > 0
}
