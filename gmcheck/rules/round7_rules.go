package rules

// Rules added after the second pass over the defects the hunt had reported (DESIGN.md 8.12).

import (
	"fmt"
	"go/constant"
	"go/token"
	"go/types"
	"math/big"
	"sort"
	"strings"

	"gmcheck/core"

	"golang.org/x/tools/go/ssa"
)

// ---------------------------------------------------------------------------
// R-UNKTAG[list-element-tag]: "an unknown tag id is an error". A list header
// carries the tag of its elements; the decoders hand it to their dispatcher
// once per element, and the dispatcher refuses what it does not know. With no
// element the dispatcher is never asked: the header reader itself has to
// refuse the tag. Decided with a case split of R-TLG: with the tag assumed to
// lie above the largest Tag* constant of package nbt, no path from the place
// it is read leaves without an error.

func (c *Ctx) UnknownListTagRefused(pkgs ...string) []core.Ob {
	var obs []core.Ob
	maxTag := c.maxTagConst()
	if maxTag <= 0 {
		return []core.Ob{{Rule: "R-UNKTAG", Key: "tag-constants", Armed: true, Status: core.Violated,
			Want: "package nbt declares its tags as byte constants Tag*", Got: "none found"}}
	}
	fns := []*ssa.Function{}
	for _, fn := range c.Funcs() {
		if inPkgs(fn, pkgs...) && len(fn.Blocks) > 0 {
			fns = append(fns, fn)
		}
	}
	sortFns(fns)
	for _, fn := range fns {
		k := 0
		seen := map[ssa.Value]bool{}
		for _, lp := range naturalLoops(fn) {
			var blocks []*ssa.BasicBlock
			for b := range lp.body {
				blocks = append(blocks, b)
			}
			sort.Slice(blocks, func(i, j int) bool { return blocks[i].Index < blocks[j].Index })
			for _, b := range blocks {
				for _, in := range b.Instrs {
					ci, ok := in.(ssa.CallInstruction)
					if !ok {
						continue
					}
					g := ci.Common().StaticCallee()
					if g == nil || !inPkgs(g, pkgs...) {
						continue
					}
					args := ci.Common().Args
					for ai, arg := range args {
						tag := stripConv(arg)
						if seen[tag] || !isByteType(tag.Type()) || !wireByte(tag) {
							continue
						}
						tin, ok := tag.(ssa.Instruction)
						if !ok || lp.body[tin.Block()] || !tin.Block().Dominates(lp.header) {
							continue
						}
						if !c.tagDispatcherParam(core.Origin(g), ai, 0) {
							continue
						}
						seen[tag] = true
						k++
						obs = append(obs, c.unknownTagOb(fn, tag, tin, ci, k, maxTag))
					}
				}
			}
		}
	}
	return obs
}

func isByteType(t types.Type) bool {
	b, ok := t.Underlying().(*types.Basic)
	return ok && (b.Kind() == types.Uint8 || b.Kind() == types.Int8)
}

// wireByte: the value is what a call handed back (a byte read from the input), not a constant, a parameter or arithmetic.
func wireByte(v ssa.Value) bool {
	switch x := v.(type) {
	case *ssa.Extract:
		_, ok := x.Tuple.(*ssa.Call)
		return ok
	case *ssa.Call:
		return true
	case *ssa.Index, *ssa.UnOp:
		return true
	}
	return false
}

// maxTagConst: the largest of the byte constants Tag* of package nbt.
func (c *Ctx) maxTagConst() int64 {
	max := int64(-1)
	for _, p := range c.P.SSA.AllPackages() {
		if p.Pkg == nil || !strings.HasSuffix(p.Pkg.Path(), "/nbt") {
			continue
		}
		sc := p.Pkg.Scope()
		for _, n := range sc.Names() {
			k, ok := sc.Lookup(n).(*types.Const)
			if !ok || !strings.HasPrefix(n, "Tag") || !isByteType(k.Type()) {
				continue
			}
			if v, ok := constant.Int64Val(k.Val()); ok && v > max {
				max = v
			}
		}
	}
	return max
}

// tagDispatcherParam: parameter i of fn (counted over the call's arguments, receiver first) is
// compared with at least four different constants (the switch over the tag), here or in a function
// it is handed on to.
func (c *Ctx) tagDispatcherParam(fn *ssa.Function, ai int, depth int) bool {
	if fn == nil || depth > 2 || ai >= len(fn.Params) || len(fn.Blocks) == 0 {
		return false
	}
	p := fn.Params[ai]
	consts := map[int64]bool{}
	var visit func(v ssa.Value, d int) bool
	visit = func(v ssa.Value, d int) bool {
		if v.Referrers() == nil || d > 2 {
			return false
		}
		for _, r := range *v.Referrers() {
			switch x := r.(type) {
			case *ssa.BinOp:
				if x.Op == token.EQL || x.Op == token.NEQ {
					other := x.Y
					if other == v {
						other = x.X
					}
					if k, ok := constIntVal(other); ok {
						consts[k] = true
					}
				}
			case *ssa.Convert:
				if visit(x, d+1) {
					return true
				}
			case *ssa.ChangeType:
				if visit(x, d+1) {
					return true
				}
			case ssa.CallInstruction:
				if g := x.Common().StaticCallee(); g != nil {
					for j, a := range x.Common().Args {
						if a == v && c.tagDispatcherParam(core.Origin(g), j, depth+1) {
							return true
						}
					}
				}
			}
		}
		return len(consts) >= 4
	}
	return visit(p, 0)
}

func (c *Ctx) unknownTagOb(fn *ssa.Function, tag ssa.Value, tin ssa.Instruction, use ssa.CallInstruction, k int, maxTag int64) core.Ob {
	o := core.Ob{Rule: "R-UNKTAG", Key: fmt.Sprintf("list-element-tag:%s#%d", core.FnName(fn), k), Pos: c.P.Pos(use.Pos()), Func: core.FnName(fn), Armed: true, Status: core.OK,
		Want: fmt.Sprintf("the element tag of a list header is refused when it is no tag (> %d) on every path, also the one that decodes no element", maxTag)}
	t := c.TLG()
	// read through a helper of the module that already refuses it: its ok-exit interval says so
	if ex, ok := tag.(*ssa.Extract); ok {
		if call, ok := ex.Tuple.(*ssa.Call); ok {
			if g := call.Call.StaticCallee(); g != nil {
				if rs := t.retOK[core.Origin(g)]; ex.Index < len(rs) {
					if hi := avUpper(rs[ex.Index]); hi != nil && hi.IsInt64() && hi.Int64() <= maxTag {
						o.Got = "refused by the helper that reads it: " + core.FnName(g)
						return o
					}
				}
			}
		}
	}
	region := func(b *ssa.BasicBlock) bool { return tin.Block().Dominates(b) }
	type leave struct {
		pos  token.Pos
		what string
	}
	var leaves []leave
	okReturn := map[*ssa.Return]bool{}
	visited := map[*ssa.BasicBlock]bool{}
	t.ProbeAssume(fn, tag, AV{P: ivOf(maxTag+1, 255)}, func(in ssa.Instruction, _ func(ssa.Value) AV, _ func(string) (AV, bool)) {
		visited[in.Block()] = true
		ret, ok := in.(*ssa.Return)
		if !ok || !region(in.Block()) {
			return
		}
		n := len(ret.Results)
		if n == 0 || !isErrorType(ret.Results[n-1].Type()) || !t.ProbeErrNonNil(ret.Results[n-1]) {
			okReturn[ret] = true
		}
	})
	feas := t.lastFeas
	for _, b := range fn.Blocks {
		if !visited[b] || !region(b) {
			continue
		}
		if len(b.Instrs) > 0 {
			if ret, ok := b.Instrs[len(b.Instrs)-1].(*ssa.Return); ok && okReturn[ret] {
				leaves = append(leaves, leave{ret.Pos(), "returns without an error"})
			}
		}
		for _, s := range b.Succs {
			if region(s) {
				continue
			}
			if pi := predIndex(s, b); pi >= 0 && feas[s][pi] {
				pos := token.NoPos
				if len(b.Instrs) > 0 {
					pos = b.Instrs[len(b.Instrs)-1].Pos()
				}
				leaves = append(leaves, leave{pos, "goes on behind the list"})
			}
		}
	}
	if len(leaves) > 0 {
		o.Status = core.Violated
		o.Got = fmt.Sprintf("with the element tag assumed in %d..255 the code %s (%d such exits; the dispatcher is only asked per element): an empty list with an unknown element tag is accepted", maxTag+1, leaves[0].what, len(leaves))
		if leaves[0].pos.IsValid() {
			o.Pos = c.P.Pos(leaves[0].pos)
		}
	}
	return o
}

// avUpper: the largest value the abstract value admits; nil when unbounded or empty.
func avUpper(a AV) *big.Int {
	all := a.all()
	if all == nil || all.Hi == nil {
		return nil
	}
	return all.Hi
}

// ---------------------------------------------------------------------------
// T-REGIDX[single-clock]: "the timestamps a fresh Load returns equal those held
// in memory". A write stamps the chunk twice: into the header sector of the
// file and into Region.Timestamps. Where the stamp stored in memory is read
// from the clock in the function that stores it, every stamp the same function
// hands to the package's writers comes from that same clock read: two reads
// straddle a second boundary now and then, and file and memory disagree.

func (c *Ctx) RegionSingleClock(pkg string) []core.Ob {
	var obs []core.Ob
	fns := []*ssa.Function{}
	for _, fn := range c.Funcs() {
		if inPkgs(fn, pkg) && len(fn.Blocks) > 0 {
			fns = append(fns, fn)
		}
	}
	sortFns(fns)
	judged := 0
	for _, fn := range fns {
		var memRoot ssa.Value
		var memPos token.Pos
		for _, b := range fn.Blocks {
			for _, in := range b.Instrs {
				st, ok := in.(*ssa.Store)
				if !ok || !addrUnderField(st.Addr, "Timestamps") {
					continue
				}
				if r := c.clockRoot(st.Val, 0); r != nil {
					memRoot, memPos = r, st.Pos()
				}
			}
		}
		if memRoot == nil {
			continue
		}
		judged++
		o := core.Ob{Rule: "T-REGIDX", Key: "single-clock:" + core.FnName(fn), Pos: c.P.Pos(memPos), Func: core.FnName(fn), Armed: true, Status: core.OK,
			Want: "the time stamp kept in Region.Timestamps and the one handed to the header writer come from one reading of the clock"}
		for _, b := range fn.Blocks {
			for _, in := range b.Instrs {
				ci, ok := in.(ssa.CallInstruction)
				if !ok {
					continue
				}
				g := ci.Common().StaticCallee()
				if g != nil && !inPkgs(g, pkg) && !ioWriteCallee(ci.Common()) {
					continue
				}
				for _, a := range ci.Common().Args {
					if r := c.clockRoot(a, 0); r != nil && r != memRoot {
						o.Status, o.Pos = core.Violated, c.P.Pos(ci.Pos())
						o.Got = "the stamp handed to " + calleeName(ci.Common()) + " is a second reading of the clock (" + c.P.Pos(r.Pos()) + "); the one stored in memory was read at " + c.P.Pos(memRoot.Pos()) + ": across a second boundary the header on disk and Region.Timestamps differ"
					}
				}
			}
		}
		obs = append(obs, o)
	}
	if judged == 0 {
		obs = append(obs, core.Ob{Rule: "T-REGIDX", Key: "single-clock", Armed: true, Status: core.OK,
			Want: "the time stamp kept in Region.Timestamps and the one written to the file come from one reading of the clock",
			Got:  "no function stores a clock reading into Region.Timestamps itself (the stamp is a parameter where it is stored): nothing to compare"})
	}
	return obs
}

// addrUnderField: the address is (an element of an element of ...) the struct field called name.
func addrUnderField(addr ssa.Value, name string) bool {
	for i := 0; i < 4; i++ {
		switch x := addr.(type) {
		case *ssa.IndexAddr:
			addr = x.X
		case *ssa.FieldAddr:
			st, ok := deref(x.X.Type()).Underlying().(*types.Struct)
			return ok && x.Field < st.NumFields() && st.Field(x.Field).Name() == name
		default:
			return false
		}
	}
	return false
}

// clockRoot: v is (a conversion of, arithmetic on) what time.Now() said, directly or through a
// helper of the module that returns nothing else; the call that read the clock in this function.
func (c *Ctx) clockRoot(v ssa.Value, depth int) ssa.Value {
	if depth > 6 {
		return nil
	}
	switch x := v.(type) {
	case *ssa.Convert:
		return c.clockRoot(x.X, depth+1)
	case *ssa.ChangeType:
		return c.clockRoot(x.X, depth+1)
	case *ssa.BinOp:
		if r := c.clockRoot(x.X, depth+1); r != nil {
			return r
		}
		return c.clockRoot(x.Y, depth+1)
	case *ssa.Call:
		name := calleeName(x.Common())
		if name == "time.Now" {
			return x
		}
		if strings.HasPrefix(name, "time.(Time).") && len(x.Call.Args) > 0 {
			return c.clockRoot(x.Call.Args[0], depth+1)
		}
		if g := x.Call.StaticCallee(); g != nil && len(g.Blocks) > 0 && core.FnPkg(g) != nil && c.clockHelper(core.Origin(g), 0) {
			return x
		}
	}
	return nil
}

// clockHelper: every return of fn hands back a clock reading.
func (c *Ctx) clockHelper(fn *ssa.Function, depth int) bool {
	if depth > 2 || fn.Signature.Results().Len() != 1 {
		return false
	}
	n := 0
	for _, b := range fn.Blocks {
		for _, in := range b.Instrs {
			if ret, ok := in.(*ssa.Return); ok {
				n++
				if len(ret.Results) != 1 || c.clockRoot(ret.Results[0], 3+depth) == nil {
					return false
				}
			}
		}
	}
	return n > 0
}

func ioWriteCallee(cc *ssa.CallCommon) bool {
	n := calleeName(cc)
	if n == "encoding/binary.Write" {
		return true
	}
	if cc.IsInvoke() {
		switch cc.Method.Name() {
		case "Write", "WriteAt":
			return true
		}
	}
	return false
}

// ---------------------------------------------------------------------------
// R-TLG-MAX[id-counts]: "the protocol maximum of 2 MiB for id plus payload".
// The frame readers of net/packet read the frame length L, (with compression:
// the data length D,) then the id, and size the payload from what is left. A
// maximum compared only with what is left lets L - len(id) <= max through:
// frames up to five bytes over the maximum. Decided with case splits of R-TLG
// on the values read from the wire:
//   plain frame:       with L assumed above the maximum no exit without an error is feasible;
//   D = 0 (plain inside compression): with the branch D != 0 cut, L assumed above the
//     maximum by more than a VarInt and the byte count of D within one VarInt, the same.
// A reader of another shape (lengths read by a helper) is not judged.

func (c *Ctx) FrameMaximumCountsID() []core.Ob {
	var obs []core.Ob
	max, ok := c.constValue("net/packet", "MaxDataLength")
	if !ok || !max.IsInt64() {
		return nil // frameMaxObs reports the missing constant
	}
	varLen := int64(5)
	if v, ok := c.constValue("net/packet", "MaxVarIntLen"); ok && v.IsInt64() {
		varLen = v.Int64()
	}
	fns := []*ssa.Function{}
	for _, fn := range c.Funcs() {
		if inPkgs(fn, "net/packet") && len(fn.Blocks) > 0 {
			fns = append(fns, fn)
		}
	}
	sortFns(fns)
	judged := 0
	for _, fn := range fns {
		// local VarInts filled by ReadFrom, in the order of their first read
		type rd struct {
			al    *ssa.Alloc
			calls []*ssa.Call
		}
		var reads []*rd
		byAl := map[*ssa.Alloc]*rd{}
		for _, b := range fn.DomPreorder() {
			for _, in := range b.Instrs {
				call, ok := in.(*ssa.Call)
				if !ok || !strings.HasSuffix(calleeName(call.Common()), "net/packet.(VarInt).ReadFrom") || len(call.Call.Args) == 0 {
					continue
				}
				al, ok := call.Call.Args[0].(*ssa.Alloc)
				if !ok {
					continue
				}
				if byAl[al] == nil {
					byAl[al] = &rd{al: al}
					reads = append(reads, byAl[al])
				}
				byAl[al].calls = append(byAl[al].calls, call)
			}
		}
		if len(reads) < 2 || !storesIntoField(fn, "Data") {
			continue
		}
		// the id is the VarInt that ends up in the field ID; the frame length the first one read
		var idAl *ssa.Alloc
		for _, r := range reads {
			if loadFlowsToField(r.al, "ID") {
				idAl = r.al
			}
		}
		if idAl == nil || reads[0].al == idAl {
			continue
		}
		L := reads[0]
		var D *rd
		for _, r := range reads[1:] {
			if r.al != idAl {
				D = r
			}
		}
		judged++
		assume := map[ssa.Value]AV{}
		what := "plain frame"
		over := max.Int64() + 1
		if D != nil {
			what = "data length 0 (plain frame inside compression)"
			over = max.Int64() + varLen + 1
			// cut the branch D != 0
			cut := false
			for _, ld := range loadsOf(D.al) {
				for _, r := range *ld.Referrers() {
					if cmp, ok := r.(*ssa.BinOp); ok && (cmp.Op == token.NEQ || cmp.Op == token.EQL) {
						if k, ok := constIntVal(cmp.Y); ok && k == 0 && cmp.X == ssa.Value(ld) {
							if cmp.Op == token.NEQ {
								assume[cmp] = AV{P: ivOf(0, 0)}
							} else {
								assume[cmp] = AV{P: ivOf(1, 1)}
							}
							cut = true
						}
					}
				}
			}
			if !cut {
				judged--
				continue
			}
			// the byte count of D is within one VarInt (T-VARLEN decides that of the reader)
			for _, call := range D.calls {
				if refs := call.Referrers(); refs != nil {
					for _, r := range *refs {
						if ex, ok := r.(*ssa.Extract); ok && ex.Index == 0 {
							assume[ex] = AV{P: ivOf(0, varLen)}
						}
					}
				}
			}
		}
		for _, ld := range loadsOf(L.al) {
			assume[ld] = AV{P: ivOf(over, 1<<31-1)}
		}
		o := core.Ob{Rule: "R-TLG-MAX", Key: "id-counts:" + core.FnName(fn), Pos: c.P.Pos(L.calls[0].Pos()), Func: core.FnName(fn), Armed: true, Status: core.OK,
			Want: fmt.Sprintf("%s: a frame whose id plus payload exceed MaxDataLength (%d) is refused (with the frame length assumed >= %d no exit without an error is feasible)", what, max.Int64(), over)}
		t := c.TLG()
		var okExit token.Pos
		n := 0
		t.ProbeAssumeAll(fn, assume, func(in ssa.Instruction, _ func(ssa.Value) AV, _ func(string) (AV, bool)) {
			ret, isRet := in.(*ssa.Return)
			if !isRet {
				return
			}
			k := len(ret.Results)
			if k == 0 || !isErrorType(ret.Results[k-1].Type()) || !t.ProbeErrNonNil(ret.Results[k-1]) {
				n++
				okExit = ret.Pos()
			}
		})
		if n > 0 {
			o.Status = core.Violated
			o.Got = "an exit without an error stays feasible: the maximum is compared with what is left after the id only, frames of up to MaxDataLength + len(id) bytes are accepted"
			if okExit.IsValid() {
				o.Pos = c.P.Pos(okExit)
			}
		}
		obs = append(obs, o)
	}
	if judged == 0 {
		obs = append(obs, core.Ob{Rule: "R-TLG-MAX", Key: "id-counts", Armed: true, Status: core.OK,
			Want: "a frame whose id plus payload exceed MaxDataLength is refused",
			Got:  "no frame reader of the recognised shape (frame length and id read into local VarInts in one function): not judged"})
	}
	return obs
}

func loadsOf(al *ssa.Alloc) []*ssa.UnOp {
	var out []*ssa.UnOp
	if al.Referrers() == nil {
		return nil
	}
	for _, r := range *al.Referrers() {
		if ld, ok := r.(*ssa.UnOp); ok && ld.Op == token.MUL && ld.Referrers() != nil {
			out = append(out, ld)
		}
	}
	return out
}

func storesIntoField(fn *ssa.Function, name string) bool {
	for _, b := range fn.Blocks {
		for _, in := range b.Instrs {
			if st, ok := in.(*ssa.Store); ok {
				if fa, ok := st.Addr.(*ssa.FieldAddr); ok {
					if s, ok := deref(fa.X.Type()).Underlying().(*types.Struct); ok && s.Field(fa.Field).Name() == name {
						return true
					}
				}
			}
		}
	}
	return false
}

// loadFlowsToField: a load of the local (through conversions) is stored into the field called name.
func loadFlowsToField(al *ssa.Alloc, name string) bool {
	for _, ld := range loadsOf(al) {
		work := []ssa.Value{ld}
		for d := 0; d < 4 && len(work) > 0; d++ {
			var next []ssa.Value
			for _, v := range work {
				if v.Referrers() == nil {
					continue
				}
				for _, r := range *v.Referrers() {
					switch x := r.(type) {
					case *ssa.Convert:
						next = append(next, x)
					case *ssa.ChangeType:
						next = append(next, x)
					case *ssa.Store:
						if fa, ok := x.Addr.(*ssa.FieldAddr); ok && x.Val == v {
							if s, ok := deref(fa.X.Type()).Underlying().(*types.Struct); ok && s.Field(fa.Field).Name() == name {
								return true
							}
						}
					}
				}
			}
			work = next
		}
	}
	return false
}

// ---------------------------------------------------------------------------
// T-FMTCODE: "rendering ... removes section-sign formatting codes in plain mode".
//  [plain-removes-every-match]: the replacement callback of the formatting-code pattern is
//    asked in two modes by a captured flag of its parent; with the flag false (plain text),
//    every feasible return hands back "" - whatever the pattern matched is removed, whether
//    or not the colour table knows the code (R-TLG case split on the flag).
//  [plain-cleans-string-arguments]: the plain renderer passes the translation arguments to
//    the format; an argument that is a string is cleaned like the text itself (it is
//    type-tested for string and that string goes through the cleaning function).

func (c *Ctx) PlainRenderingRemovesCodes(pkg string) []core.Ob {
	var obs []core.Ob
	fns := []*ssa.Function{}
	for _, fn := range c.Funcs() {
		if inPkgs(fn, pkg) && len(fn.Blocks) > 0 && fn.Parent() == nil {
			fns = append(fns, fn)
		}
	}
	sortFns(fns)
	cleaners := map[*ssa.Function]int{} // the function with the mode flag -> index of the flag parameter
	judged := 0
	for _, fn := range fns {
		for _, b := range fn.Blocks {
			for _, in := range b.Instrs {
				call, ok := in.(*ssa.Call)
				if !ok || !strings.HasSuffix(calleeName(call.Common()), "regexp.(Regexp).ReplaceAllStringFunc") || len(call.Call.Args) < 3 {
					continue
				}
				mc, ok := call.Call.Args[2].(*ssa.MakeClosure)
				if !ok {
					continue
				}
				cl := mc.Fn.(*ssa.Function)
				// the captured flag: a free variable *bool bound to the spill slot of a bool parameter of the parent
				for bi, bnd := range mc.Bindings {
					al, ok := bnd.(*ssa.Alloc)
					if !ok || bi >= len(cl.FreeVars) {
						continue
					}
					if bt, ok := deref(al.Type()).Underlying().(*types.Basic); !ok || bt.Kind() != types.Bool {
						continue
					}
					pi := -1
					if sv := singleStore(al); sv != nil {
						for i, p := range fn.Params {
							if sv == ssa.Value(p) {
								pi = i
							}
						}
					}
					if pi < 0 {
						continue
					}
					cleaners[fn] = pi
					judged++
					o := core.Ob{Rule: "T-FMTCODE", Key: "plain-removes-every-match:" + core.FnName(fn), Pos: c.P.Pos(cl.Pos()), Func: core.FnName(cl), Armed: true, Status: core.OK,
						Want: "with the mode flag " + fn.Params[pi].Name() + " false, the replacement for whatever the formatting-code pattern matched is the empty string on every path"}
					assume := map[ssa.Value]AV{}
					fv := cl.FreeVars[bi]
					if fv.Referrers() != nil {
						for _, r := range *fv.Referrers() {
							if ld, ok := r.(*ssa.UnOp); ok && ld.Op == token.MUL {
								assume[ld] = AV{P: ivOf(0, 0)}
								if ld.Referrers() != nil {
									for _, r2 := range *ld.Referrers() {
										if nt, ok := r2.(*ssa.UnOp); ok && nt.Op == token.NOT {
											assume[nt] = AV{P: ivOf(1, 1)}
										}
									}
								}
							}
						}
					}
					c.TLG().ProbeAssumeAll(cl, assume, func(in ssa.Instruction, _ func(ssa.Value) AV, _ func(string) (AV, bool)) {
						ret, ok := in.(*ssa.Return)
						if !ok || len(ret.Results) != 1 {
							return
						}
						if k, ok := ret.Results[0].(*ssa.Const); ok && k.Value != nil && k.Value.Kind() == constant.String && constant.StringVal(k.Value) == "" {
							return
						}
						o.Status, o.Pos = core.Violated, c.P.Pos(ret.Pos())
						o.Got = "in plain mode a match can be handed back unchanged (a code the table does not list - §k, an upper-case letter - stays in the text)"
					})
					obs = append(obs, o)
				}
			}
		}
	}
	if judged == 0 {
		obs = append(obs, core.Ob{Rule: "T-FMTCODE", Key: "plain-removes-every-match", Armed: true, Status: core.OK,
			Want: "in plain mode every match of the formatting-code pattern is removed",
			Got:  "no replacement callback with a captured mode flag found: not judged"})
		return obs
	}
	// the plain renderers: functions that call a cleaner with the flag false and format the translation arguments
	for _, fn := range fns {
		plain := false
		for _, ci := range callsIn(fn, func(_ string, cc *ssa.CallCommon) bool {
			g := cc.StaticCallee()
			if g == nil {
				return false
			}
			pi, ok := cleaners[core.Origin(g)]
			if !ok || pi >= len(cc.Args) {
				return false
			}
			k, ok := cc.Args[pi].(*ssa.Const)
			return ok && k.Value != nil && k.Value.Kind() == constant.Bool && !constant.BoolVal(k.Value)
		}) {
			_ = ci
			plain = true
		}
		if !plain {
			continue
		}
		// loads of elements of the field With
		var elems []ssa.Value
		for _, b := range fn.Blocks {
			for _, in := range b.Instrs {
				ld, ok := in.(*ssa.UnOp)
				if !ok || ld.Op != token.MUL {
					continue
				}
				ia, ok := ld.X.(*ssa.IndexAddr)
				if !ok {
					continue
				}
				if fieldNameOf(ia.X) == "With" {
					elems = append(elems, ld)
				}
			}
		}
		if len(elems) == 0 {
			continue
		}
		o := core.Ob{Rule: "T-FMTCODE", Key: "plain-cleans-string-arguments:" + core.FnName(fn), Pos: c.P.Pos(fn.Pos()), Func: core.FnName(fn), Armed: true, Status: core.OK,
			Want: "a translation argument that is a string is type-tested for string and cleaned by the function that cleans the text before it is formatted"}
		cleaned := false
		for _, e := range elems {
			if e.Referrers() == nil {
				continue
			}
			for _, r := range *e.Referrers() {
				ta, ok := r.(*ssa.TypeAssert)
				if !ok {
					continue
				}
				if bt, ok := ta.AssertedType.Underlying().(*types.Basic); !ok || bt.Kind() != types.String {
					continue
				}
				// the asserted string reaches a cleaner with the flag false
				var sv ssa.Value = ta
				if ta.CommaOk && ta.Referrers() != nil {
					for _, r2 := range *ta.Referrers() {
						if ex, ok := r2.(*ssa.Extract); ok && ex.Index == 0 {
							sv = ex
						}
					}
				}
				if sv.Referrers() == nil {
					continue
				}
				for _, u := range *sv.Referrers() {
					if call, ok := u.(*ssa.Call); ok {
						if g := call.Call.StaticCallee(); g != nil {
							if _, isCl := cleaners[core.Origin(g)]; isCl {
								cleaned = true
							}
						}
					}
				}
			}
		}
		if !cleaned {
			o.Status = core.Violated
			o.Got = "the arguments are tested for Message only: a string argument with formatting codes is formatted as it is"
		}
		obs = append(obs, o)
	}
	return obs
}

// fieldNameOf: v is (a load of) the struct field called so.
func fieldNameOf(v ssa.Value) string {
	for i := 0; i < 3; i++ {
		switch x := v.(type) {
		case *ssa.UnOp:
			v = x.X
		case *ssa.FieldAddr:
			if s, ok := deref(x.X.Type()).Underlying().(*types.Struct); ok && x.Field < s.NumFields() {
				return s.Field(x.Field).Name()
			}
			return ""
		case *ssa.Field:
			if s, ok := x.X.Type().Underlying().(*types.Struct); ok && x.Field < s.NumFields() {
				return s.Field(x.Field).Name()
			}
			return ""
		default:
			return ""
		}
	}
	return ""
}

// ---------------------------------------------------------------------------
// R-POOL[handler-keeps-buffer]: the bot's game loop takes the buffer of every
// received packet back into its pool as soon as the handlers have returned,
// and the receiving goroutine reads the next packet into it. A handler
// (any function of bot/... with a pk.Packet parameter) that builds a new packet
// around the very same Data slice and hands it to something that keeps it -
// the send queue of bot.Conn - lets the answer be overwritten before it is
// written: it has to copy (pk.Marshal of the scanned fields does).

func (c *Ctx) HandlerKeepsBuffer(pkgs ...string) []core.Ob {
	var obs []core.Ob
	fns := []*ssa.Function{}
	for _, fn := range c.Funcs() {
		if inPkgs(fn, pkgs...) && len(fn.Blocks) > 0 {
			fns = append(fns, fn)
		}
	}
	sortFns(fns)
	for _, fn := range fns {
		for _, p := range fn.Params {
			if !isNamed(p.Type(), core.ModPath+"/net/packet", "Packet") {
				continue
			}
			if _, isPtr := p.Type().(*types.Pointer); isPtr {
				continue
			}
			alias := c.bufferAliases(fn, p)
			if len(alias) == 0 {
				continue
			}
			o := core.Ob{Rule: "R-POOL", Key: core.FnName(fn) + "#handler-keeps-buffer:" + p.Name(), Pos: c.P.Pos(fn.Pos()), Func: core.FnName(fn), Armed: true, Status: core.OK,
				Want: "the Data slice of the received packet " + p.Name() + " (pooled: recycled when the handler returns) is not put into a packet that is queued, nor stored away; answers are built from copies"}
			for _, b := range fn.Blocks {
				for _, in := range b.Instrs {
					switch x := in.(type) {
					case *ssa.Store:
						if !alias[x.Val] {
							continue
						}
						root := addrRoot(x.Addr)
						if al, ok := root.(*ssa.Alloc); ok {
							// a local packet built around the same buffer: where does it go?
							if where := c.localStructKept(al, 0); where != "" {
								o.Status, o.Pos = core.Violated, c.P.Pos(x.Pos())
								o.Got = "a packet built around the received buffer is handed to " + where + ", which keeps it; the buffer goes back to the pool when the handler returns and the next received packet overwrites the queued answer"
							}
							continue
						}
						o.Status, o.Pos = core.Violated, c.P.Pos(x.Pos())
						o.Got = "the received buffer itself is stored outside the handler's locals; it goes back to the pool when the handler returns"
					case *ssa.MapUpdate:
						if alias[x.Value] {
							o.Status, o.Pos = core.Violated, c.P.Pos(x.Pos())
							o.Got = "the received buffer itself is stored in a map; it goes back to the pool when the handler returns"
						}
					case *ssa.Send:
						if alias[x.X] {
							o.Status, o.Pos = core.Violated, c.P.Pos(x.Pos())
							o.Got = "the received buffer itself is sent on a channel; it goes back to the pool when the handler returns"
						}
					}
				}
			}
			obs = append(obs, o)
		}
	}
	return obs
}

// bufferAliases: the values of fn that are the Data slice of the packet parameter p (or a reslice /
// slice-type conversion of it).
func (c *Ctx) bufferAliases(fn *ssa.Function, p *ssa.Parameter) map[ssa.Value]bool {
	alias := map[ssa.Value]bool{}
	isData := func(st types.Type, i int) bool {
		s, ok := deref(st).Underlying().(*types.Struct)
		return ok && i < s.NumFields() && s.Field(i).Name() == "Data"
	}
	// spill slots of the parameter
	spills := map[ssa.Value]bool{}
	if p.Referrers() != nil {
		for _, r := range *p.Referrers() {
			if st, ok := r.(*ssa.Store); ok && st.Val == ssa.Value(p) {
				if al, ok := st.Addr.(*ssa.Alloc); ok && singleStore(al) == ssa.Value(p) {
					spills[al] = true
				}
			}
		}
	}
	for changed := true; changed; {
		changed = false
		for _, b := range fn.Blocks {
			for _, in := range b.Instrs {
				v, ok := in.(ssa.Value)
				if !ok || alias[v] {
					continue
				}
				hit := false
				switch x := in.(type) {
				case *ssa.Field:
					hit = x.X == ssa.Value(p) && isData(x.X.Type(), x.Field)
				case *ssa.UnOp:
					if x.Op == token.MUL {
						if fa, ok := x.X.(*ssa.FieldAddr); ok && spills[fa.X] && isData(fa.X.Type(), fa.Field) {
							hit = true
						}
					}
				case *ssa.Slice:
					hit = alias[x.X]
				case *ssa.ChangeType:
					hit = alias[x.X]
				case *ssa.Convert:
					_, toSlice := x.Type().Underlying().(*types.Slice)
					_, fromSlice := x.X.Type().Underlying().(*types.Slice)
					hit = alias[x.X] && toSlice && fromSlice
				case *ssa.Phi:
					for _, e := range x.Edges {
						if alias[e] {
							hit = true
						}
					}
				}
				if hit {
					alias[v] = true
					changed = true
				}
			}
		}
	}
	return alias
}

func addrRoot(a ssa.Value) ssa.Value {
	for i := 0; i < 6; i++ {
		switch x := a.(type) {
		case *ssa.FieldAddr:
			a = x.X
		case *ssa.IndexAddr:
			a = x.X
		default:
			return a
		}
	}
	return a
}

// localStructKept: the local struct (a packet literal) is loaded and handed to a call that keeps
// its argument; the name of that callee, or "".
func (c *Ctx) localStructKept(al *ssa.Alloc, depth int) string {
	if al.Referrers() == nil {
		return ""
	}
	for _, r := range *al.Referrers() {
		ld, ok := r.(*ssa.UnOp)
		if !ok || ld.Op != token.MUL || ld.Referrers() == nil {
			continue
		}
		for _, u := range *ld.Referrers() {
			switch x := u.(type) {
			case ssa.CallInstruction:
				for i, a := range x.Common().Args {
					if a == ssa.Value(ld) && c.calleeKeepsArg(x.Common(), i, 0) {
						return calleeName(x.Common())
					}
				}
			case *ssa.Store:
				if x.Val == ssa.Value(ld) {
					if _, local := addrRoot(x.Addr).(*ssa.Alloc); !local {
						return "a field or variable outside the handler (" + c.P.Pos(x.Pos()) + ")"
					}
				}
			case *ssa.Send:
				if x.X == ssa.Value(ld) {
					return "a channel"
				}
			}
		}
	}
	return ""
}

// calleeKeepsArg: the call keeps its i-th argument beyond its return: a queue's Push, or a function
// of the module that pushes, sends or stores that parameter (followed two calls deep).
func (c *Ctx) calleeKeepsArg(cc *ssa.CallCommon, i int, depth int) bool {
	if cc.IsInvoke() {
		if cc.Method.Name() == "Push" && cc.Method.Pkg() != nil && strings.HasSuffix(cc.Method.Pkg().Path(), "/net/queue") {
			return true
		}
		return false
	}
	g := cc.StaticCallee()
	if g == nil || depth > 2 || len(g.Blocks) == 0 {
		return false
	}
	// the receiver is argument 0 of a method call
	if i >= len(g.Params) {
		return false
	}
	p := g.Params[i]
	vals := map[ssa.Value]bool{p: true}
	if p.Referrers() != nil {
		for _, r := range *p.Referrers() {
			if st, ok := r.(*ssa.Store); ok && st.Val == ssa.Value(p) {
				if al, ok := st.Addr.(*ssa.Alloc); ok && al.Referrers() != nil {
					for _, r2 := range *al.Referrers() {
						if ld, ok := r2.(*ssa.UnOp); ok && ld.Op == token.MUL {
							vals[ld] = true
						}
					}
				} else if !ok {
					return true // stored into a field / global
				}
			}
		}
	}
	for _, b := range g.Blocks {
		for _, in := range b.Instrs {
			switch x := in.(type) {
			case ssa.CallInstruction:
				for j, a := range x.Common().Args {
					if vals[a] {
						if x.Common().IsInvoke() {
							// Args of an invoke do not include the receiver
							if c.calleeKeepsArg(x.Common(), j, depth+1) {
								return true
							}
						} else if c.calleeKeepsArg(x.Common(), j, depth+1) {
							return true
						}
					}
				}
			case *ssa.Send:
				if vals[x.X] {
					return true
				}
			case *ssa.Store:
				if vals[x.Val] && x.Val != ssa.Value(p) {
					if _, local := addrRoot(x.Addr).(*ssa.Alloc); !local {
						return true
					}
				}
			case *ssa.MapUpdate:
				if vals[x.Value] {
					return true
				}
			}
		}
	}
	return false
}

// ---------------------------------------------------------------------------
// R-LOCK[assert-under-lock]: the linked queue keeps its items in a
// container/list (element type any) and asserts them back to T under its
// lock. For an interface-typed T a nil item is a nil `any`: the one-result
// assertion x.(T) panics with the lock held, and every other producer and
// consumer of the queue blocks for good. Inside the generic queue functions an
// assertion to the type parameter has the two-result form.

func (c *Ctx) AssertToTypeParam(pkg string) []core.Ob {
	var obs []core.Ob
	fns := []*ssa.Function{}
	for _, fn := range c.Funcs() {
		if inPkgs(fn, pkg) && len(fn.Blocks) > 0 && core.Origin(fn) == fn {
			fns = append(fns, fn)
		}
	}
	sortFns(fns)
	n := 0
	for _, fn := range fns {
		k := 0
		for _, b := range fn.Blocks {
			for _, in := range b.Instrs {
				ta, ok := in.(*ssa.TypeAssert)
				if !ok {
					continue
				}
				if _, isTP := types.Unalias(ta.AssertedType).(*types.TypeParam); !isTP {
					continue
				}
				k++
				n++
				o := core.Ob{Rule: "R-LOCK", Key: fmt.Sprintf("%s#assert-to-type-parameter%d", core.FnName(fn), k), Pos: c.P.Pos(ta.Pos()), Func: core.FnName(fn), Armed: true, Status: core.OK,
					Want: "an item taken out of the untyped container is asserted back to the type parameter with the two-result form: a nil item of an interface-typed queue does not panic under the lock"}
				if !ta.CommaOk {
					o.Status = core.Violated
					o.Got = "one-result assertion to the type parameter: for T = an interface type a nil item panics here with the queue's lock held; every later Push and Pull blocks"
				}
				obs = append(obs, o)
			}
		}
	}
	if n == 0 {
		obs = append(obs, core.Ob{Rule: "R-LOCK", Key: "assert-to-type-parameter", Armed: true, Status: core.OK,
			Want: "items are asserted back to the type parameter with the two-result form", Got: "no assertion to a type parameter in " + pkg + " (typed container)"})
	}
	return obs
}
