package rules

// R-SCHEMA: sender/receiver packet schema agreement between the bot and the
// server gate. Senders are pk.Marshal(ID, fields...) call sites; receivers are
// Packet.Scan(fields...) calls (or a bytes.NewReader(p.Data) read chain) that
// are control-dependent on the same packet-id constant.

import (
	"fmt"
	"go/ast"
	"go/token"
	"go/types"
	"sort"
	"strings"

	"gmcheck/core"

	"golang.org/x/tools/go/packages"
)

type schemaSite struct {
	pkg    *packages.Package
	fn     string // enclosing function name
	side   string // top-level package: bot / server
	id     string // constant object name (pkg.Name) or binding name
	sig    sigPath
	pos    token.Pos
	manual bool
}

// schemaBindings: sites whose packet id is not a packetid constant (the
// handshake and the status response use literal ids). Keyed by enclosing
// function + ordinal of the site within it.
var schemaBindings = map[string]string{
	"send:bot.(*Client).join#Handshake":      "handshake",
	"send:bot.pingAndList#Handshake":         "handshake",
	"recv:server.(*Server).handshake#1":      "handshake",
	"send:server.(*Server).acceptListPing#0": "status-response",
	"recv:bot.pingAndList#1":                 "status-response",
	"recv:bot.pingAndList#2":                 "pong",
	"recv:bot.handleEncryptionRequest#1":     "packetid.ClientboundLoginHello", // called under case ClientboundLoginHello in joinLogin
}

func topSide(pkgRel string) string {
	if i := strings.Index(pkgRel, "/"); i >= 0 {
		return pkgRel[:i]
	}
	return pkgRel
}

func (c *Ctx) schemaSites(x *wireX) (send, recv []schemaSite) {
	for _, pk := range c.P.Pkgs {
		rel := core.Rel(pk.PkgPath)
		side := topSide(rel)
		if side != "bot" && side != "server" {
			continue
		}
		if rel != "bot" && rel != "server" && rel != "server/auth" {
			continue // gate only: play-state helpers are outside C19's gate clause
		}
		for _, f := range pk.Syntax {
			for _, d := range f.Decls {
				fd, ok := d.(*ast.FuncDecl)
				if !ok || fd.Body == nil {
					continue
				}
				obj, _ := pk.TypesInfo.Defs[fd.Name].(*types.Func)
				if obj == nil {
					continue
				}
				fname := funcObjName(obj)
				w := &wctx{x: x, m: &wireMethod{pkg: pk, decl: fd, fn: obj}, info: pk.TypesInfo, streams: map[types.Object]bool{}}
				scanOrd := 0
				var stack []ast.Node
				ast.Inspect(fd.Body, func(n ast.Node) bool {
					if n == nil {
						stack = stack[:len(stack)-1]
						return false
					}
					stack = append(stack, n)
					call, ok := n.(*ast.CallExpr)
					if !ok {
						return true
					}
					callee := calleeObj(pk.TypesInfo, call)
					if callee == nil || callee.Pkg() == nil || callee.Pkg().Path() != pkPath {
						return true
					}
					switch {
					case callee.Name() == "Marshal" && len(call.Args) >= 1:
						id := constName(pk.TypesInfo, call.Args[0])
						key := id
						if !strings.HasPrefix(id, "packetid.") {
							key = schemaBindings["send:"+fname+"#"+id]
						}
						var sig sigPath
						for _, a := range call.Args[1:] {
							sig = append(sig, w.schemaKind(a)...)
						}
						send = append(send, schemaSite{pkg: pk, fn: fname, side: side, id: key, sig: sig, pos: call.Pos()})
					case callee.Name() == "Scan" && callee.Type().(*types.Signature).Recv() != nil:
						scanOrd++
						id := guardingID(pk.TypesInfo, stack)
						if id == "" {
							id = schemaBindings[fmt.Sprintf("recv:%s#%d", fname, scanOrd)]
						}
						var sig sigPath
						for _, a := range call.Args {
							sig = append(sig, w.schemaKindDir(a, "ReadFrom")...)
						}
						recv = append(recv, schemaSite{pkg: pk, fn: fname, side: side, id: id, sig: sig, pos: call.Pos()})
					}
					return true
				})
				// manual readers: case C: r := bytes.NewReader(p.Data); X.ReadFrom(r) ...
				ast.Inspect(fd.Body, func(n ast.Node) bool {
					cc, ok := n.(*ast.CaseClause)
					if !ok || len(cc.List) != 1 {
						return true
					}
					id := constName(pk.TypesInfo, cc.List[0])
					if !strings.HasPrefix(id, "packetid.") {
						return true
					}
					var stream types.Object
					for _, s := range cc.Body {
						as, ok := s.(*ast.AssignStmt)
						if !ok || len(as.Lhs) != 1 || len(as.Rhs) != 1 {
							continue
						}
						if call, ok := as.Rhs[0].(*ast.CallExpr); ok {
							if fo := calleeObj(pk.TypesInfo, call); fo != nil && fo.Pkg() != nil && fo.Pkg().Path() == "bytes" && fo.Name() == "NewReader" {
								if idn, ok := as.Lhs[0].(*ast.Ident); ok {
									stream = pk.TypesInfo.Defs[idn]
								}
							}
						}
					}
					if stream == nil {
						return true
					}
					w2 := &wctx{x: x, m: &wireMethod{pkg: pk, decl: fd, fn: obj}, info: pk.TypesInfo, streams: map[types.Object]bool{stream: true}}
					all, _ := w2.stmts(cc.Body, sigSet{{}})
					best := sigPath{}
					for _, p := range all {
						if len(p) > len(best) {
							best = p
						}
					}
					recv = append(recv, schemaSite{pkg: pk, fn: fname, side: side, id: id, sig: foldAry(best), pos: cc.Pos(), manual: true})
					return true
				})
			}
		}
	}
	return
}

func funcObjName(obj *types.Func) string {
	pk := core.Rel(obj.Pkg().Path())
	sig := obj.Type().(*types.Signature)
	if r := sig.Recv(); r != nil {
		t := r.Type()
		ptr := ""
		if p, ok := t.(*types.Pointer); ok {
			t = p.Elem()
			ptr = "*"
		}
		if n, ok := types.Unalias(t).(*types.Named); ok {
			return fmt.Sprintf("%s.(%s%s).%s", pk, ptr, n.Obj().Name(), obj.Name())
		}
	}
	return pk + "." + obj.Name()
}

// constName: "packetid.Name" for a packet id constant, the identifier for
// other named constants, the literal value otherwise.
func constName(info *types.Info, e ast.Expr) string {
	e = ast.Unparen(e)
	// look through conversions T(x)
	if call, ok := e.(*ast.CallExpr); ok && len(call.Args) == 1 {
		if tv, ok := info.Types[call.Fun]; ok && tv.IsType() {
			return constName(info, call.Args[0])
		}
	}
	switch v := e.(type) {
	case *ast.SelectorExpr:
		if k, ok := info.Uses[v.Sel].(*types.Const); ok && k.Pkg() != nil {
			return k.Pkg().Name() + "." + k.Name()
		}
	case *ast.Ident:
		if k, ok := info.Uses[v].(*types.Const); ok {
			if k.Pkg() != nil && k.Parent() == k.Pkg().Scope() {
				return k.Pkg().Name() + "." + k.Name()
			}
			return k.Name()
		}
	}
	if tv, ok := info.Types[e]; ok && tv.Value != nil {
		return tv.Value.ExactString()
	}
	return "?"
}

// guardingID: the packet id constant the node at the top of stack is
// control-dependent on: an enclosing `case C:` of a switch over a packet id, or
// a preceding `if id != C { return }` in an enclosing block.
func guardingID(info *types.Info, stack []ast.Node) string {
	for i := len(stack) - 1; i >= 0; i-- {
		switch n := stack[i].(type) {
		case *ast.CaseClause:
			if len(n.List) == 1 {
				if id := constName(info, n.List[0]); strings.HasPrefix(id, "packetid.") {
					return id
				}
			}
		case *ast.BlockStmt:
			// statements before the one containing our node
			var child ast.Node
			if i+1 < len(stack) {
				child = stack[i+1]
			}
			for _, s := range n.List {
				if s == child {
					break
				}
				iff, ok := s.(*ast.IfStmt)
				if !ok || !terminates(iff.Body.List) {
					continue
				}
				if id := neqPacketID(info, iff.Cond); id != "" {
					return id
				}
			}
		}
	}
	return ""
}

func neqPacketID(info *types.Info, cond ast.Expr) string {
	b, ok := ast.Unparen(cond).(*ast.BinaryExpr)
	if !ok {
		return ""
	}
	if b.Op == token.LAND || b.Op == token.LOR {
		if id := neqPacketID(info, b.Y); id != "" {
			return id
		}
		return neqPacketID(info, b.X)
	}
	if b.Op != token.NEQ {
		return ""
	}
	for _, e := range []ast.Expr{b.X, b.Y} {
		if id := constName(info, e); strings.HasPrefix(id, "packetid.") {
			return id
		}
	}
	return ""
}

// schemaKind: wire kind(s) of a Marshal/Scan argument; module composite types
// are expanded to their own signature, small constants become Const1B.
func (w *wctx) schemaKind(e ast.Expr) []string { return w.schemaKindDir(e, "WriteTo") }

func (w *wctx) schemaKindDir(e ast.Expr, method string) []string {
	e = ast.Unparen(e)
	if call, ok := e.(*ast.CallExpr); ok && len(call.Args) == 1 {
		if tv, ok := w.info.Types[call.Fun]; ok && tv.IsType() {
			if av, ok := w.info.Types[call.Args[0]]; ok && av.Value != nil {
				k := canonType(w.info.TypeOf(e))
				if k == "pk.Byte" || k == "pk.UnsignedByte" || k == "pk.VarInt" {
					s := av.Value.ExactString()
					if len(s) <= 3 && !strings.HasPrefix(s, "-") {
						var n int
						fmt.Sscan(s, &n)
						if n < 128 {
							return []string{"Const1B"}
						}
					}
				}
			}
		}
	}
	return w.elemOf(e, method)
}

func schemaCompat(recv, send string) bool {
	if recv == send {
		return true
	}
	if send == "Const1B" {
		switch recv {
		case "pk.VarInt", "pk.Byte", "pk.UnsignedByte", "pk.Boolean", "Const1B":
			return true
		}
	}
	return false
}

// Schema implements R-SCHEMA.
func (c *Ctx) Schema() []core.Ob {
	x := c.newWireX()
	// expand module composite types (not net/packet) to their own wire form
	x.inline = func(n *types.Named) bool {
		o := n.Obj()
		if o.Pkg() == nil || !strings.HasPrefix(o.Pkg().Path(), core.ModPath) || o.Pkg().Path() == pkPath {
			return false
		}
		return true
	}
	send, recv := c.schemaSites(x)
	byID := map[string][2][]schemaSite{}
	for _, s := range send {
		if s.id == "" {
			continue
		}
		e := byID[s.id]
		e[0] = append(e[0], s)
		byID[s.id] = e
	}
	for _, r := range recv {
		if r.id == "" {
			continue
		}
		e := byID[r.id]
		e[1] = append(e[1], r)
		byID[r.id] = e
	}
	var ids []string
	for id := range byID {
		ids = append(ids, id)
	}
	sort.Strings(ids)
	var obs []core.Ob
	keyN := map[string]int{}
	for _, id := range ids {
		e := byID[id]
		for _, s := range e[0] {
			for _, r := range e[1] {
				if s.side == r.side {
					continue
				}
				key := fmt.Sprintf("%s:%s->%s", id, schemaSide(s.fn), schemaSide(r.fn))
				keyN[key]++
				if keyN[key] > 1 {
					key = fmt.Sprintf("%s#%d", key, keyN[key])
				}
				ob := core.Ob{Rule: "R-SCHEMA", Key: key, Pos: c.P.Pos(r.pos), Func: r.fn, Armed: true,
					Want: "the receiver scans a prefix of what the sender marshals for this packet id"}
				ok := len(r.sig) <= len(s.sig)
				if ok {
					for i := range r.sig {
						if !schemaCompat(r.sig[i], s.sig[i]) {
							ok = false
						}
					}
				}
				got := fmt.Sprintf("sender %s (%s) [%s]  receiver %s [%s]", s.fn, c.P.Pos(s.pos), strings.Join(s.sig, " "), r.fn, strings.Join(r.sig, " "))
				if ok {
					ob.Status = core.OK
				} else {
					ob.Status = core.Violated
				}
				ob.Got = got
				obs = append(obs, ob)
			}
		}
	}
	c.Notes = append(c.Notes, fmt.Sprintf("R-SCHEMA: %d Marshal sites, %d Scan/manual-reader sites in bot, server, server/auth; %d packet ids seen", len(send), len(recv), len(ids)))
	return obs
}

// schemaSide: the package of a sender / receiver function. Obligations are
// keyed by packet id and by the two packages, not by the names of the functions
// the code happens to live in (moving the Marshal call into a helper keeps the key).
func schemaSide(fn string) string {
	if i := strings.Index(fn, ".("); i >= 0 {
		return fn[:i]
	}
	if i := strings.LastIndex(fn, "."); i >= 0 {
		return fn[:i]
	}
	return fn
}
