#!/usr/bin/env python3
"""Records in every seeded/<id>/meta.json whether the property's check reports the change
(from the output of tools/seedmatrix.sh given on stdin)."""
import json,sys,re,os
for line in sys.stdin:
    m=re.match(r'^(KILLED|SURVIVED) (C\d+) (C\d+-\d+)(?:: (.*))?',line.strip())
    if not m: continue
    res,prop,name,by=m.groups()
    p='/verif/seeded/%s/meta.json'%name
    if not os.path.exists(p): continue
    d=json.load(open(p))
    if prop!=d['property']: continue
    d['detected']= res=='KILLED'
    d['detected_by']= (by or '').strip()[:300] if res=='KILLED' else ''
    json.dump(d,open(p,'w'),indent=1)
