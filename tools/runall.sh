#!/bin/bash
# usage: runall.sh [binary]  : all 20 properties on /repo WITH the control fixtures; prints the summary lines that report a violation
bin=${1:-/verif/bin/gmcheck}
for i in $(seq -w 1 20); do echo C$i; done | xargs -P 5 -I{} sh -c "$bin -property {} -repo /repo -verif /verif > /tmp/runall.{}.out 2>&1"
for i in $(seq -w 1 20); do tail -1 /tmp/runall.C$i.out | grep -v " 0 violations"; grep -B5 "^VIOLATION" /tmp/runall.C$i.out | grep -vE "^VIOLATION|want:|^--" | cut -c1-300; done
echo "runall done"
