package rules

import (
	"gmcheck/core"
)

// PropDef binds a property to the rules that decide its structural clauses.
type PropDef struct {
	Explanation string
	Assumptions []string
	Run         func(c *Ctx) []core.Ob
	Fixtures    []string // fixture rule names to run as controls
}

// Props is filled by init functions in prop_*.go.
var Props = map[string]PropDef{}

// RunFixtures analyses the control packages under /verif/fixtures.
func RunFixtures(verif string, def PropDef) ([]core.Ob, error) {
	return nil, nil
}
