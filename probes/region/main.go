package main

import (
	"fmt"
	"os"

	"github.com/Tnze/go-mc/save/region"
)

func main() {
	f, _ := os.CreateTemp("", "r*.mca")
	defer os.Remove(f.Name())
	r, err := region.CreateWriter(f)
	if err != nil {
		panic(err)
	}
	if err := r.WriteSector(1, 0, []byte{1, 2, 3}); err != nil {
		panic(err)
	}
	memZX, memXZ := r.Timestamps[0][1], r.Timestamps[1][0]
	f.Seek(0, 0)
	r2, err := region.Load(f)
	if err != nil {
		panic(err)
	}
	fmt.Printf("in memory [z=0][x=1]=%v [1][0]=%v ; reloaded [0][1]=%v [1][0]=%v\n", memZX != 0, memXZ != 0, r2.Timestamps[0][1] != 0, r2.Timestamps[1][0] != 0)
}
