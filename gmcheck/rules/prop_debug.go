package rules

import (
	"fmt"

	"gmcheck/core"

	"golang.org/x/tools/go/ssa"
)

func init() {
	Props["XTLG"] = PropDef{Explanation: "debug: all R-TLG sinks", Run: func(c *Ctx) []core.Ob {
		all := func(*ssa.Function) bool { return true }
		return c.TLGObs(all, all, true)
	}}
}

func init() {
	Props["XPANIC"] = PropDef{Explanation: "debug: all reachable panics", Run: func(c *Ctx) []core.Ob {
		all := func(*ssa.Function) bool { return true }
		obs := c.Panics(c.Verif, c.DecoderRoots(), all, all)
		obs = append(obs, c.FuncFieldCalls(all, all)...)
		return obs
	}}
}

func init() {
	Props["XWIRE"] = PropDef{Explanation: "debug: all wire pairs", Run: func(c *Ctx) []core.Ob {
		return c.WireSym(func(string, string) bool { return true })
	}}
}

func init() {
	Props["XSCHEMA"] = PropDef{Explanation: "debug: schema", Run: func(c *Ctx) []core.Ob { return c.Schema() }}
}

func init() {
	Props["XLOCK"] = PropDef{Explanation: "debug: locks", Run: func(c *Ctx) []core.Ob { return c.Locks() }}
}

func init() {
	Props["XPOOL"] = PropDef{Explanation: "debug: pools", Run: func(c *Ctx) []core.Ob { return c.Pools("net/packet", "nbt", "nbt/dynbt", "level", "bot") }}
}

func init() {
	Props["XORDER"] = PropDef{Explanation: "debug: order", Run: func(c *Ctx) []core.Ob {
		var obs []core.Ob
		obs = append(obs, c.HandlerSort()...)
		obs = append(obs, c.DispatchOrder()...)
		obs = append(obs, c.CompressionSwitch()...)
		obs = append(obs, c.RegionOrder()...)
		obs = append(obs, c.SetBlockCounter()...)
		obs = append(obs, c.OfflineUUID()...)
		return obs
	}}
}

func init() {
	Props["XTAB"] = PropDef{Explanation: "debug: tables", Run: func(c *Ctx) []core.Ob {
		var obs []core.Ob
		obs = append(obs, c.RegionIndex()...)
		obs = append(obs, c.RCONFrame()...)
		obs = append(obs, c.VarLen()...)
		obs = append(obs, c.HeightMapKeys()...)
		obs = append(obs, c.PaletteConfig()...)
		return obs
	}}
}

func init() {
	Props["XPOL"] = PropDef{Explanation: "debug: polarity", Run: func(c *Ctx) []core.Ob {
		var obs []core.Ob
		obs = append(obs, c.SignaturePolarity()...)
		obs = append(obs, c.RCONPolarity()...)
		obs = append(obs, c.CipherWiring()...)
		return obs
	}}
}

func init() {
	Props["XNBT"] = PropDef{Explanation: "debug: nbt tables", Run: func(c *Ctx) []core.Ob {
		var obs []core.Ob
		obs = append(obs, c.TagDispatch("nbt", "nbt/dynbt", "chat")...)
		obs = append(obs, c.KindTables()...)
		obs = append(obs, c.ReflKind()...)
		obs = append(obs, c.Endian()...)
		obs = append(obs, c.NoMutation()...)
		obs = append(obs, c.MarshalerContract()...)
		obs = append(obs, c.NoReadAhead()...)
		obs = append(obs, c.SNBTSuffix()...)
		return obs
	}}
}

func init() {
	Props["XBS"] = PropDef{Explanation: "debug: bitstorage", Run: func(c *Ctx) []core.Ob { return c.BitStorageGuards() }}
}

func init() {
	Props["XERR"] = PropDef{Explanation: "debug: errflow", Run: func(c *Ctx) []core.Ob {
		in := pkgPred("nbt", "nbt/dynbt", "net/packet", "net", "level", "chat", "registry", "save/region", "server", "server/auth", "bot")
		return c.ErrFlow(in, in)
	}}
}

func init() {
	Props["XBITS"] = PropDef{Explanation: "debug", Run: func(c *Ctx) []core.Ob {
		return c.BitFields("net/packet", "level", "save/region", "nbt", "nbt/dynbt", "net", "server", "bot", "chat", "save", "level/block", "server/command", "net/CFB8", "offline", "yggdrasil")
	}}
}

func init() {
	Props["XSTRIDX"] = PropDef{Explanation: "debug", Run: func(c *Ctx) []core.Ob {
		obs := c.StringIndexGuards(func(*ssa.Function) bool { return true })
		obs = append(obs, c.StringVarIndexGuards(func(*ssa.Function) bool { return true })...)
		return append(obs, c.LenMinusGuards(func(*ssa.Function) bool { return true })...)
	}}
}

func init() {
	Props["XDIV"] = PropDef{Explanation: "debug", Run: func(c *Ctx) []core.Ob {
		var obs []core.Ob
		t := c.TLG()
		for _, name := range []string{"level.calcBitStorageSize", "level.(*BitStorage).Fix", "level.(*PaletteContainer).ReadFrom", "level.(biomesCfg).bits", "level.(statesCfg).bits"} {
			fn := c.Fn(name)
			if fn == nil {
				continue
			}
			seen := map[string]string{}
			t.Probe(fn, func(in ssa.Instruction, eval func(ssa.Value) AV, _ func(string) (AV, bool)) {
				switch x := in.(type) {
				case *ssa.BinOp:
					seen[x.Name()+" "+x.String()] = "X=" + eval(x.X).String() + " Y=" + eval(x.Y).String()
				case *ssa.Return:
					for _, r := range x.Results {
						seen["ret "+r.Name()] = eval(r).String()
					}
				case *ssa.Call:
					for i, a := range x.Common().Args {
						if isIntegerType(a.Type(), t.sizesOf(fn)) {
							seen[fmt.Sprintf("call %s arg%d", x.String(), i)] = eval(a).String()
						}
					}
				}
			})
			for k, v := range seen {
				obs = append(obs, core.Ob{Rule: "DBG", Key: name + " " + k, Got: v, Status: core.OK})
			}
		}
		return obs
	}}
}

func init() {
	Props["XBSINV"] = PropDef{Explanation: "debug", Run: func(c *Ctx) []core.Ob { return c.BitWidthInverse() }}
}
