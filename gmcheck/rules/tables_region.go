package rules

import (
	"fmt"
	"go/token"
	"go/types"
	"strings"

	"gmcheck/core"

	"golang.org/x/tools/go/ssa"
)

func stripConv(v ssa.Value) ssa.Value {
	for {
		switch x := v.(type) {
		case *ssa.Convert:
			v = x.X
		case *ssa.ChangeType:
			v = x.X
		default:
			return v
		}
	}
}

func constIntVal(v ssa.Value) (int64, bool) {
	k, ok := v.(*ssa.Const)
	if !ok {
		return 0, false
	}
	n, ok := constInt(k)
	if !ok || !n.IsInt64() {
		return 0, false
	}
	return n.Int64(), true
}

// RegionIndex implements T-REGIDX: the in-memory [32][32] tables are indexed
// [major][minor] where major is the coordinate that setHead multiplies by 32
// in the on-disk header offset.
func (c *Ctx) RegionIndex() []core.Ob {
	mk := func(key, want string, fn *ssa.Function) core.Ob {
		o := core.Ob{Rule: "T-REGIDX", Key: key, Want: want, Armed: true, Status: core.OK}
		if fn != nil {
			o.Pos, o.Func = c.P.Pos(fn.Pos()), core.FnName(fn)
		}
		return o
	}
	lay := c.regionLayout()
	sh := c.regionHeaderWriter()
	if sh == nil {
		o := mk("setHead", "the Region method that writes a header slot (offset 4*(major*32+minor)) exists", nil)
		o.Status, o.Got = core.Violated, "no unexported method of Region multiplying a coordinate parameter by 32 found"
		return []core.Ob{o}
	}
	major, minor := -1, -1
	for _, b := range sh.Blocks {
		for _, in := range b.Instrs {
			bo, ok := in.(*ssa.BinOp)
			if !ok || bo.Op != token.MUL {
				continue
			}
			var other ssa.Value
			if k, ok := constIntVal(bo.Y); ok && k == 32 {
				other = bo.X
			} else if k, ok := constIntVal(bo.X); ok && k == 32 {
				other = bo.Y
			}
			if other == nil {
				continue
			}
			for i, p := range sh.Params {
				if stripConv(other) == ssa.Value(p) {
					if major >= 0 && major != i {
						major = -2
					} else if major != -2 {
						major = i
					}
				}
			}
		}
	}
	var obs []core.Ob
	o := mk("setHead:row-major", "setHead computes the header slot as 4*(major*32+minor) from its two coordinate parameters", sh)
	if major < 1 {
		o.Status, o.Got = core.Violated, "cannot identify the coordinate multiplied by 32 in setHead (or the two header writes disagree)"
		return append(obs, o)
	}
	for i := 1; i < len(sh.Params); i++ {
		if i != major {
			if b, ok := sh.Params[i].Type().Underlying().(*types.Basic); ok && b.Kind() == types.Int {
				minor = i
				break
			}
		}
	}
	o.Got = fmt.Sprintf("major = parameter %d (%s), minor = parameter %d (%s)", major, sh.Params[major].Name(), minor, sh.Params[minor].Name())
	obs = append(obs, o)

	n := 0
	for _, fn := range methodsOfType(c, "save/region.Region") {
		if len(fn.Params) < 3 || fn == sh {
			continue
		}
		recv := fn.Params[0]
		k := 0
		for _, b := range fn.Blocks {
			for _, in := range b.Instrs {
				x2, ok := in.(*ssa.IndexAddr)
				if !ok {
					continue
				}
				x1, ok := x2.X.(*ssa.IndexAddr)
				if !ok {
					continue
				}
				field := rootFieldOfAddr(x1.X, recv)
				if field == "" || (field != lay.offsets && field != lay.stamps) {
					continue
				}
				k++
				n++
				ob := mk(fmt.Sprintf("%s#%s[%d]", core.FnName(fn), field, k),
					"the [32][32] table "+field+" is indexed ["+fn.Params[major].Name()+"]["+fn.Params[minor].Name()+"], the orientation setHead and Load use on disk", fn)
				ob.Pos = c.P.Pos(x2.Pos())
				i1, i2 := stripConv(x1.Index), stripConv(x2.Index)
				if i1 != ssa.Value(fn.Params[major]) || i2 != ssa.Value(fn.Params[minor]) {
					ob.Status = core.Violated
					ob.Got = fmt.Sprintf("indexed [%s][%s]: transposed with respect to the file layout", i1.Name(), i2.Name())
				}
				obs = append(obs, ob)
			}
		}
	}
	if n < 4 {
		e := mk("accesses", "the coordinate-indexed accesses of the region tables are found", nil)
		e.Status, e.Got = core.Violated, fmt.Sprintf("only %d accesses found (expected >= 4)", n)
		obs = append(obs, e)
	}
	// Load / CreateWriter read and write both tables as flat big-endian arrays
	for _, name := range []string{"save/region.Load", "save/region.CreateWriter"} {
		fn := c.Fn(name)
		ob := mk(name+"#flat-bigendian", "both header tables are transferred whole, big-endian, offsets first then timestamps (row-major [a][b] <-> 4*(a*32+b))", fn)
		if fn == nil {
			ob.Status, ob.Got = core.Violated, "function not found"
			obs = append(obs, ob)
			continue
		}
		var seq []string
		// in the function or in the helpers of the package it reads / writes the header through
		for _, n := range c.inlineView(fn, 2).nodes {
			ci, ok := n.in.(ssa.CallInstruction)
			if !ok {
				continue
			}
			cn := calleeName(ci.Common())
			if cn != "encoding/binary.Read" && cn != "encoding/binary.Write" {
				continue
			}
			args := ci.Common().Args
			order := "?"
			if mi, ok := args[1].(*ssa.MakeInterface); ok {
				order = mi.X.Type().String()
			}
			tgt := "?"
			if mi, ok := args[2].(*ssa.MakeInterface); ok {
				x := mi.X
				if ld, ok := x.(*ssa.UnOp); ok { // binary.Write(w, order, r.offsets): the table by value
					x = ld.X
				}
				if fa, ok := x.(*ssa.FieldAddr); ok {
					if st, ok := deref(fa.X.Type()).Underlying().(*types.Struct); ok {
						tgt = st.Field(fa.Field).Name()
					}
				}
			}
			seq = append(seq, order[strings.LastIndex(order, ".")+1:]+":"+tgt)
		}
		if strings.Join(seq, ",") != "bigEndian:"+lay.offsets+",bigEndian:"+lay.stamps {
			ob.Status, ob.Got = core.Violated, "transfer sequence is "+strings.Join(seq, ",")
		}
		obs = append(obs, ob)
	}
	return obs
}
