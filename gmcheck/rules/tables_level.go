package rules

import (
	"fmt"
	"go/ast"
	"go/constant"
	"go/token"
	"go/types"
	"sort"
	"strings"

	"gmcheck/core"

	"golang.org/x/tools/go/ssa"
)

// renderExpr prints an SSA integer expression with the section count
// abstracted as N (int parameters and len(...) calls).
func renderExpr(v ssa.Value, depth int) string {
	if depth > 10 {
		return "?"
	}
	switch x := v.(type) {
	case *ssa.Const:
		if n, ok := constInt(x); ok {
			return n.String()
		}
		return "const"
	case *ssa.Convert:
		return renderExpr(x.X, depth+1)
	case *ssa.ChangeType:
		return renderExpr(x.X, depth+1)
	case *ssa.Parameter:
		return "N"
	case *ssa.BinOp:
		return "(" + renderExpr(x.X, depth+1) + x.Op.String() + renderExpr(x.Y, depth+1) + ")"
	case *ssa.Call:
		n := calleeName(x.Common())
		if n == "builtin.len" {
			return "N"
		}
		var as []string
		for _, a := range x.Common().Args {
			as = append(as, renderExpr(a, depth+1))
		}
		return n[strings.LastIndex(n, "/")+1:] + "(" + strings.Join(as, ",") + ")"
	case *ssa.Phi:
		return "phi"
	}
	return "?"
}

// HeightMapBits implements T-HMBITS: every construction of a 16x16 height map
// storage derives its bit width from the section count by the same expression.
func (c *Ctx) HeightMapBits() []core.Ob {
	forms := map[string][]string{}
	var posOf = map[string]string{}
	n := 0
	for _, fn := range c.Funcs() {
		if !inPkgs(fn, "level") {
			continue
		}
		for _, ci := range callsIn(fn, func(nm string, _ *ssa.CallCommon) bool { return strings.HasSuffix(nm, "level.NewBitStorage") }) {
			args := ci.Common().Args
			if len(args) < 3 {
				continue
			}
			if k, ok := constIntVal(args[1]); !ok || k != 256 {
				continue
			}
			n++
			f := renderExpr(args[0], 0)
			forms[f] = append(forms[f], core.FnName(fn))
			posOf[f] = c.P.Pos(ci.Pos())
		}
	}
	o := core.Ob{Rule: "T-HMBITS", Key: "heightmap-bit-width", Armed: true, Status: core.OK,
		Want: "every 16x16 height-map storage (EmptyChunk, ChunkFromSave, Chunk.ReadFrom) derives its bits-per-value from the section count by one and the same expression"}
	var keys []string
	for f := range forms {
		keys = append(keys, f)
		o.Pos = posOf[f]
	}
	sort.Strings(keys)
	switch {
	case n < 10:
		o.Status, o.Got = core.Violated, fmt.Sprintf("only %d height-map constructions found", n)
	case len(keys) != 1:
		var parts []string
		for _, f := range keys {
			fs := forms[f]
			sort.Strings(fs)
			parts = append(parts, f+" in "+strings.Join(uniq(fs), ",")+" ("+posOf[f]+")")
		}
		o.Status, o.Got = core.Violated, "sites disagree: "+strings.Join(parts, "  vs  ")
	default:
		o.Got = fmt.Sprintf("%d sites: %s", n, keys[0])
	}
	return []core.Ob{o}
}

func uniq(s []string) []string {
	var out []string
	for i, x := range s {
		if i == 0 || x != s[i-1] {
			out = append(out, x)
		}
	}
	return out
}

// PaletteResizeCopiesAll: the resize branch of PaletteContainer.Set copies
// every position of the old container.
func (c *Ctx) PaletteResizeCopiesAll() []core.Ob {
	fn := c.Fn("level.(*PaletteContainer).Set")
	o := core.Ob{Rule: "R-ORDER", Key: "palette-resize:copies-every-position", Armed: true, Status: core.OK,
		Want: "when the palette grows, the copy loop runs over i = 0 .. length-1 where length is the length the new storage is created with"}
	if fn == nil {
		o.Status, o.Got = core.Violated, "level.(*PaletteContainer).Set not found"
		return []core.Ob{o}
	}
	o.Pos, o.Func = c.P.Pos(fn.Pos()), core.FnName(fn)
	news := callsIn(fn, func(nm string, _ *ssa.CallCommon) bool { return strings.HasSuffix(nm, "level.NewBitStorage") })
	if len(news) != 1 {
		o.Status, o.Got = core.Violated, fmt.Sprintf("%d NewBitStorage calls in Set", len(news))
		return []core.Ob{o}
	}
	length := stripConv(news[0].Common().Args[1])
	found := false
	for _, lp := range naturalLoops(fn) {
		// the loop must contain a recursive Set call (the copy)
		hasCopy := false
		for b := range lp.body {
			for _, in := range b.Instrs {
				if ci, ok := in.(ssa.CallInstruction); ok {
					if sc := ci.Common().StaticCallee(); sc != nil && core.Origin(sc) == fn {
						hasCopy = true
					}
				}
			}
		}
		if !hasCopy {
			continue
		}
		found = true
		iff, ok := lp.header.Instrs[len(lp.header.Instrs)-1].(*ssa.If)
		if !ok {
			o.Status, o.Got = core.Violated, "copy loop has no guard in its header"
			continue
		}
		cmp, ok := iff.Cond.(*ssa.BinOp)
		if !ok || cmp.Op != token.LSS {
			o.Status, o.Got = core.Violated, "copy loop guard is not `i < length`"
			continue
		}
		phi, isPhi := stripConv(cmp.X).(*ssa.Phi)
		if !isPhi || !isCounterPhi(phi) {
			o.Status, o.Got = core.Violated, "copy loop does not count from 0 in steps of 1"
			continue
		}
		if stripConv(cmp.Y) != length {
			o.Status, o.Got = core.Violated, "the copy loop's bound is not the length of the new storage (some positions are not copied)"
		}
	}
	if !found {
		o.Status, o.Got = core.Violated, "no copy loop found in the resize branch"
	}
	return []core.Ob{o}
}

// HeightMapKeys implements T-HEIGHTMAP: ChunkToSave stores each of the six
// height maps under a key, and ChunkFromSave loads each field from the same key.
func (c *Ctx) HeightMapKeys() []core.Ob {
	mk := func(key, want string) core.Ob {
		return core.Ob{Rule: "T-HEIGHTMAP", Key: key, Want: want, Armed: true, Status: core.OK}
	}
	to, from := c.Fn("level.ChunkToSave"), c.Fn("level.ChunkFromSave")
	if to == nil || from == nil {
		o := mk("anchors", "ChunkToSave and ChunkFromSave exist")
		o.Status, o.Got = core.Violated, "not found"
		return []core.Ob{o}
	}
	fieldOfHM := func(v ssa.Value) string {
		// receiver of .Raw(): load of FieldAddr(FieldAddr(c, HeightMaps), F)
		for d := 0; d < 4; d++ {
			if u, ok := v.(*ssa.UnOp); ok {
				v = u.X
				continue
			}
			break
		}
		if fa, ok := v.(*ssa.FieldAddr); ok {
			if st, ok := deref(fa.X.Type()).Underlying().(*types.Struct); ok {
				return st.Field(fa.Field).Name()
			}
		}
		return ""
	}
	strConst := func(v ssa.Value) (string, bool) {
		k, ok := v.(*ssa.Const)
		if !ok || k.Value == nil || k.Value.Kind() != constant.String {
			return "", false
		}
		return constant.StringVal(k.Value), true
	}
	// ChunkToSave: MapUpdate{Key: const, Value: call Raw(recv)}
	save := map[string]string{}
	for _, b := range to.Blocks {
		for _, in := range b.Instrs {
			mu, ok := in.(*ssa.MapUpdate)
			if !ok {
				continue
			}
			key, ok := strConst(mu.Key)
			if !ok {
				continue
			}
			if cl, ok := mu.Value.(*ssa.Call); ok && strings.HasSuffix(calleeName(cl.Common()), "level.(BitStorage).Raw") {
				save[key] = fieldOfHM(cl.Common().Args[0])
			}
		}
	}
	// ChunkFromSave: Store to FieldAddr(HeightMaps literal, F) of NewBitStorage(_, _, Lookup(map, const))
	load := map[string]string{}
	for _, b := range from.Blocks {
		for _, in := range b.Instrs {
			st, ok := in.(*ssa.Store)
			if !ok {
				continue
			}
			fa, ok := st.Addr.(*ssa.FieldAddr)
			if !ok {
				continue
			}
			stt, ok := deref(fa.X.Type()).Underlying().(*types.Struct)
			if !ok {
				continue
			}
			cl, ok := st.Val.(*ssa.Call)
			if !ok || !strings.HasSuffix(calleeName(cl.Common()), "level.NewBitStorage") {
				continue
			}
			if lk, ok := cl.Common().Args[2].(*ssa.Lookup); ok {
				if key, ok := strConst(lk.Index); ok {
					load[key] = stt.Field(fa.Field).Name()
				}
			}
		}
	}
	var obs []core.Ob
	var keys []string
	for k := range save {
		keys = append(keys, k)
	}
	sort.Strings(keys)
	for _, k := range keys {
		o := mk("key:"+k, "the height map saved under "+k+" is loaded back into the same field")
		o.Pos = c.P.Pos(from.Pos())
		if load[k] != save[k] {
			o.Status, o.Got = core.Violated, fmt.Sprintf("saved from field %s, loaded into field %s", save[k], load[k])
		} else {
			o.Got = save[k]
		}
		obs = append(obs, o)
	}
	n := mk("six-maps", "all six height maps are converted in both directions")
	if len(save) != 6 || len(load) != 6 {
		n.Status, n.Got = core.Violated, fmt.Sprintf("%d saved, %d loaded", len(save), len(load))
	}
	obs = append(obs, n)
	return obs
}

// intCaseClasses: the partition of integers induced by a switch over int
// constants in fn: each class is the sorted list of case constants of one
// clause ("default" for the default clause).
func (c *Ctx) intCaseClasses(fnName string) ([]string, string) {
	fn := c.Fn(fnName)
	if fn == nil {
		return nil, fnName + " not found"
	}
	fd, pk := c.astFuncDecl(fn)
	if fd == nil {
		return nil, "no syntax for " + fnName
	}
	var classes []string
	found := false
	ast.Inspect(fd.Body, func(n ast.Node) bool {
		sw, ok := n.(*ast.SwitchStmt)
		if !ok || found {
			return !found
		}
		var cls []string
		for _, s := range sw.Body.List {
			cc := s.(*ast.CaseClause)
			if cc.List == nil {
				cls = append(cls, "default")
				continue
			}
			var vs []string
			for _, e := range cc.List {
				tv, ok := pk.TypesInfo.Types[e]
				if !ok || tv.Value == nil || tv.Value.Kind() != constant.Int {
					return true
				}
				vs = append(vs, tv.Value.ExactString())
			}
			cls = append(cls, strings.Join(vs, ","))
		}
		if len(cls) >= 3 {
			classes, found = cls, true
		}
		return !found
	})
	if !found {
		return nil, "no switch over integer constants in " + fnName
	}
	sort.Strings(classes)
	return classes, ""
}

// PaletteConfig implements T-PALCFG.
func (c *Ctx) PaletteConfig() []core.Ob {
	var obs []core.Ob
	for _, cfg := range []struct{ name, bits, create, ctor string }{
		{"states", "level.(statesCfg).bits", "level.(statesCfg).create", "level.NewStatesPaletteContainerWithData"},
		{"biomes", "level.(biomesCfg).bits", "level.(biomesCfg).create", "level.NewBiomesPaletteContainerWithData"},
	} {
		o := core.Ob{Rule: "T-PALCFG", Key: cfg.name + ":case-partitions", Armed: true, Status: core.OK,
			Want: "bits(), create() and the WithData constructor of the " + cfg.name + " configuration split the bits-per-entry values into the same classes"}
		var parts []string
		bad := ""
		for _, f := range []string{cfg.bits, cfg.create, cfg.ctor} {
			cls, why := c.intCaseClasses(f)
			if why != "" {
				bad = why
				break
			}
			parts = append(parts, strings.Join(cls, " | "))
		}
		if bad != "" {
			o.Status, o.Got = core.Violated, bad
		} else if parts[0] != parts[1] || parts[1] != parts[2] {
			o.Status, o.Got = core.Violated, "bits: "+parts[0]+" ;; create: "+parts[1]+" ;; WithData: "+parts[2]
		} else {
			o.Got = parts[0]
		}
		if fn := c.Fn(cfg.bits); fn != nil {
			o.Pos = c.P.Pos(fn.Pos())
		}
		obs = append(obs, o)
		// palette capacity = 1 << recorded bits in create()
		cr := c.Fn(cfg.create)
		if cr == nil {
			continue
		}
		k := 0
		for _, b := range cr.Blocks {
			for _, in := range b.Instrs {
				ms, ok := in.(*ssa.MakeSlice)
				if !ok {
					continue
				}
				k++
				p := core.Ob{Rule: "T-PALCFG", Key: fmt.Sprintf("%s:create-capacity#%d", cfg.name, k), Pos: c.P.Pos(ms.Pos()), Func: core.FnName(cr), Armed: true, Status: core.OK,
					Want: "an indirect palette built by create() has capacity 1<<bits for the bits it records"}
				// find the bits stored into the palette struct in the same block
				var bitsV ssa.Value
				for _, in2 := range b.Instrs {
					if st, ok := in2.(*ssa.Store); ok {
						if fa, ok := st.Addr.(*ssa.FieldAddr); ok {
							if stt, ok := deref(fa.X.Type()).Underlying().(*types.Struct); ok && stt.Field(fa.Field).Name() == "bits" {
								bitsV = st.Val
							}
						}
					}
				}
				capOK := false
				if bitsV != nil {
					cv := stripConv(ms.Cap)
					if kc, ok := constIntVal(cv); ok {
						if kb, ok := constIntVal(bitsV); ok && kc == 1<<uint(kb) {
							capOK = true
						}
					} else if bo, ok := cv.(*ssa.BinOp); ok && bo.Op == token.SHL {
						if one, ok := constIntVal(bo.X); ok && one == 1 && stripConv(bo.Y) == stripConv(bitsV) {
							capOK = true
						}
					}
				}
				if !capOK {
					p.Status, p.Got = core.Violated, "capacity is not 1<<bits of the palette being created (the palette upgrades too early or too late)"
				}
				obs = append(obs, p)
			}
		}
	}
	return obs
}
