// Package ctl holds the positive and negative controls of gmcheck: for every
// generic rule one construct that must be reported and one that must not.
// It is analysed on every run; it is not part of go-mc.
package ctl

import (
	"bytes"
	"encoding/binary"
	"errors"
	"io"
	"reflect"
	"sync"
)

// ---- R-TLG

func TLGBad(r io.Reader) ([]byte, error) {
	var n int32
	if err := binary.Read(r, binary.BigEndian, &n); err != nil {
		return nil, err
	}
	return make([]byte, n), nil // negative n panics
}

func TLGGood(r io.Reader) ([]byte, error) {
	var n int32
	if err := binary.Read(r, binary.BigEndian, &n); err != nil {
		return nil, err
	}
	if n < 0 || n > 1<<20 {
		return nil, errors.New("bad length")
	}
	return make([]byte, n), nil
}

func TLGResizeBad(r io.Reader, dst *[]int64) error {
	var n int32
	if err := binary.Read(r, binary.BigEndian, &n); err != nil {
		return err
	}
	if n < 0 {
		return errors.New("negative")
	}
	if int(n) > cap(*dst) {
		*dst = make([]int64, n)
	} // missing re-slice on the reuse path
	for i := 0; i < int(n); i++ {
		(*dst)[i] = 1
	}
	return nil
}

func TLGResizeGood(r io.Reader, dst *[]int64) error {
	var n int32
	if err := binary.Read(r, binary.BigEndian, &n); err != nil {
		return err
	}
	if n < 0 {
		return errors.New("negative")
	}
	if int(n) > cap(*dst) {
		*dst = make([]int64, n)
	} else {
		*dst = (*dst)[:n]
	}
	for i := 0; i < int(n); i++ {
		(*dst)[i] = 1
	}
	return nil
}

// ---- R-RAWREAD

func RawReadBad(r io.Reader) (uint32, error) {
	var b [4]byte
	_, err := r.Read(b[:])
	return binary.BigEndian.Uint32(b[:]), err
}

func RawReadGood(r io.Reader) (byte, error) {
	var b [1]byte
	for {
		n, err := r.Read(b[:])
		if n == 1 {
			return b[0], nil
		}
		if err != nil {
			return 0, err
		}
		// (0, nil): nothing happened, ask again
	}
}

// ---- R-DISCARD

func DiscardBad(v reflect.Value, n int) { v.Slice(0, n) }

func DiscardGood(v reflect.Value, n int) reflect.Value { return v.Slice(0, n) }

// ---- R-LOCK pairing

type Guarded struct {
	mu sync.Mutex
	n  int
}

func (g *Guarded) PairBad(x int) int {
	g.mu.Lock()
	if x < 0 {
		return -1 // lock leaked
	}
	g.n += x
	g.mu.Unlock()
	return g.n
}

func (g *Guarded) PairGood(x int) int {
	g.mu.Lock()
	defer g.mu.Unlock()
	if x < 0 {
		return -1
	}
	g.n += x
	return g.n
}

// ---- R-POOL

var pool = sync.Pool{New: func() any { return new(bytes.Buffer) }}

func PoolBad(w io.Writer, p []byte) ([]byte, error) {
	b := pool.Get().(*bytes.Buffer)
	defer pool.Put(b)
	b.Write(p) // not reset
	return b.Bytes(), nil // escapes
}

func PoolGood(w io.Writer, p []byte) error {
	b := pool.Get().(*bytes.Buffer)
	defer pool.Put(b)
	b.Reset()
	b.Write(p)
	_, err := w.Write(b.Bytes())
	return err
}

// ---- R-ERRFLOW

func ErrBad(w io.Writer, p []byte) error {
	w.Write(p) // error dropped
	return nil
}

func ErrEdgeBad(w io.Writer, p []byte) (err error) {
	if _, e := w.Write(p); e != nil {
		return err // the named result is still nil
	}
	return nil
}

func ErrGood(w io.Writer, p []byte) error {
	if _, err := w.Write(p); err != nil {
		return err
	}
	return nil
}

// ---- R-PANIC func field

type Node struct{ Run func() error }

func FieldBad(n *Node) error { return n.Run() }

func FieldGood(n *Node) error {
	if n.Run == nil {
		return errors.New("no handler")
	}
	return n.Run()
}
