package rules

// R-TLG: tainted-length guard. A forward abstract interpretation over go/ssa
// with an interval domain split into a peer-derived part T and a
// program-derived part P, plus symbolic upper bounds (<= cap(L)+k, <= len(L)+k,
// <= val(L)+k). See DESIGN.md section 3 and Appendix A.

import (
	"fmt"
	"go/constant"
	"go/token"
	"go/types"
	"math/big"
	"os"
	"sort"
	"strings"

	"gmcheck/core"

	"golang.org/x/tools/go/ssa"
)

type Sym struct {
	Kind byte // 'c' cap, 'l' len, 'v' value of an integer location / SSA value
	Key  string
	K    int64
	T    bool // the bounding quantity is itself peer-derived
}

func (s Sym) String() string {
	n := map[byte]string{'c': "cap", 'l': "len", 'v': "val"}[s.Kind]
	if s.K == 0 {
		return fmt.Sprintf("%s(%s)", n, s.Key)
	}
	return fmt.Sprintf("%s(%s)%+d", n, s.Key, s.K)
}

// AV is the abstract value of an integer.
type AV struct {
	T, P  *Iv
	UB    []Sym
	Mixed bool   // T results from arithmetic with an unbounded program-supplied operand
	PExt  bool   // P comes from outside the function (parameter, field, global): nothing is known about it
	NZ    bool   // known to be non-zero (a fact intervals cannot express for ranges that span zero)
	Src   string // where the peer-derived part comes from
}

func (a AV) all() *Iv { return hull(a.T, a.P) }

// nonZero: the value cannot be 0.
func (a AV) nonZero() bool {
	if a.NZ {
		return true
	}
	all := a.all()
	return all != nil && !all.contains(bi(0))
}

func (a AV) String() string {
	s := "T=" + a.T.String() + " P=" + a.P.String()
	if len(a.UB) > 0 {
		var u []string
		for _, x := range a.UB {
			u = append(u, "<="+x.String())
		}
		s += " " + strings.Join(u, ",")
	}
	if a.Mixed {
		s += " (mixed with unbounded program value)"
	}
	return s
}

func (a AV) eq(b AV) bool {
	if !a.T.Eq(b.T) || !a.P.Eq(b.P) || a.Mixed != b.Mixed || a.PExt != b.PExt || a.NZ != b.NZ || len(a.UB) != len(b.UB) {
		return false
	}
	for i := range a.UB {
		if a.UB[i] != b.UB[i] {
			return false
		}
	}
	return true
}

func normUB(u []Sym) []Sym {
	if len(u) == 0 {
		return nil
	}
	// keep the tightest K per (kind,key)
	m := map[[2]string]Sym{}
	for _, s := range u {
		k := [2]string{string(s.Kind), s.Key}
		if o, ok := m[k]; !ok {
			m[k] = s
		} else {
			if s.K < o.K {
				o.K = s.K
			}
			o.T = o.T || s.T
			m[k] = o
		}
	}
	out := make([]Sym, 0, len(m))
	for _, s := range m {
		out = append(out, s)
	}
	sort.Slice(out, func(i, j int) bool {
		if out[i].Key != out[j].Key {
			return out[i].Key < out[j].Key
		}
		return out[i].Kind < out[j].Kind
	})
	return out
}

func joinAV(a, b AV) AV {
	r := AV{T: hull(a.T, b.T), P: hull(a.P, b.P), Mixed: a.Mixed || b.Mixed, PExt: a.PExt || b.PExt, Src: a.Src, NZ: a.nonZero() && b.nonZero()}
	if r.Src == "" {
		r.Src = b.Src
	}
	// UB: intersection, keeping the weaker K
	for _, x := range a.UB {
		for _, y := range b.UB {
			if x.Kind == y.Kind && x.Key == y.Key {
				k := x.K
				if y.K > k {
					k = y.K
				}
				r.UB = append(r.UB, Sym{x.Kind, x.Key, k, x.T || y.T})
			}
		}
	}
	r.UB = normUB(r.UB)
	return r
}

type tstate map[string]AV

func (s tstate) clone() tstate {
	n := make(tstate, len(s))
	for k, v := range s {
		n[k] = v
	}
	return n
}

// joinState: V: keys missing on one side are taken from the other (not yet
// defined on that path); L:/M: keys missing on one side mean "unknown" and are
// dropped.
func (an *fnAn) joinState(a, b tstate) tstate {
	if a == nil {
		return b.clone()
	}
	n := make(tstate)
	other := func(k string, have AV, missing tstate) AV {
		v := an.vals[k[2:]]
		switch x := v.(type) {
		case nil, *ssa.Phi, *ssa.Parameter:
			return have
		case *ssa.UnOp:
			if x.Op == token.MUL {
				return have // loads are recorded when executed
			}
		}
		// a value computed from its operands: on the path that did not refine
		// it, it has its structural value in that path's state
		return joinAV(have, an.eval(v, missing))
	}
	for k, va := range a {
		vb, ok := b[k]
		if k == "LAST" {
			if ok && va.Src == vb.Src {
				n[k] = va
			}
			continue
		}
		if ok {
			n[k] = joinAV(va, vb)
		} else if strings.HasPrefix(k, "V:") {
			n[k] = other(k, va, b)
		}
	}
	for k, vb := range b {
		if _, ok := a[k]; !ok && strings.HasPrefix(k, "V:") {
			n[k] = other(k, vb, a)
		}
	}
	return n
}

func stateEq(a, b tstate) bool {
	if len(a) != len(b) {
		return false
	}
	for k, va := range a {
		vb, ok := b[k]
		if !ok || !va.eq(vb) {
			return false
		}
	}
	return true
}

func widen(old, nw tstate) tstate {
	out := make(tstate, len(nw))
	for k, v := range nw {
		o, ok := old[k]
		if !ok {
			out[k] = v
			continue
		}
		w := v
		w.T = widenIv(o.T, v.T)
		w.P = widenIv(o.P, v.P)
		out[k] = w
	}
	return out
}

var (
	loThresholds []*big.Int // descending
	hiThresholds []*big.Int // ascending
)

func init() {
	p := func(n uint) *big.Int { return new(big.Int).Lsh(bi(1), n) }
	loThresholds = []*big.Int{bi(1), bi(0), bi(-1), bi(-128), bi(-32768), new(big.Int).Neg(p(31)), new(big.Int).Neg(p(63))}
	hiThresholds = []*big.Int{bi(0), bi(127), bi(255), bi(4096), bi(32767), bi(65535), bi(0x200000),
		new(big.Int).Sub(p(31), bi(1)), new(big.Int).Sub(p(32), bi(1)), new(big.Int).Sub(p(63), bi(1)), new(big.Int).Sub(p(64), bi(1))}
}

// widenIv: threshold widening (a changing bound jumps to the next threshold,
// finally to infinity), so that ascending chains are finite.
func widenIv(o, n *Iv) *Iv {
	if o == nil || n == nil {
		return n
	}
	r := &Iv{n.Lo, n.Hi}
	if cmpB(n.Lo, o.Lo, -1) < 0 {
		r.Lo = nil
		if n.Lo != nil {
			for _, t := range loThresholds {
				if t.Cmp(n.Lo) <= 0 {
					r.Lo = t
					break
				}
			}
		}
	}
	if cmpB(n.Hi, o.Hi, +1) > 0 {
		r.Hi = nil
		if n.Hi != nil {
			for _, t := range hiThresholds {
				if t.Cmp(n.Hi) >= 0 {
					r.Hi = t
					break
				}
			}
		}
	}
	return r
}

// Sink is one use of a peer-derived integer that has a range requirement.
type Sink struct {
	Fn    *ssa.Function
	Kind  string // make, slice, index, copyn, makeslice, div, shift, loop, ...
	Ord   int
	Pos   token.Pos
	Want  string
	Got   string
	OK    bool
	Mixed bool
	// Undecided: why a sink that is not proven says nothing either way (a program value the
	// interval analysis has no lower bound for at all, e.g. a count produced by a loop)
	Undecided string
	Src       string
	AV        AV
	In        ssa.Instruction
}

func (s *Sink) Key() string { return fmt.Sprintf("%s#%s%d", core.FnName(s.Fn), s.Kind, s.Ord) }

// TLG is the whole-module analysis.
type TLG struct {
	c *Ctx

	ret         map[*ssa.Function][]AV
	retOK       map[*ssa.Function][]AV // results on the exits whose error result may be nil
	lenParams   map[any][]int
	sentinels   map[*ssa.Global]bool
	paramPost   map[*ssa.Function][]AV // what is known of each integer parameter when the function returns normally
	paramPostOK map[*ssa.Function][]AV // ... when it returns with a possibly-nil error
	paramPostT  map[*ssa.Function][]AV // ... when its single boolean result is true (a predicate: validID(id))
	paramPostF  map[*ssa.Function][]AV // ... when it is false
	paramT      map[*ssa.Function][]AV
	paramElemT  map[*ssa.Function][]string // slice parameters whose elements are peer-derived at some call site (its source)
	fieldT      map[*types.Var]string      // integer field -> source description
	fieldElemT  map[*types.Var]string
	changed     bool
	warm        bool
	lastFeas    map[*ssa.BasicBlock]map[int]bool // Probe only: the predecessor edges over which a state arrived
	lastRetOK   []AV                             // Probe only: the ok-exit results of the function just analysed
	lastPostOK  []AV                             // Probe only: the parameter facts at the nil-error exits of the function just analysed
	curAn       *fnAn                            // during a Probe callback: the analysis and state at the instruction
	curSt       tstate
	round       int

	collect bool
	probe   func(in ssa.Instruction, eval func(ssa.Value) AV, locAV func(key string) (AV, bool))
	pure    map[*ssa.Function]bool
	assume  map[ssa.Value]AV // Probe only: case split on a value
	Sinks   []*Sink
	Sources map[string]int // source description -> count (evidence)

	fns []*ssa.Function

	constParams map[*ssa.Function][]*Iv // unexported, statically-called-only functions: integer parameters every call site passes a constant for
}

// closedConstParams: for every function of the module that can only be reached through static
// calls inside the module (unexported, never used as a value, no dynamic call edge), the integer
// parameters for which every call site passes a constant - the hull of those constants is all
// the parameter can ever be (readArray(r, 1) / (r, 4) / (r, 8): elemSize in [1, 8]).
func (t *TLG) closedConstParams() map[*ssa.Function][]*Iv {
	out := map[*ssa.Function][]*Iv{}
	open := map[*ssa.Function]bool{}
	type acc struct {
		iv  []*Iv
		bad []bool
		n   int
	}
	sites := map[*ssa.Function]*acc{}
	for _, f := range t.c.Funcs() {
		for _, b := range f.Blocks {
			for _, in := range b.Instrs {
				ci, isCall := in.(ssa.CallInstruction)
				var callee *ssa.Function
				if isCall {
					callee = ci.Common().StaticCallee()
				}
				// any other mention of a function makes it a value
				for _, op := range in.Operands(nil) {
					if g, ok := (*op).(*ssa.Function); ok {
						if !(isCall && g == callee && ci.Common().Value == ssa.Value(g)) {
							open[core.Origin(g)] = true
						}
					}
				}
				if callee == nil {
					continue
				}
				if isCall {
					if _, isGo := in.(*ssa.Go); isGo {
						// fine: still a static call
					}
				}
				g := core.Origin(callee)
				if !t.c.P.InModule(g) || len(g.Blocks) == 0 {
					continue
				}
				a := sites[g]
				if a == nil {
					a = &acc{iv: make([]*Iv, len(g.Params)), bad: make([]bool, len(g.Params))}
					sites[g] = a
				}
				a.n++
				args := ci.Common().Args
				for i := range g.Params {
					if i >= len(args) {
						a.bad[i] = true
						continue
					}
					k, ok := constIntVal(stripConv(args[i]))
					if !ok {
						a.bad[i] = true
						continue
					}
					a.iv[i] = hull(a.iv[i], &Iv{Lo: bi(k), Hi: bi(k)})
				}
			}
		}
	}
	for g, a := range sites {
		if open[g] || a.n == 0 {
			continue
		}
		if obj := g.Object(); obj == nil || obj.Exported() {
			continue
		}
		// a method may be reached through an interface of its package
		if g.Signature.Recv() != nil {
			if n := t.c.P.CallGraph().Nodes[g]; n != nil {
				dyn := false
				for _, e := range n.In {
					if e.Site == nil || e.Site.Common().StaticCallee() == nil {
						dyn = true
					}
				}
				if dyn {
					continue
				}
			}
		}
		any := false
		res := make([]*Iv, len(g.Params))
		for i := range g.Params {
			if !a.bad[i] && a.iv[i] != nil {
				res[i] = a.iv[i]
				any = true
			}
		}
		if any {
			out[g] = res
		}
	}
	return out
}

func (c *Ctx) TLG() *TLG {
	if c.tlg != nil {
		return c.tlg
	}
	t := &TLG{c: c, ret: map[*ssa.Function][]AV{}, retOK: map[*ssa.Function][]AV{}, paramPost: map[*ssa.Function][]AV{}, paramPostOK: map[*ssa.Function][]AV{}, paramPostT: map[*ssa.Function][]AV{}, paramPostF: map[*ssa.Function][]AV{}, paramT: map[*ssa.Function][]AV{}, paramElemT: map[*ssa.Function][]string{}, fieldT: map[*types.Var]string{},
		fieldElemT: map[*types.Var]string{}, Sources: map[string]int{}, pure: map[*ssa.Function]bool{}}
	for _, f := range c.Funcs() {
		if inPkgs(f, "data/...", "level/block", "level/biome", "level/item", "level/entity") {
			// generated tables: no decoders
			continue
		}
		t.fns = append(t.fns, f)
	}
	t.constParams = t.closedConstParams()
	// warm-up: what callees establish about their parameters (checking helpers) is needed by the
	// first round of the main fixpoint already - the parameter summaries only ever grow, so an
	// argument that is seen unchecked once (because the checker's summary did not exist yet) would
	// stay unchecked for good. Two passes compute the postcondition summaries (replacing, not
	// joining); everything else they produced is thrown away.
	t.warm = true
	for i := 0; i < 2; i++ {
		for _, f := range t.fns {
			t.analyze(f)
		}
	}
	t.warm = false
	t.ret, t.retOK, t.paramT = map[*ssa.Function][]AV{}, map[*ssa.Function][]AV{}, map[*ssa.Function][]AV{}
	t.fieldT, t.fieldElemT, t.Sources = map[*types.Var]string{}, map[*types.Var]string{}, map[string]int{}
	// global fixpoint over summaries
	for t.round = 1; t.round <= 12; t.round++ {
		t.changed = false
		for _, f := range t.fns {
			t.analyze(f)
		}
		if !t.changed {
			break
		}
	}
	c.Notes = append(c.Notes, fmt.Sprintf("R-TLG: summaries stable after %d rounds over %d functions; %d tainted integer fields, %d tainted element fields",
		t.round, len(t.fns), len(t.fieldT), len(t.fieldElemT)))
	t.collect = true
	for _, f := range t.fns {
		t.analyze(f)
	}
	sort.SliceStable(t.Sinks, func(i, j int) bool { return t.Sinks[i].Key() < t.Sinks[j].Key() })
	c.tlg = t
	return t
}

// ProbeAssume is Probe under the assumption that value v has the abstract value av.
func (t *TLG) ProbeAssume(fn *ssa.Function, v ssa.Value, av AV, visit func(in ssa.Instruction, eval func(ssa.Value) AV, locAV func(key string) (AV, bool))) {
	t.ProbeAssumeAll(fn, map[ssa.Value]AV{v: av}, visit)
}

// ProbeAssumeAll is ProbeAssume with several assumed values.
func (t *TLG) ProbeAssumeAll(fn *ssa.Function, as map[ssa.Value]AV, visit func(in ssa.Instruction, eval func(ssa.Value) AV, locAV func(key string) (AV, bool))) {
	t.assume = as
	defer func() { t.assume = nil }()
	t.Probe(fn, visit)
}

// OKResultsAssuming: the results of fn on its exits that can carry a nil error,
// computed under the assumption that value v of fn is av (a case split inside a
// helper: with the element tag it reads assumed to be TagEnd, which counts can
// it hand back without an error?). nil if fn has no such exit under the assumption.
func (t *TLG) OKResultsAssuming(fn *ssa.Function, v ssa.Value, av AV) []AV {
	t.lastRetOK = nil
	t.ProbeAssume(fn, v, av, func(ssa.Instruction, func(ssa.Value) AV, func(string) (AV, bool)) {})
	return t.lastRetOK
}

// ParamPostOKAssuming: what holds for the parameters of fn at its exits that can carry a nil
// error, computed under the assumption that value v of fn is av (a check helper asked about one
// particular tag: checkListHeader(elemType = 0, n) returns nil only for n <= 0).
func (t *TLG) ParamPostOKAssuming(fn *ssa.Function, v ssa.Value, av AV) []AV {
	t.lastPostOK = nil
	t.ProbeAssume(fn, v, av, func(ssa.Instruction, func(ssa.Value) AV, func(string) (AV, bool)) {})
	return t.lastPostOK
}

// ProbeErrNonNil: inside a Probe callback, whether the error value v is known to
// be non-nil at the instruction being visited.
func (t *TLG) ProbeErrNonNil(v ssa.Value) bool {
	if t.curAn == nil {
		return false
	}
	return t.curAn.errNonNil(v, t.curSt)
}

// pureFn: a module function that only computes: no stores outside its own
// locals, no map updates, sends, defers, goroutines, and only calls to other
// pure functions or builtins. Calling it cannot change any tracked location.
func (t *TLG) pureFn(fn *ssa.Function, depth int) bool {
	if fn == nil || depth > 4 {
		return false
	}
	if v, ok := t.pure[fn]; ok {
		return v
	}
	if len(fn.Blocks) == 0 || !t.c.P.InModule(fn) {
		return false
	}
	t.pure[fn] = false // recursion guard
	res := true
	for _, b := range fn.Blocks {
		for _, in := range b.Instrs {
			switch x := in.(type) {
			case *ssa.Store:
				if _, local := x.Addr.(*ssa.Alloc); !local {
					res = false
				}
			case *ssa.MapUpdate, *ssa.Send, *ssa.Go, *ssa.Defer:
				res = false
			case *ssa.Call:
				cc := x.Common()
				if _, isB := cc.Value.(*ssa.Builtin); isB {
					continue
				}
				if isPureExternal(calleeName(cc)) {
					continue
				}
				sc := cc.StaticCallee()
				if sc == nil || !t.pureFn(core.Origin(sc), depth+1) {
					res = false
				}
			}
		}
	}
	t.pure[fn] = res
	return res
}

// Probe re-runs the analysis of fn and calls visit before every instruction
// with an evaluator for the abstract state at that point.
func (t *TLG) Probe(fn *ssa.Function, visit func(in ssa.Instruction, eval func(ssa.Value) AV, locAV func(key string) (AV, bool))) {
	t.probe = visit
	defer func() { t.probe = nil }()
	t.analyze(fn)
}

// ---------------------------------------------------------------- per function

type fnAn struct {
	t            *TLG
	errBusy      map[ssa.Value]bool
	fn           *ssa.Function
	sizes        types.Sizes
	in           map[*ssa.BasicBlock]tstate
	visit        map[*ssa.BasicBlock]int
	ords         map[string]int
	sinks        map[ssa.Instruction]map[string]*Sink // dedupe across re-visits: keyed by instr+kind
	retAV        []AV
	retOK        []AV
	post         []AV
	nRet         int
	postOK       []AV
	nRetOK       int
	postT, postF []AV
	nRetT, nRetF int
	feas         map[*ssa.BasicBlock]map[int]bool   // predecessor edges over which a state has arrived
	edgeSt       map[*ssa.BasicBlock]map[int]tstate // per predecessor edge of a merge-only block: the state that arrived
	vals         map[string]ssa.Value               // name -> value for V: entries
	// per block transient
	storeCtr int
	events   []killEvent
	loadAt   map[string][2]int // value name -> (block index, store counter) for loads
	loadKey  map[string]string
}

type killEvent struct {
	ctr int
	key string
}

func related(a, b string) bool {
	return a == b || strings.HasPrefix(a, b+".") || strings.HasPrefix(a, b+"[") || strings.HasPrefix(b, a+".") || strings.HasPrefix(b, a+"[")
}

func (a *fnAn) noteKill(key string) {
	a.storeCtr++
	a.events = append(a.events, killEvent{a.storeCtr, key})
}

// loadStillValid: no store/kill of the loaded location since the load, in block b.
func (a *fnAn) loadStillValid(name string, b *ssa.BasicBlock) (string, bool) {
	at, ok := a.loadAt[name]
	if !ok {
		return "", false
	}
	if at[0] != b.Index {
		// a load in an earlier block: still valid if the location is a local cell that nothing
		// can write after the load (no store to it in the function; every call that is handed its
		// address comes before the load)
		if ld, isLoad := a.vals[name].(*ssa.UnOp); isLoad && ld.Block().Dominates(b) && localCellStableAfter(ld) {
			return a.loadKey[name], true
		}
		return "", false
	}
	key := a.loadKey[name]
	for _, e := range a.events {
		if e.ctr > at[1] && related(e.key, key) {
			return key, false
		}
	}
	return key, true
}

func (t *TLG) sizesOf(fn *ssa.Function) types.Sizes {
	if pk := core.FnPkg(fn); pk != nil {
		if pp := t.c.P.ByPth[pk.Pkg.Path()]; pp != nil && pp.TypesSizes != nil {
			return pp.TypesSizes
		}
	}
	return types.SizesFor("gc", "amd64")
}

func (t *TLG) analyze(fn *ssa.Function) {
	if len(fn.Blocks) == 0 {
		return
	}
	a := &fnAn{t: t, fn: fn, sizes: t.sizesOf(fn), in: map[*ssa.BasicBlock]tstate{}, visit: map[*ssa.BasicBlock]int{},
		ords: map[string]int{}, sinks: map[ssa.Instruction]map[string]*Sink{}, loadAt: map[string][2]int{}, loadKey: map[string]string{}, vals: map[string]ssa.Value{}}
	entry := tstate{}
	pt := t.paramT[fn]
	pe := t.paramElemT[fn]
	for i, p := range fn.Params {
		tr := typeRange(p.Type(), a.sizes)
		if tr == nil {
			// a slice parameter some caller hands a buffer of peer-derived elements
			if sl, ok := p.Type().Underlying().(*types.Slice); ok && i < len(pe) && pe[i] != "" {
				if er := typeRange(sl.Elem(), a.sizes); er != nil {
					entry["L:"+a.sliceKey(p)+"[]"] = AV{T: er, Src: pe[i]}
				}
			}
			continue
		}
		av := AV{P: tr, PExt: true}
		if cp := t.constParams[core.Origin(fn)]; i < len(cp) && cp[i] != nil {
			av = AV{P: meet(cp[i], tr)}
		}
		if i < len(pt) && pt[i].T != nil {
			av.T = meet(pt[i].T, tr)
			av.Mixed = pt[i].Mixed
			av.Src = pt[i].Src
		}
		entry["V:"+p.Name()] = av
		if as, ok := t.assume[ssa.Value(p)]; ok {
			entry["V:"+p.Name()] = as
			a.vals[p.Name()] = p
		}
	}
	a.in[fn.Blocks[0]] = entry
	work := []*ssa.BasicBlock{fn.Blocks[0]}
	inWork := map[*ssa.BasicBlock]bool{fn.Blocks[0]: true}
	steps := 0
	for len(work) > 0 {
		// pick the lowest index block (approximates reverse post-order)
		sort.Slice(work, func(i, j int) bool { return work[i].Index < work[j].Index })
		b := work[0]
		work = work[1:]
		inWork[b] = false
		steps++
		if steps > 20000 {
			panic("R-TLG: no fixpoint in " + core.FnName(fn))
		}
		outs := a.block(b, a.in[b].clone())
		for i, succ := range b.Succs {
			st := outs[i]
			if st == nil {
				continue
			}
			if a.feas == nil {
				a.feas = map[*ssa.BasicBlock]map[int]bool{}
			}
			if a.feas[succ] == nil {
				a.feas[succ] = map[int]bool{}
			}
			a.feas[succ][predIndex(succ, b)] = true
			// phi assignment on the edge
			for _, in := range succ.Instrs {
				phi, ok := in.(*ssa.Phi)
				if !ok {
					break
				}
				if !isIntegerType(phi.Type(), a.sizes) {
					continue
				}
				idx := predIndex(succ, b)
				if idx < 0 {
					continue
				}
				st["V:"+phi.Name()] = a.eval(phi.Edges[idx], st)
				a.vals[phi.Name()] = phi
			}
			if onlyMerges(succ) || hasBoolPhi(succ) {
				if a.edgeSt == nil {
					a.edgeSt = map[*ssa.BasicBlock]map[int]tstate{}
				}
				if a.edgeSt[succ] == nil {
					a.edgeSt[succ] = map[int]tstate{}
				}
				if pi := predIndex(succ, b); pi >= 0 {
					if old, ok := a.edgeSt[succ][pi]; ok {
						a.edgeSt[succ][pi] = a.joinState(old, st)
					} else {
						a.edgeSt[succ][pi] = st.clone()
					}
				}
			}
			old, seen := a.in[succ]
			var nw tstate
			if !seen {
				nw = st
			} else {
				nw = a.joinState(old, st)
				// widen only along back edges (loop heads): elsewhere the chains are
				// finite once the heads are stable, and widening there would undo
				// the refinement of loop guards
				if succ.Dominates(b) {
					a.visit[succ]++
					if a.visit[succ] > 4 {
						nw = widen(old, nw)
					}
				}
				if stateEq(old, nw) {
					continue
				}
			}
			if os.Getenv("GMCHECK_TLG_TRACE") == core.FnName(fn) {
				for k, v := range nw {
					if strings.HasPrefix(k, "V:") {
						if _, isPhi := a.vals[k[2:]].(*ssa.Phi); isPhi {
							fmt.Printf("  edge %d->%d %s = %s\n", b.Index, succ.Index, k, v)
						}
					}
				}
			}
			a.in[succ] = nw
			if !inWork[succ] {
				inWork[succ] = true
				work = append(work, succ)
			}
		}
	}
	if t.collect && os.Getenv("GMCHECK_TLG_DEBUG") == core.FnName(fn) {
		for _, b := range fn.Blocks {
			fmt.Printf("-- block %d (%s) preds=%v\n", b.Index, b.Comment, b.Preds)
			st := a.in[b]
			var ks []string
			for k := range st {
				ks = append(ks, k)
			}
			sort.Strings(ks)
			for _, k := range ks {
				fmt.Printf("     %s = %s\n", k, st[k])
			}
			for _, in := range b.Instrs {
				if v, ok := in.(ssa.Value); ok {
					fmt.Printf("   %s = %s\n", v.Name(), in)
				} else {
					fmt.Printf("   %s\n", in)
				}
			}
		}
	}
	// final pass to collect sinks against the stable states
	if t.collect {
		for _, b := range fn.Blocks {
			st, ok := a.in[b]
			if !ok {
				continue // unreachable under the abstraction
			}
			a.blockCollect(b, st.clone())
		}
	}
	// return summaries: over all exits, and over the exits that can return a nil error
	mergeSum := func(m map[*ssa.Function][]AV, cur []AV) {
		if cur == nil {
			return
		}
		old := m[fn]
		if len(old) != len(cur) {
			m[fn] = cur
			t.changed = true
			return
		}
		for i := range old {
			j := joinAV(old[i], cur[i])
			if t.round > 6 {
				j.T = widenIv(old[i].T, j.T)
				j.P = widenIv(old[i].P, j.P)
			}
			if !j.eq(old[i]) {
				old[i] = j
				t.changed = true
			}
		}
	}
	if t.probe != nil {
		t.lastRetOK = a.retOK
		t.lastPostOK = a.postOK
		t.lastFeas = a.feas
	}
	mergeSum(t.ret, a.retAV)
	mergeSum(t.retOK, a.retOK)
	mergePost := func(m map[*ssa.Function][]AV, cur []AV) {
		if cur == nil {
			return
		}
		// (symbolic bounds are kept: they are translated into the caller's names at the call site)
		old, ok := m[fn]
		if !ok || len(old) != len(cur) || t.warm {
			m[fn] = cur
			t.changed = true
			return
		}
		for i := range old {
			j := joinAV(old[i], cur[i])
			if !j.eq(old[i]) {
				old[i] = j
				t.changed = true
			}
		}
	}
	mergePost(t.paramPost, a.post)
	mergePost(t.paramPostOK, a.postOK)
	mergePost(t.paramPostT, a.postT)
	mergePost(t.paramPostF, a.postF)
}

// onlyMerges: the block consists of phis and its terminator.
func onlyMerges(b *ssa.BasicBlock) bool {
	for i, in := range b.Instrs {
		switch in.(type) {
		case *ssa.Phi, *ssa.DebugRef:
		default:
			if i != len(b.Instrs)-1 {
				return false
			}
		}
	}
	return len(b.Preds) > 1
}

func predIndex(b, pred *ssa.BasicBlock) int {
	for i, p := range b.Preds {
		if p == pred {
			return i
		}
	}
	return -1
}

// block runs the transfer function of b and returns one out-state per
// successor (nil = infeasible edge).
func (a *fnAn) block(b *ssa.BasicBlock, st tstate) []tstate {
	a.storeCtr = 0
	a.events = a.events[:0]
	for _, in := range b.Instrs {
		a.instr(in, st, false)
	}
	return a.branch(b, st)
}

func (a *fnAn) blockCollect(b *ssa.BasicBlock, st tstate) {
	a.storeCtr = 0
	a.events = a.events[:0]
	for _, in := range b.Instrs {
		if a.t.probe != nil {
			a.t.curAn, a.t.curSt = a, st
			a.t.probe(in, func(v ssa.Value) AV { return a.eval(v, st) }, func(key string) (AV, bool) { av, ok := st["L:"+key]; return av, ok })
		}
		a.instr(in, st, a.t.probe == nil)
	}
	if a.t.probe != nil {
		return
	}
	if len(b.Instrs) > 0 {
		if iff, ok := b.Instrs[len(b.Instrs)-1].(*ssa.If); ok {
			a.loopSink(b, iff, st)
		}
	}
}

func (a *fnAn) branch(b *ssa.BasicBlock, st tstate) []tstate {
	outs := make([]tstate, len(b.Succs))
	if len(b.Succs) == 0 {
		return outs
	}
	last := b.Instrs[len(b.Instrs)-1]
	iff, ok := last.(*ssa.If)
	if !ok {
		for i := range outs {
			outs[i] = st.clone()
		}
		return outs
	}
	// a case split on the condition itself (Probe only): one edge is cut
	if av, ok := a.t.assume[iff.Cond]; ok && av.P != nil && av.P.Lo != nil && av.P.Hi != nil && av.P.Lo.Cmp(av.P.Hi) == 0 {
		// (the surviving edge still learns what the condition says: err != nil assumed true makes err non-nil)
		if av.P.Lo.Sign() != 0 {
			if outs[0] = a.refine(st.clone(), iff.Cond, true, b); outs[0] == nil {
				outs[0] = st.clone()
			}
		} else {
			if outs[1] = a.refine(st.clone(), iff.Cond, false, b); outs[1] == nil {
				outs[1] = st.clone()
			}
		}
		return outs
	}
	outs[0] = a.refine(st.clone(), iff.Cond, true, b)
	outs[1] = a.refine(st.clone(), iff.Cond, false, b)
	return outs
}

// ------------------------------------------------------------------ locations

// locKey names the location an address denotes; fld is the innermost struct
// field on the access path, elem reports whether the path goes through an
// index after that field.
func (a *fnAn) locKey(addr ssa.Value) (key string, fld *types.Var, elem bool) {
	switch v := addr.(type) {
	case *ssa.Alloc:
		return "a:" + v.Name(), nil, false
	case *ssa.Parameter:
		return "p:" + v.Name(), nil, false
	case *ssa.FreeVar:
		return "f:" + v.Name(), nil, false
	case *ssa.Global:
		return "g:" + v.String(), nil, false
	case *ssa.FieldAddr:
		k, _, _ := a.locKey(v.X)
		st, _ := deref(v.X.Type()).Underlying().(*types.Struct)
		var f *types.Var
		name := fmt.Sprint(v.Field)
		if st != nil && v.Field < st.NumFields() {
			f = st.Field(v.Field)
			name = f.Name()
		}
		return k + "." + name, f, false
	case *ssa.IndexAddr:
		k, f, _ := a.sliceKeyF(v.X)
		return k + "[]", f, true
	case *ssa.UnOp:
		if v.Op == token.MUL {
			k, f, e := a.locKey(v.X)
			return "*(" + k + ")", f, e
		}
	case *ssa.ChangeType:
		return a.locKey(v.X)
	case *ssa.Convert:
		return a.locKey(v.X)
	case *ssa.MultiConvert:
		return a.locKey(v.X)
	case *ssa.Slice:
		// slicing an array address yields the same storage
		return a.sliceKeyF(v)
	}
	return "v:" + addr.Name(), nil, false
}

// sliceKeyF: key of the storage a slice/array/pointer-to-array value denotes.
func (a *fnAn) sliceKeyF(v ssa.Value) (string, *types.Var, bool) {
	switch x := v.(type) {
	case *ssa.UnOp:
		if x.Op == token.MUL {
			return a.locKey(x.X)
		}
	case *ssa.ChangeType:
		return a.sliceKeyF(x.X)
	case *ssa.Convert:
		return a.sliceKeyF(x.X)
	case *ssa.MultiConvert:
		return a.sliceKeyF(x.X)
	case *ssa.Slice:
		if _, isPtr := x.X.Type().Underlying().(*types.Pointer); isPtr && x.Low == nil {
			return a.locKey(x.X)
		}
	case *ssa.Alloc, *ssa.FieldAddr, *ssa.IndexAddr, *ssa.Global, *ssa.Parameter, *ssa.FreeVar:
		if _, isPtr := v.Type().Underlying().(*types.Pointer); isPtr {
			return a.locKey(v)
		}
	}
	return "v:" + v.Name(), nil, false
}

func (a *fnAn) sliceKey(v ssa.Value) string {
	k, _, _ := a.sliceKeyF(v)
	return k
}

// kill removes every fact about key and the locations below it.
func kill(st tstate, key string) {
	for k := range st {
		if strings.HasPrefix(k, "L:") || strings.HasPrefix(k, "M:") || strings.HasPrefix(k, "Q:") {
			body := k[2:]
			if body == key || strings.HasPrefix(body, key+".") || strings.HasPrefix(body, key+"[") {
				delete(st, k)
			}
		}
	}
	killSyms(st, key)
}

func killSyms(st tstate, key string) {
	for k, v := range st {
		if len(v.UB) == 0 {
			continue
		}
		var keep []Sym
		ch := false
		for _, s := range v.UB {
			if s.Key == key || strings.HasPrefix(s.Key, key+".") || strings.HasPrefix(s.Key, key+"[") {
				ch = true
				continue
			}
			keep = append(keep, s)
		}
		if ch {
			v.UB = keep
			st[k] = v
		}
	}
}

// ----------------------------------------------------------------- evaluation

func constInt(c *ssa.Const) (*big.Int, bool) {
	if c.Value == nil {
		return nil, false
	}
	if c.Value.Kind() != constant.Int {
		return nil, false
	}
	v, ok := new(big.Int).SetString(c.Value.ExactString(), 10)
	return v, ok
}

func (a *fnAn) eval(v ssa.Value, st tstate) AV {
	if av, ok := st["V:"+v.Name()]; ok {
		if _, isConst := v.(*ssa.Const); !isConst {
			return av
		}
	}
	tr := typeRange(v.Type(), a.sizes)
	switch x := v.(type) {
	case *ssa.Const:
		if n, ok := constInt(x); ok {
			return AV{P: ivConst(n)}
		}
	case *ssa.Parameter:
		// recorded at entry; otherwise unknown
	case *ssa.UnOp:
		switch x.Op {
		case token.MUL:
			return a.loadAV(x, st)
		case token.SUB:
			o := a.eval(x.X, st)
			return a.arith(o, AV{P: ivOf(0, 0)}, tr, x.Type(), func(p, q *Iv) *Iv { return ivNeg(p) })
		case token.XOR:
			o := a.eval(x.X, st)
			// ^x = -x-1
			return a.arith(o, AV{P: ivOf(0, 0)}, tr, x.Type(), func(p, q *Iv) *Iv { return ivSub(ivNeg(p), ivOf(1, 1)) })
		}
	case *ssa.Convert:
		return a.conv(x.X, x.Type(), st)
	case *ssa.MultiConvert:
		return a.conv(x.X, x.Type(), st)
	case *ssa.ChangeType:
		return a.conv(x.X, x.Type(), st)
	case *ssa.BinOp:
		return a.binop(x, st)
	case *ssa.Phi:
		// evaluated on edges; if missing (non-integer or first visit) unknown
	case *ssa.Extract:
		if call, ok := x.Tuple.(*ssa.Call); ok {
			return a.callResult(call, x.Index, x.Type())
		}
	case *ssa.Call:
		return a.callResult(x, 0, x.Type())
	case *ssa.Field:
		if st2, ok := x.X.Type().Underlying().(*types.Struct); ok && x.Field < st2.NumFields() {
			f := st2.Field(x.Field)
			if src, ok := a.t.fieldT[f]; ok && tr != nil {
				return AV{T: tr, Src: src}
			}
		}
	case *ssa.Index:
		// element of an array value / string
	case *ssa.Lookup:
	}
	if tr == nil {
		return AV{}
	}
	return AV{P: tr}
}

func (a *fnAn) loadAV(x *ssa.UnOp, st tstate) AV {
	tr := typeRange(x.Type(), a.sizes)
	if tr == nil {
		return AV{}
	}
	key, fld, elem := a.locKey(x.X)
	if av, ok := st["L:"+key]; ok {
		return av
	}
	if fld != nil {
		if elem {
			if src, ok := a.t.fieldElemT[fld]; ok {
				return AV{T: tr, Src: src}
			}
		} else if src, ok := a.t.fieldT[fld]; ok {
			return AV{T: tr, Src: src}
		}
	}
	return AV{P: tr, PExt: true}
}

func (a *fnAn) conv(x ssa.Value, to types.Type, st tstate) AV {
	o := a.eval(x, st)
	tr := typeRange(to, a.sizes)
	if tr == nil {
		return AV{}
	}
	r := AV{Mixed: o.Mixed, Src: o.Src, PExt: o.PExt}
	fits := true
	defer func() {
		// a conversion between integer types maps non-zero to non-zero only when nothing is truncated
	}()
	if o.T != nil {
		if o.T.subset(tr) {
			r.T = o.T
		} else {
			r.T = tr
			fits = false
		}
	}
	if o.P != nil {
		if o.P.subset(tr) {
			r.P = o.P
		} else {
			r.P = tr
			fits = false
		}
	}
	if o.T == nil && o.P == nil {
		r.P = tr
		fits = false
	}
	if fits {
		r.UB = o.UB
		r.NZ = o.NZ
	}
	return r
}

// arith combines two abstract values with an interval operation f.
func (a *fnAn) arith(x, y AV, tr *Iv, typ types.Type, f func(p, q *Iv) *Iv) AV {
	r := AV{Src: x.Src, Mixed: x.Mixed || y.Mixed, PExt: x.PExt || y.PExt}
	if r.Src == "" {
		r.Src = y.Src
	}
	if x.P != nil && y.P != nil {
		r.P = clip(f(x.P, y.P), typ, a.sizes)
	}
	var t *Iv
	if x.T != nil {
		ya := y.all()
		if ya != nil {
			t = hull(t, f(x.T, ya))
			// an unbounded program operand makes the result uninformative
			if y.T == nil && y.PExt && tr != nil && y.P != nil && unboundedWithin(y.P, tr) {
				r.Mixed = true
			}
		}
	}
	if y.T != nil && x.P != nil {
		t = hull(t, f(x.P, y.T))
		if x.T == nil && x.PExt && tr != nil && unboundedWithin(x.P, tr) {
			r.Mixed = true
		}
	}
	if t != nil {
		r.T = clip(t, typ, a.sizes)
	}
	if r.T == nil {
		r.Mixed = false
	}
	return r
}

// unboundedWithin: p covers (almost) the whole type range in at least one
// direction relevant to overflow: both bounds equal the type's.
func unboundedWithin(p, tr *Iv) bool {
	return cmpB(p.Lo, tr.Lo, -1) <= 0 && cmpB(p.Hi, tr.Hi, +1) >= 0
}

func (a *fnAn) binop(x *ssa.BinOp, st tstate) AV {
	tr := typeRange(x.Type(), a.sizes)
	if tr == nil {
		return AV{}
	}
	l, r := a.eval(x.X, st), a.eval(x.Y, st)
	var f func(p, q *Iv) *Iv
	switch x.Op {
	case token.ADD:
		f = ivAdd
	case token.SUB:
		f = ivSub
	case token.MUL:
		f = ivMul
	case token.QUO:
		f = ivQuo
	case token.REM:
		f = ivRem
	case token.SHL:
		f = ivShl
	case token.SHR:
		f = ivShr
	case token.AND:
		f = ivAnd
	case token.OR, token.XOR:
		f = ivOrXor
	case token.AND_NOT:
		f = func(p, q *Iv) *Iv {
			if p != nil && p.Lo != nil && p.Lo.Sign() >= 0 {
				return &Iv{bi(0), p.Hi}
			}
			return ivTop()
		}
	default:
		return AV{P: tr}
	}
	res := a.arith(l, r, tr, x.Type(), f)
	// x + c / x - c keeps shifted symbolic bounds (no overflow assumed when the
	// interval result was not clipped)
	if c, ok := r.P.isConst(); ok && r.T == nil && c.IsInt64() && (x.Op == token.ADD || x.Op == token.SUB) {
		k := c.Int64()
		if x.Op == token.SUB {
			k = -k
		}
		exact := f(l.all(), r.P)
		if exact != nil && exact.subset(tr) {
			for _, s := range l.UB {
				res.UB = append(res.UB, Sym{s.Kind, s.Key, s.K + k, s.T})
			}
		}
	}
	if res.T == nil && res.P == nil {
		res.P = tr
	}
	return res
}

// countResult: functions whose first result is a byte count (non-negative by
// the io contracts; trusted base).
func countResultCall(cc *ssa.CallCommon) bool {
	name := ""
	var sig *types.Signature
	if cc.IsInvoke() {
		name = cc.Method.Name()
		sig, _ = cc.Method.Type().(*types.Signature)
	} else if f := cc.StaticCallee(); f != nil {
		name = f.Name()
		sig = f.Signature
		if f.Signature.Recv() == nil {
			pk := ""
			if p := core.FnPkg(f); p != nil {
				pk = p.Pkg.Path()
			}
			if pk == "io" && (name == "ReadFull" || name == "ReadAtLeast" || name == "CopyN" || name == "Copy" || name == "CopyBuffer" || name == "WriteString") {
				return true
			}
			return false
		}
	}
	if sig == nil || sig.Results().Len() != 2 {
		return false
	}
	switch name {
	case "ReadFrom", "WriteTo", "Read", "Write", "ReadAt", "WriteAt", "WriteString":
		b, ok := sig.Results().At(0).Type().Underlying().(*types.Basic)
		return ok && (b.Kind() == types.Int || b.Kind() == types.Int64)
	}
	return false
}

func (a *fnAn) callResult(call *ssa.Call, idx int, typ types.Type) AV {
	return a.callResultOf(call, idx, typ, a.t.ret)
}

// callResultOKOnly: the ok-exit summary of the call's result idx, or nil when some
// possible callee has none.
func (a *fnAn) callResultOKOnly(call *ssa.Call, idx int, typ types.Type) *AV {
	callees := a.t.c.P.Callees(call)
	if len(callees) == 0 {
		return nil
	}
	for _, g := range callees {
		if s, ok := a.t.retOK[core.Origin(g)]; !ok || idx >= len(s) {
			return nil
		}
	}
	av := a.callResultOf(call, idx, typ, a.t.retOK)
	return &av
}

func (a *fnAn) callResultOf(call *ssa.Call, idx int, typ types.Type, sums map[*ssa.Function][]AV) AV {
	tr := typeRange(typ, a.sizes)
	if tr == nil {
		return AV{}
	}
	cc := call.Common()
	maxInt := typeRange(types.Typ[types.Int], a.sizes).Hi
	if b, ok := cc.Value.(*ssa.Builtin); ok {
		switch b.Name() {
		case "len", "cap":
			// trusted: no object has 2^56 or more elements (far beyond any address space Go
			// supports); this leaves head-room so that len+c does not count as overflowing
			lim := new(big.Int).Lsh(bi(1), 56)
			if maxInt.Cmp(lim) < 0 {
				lim = maxInt
			}
			return AV{P: &Iv{bi(0), lim}}
		case "min", "max":
			return AV{P: tr}
		}
		return AV{P: tr}
	}
	if idx == 0 && countResultCall(cc) {
		return AV{P: meet(&Iv{Lo: bi(0)}, tr)}
	}
	name := calleeName(cc)
	switch name {
	case "encoding/binary.(bigEndian).Uint16", "encoding/binary.(bigEndian).Uint32", "encoding/binary.(bigEndian).Uint64",
		"encoding/binary.(littleEndian).Uint16", "encoding/binary.(littleEndian).Uint32", "encoding/binary.(littleEndian).Uint64",
		"encoding/binary.(ByteOrder).Uint16", "encoding/binary.(ByteOrder).Uint32", "encoding/binary.(ByteOrder).Uint64":
		return AV{T: tr, Src: "binary." + name[strings.LastIndex(name, ".")+1:] + " of a byte buffer"}
	case "reflect.(Value).Len", "reflect.(Value).Cap", "reflect.(Type).Len", "reflect.(Type).NumField", "reflect.(Value).NumField",
		"bytes.(Buffer).Len", "bytes.(Reader).Len", "strings.(Builder).Len", "bytes.(Buffer).Cap", "container/list.(List).Len":
		return AV{P: &Iv{bi(0), maxInt}}
	case "strings.Index", "strings.IndexByte", "strings.IndexRune", "strings.IndexAny", "strings.LastIndex", "strings.LastIndexByte", "bytes.Index", "bytes.IndexByte", "bytes.LastIndex":
		// -1, or a position inside the first argument
		av := AV{P: &Iv{bi(-1), new(big.Int).Lsh(bi(1), 56)}}
		if len(cc.Args) > 0 {
			av.UB = []Sym{{'l', a.sliceKey(cc.Args[0]), -1, false}}
		}
		return av
	case "math/bits.Len", "math/bits.Len8", "math/bits.Len16", "math/bits.Len32", "math/bits.Len64",
		"math/bits.LeadingZeros", "math/bits.LeadingZeros32", "math/bits.LeadingZeros64", "math/bits.TrailingZeros64", "math/bits.OnesCount64":
		return AV{P: ivOf(0, 64)}
	}
	// module callees: summaries
	var res *AV
	callees := a.t.c.P.Callees(call)
	if len(callees) == 0 {
		return AV{P: tr}
	}
	for _, g := range callees {
		g0 := core.Origin(g)
		sum, ok := sums[g0]
		if !a.t.c.P.InModule(g0) || !ok || idx >= len(sum) {
			if a.t.c.P.InModule(g0) && len(g0.Blocks) > 0 && !ok {
				// not analysed yet in this round: optimistic bottom, a later round fixes it
				continue
			}
			j := AV{P: tr}
			if res != nil {
				j = joinAV(*res, j)
			}
			res = &j
			continue
		}
		s := sum[idx]
		s.UB = nil // callee-local symbols mean nothing here
		if s.T != nil && s.Src == "" {
			s.Src = "result of " + core.FnName(g0)
		}
		if res == nil {
			res = &s
		} else {
			j := joinAV(*res, s)
			res = &j
		}
	}
	if res == nil {
		return AV{P: tr}
	}
	r := *res
	if r.T != nil {
		r.T = meet(r.T, tr)
	}
	if r.P != nil {
		r.P = meet(r.P, tr)
	}
	if r.T == nil && r.P == nil {
		r.P = tr
	}
	return r
}

// symOf gives the symbolic form of v if it is len/cap of a location or the
// value of an integer location, plus a constant.
func (a *fnAn) symOf(v ssa.Value) (Sym, bool) {
	switch x := v.(type) {
	case *ssa.Call:
		cc := x.Common()
		if b, ok := cc.Value.(*ssa.Builtin); ok && len(cc.Args) == 1 {
			switch b.Name() {
			case "len":
				return Sym{'l', a.sliceKey(cc.Args[0]), 0, false}, true
			case "cap":
				return Sym{'c', a.sliceKey(cc.Args[0]), 0, false}, true
			}
		}
		switch calleeName(cc) {
		case "reflect.(Value).Len":
			return Sym{'l', "v:" + cc.Args[0].Name(), 0, false}, true
		case "reflect.(Value).Cap":
			return Sym{'c', "v:" + cc.Args[0].Name(), 0, false}, true
		}
		if isIntegerType(x.Type(), a.sizes) {
			return Sym{'v', "v:" + x.Name(), 0, false}, true
		}
	case *ssa.Extract, *ssa.Parameter, *ssa.Phi:
		if isIntegerType(v.Type(), a.sizes) {
			return Sym{'v', "v:" + v.Name(), 0, false}, true
		}
	case *ssa.UnOp:
		if x.Op == token.MUL && isIntegerType(x.Type(), a.sizes) {
			k, _, _ := a.locKey(x.X)
			// only valid while the location is not overwritten: checked through
			// killSyms on every store/kill of the key
			return Sym{'v', k, 0, false}, true
		}
	case *ssa.Convert:
		if s, ok := a.symConv(x.X, x.Type()); ok {
			return s, true
		}
		// a wrapping conversion: the converted value is a symbol of its own (SSA values never change)
		if isIntegerType(x.Type(), a.sizes) {
			return Sym{'v', "v:" + x.Name(), 0, false}, true
		}
		return Sym{}, false
	case *ssa.MultiConvert:
		return a.symConv(x.X, x.Type())
	case *ssa.ChangeType:
		return a.symConv(x.X, x.Type())
	case *ssa.BinOp:
		if x.Op == token.ADD || x.Op == token.SUB {
			if c, ok := x.Y.(*ssa.Const); ok {
				if n, ok := constInt(c); ok && n.IsInt64() {
					if s, ok := a.symOf(x.X); ok {
						k := n.Int64()
						if x.Op == token.SUB {
							k = -k
						}
						return Sym{s.Kind, s.Key, s.K + k, false}, true
					}
				}
			}
		}
	}
	return Sym{}, false
}

func (a *fnAn) symConv(x ssa.Value, to types.Type) (Sym, bool) {
	s, ok := a.symOf(x)
	if !ok {
		return s, false
	}
	from, tt := typeRange(x.Type(), a.sizes), typeRange(to, a.sizes)
	if from == nil || tt == nil {
		return s, false
	}
	if s.Kind == 'v' && !from.subset(tt) {
		return s, false
	}
	// len/cap are non-negative: a wrapping conversion yields len mod 2^k, which
	// is <= len whenever it is non-negative; an upper bound "x <= conv(len)+k"
	// for a non-negative x therefore still implies x <= len+k (sinks require
	// x >= 0 separately).
	return s, true
}

// ----------------------------------------------------------------- refinement

func negOp(op token.Token) token.Token {
	switch op {
	case token.LSS:
		return token.GEQ
	case token.LEQ:
		return token.GTR
	case token.GTR:
		return token.LEQ
	case token.GEQ:
		return token.LSS
	case token.EQL:
		return token.NEQ
	case token.NEQ:
		return token.EQL
	}
	return op
}

func flipOp(op token.Token) token.Token {
	switch op {
	case token.LSS:
		return token.GTR
	case token.LEQ:
		return token.GEQ
	case token.GTR:
		return token.LSS
	case token.GEQ:
		return token.LEQ
	}
	return op
}

// hasBoolPhi: the block starts with a phi of boolean type (a && / || chain used as a value).
func hasBoolPhi(b *ssa.BasicBlock) bool {
	for _, in := range b.Instrs {
		phi, ok := in.(*ssa.Phi)
		if !ok {
			return false
		}
		if bt, ok := phi.Type().Underlying().(*types.Basic); ok && bt.Kind() == types.Bool {
			return true
		}
	}
	return false
}

func (a *fnAn) refine(st tstate, cond ssa.Value, truth bool, b *ssa.BasicBlock) tstate {
	switch c := cond.(type) {
	case *ssa.UnOp:
		if c.Op == token.NOT {
			return a.refine(st, c.X, !truth, b)
		}
	case *ssa.Const:
		if c.Value != nil && c.Value.Kind() == constant.Bool {
			if constant.BoolVal(c.Value) != truth {
				return nil
			}
		}
		return st
	case *ssa.Call:
		// if !r.validID(id) { return }: what the predicate's answer says about its integer arguments
		if bt, ok := c.Type().Underlying().(*types.Basic); ok && bt.Kind() == types.Bool {
			if truth {
				a.applyPost(c, c.Common(), st, a.t.paramPostT)
			} else {
				a.applyPost(c, c.Common(), st, a.t.paramPostF)
			}
		}
		return st
	case *ssa.Phi:
		// a && / || used as a value: the condition holds through one of the edges
		// that have been feasible so far
		if c.Block() != b {
			// the flag was computed in an earlier block (isArray := a || b || c; ...; if !isArray):
			// nothing about the state here can be refined, but the branch is cut when no edge that
			// has been feasible into the flag's block can have given it this value
			pb := c.Block()
			if !pb.Dominates(b) || a.feas[pb] == nil {
				return st
			}
			for i, e := range c.Edges {
				if !a.feas[pb][i] {
					continue
				}
				switch k := e.(type) {
				case *ssa.Const:
					if k.Value != nil && k.Value.Kind() == constant.Bool && constant.BoolVal(k.Value) == truth {
						return st
					}
				case *ssa.BinOp:
					es, ok := a.edgeSt[pb][i]
					if !ok {
						return st
					}
					if a.refine(es.clone(), e, truth, pb) != nil {
						return st
					}
				default:
					return st
				}
			}
			return nil
		}
		var res tstate
		for i, e := range c.Edges {
			if !a.feas[b][i] {
				continue
			}
			var cand tstate
			base := st
			if es, ok := a.edgeSt[b][i]; ok && onlyMerges(b) {
				base = es // what held on this very edge (the block only merges)
			}
			if k, ok := e.(*ssa.Const); ok {
				if k.Value == nil || k.Value.Kind() != constant.Bool || constant.BoolVal(k.Value) != truth {
					continue
				}
				cand = base.clone()
			} else if _, isPhi := e.(*ssa.Phi); isPhi {
				cand = base.clone()
			} else {
				cand = a.refine(base.clone(), e, truth, b)
				if cand == nil {
					continue
				}
			}
			// arriving over this edge also means the predecessor's own branch went this way
			// (a && b: the edge that carries the constant false is the one where a was false)
			if i < len(b.Preds) {
				p := b.Preds[i]
				if iff, ok := p.Instrs[len(p.Instrs)-1].(*ssa.If); ok && len(p.Succs) == 2 && p.Succs[0] != p.Succs[1] {
					if _, isPhiCond := iff.Cond.(*ssa.Phi); !isPhiCond {
						cand = a.refine(cand, iff.Cond, p.Succs[0] == b, p)
						if cand == nil {
							continue
						}
					}
				}
			}
			if res == nil {
				res = cand
			} else {
				res = a.joinState(res, cand)
			}
		}
		return res
	case *ssa.BinOp:
		switch c.Op {
		case token.LSS, token.LEQ, token.GTR, token.GEQ, token.EQL, token.NEQ:
		default:
			return st
		}
		if !isIntegerType(c.X.Type(), a.sizes) {
			if (c.Op == token.EQL || c.Op == token.NEQ) && isErrorType(c.X.Type()) {
				a.refineErr(st, c, truth)
			}
			return st
		}
		op := c.Op
		if !truth {
			op = negOp(op)
		}
		// x & M == 0 with M all ones above bit k (0xFFFFFF80, ^0x7F): x < 2^k, for unsigned x
		if op == token.EQL {
			if and, ok := c.X.(*ssa.BinOp); ok && and.Op == token.AND {
				if z, ok := constIntVal(c.Y); ok && z == 0 {
					for _, pr := range [][2]ssa.Value{{and.X, and.Y}, {and.Y, and.X}} {
						m, isK := constIntVal(pr[1])
						tb, sg := typeBits(pr[0].Type())
						if !isK || sg || tb > 63 {
							continue
						}
						low := (^m) & (int64(1)<<uint(tb) - 1)
						if low&(low+1) != 0 {
							continue // not of the form 2^k - 1
						}
						xv := a.eval(pr[0], st)
						bound := AV{T: ivOf(low, low)}
						if nx, ok := a.constrain(xv, token.LEQ, bound, nil); ok {
							a.assign(st, pr[0], nx, b)
						}
					}
				}
			}
		}
		xa, ya := a.eval(c.X, st), a.eval(c.Y, st)
		nx, okx := a.constrain(xa, op, ya, c.Y)
		ny, oky := a.constrain(ya, flipOp(op), xa, c.X)
		if !okx || !oky {
			return nil
		}
		a.assign(st, c.X, nx, b)
		a.assign(st, c.Y, ny, b)
		return st
	}
	return st
}

// refineErr: "err != nil" / "err == nil". On the non-nil edge the fact is
// recorded (the exits below it are error exits); on the nil edge the other
// results of the call that produced err are narrowed to the callee's summary
// over its exits that can return a nil error.
func (a *fnAn) refineErr(st tstate, c *ssa.BinOp, truth bool) {
	e, other := c.X, c.Y
	if k, ok := e.(*ssa.Const); ok && k.Value == nil {
		e, other = other, e
	}
	if k, ok := other.(*ssa.Const); !ok || k.Value != nil {
		return
	}
	nonNil := (c.Op == token.NEQ) == truth
	if nonNil {
		st["N:"+e.Name()] = AV{NZ: true}
		return
	}
	// err == nil: what the callee guarantees about its integer arguments when it reports no error
	// (err := checkLength(n); if err != nil { return })
	var ex *ssa.Extract
	var call *ssa.Call
	switch x := e.(type) {
	case *ssa.Call:
		call = x
	case *ssa.Extract:
		ex = x
		call, _ = x.Tuple.(*ssa.Call)
	}
	if call == nil {
		return
	}
	a.applyPost(call, call.Common(), st, a.t.paramPostOK)
	if ex == nil || call.Referrers() == nil {
		return
	}
	hasOK := false
	for _, g := range a.t.c.P.Callees(call) {
		if _, ok := a.t.retOK[core.Origin(g)]; ok {
			hasOK = true
		} else if a.t.c.P.InModule(core.Origin(g)) && len(core.Origin(g).Blocks) > 0 {
			return // a callee without nil-error exits (or not summarised yet): no narrowing
		}
	}
	if !hasOK {
		return
	}
	for _, r := range *call.Referrers() {
		sib, ok := r.(*ssa.Extract)
		if !ok || sib == ex || !isIntegerType(sib.Type(), a.sizes) {
			continue
		}
		okAV := a.callResultOf(call, sib.Index, sib.Type(), a.t.retOK)
		cur := a.eval(sib, st)
		all := cur.all()
		nw := cur
		nw.T, nw.P = nil, nil
		if okAV.T != nil {
			nw.T = meet(okAV.T, all)
		}
		if okAV.P != nil {
			nw.P = meet(okAV.P, all)
		}
		if nw.T == nil && nw.P == nil {
			continue
		}
		if nw.T == nil {
			nw.Src = ""
		} else if nw.Src == "" {
			nw.Src = okAV.Src
		}
		st["V:"+sib.Name()] = nw
		a.vals[sib.Name()] = sib
	}
}

// constrain returns v restricted by "v op other"; ok=false if no value
// remains (infeasible edge).
func (a *fnAn) constrain(v AV, op token.Token, other AV, otherVal ssa.Value) (AV, bool) {
	o := other.all()
	if o == nil {
		return v, true
	}
	var allow *Iv
	one := bi(1)
	switch op {
	case token.LSS:
		allow = &Iv{}
		if o.Hi != nil {
			allow.Hi = new(big.Int).Sub(o.Hi, one)
		}
	case token.LEQ:
		allow = &Iv{Hi: o.Hi}
	case token.GTR:
		allow = &Iv{}
		if o.Lo != nil {
			allow.Lo = new(big.Int).Add(o.Lo, one)
		}
	case token.GEQ:
		allow = &Iv{Lo: o.Lo}
	case token.EQL:
		allow = o
	case token.NEQ:
		allow = ivTop()
	}
	r := v
	r.T = meet(v.T, allow)
	r.P = meet(v.P, allow)
	if op == token.NEQ {
		if c, ok := o.isConst(); ok {
			r.T = exclude(r.T, c)
			r.P = exclude(r.P, c)
			if c.Sign() == 0 {
				r.NZ = true
			}
		}
	}
	if v.T == nil && v.P == nil {
		return v, true
	}
	if r.T == nil && r.P == nil {
		return r, false
	}
	if r.T == nil {
		r.Mixed = false
	}
	// symbolic upper bounds
	if op == token.LSS || op == token.LEQ || op == token.EQL {
		d := int64(0)
		if op == token.LSS {
			d = -1
		}
		ub := append([]Sym(nil), r.UB...)
		if s, ok := a.symOf(otherVal); ok {
			ub = append(ub, Sym{s.Kind, s.Key, s.K + d, other.T != nil})
		}
		for _, s := range other.UB {
			ub = append(ub, Sym{s.Kind, s.Key, s.K + d, s.T})
		}
		r.UB = normUB(ub)
	}
	return r, true
}

func exclude(iv *Iv, c *big.Int) *Iv {
	if iv == nil {
		return nil
	}
	r := &Iv{iv.Lo, iv.Hi}
	if r.Lo != nil && r.Lo.Cmp(c) == 0 {
		r.Lo = new(big.Int).Add(c, bi(1))
	}
	if r.Hi != nil && r.Hi.Cmp(c) == 0 {
		r.Hi = new(big.Int).Sub(c, bi(1))
	}
	if r.Lo != nil && r.Hi != nil && r.Lo.Cmp(r.Hi) > 0 {
		return nil
	}
	return r
}

// assign records the refined value for v and pushes it down through
// value-preserving conversions and same-block loads.
func (a *fnAn) assign(st tstate, v ssa.Value, av AV, b *ssa.BasicBlock) {
	if _, isConst := v.(*ssa.Const); isConst {
		return
	}
	if av.T == nil && av.P == nil {
		return
	}
	st["V:"+v.Name()] = av
	a.vals[v.Name()] = v
	switch x := v.(type) {
	case *ssa.Convert:
		a.assignConv(st, x.X, x.Type(), av, b)
	case *ssa.MultiConvert:
		a.assignConv(st, x.X, x.Type(), av, b)
	case *ssa.ChangeType:
		a.assignConv(st, x.X, x.Type(), av, b)
	case *ssa.BinOp:
		// what is learnt about x + c (x - c) is learnt about x: shift by the constant
		if x.Op == token.ADD || x.Op == token.SUB {
			if k, ok := constIntVal(x.Y); ok && isIntegerType(x.X.Type(), a.sizes) {
				if x.Op == token.SUB {
					k = -k
				}
				src := a.eval(x.X, st)
				sh := func(iv *Iv) *Iv {
					if iv == nil {
						return nil
					}
					out := &Iv{}
					if iv.Lo != nil {
						out.Lo = new(big.Int).Sub(iv.Lo, bi(k))
					}
					if iv.Hi != nil {
						out.Hi = new(big.Int).Sub(iv.Hi, bi(k))
					}
					return out
				}
				n := src
				if all := sh(av.all()); all != nil {
					if src.T != nil {
						if m := meet(src.T, all); m != nil {
							n.T = m
						}
					}
					if src.P != nil {
						if m := meet(src.P, all); m != nil {
							n.P = m
						}
					}
				}
				ub := append([]Sym(nil), src.UB...)
				for _, u := range av.UB {
					ub = append(ub, Sym{u.Kind, u.Key, u.K - k, u.T})
				}
				n.UB = normUB(ub)
				if _, isK := x.X.(*ssa.Const); !isK {
					st["V:"+x.X.Name()] = n
					a.vals[x.X.Name()] = x.X
				}
			}
		}
	case *ssa.UnOp:
		if x.Op == token.MUL {
			if key, ok := a.loadStillValid(x.Name(), b); ok {
				// the location was not written since the load: every fact known about
				// it so far still holds together with the new one
				if old, have := st["L:"+key]; have {
					m := av
					if t := meet(old.T, av.T); t != nil || (old.T == nil && av.T == nil) {
						m.T = t
					}
					if pp := meet(old.P, av.P); pp != nil || (old.P == nil && av.P == nil) {
						m.P = pp
					}
					m.UB = normUB(append(append([]Sym(nil), old.UB...), av.UB...))
					av = m
				}
				st["L:"+key] = av
			}
		}
	}
}

func (a *fnAn) assignConv(st tstate, x ssa.Value, to types.Type, av AV, b *ssa.BasicBlock) {
	from, tt := typeRange(x.Type(), a.sizes), typeRange(to, a.sizes)
	if from == nil || tt == nil {
		return
	}
	src := a.eval(x, st)
	if !from.subset(tt) {
		// value-preserving only if every value the source can have here fits the target
		if all := src.all(); all == nil || !all.subset(tt) {
			return
		}
	}
	n := av
	n.T = meet(src.T, av.T)
	n.P = meet(src.P, av.P)
	if src.T != nil && n.T == nil && src.P != nil && n.P == nil {
		return
	}
	n.Src = src.Src
	n.Mixed = src.Mixed && n.T != nil
	// the conversion preserves the value: what bounded the source before still bounds it
	n.UB = normUB(append(append([]Sym(nil), src.UB...), av.UB...))
	a.assign(st, x, n, b)
}

// ------------------------------------------------------------------- transfer

func (a *fnAn) instr(in ssa.Instruction, st tstate, collect bool) {
	// a new dynamic instance of the value is created: refinements recorded for
	// an earlier instance (previous loop iteration) no longer apply
	if v, ok := in.(ssa.Value); ok {
		if _, isPhi := in.(*ssa.Phi); !isPhi {
			delete(st, "V:"+v.Name())
		}
		if av, ok := a.t.assume[v]; ok {
			st["V:"+v.Name()] = av
			a.vals[v.Name()] = v
			return
		}
	}
	switch x := in.(type) {
	case *ssa.UnOp:
		if x.Op == token.MUL && isIntegerType(x.Type(), a.sizes) {
			av := a.loadAV(x, st)
			st["V:"+x.Name()] = av
			a.vals[x.Name()] = x
			key, _, _ := a.locKey(x.X)
			a.loadAt[x.Name()] = [2]int{x.Block().Index, a.storeCtr}
			a.loadKey[x.Name()] = key
		}
	case *ssa.Store:
		key, fld, elem := a.locKey(x.Addr)
		a.noteKill(key)
		if isIntegerType(x.Val.Type(), a.sizes) {
			av := a.eval(x.Val, st)
			if elem {
				// weak update of the summarised element location
				if old, ok := st["L:"+key]; ok {
					st["L:"+key] = joinAV(old, av)
				}
				if av.T != nil && fld != nil {
					a.t.markElem(fld, av.Src)
				}
			} else {
				kill(st, key)
				st["L:"+key] = av
				if av.T != nil && fld != nil {
					a.t.markField(fld, av.Src)
				}
			}
		} else {
			kill(st, key)
			// *loc = make(T, n): afterwards n <= len(loc) = cap(loc)
			base := x.Val
			for {
				if ct, ok := base.(*ssa.ChangeType); ok {
					base = ct.X
					continue
				}
				break
			}
			// *loc = append(x[:0], make([]T, n)...): as long as the made slice
			if ap, ok := base.(*ssa.Call); ok {
				if bi, isB := ap.Common().Value.(*ssa.Builtin); isB && bi.Name() == "append" && len(ap.Common().Args) == 2 {
					if sl, ok := ap.Common().Args[0].(*ssa.Slice); ok && sl.Low == nil && sl.High != nil {
						if k, ok := constIntVal(sl.High); ok && k == 0 {
							if ms, ok := ap.Common().Args[1].(*ssa.MakeSlice); ok {
								base = ms
							}
						}
					}
				}
			}
			if ms, ok := base.(*ssa.MakeSlice); ok && !elem {
				if m, ok := st["M:v:"+ms.Name()]; ok {
					st["M:"+key] = m
				}
				if q, ok := st["Q:v:"+ms.Name()]; ok {
					st["Q:"+key] = q
				}
				if isIntegerType(ms.Len.Type(), a.sizes) {
					lav := a.eval(ms.Len, st)
					lav.UB = normUB(append(append([]Sym(nil), lav.UB...), Sym{'c', key, 0, false}, Sym{'l', key, 0, false}))
					a.assign(st, ms.Len, lav, x.Block())
				}
			}
			// *loc = helper(..., n, ...) where the helper returns a slice of length n on every path
			// (make([]T, n) or s[:n]): afterwards n <= len(loc)
			if !elem {
				var hc *ssa.Call
				ridx := 0
				switch r := base.(type) {
				case *ssa.Call:
					hc = r
				case *ssa.Extract:
					if c2, ok := r.Tuple.(*ssa.Call); ok {
						hc, ridx = c2, r.Index
					}
				}
				if hc != nil {
					if sc := hc.Common().StaticCallee(); sc != nil && a.t.c.P.InModule(sc) {
						for _, j := range a.t.sliceLenParams(core.Origin(sc), ridx) {
							if j < len(hc.Common().Args) && isIntegerType(hc.Common().Args[j].Type(), a.sizes) {
								n := hc.Common().Args[j]
								nav := a.eval(n, st)
								nav.UB = normUB(append(append([]Sym(nil), nav.UB...), Sym{'c', key, 0, false}, Sym{'l', key, 0, false}))
								a.assign(st, n, nav, x.Block())
							}
						}
					}
				}
			}
			// loc = loc[:h] (re-slice of the same storage): afterwards h <= len(loc)
			if sl, ok := base.(*ssa.Slice); ok && !elem && sl.High != nil && sl.Low == nil && a.sliceKey(sl.X) == key && isIntegerType(sl.High.Type(), a.sizes) {
				hav := a.eval(sl.High, st)
				hav.UB = normUB(append(append([]Sym(nil), hav.UB...), Sym{'l', key, 0, false}))
				a.assign(st, sl.High, hav, x.Block())
			}
		}
	case *ssa.MakeSlice:
		lav := a.eval(x.Len, st)
		if s, ok := a.symOf(x.Len); ok {
			st["Q:v:"+x.Name()] = AV{UB: []Sym{s}}
		}
		st["M:v:"+x.Name()] = lav
		if collect {
			a.sinkNonNeg(x, "make", "len", x.Len, st)
			if x.Cap != x.Len {
				a.sinkNonNeg(x, "make", "cap", x.Cap, st)
			}
		}
	case *ssa.Call:
		a.call(x, x.Common(), st, collect)
	case *ssa.Defer:
		a.call(x, x.Common(), st, false)
	case *ssa.Go:
		a.call(x, x.Common(), st, false)
	case *ssa.Slice:
		if collect {
			a.sinkSlice(x, st)
		}
	case *ssa.IndexAddr:
		if collect {
			a.sinkIndex(x, x.X, x.Index, st)
		}
	case *ssa.Index:
		if collect {
			a.sinkIndex(x, x.X, x.Index, st)
		}
	case *ssa.BinOp:
		if collect {
			switch x.Op {
			case token.QUO, token.REM:
				if isIntegerType(x.Type(), a.sizes) {
					d := a.eval(x.Y, st)
					if d.T != nil {
						ok := !d.T.contains(bi(0)) || d.NZ
						a.addSink(x, "div", d, ok, "peer-derived divisor != 0", "divisor "+d.String())
					}
				}
			case token.SHL, token.SHR:
				d := a.eval(x.Y, st)
				if d.T != nil {
					ok := d.T.Lo != nil && d.T.Lo.Sign() >= 0
					a.addSink(x, "shift", d, ok, "peer-derived shift count >= 0", "count "+d.String())
				}
			}
		}
	case *ssa.Return:
		okExit := false
		// "switch { case bad: err = ... }; return v, err": one return whose error is a phi over the
		// ways in. The nil-error exits are then the edges whose error may be nil, each with the
		// state that arrived over it.
		type okEdge struct {
			st tstate
			pi int
		}
		var okEdges []okEdge
		if n := len(x.Results); n > 0 && isErrorType(x.Results[n-1].Type()) {
			okExit = !a.errNonNil(x.Results[n-1], st)
			if phi, isPhi := x.Results[n-1].(*ssa.Phi); okExit && isPhi && phi.Block() == x.Block() && onlyMerges(x.Block()) && len(a.edgeSt[x.Block()]) > 0 {
				for pi, e := range phi.Edges {
					es, feasible := a.edgeSt[x.Block()][pi]
					if !feasible || a.errNonNil(e, es) {
						continue
					}
					okEdges = append(okEdges, okEdge{es, pi})
				}
				if len(okEdges) == 0 {
					okExit = false
				}
			}
		}
		// the value of v on the nil-error exits
		okEval := func(v ssa.Value, whole AV) AV {
			if len(okEdges) == 0 {
				return whole
			}
			var out AV
			for k, oe := range okEdges {
				ev := v
				if ph, isPhi := v.(*ssa.Phi); isPhi && ph.Block() == x.Block() {
					ev = ph.Edges[oe.pi]
				}
				av := a.eval(ev, oe.st)
				if k == 0 {
					out = av
				} else {
					out = joinAV(out, av)
				}
			}
			return out
		}
		if len(a.fn.Params) > 0 {
			if a.post == nil {
				a.post = make([]AV, len(a.fn.Params))
			}
			if okExit && a.postOK == nil {
				a.postOK = make([]AV, len(a.fn.Params))
			}
			for i, p := range a.fn.Params {
				if !isIntegerType(p.Type(), a.sizes) {
					continue
				}
				av := a.eval(p, st)
				// only symbols over what the parameters point to make sense to a caller
				var keep []Sym
				for _, u := range av.UB {
					if strings.HasPrefix(u.Key, "p:") || strings.HasPrefix(u.Key, "g:") {
						keep = append(keep, u)
					}
				}
				av.UB = keep
				if a.nRet == 0 {
					a.post[i] = av
				} else {
					a.post[i] = joinAV(a.post[i], av)
				}
				if okExit {
					okav := av
					if len(okEdges) > 0 {
						okav = okEval(p, av)
						okav.UB = nil
					}
					if a.nRetOK == 0 {
						a.postOK[i] = okav
					} else {
						a.postOK[i] = joinAV(a.postOK[i], okav)
					}
				}
			}
			a.nRet++
			if okExit {
				a.nRetOK++
			}
			// a predicate (one boolean result): what holds of the parameters when it answers true / false
			if len(x.Results) == 1 {
				if bt, ok := x.Results[0].Type().Underlying().(*types.Basic); ok && bt.Kind() == types.Bool {
					for _, truth := range []bool{true, false} {
						st2 := a.refine(st.clone(), x.Results[0], truth, x.Block())
						if st2 == nil {
							continue
						}
						dst, n := &a.postT, &a.nRetT
						if !truth {
							dst, n = &a.postF, &a.nRetF
						}
						if *dst == nil {
							*dst = make([]AV, len(a.fn.Params))
						}
						for i, p := range a.fn.Params {
							if !isIntegerType(p.Type(), a.sizes) {
								continue
							}
							av := a.eval(p, st2)
							var keep []Sym
							for _, u := range av.UB {
								if strings.HasPrefix(u.Key, "p:") || strings.HasPrefix(u.Key, "g:") {
									keep = append(keep, u)
								}
							}
							av.UB = keep
							if *n == 0 {
								(*dst)[i] = av
							} else {
								(*dst)[i] = joinAV((*dst)[i], av)
							}
						}
						*n++
					}
				}
			}
		}
		if len(x.Results) > 0 {
			if a.retAV == nil {
				a.retAV = make([]AV, len(x.Results))
			}
			if !(len(x.Results) > 1) {
				okExit = false
			}
			if okExit && a.retOK == nil {
				a.retOK = make([]AV, len(x.Results))
			}
			for i, r := range x.Results {
				if !isIntegerType(r.Type(), a.sizes) {
					continue
				}
				av := a.eval(r, st)
				av.UB = nil
				a.retAV[i] = joinAV(a.retAV[i], av)
				if okExit {
					// "n, err := f(); return n, err": when err is nil here, n is what f returns on its
					// own nil-error exits
					okv := av
					if len(okEdges) > 0 {
						okv = okEval(r, av)
						okv.UB = nil
					}
					if ee, ok := x.Results[len(x.Results)-1].(*ssa.Extract); ok {
						if re, ok := r.(*ssa.Extract); ok && re.Tuple == ee.Tuple {
							if call, ok := re.Tuple.(*ssa.Call); ok {
								if sum := a.callResultOKOnly(call, re.Index, re.Type()); sum != nil {
									all := av.all()
									okv.T, okv.P = nil, nil
									if sum.T != nil {
										okv.T = meet(sum.T, all)
									}
									if sum.P != nil {
										okv.P = meet(sum.P, all)
									}
									if okv.T == nil && okv.P == nil {
										okv = av
									}
								}
							}
						}
					}
					// "return n, check(n)": when the error the check returns is nil, n is what the check
					// lets through (its parameter facts at its nil-error exits)
					if cc, ok := x.Results[len(x.Results)-1].(*ssa.Call); ok {
						if g := cc.Common().StaticCallee(); g != nil && a.t.c.P.InModule(g) {
							if post, ok := a.t.paramPostOK[core.Origin(g)]; ok {
								for j, arg := range cc.Common().Args {
									if j >= len(post) || (arg != r && stripConv(arg) != stripConv(r)) {
										continue
									}
									all := post[j].all()
									if all == nil {
										continue
									}
									if okv.T != nil {
										if m := meet(okv.T, all); m != nil {
											okv.T = m
										}
									}
									if okv.P != nil {
										if m := meet(okv.P, all); m != nil {
											okv.P = m
										}
									}
								}
							}
						}
					}
					a.retOK[i] = joinAV(a.retOK[i], okv)
				}
			}
		}
	}
}

func isErrorType(t types.Type) bool {
	return types.Identical(t, types.Universe.Lookup("error").Type())
}

// errNonNil: the error value is certainly non-nil here: freshly built, wrapped
// into the interface from a concrete value, or tested against nil on the way.
func (a *fnAn) errNonNil(v ssa.Value, st tstate) bool {
	// loop-carried error variables (err = phi(err, e)) refer back to themselves: a value that is
	// being decided further up the stack proves nothing about itself
	if a.errBusy[v] {
		return false
	}
	if a.errBusy == nil {
		a.errBusy = map[ssa.Value]bool{}
	}
	a.errBusy[v] = true
	defer delete(a.errBusy, v)
	switch x := v.(type) {
	case *ssa.Const:
		return false
	case *ssa.Phi:
		// `err = errors.New(..)` in one clause, `return err` after the switch: non-nil when it is
		// on every edge that has been feasible so far
		if fe, ok := a.feas[x.Block()]; ok {
			any := false
			all := true
			for i, e := range x.Edges {
				if !fe[i] {
					continue
				}
				any = true
				if e == v || !a.errNonNil(e, st) {
					all = false
				}
			}
			if any && all {
				return true
			}
		}
	case *ssa.MakeInterface:
		return true
	case *ssa.Call:
		switch calleeName(x.Common()) {
		case "errors.New", "fmt.Errorf":
			return true
		}
		// a helper of the module that only ever builds errors: unknownTagError(kind, tag)
		if g := x.Common().StaticCallee(); g != nil && a.t.alwaysErr(core.Origin(g), 0) {
			return true
		}
		// ... or a local function literal that does: syntaxErr := func() error { return d.error(..) }
		fv := x.Common().Value
		if ld, ok := fv.(*ssa.UnOp); ok && ld.Op == token.MUL {
			if al, ok := ld.X.(*ssa.Alloc); ok {
				if sv := singleStore(al); sv != nil {
					fv = sv
				}
			}
		}
		if mc, ok := fv.(*ssa.MakeClosure); ok {
			if g, ok := mc.Fn.(*ssa.Function); ok && a.t.alwaysErr(g, 0) {
				return true
			}
		}
	case *ssa.UnOp:
		// a package-level sentinel: var errX = errors.New(...)
		if g, ok := x.X.(*ssa.Global); ok && x.Op == token.MUL && a.t.sentinelError(g) {
			return true
		}
		// a result slot (functions with a defer spill their results): what was stored last in this block
		if al, ok := x.X.(*ssa.Alloc); ok && x.Op == token.MUL {
			var last ssa.Value
			for _, in := range x.Block().Instrs {
				if in == ssa.Instruction(x) {
					break
				}
				if s, ok := in.(*ssa.Store); ok && s.Addr == ssa.Value(al) {
					last = s.Val
				}
			}
			if last != nil && last != v {
				return a.errNonNil(last, st)
			}
		}
	}
	_, ok := st["N:"+v.Name()]
	return ok
}

// alwaysErr: fn has one result, an error, and every return hands back a freshly
// built one (errors.New, fmt.Errorf, a concrete error value, another such helper).
func (t *TLG) alwaysErr(fn *ssa.Function, depth int) bool {
	if fn == nil || depth > 2 || len(fn.Blocks) == 0 || !t.c.P.InModule(fn) || fn.Signature.Results().Len() != 1 || !isErrorType(fn.Signature.Results().At(0).Type()) {
		return false
	}
	n := 0
	for _, b := range fn.Blocks {
		for _, in := range b.Instrs {
			r, ok := in.(*ssa.Return)
			if !ok {
				continue
			}
			n++
			switch v := r.Results[0].(type) {
			case *ssa.MakeInterface:
			case *ssa.Call:
				nm := calleeName(v.Common())
				if nm == "errors.New" || nm == "fmt.Errorf" {
					continue
				}
				if g := v.Common().StaticCallee(); g == nil || !t.alwaysErr(core.Origin(g), depth+1) {
					return false
				}
			default:
				return false
			}
		}
	}
	return n > 0
}

// sentinelError: a package-level error variable that is given a freshly built
// error by its package's initialiser and is assigned nowhere else in the module.
func (t *TLG) sentinelError(g *ssa.Global) bool {
	if t.sentinels == nil {
		t.sentinels = map[*ssa.Global]bool{}
		bad := map[*ssa.Global]bool{}
		visit := func(fn *ssa.Function, isInit bool) {
			for _, b := range fn.Blocks {
				for _, in := range b.Instrs {
					st, ok := in.(*ssa.Store)
					if !ok {
						continue
					}
					gl, ok := st.Addr.(*ssa.Global)
					if !ok || !isErrorType(deref(gl.Type())) {
						continue
					}
					fresh := false
					switch v := st.Val.(type) {
					case *ssa.MakeInterface:
						fresh = true
					case *ssa.Call:
						n := calleeName(v.Common())
						fresh = n == "errors.New" || n == "fmt.Errorf"
					}
					if isInit && fresh {
						t.sentinels[gl] = true
					} else {
						bad[gl] = true
					}
				}
			}
		}
		for _, pk := range t.c.P.SSA.AllPackages() {
			if pk.Pkg == nil {
				continue
			}
			if init := pk.Func("init"); init != nil {
				visit(init, true)
			}
		}
		for _, fn := range t.c.Funcs() {
			if fn.Name() != "init" {
				visit(fn, false)
			}
		}
		for gl := range bad {
			delete(t.sentinels, gl)
		}
	}
	return t.sentinels[g]
}

func (t *TLG) markField(f *types.Var, src string) {
	if _, ok := t.fieldT[f]; !ok {
		if src == "" {
			src = "store of a peer-derived value"
		}
		t.fieldT[f] = "field " + f.Name() + " <- " + src
		t.changed = true
	}
}

func (t *TLG) markElem(f *types.Var, src string) {
	if _, ok := t.fieldElemT[f]; !ok {
		if src == "" {
			src = "store of a peer-derived value"
		}
		t.fieldElemT[f] = "elements of field " + f.Name() + " <- " + src
		t.changed = true
	}
}

// addrArgs lists the pointer/slice values a call hands to its callee, looking
// through interface boxing, conversions and variadic / composite slice literals.
func (a *fnAn) addrArgs(cc *ssa.CallCommon) []ssa.Value {
	var out []ssa.Value
	seen := map[ssa.Value]bool{}
	var add func(v ssa.Value, depth int)
	add = func(v ssa.Value, depth int) {
		if v == nil || seen[v] || depth > 6 {
			return
		}
		seen[v] = true
		switch x := v.(type) {
		case *ssa.MakeInterface:
			add(x.X, depth+1)
			return
		case *ssa.TypeAssert:
			add(x.X, depth+1)
			return
		case *ssa.ChangeInterface:
			add(x.X, depth+1)
			return
		case *ssa.ChangeType:
			add(x.X, depth+1)
			return
		case *ssa.Convert:
			add(x.X, depth+1)
			return
		case *ssa.MultiConvert:
			add(x.X, depth+1)
			return
		case *ssa.Phi:
			for _, e := range x.Edges {
				add(e, depth+1)
			}
			return
		case *ssa.Slice:
			// slice literal / variadic: every interface stored into the backing array
			if al, ok := x.X.(*ssa.Alloc); ok {
				if arr, ok := deref(al.Type()).Underlying().(*types.Array); ok {
					if _, isIface := arr.Elem().Underlying().(*types.Interface); isIface {
						if refs := al.Referrers(); refs != nil {
							for _, r := range *refs {
								if ia, ok := r.(*ssa.IndexAddr); ok {
									if rr := ia.Referrers(); rr != nil {
										for _, s := range *rr {
											if stx, ok := s.(*ssa.Store); ok && stx.Addr == ia {
												add(stx.Val, depth+1)
											}
										}
									}
								}
							}
						}
						return
					}
				}
			}
		}
		switch v.Type().Underlying().(type) {
		case *types.Pointer, *types.Slice:
			out = append(out, v)
		}
	}
	if cc.IsInvoke() {
		add(cc.Value, 0)
	}
	for _, arg := range cc.Args {
		add(arg, 0)
	}
	return out
}

func (a *fnAn) call(in ssa.Instruction, cc *ssa.CallCommon, st tstate, collect bool) {
	a.callInner(in, cc, st, collect)
	a.applyParamPost(in, cc, st)
}

// applyParamPost: after a call of a module function has returned, its integer
// arguments satisfy what the callee is known to have established about the
// corresponding parameters on every normal return (a checking helper that
// panics or loops otherwise: checkIndex(i)). Symbolic bounds over the callee's
// pointer parameters are renamed to the caller's arguments.
func (a *fnAn) applyParamPost(in ssa.Instruction, cc *ssa.CallCommon, st tstate) {
	a.applyPost(in, cc, st, a.t.paramPost)
}

func (a *fnAn) applyPost(in ssa.Instruction, cc *ssa.CallCommon, st tstate, sums map[*ssa.Function][]AV) {
	if _, isCall := in.(*ssa.Call); !isCall {
		return
	}
	sc := cc.StaticCallee()
	if sc == nil {
		return
	}
	g := core.Origin(sc)
	post, ok := sums[g]
	if !ok || len(post) != len(cc.Args) || len(g.Params) != len(cc.Args) {
		return
	}
	for i, p := range post {
		arg := cc.Args[i]
		if !isIntegerType(arg.Type(), a.sizes) {
			continue
		}
		if _, isConst := arg.(*ssa.Const); isConst {
			continue
		}
		cur := a.eval(arg, st)
		nw := cur
		changed := false
		if all := p.all(); all != nil {
			t2, p2 := meet(cur.T, all), meet(cur.P, all)
			if (cur.T != nil && t2 == nil) && (cur.P == nil || p2 == nil) {
				continue // the callee never returns with such a value: leave the state alone
			}
			if cur.T == nil && cur.P != nil && p2 == nil {
				continue
			}
			if !ivEq(t2, cur.T) || !ivEq(p2, cur.P) {
				changed = true
			}
			nw.T, nw.P = t2, p2
		}
		for _, u := range p.UB {
			key := u.Key
			if strings.HasPrefix(key, "p:") {
				ok := false
				for j, gp := range g.Params {
					pre := "p:" + gp.Name()
					if key == pre || strings.HasPrefix(key, pre+".") || strings.HasPrefix(key, pre+"[") {
						base, _, _ := a.locKey(cc.Args[j])
						if strings.HasPrefix(base, "v:") {
							break
						}
						key, ok = base+key[len(pre):], true
						break
					}
				}
				if !ok {
					continue
				}
			}
			nw.UB = append(append([]Sym(nil), nw.UB...), Sym{u.Kind, key, u.K, u.T})
			changed = true
		}
		if p.NZ && !cur.NZ {
			nw.NZ, changed = true, true
		}
		if changed {
			nw.UB = normUB(nw.UB)
			a.assign(st, arg, nw, in.Block())
		}
	}
}

func ivEq(x, y *Iv) bool {
	if x == nil || y == nil {
		return x == y
	}
	eq := func(p, q *big.Int) bool {
		if p == nil || q == nil {
			return p == q
		}
		return p.Cmp(q) == 0
	}
	return eq(x.Lo, y.Lo) && eq(x.Hi, y.Hi)
}

func (a *fnAn) callInner(in ssa.Instruction, cc *ssa.CallCommon, st tstate, collect bool) {
	if b, ok := cc.Value.(*ssa.Builtin); ok {
		switch b.Name() {
		case "len", "cap", "print", "println", "min", "max", "panic", "recover", "delete", "close":
			return
		case "append", "copy":
			// append(dst, src...): dst storage may be written; no integer facts on slices are kept
			return
		}
	}
	name := calleeName(cc)
	pureExt := isPureExternal(name)
	if collect {
		a.callSinks(in, cc, name, st)
	}
	a.propagateParams(in, cc, st)
	if pureExt {
		return
	}
	if sc := cc.StaticCallee(); sc != nil && a.t.pureFn(core.Origin(sc), 0) {
		return
	}
	switch name {
	case "reflect.(Value).Set", "reflect.(Value).SetLen", "reflect.(Value).SetCap":
		if len(cc.Args) >= 2 {
			rk := "v:" + cc.Args[0].Name()
			killSyms(st, rk)
			if mk, ok := cc.Args[1].(*ssa.Call); ok && name == "reflect.(Value).Set" && calleeName(mk.Common()) == "reflect.MakeSlice" && len(mk.Common().Args) == 3 {
				for i, op := range mk.Common().Args[1:] {
					if isIntegerType(op.Type(), a.sizes) {
						av := a.eval(op, st)
						add := []Sym{{'c', rk, 0, false}}
						if i == 0 {
							add = append(add, Sym{'l', rk, 0, false})
						}
						av.UB = normUB(append(append([]Sym(nil), av.UB...), add...))
						a.assign(st, op, av, in.Block())
					}
				}
			}
			if name == "reflect.(Value).SetLen" && isIntegerType(cc.Args[1].Type(), a.sizes) {
				av := a.eval(cc.Args[1], st)
				av.UB = normUB(append(append([]Sym(nil), av.UB...), Sym{'l', rk, 0, false}))
				a.assign(st, cc.Args[1], av, in.Block())
			}
		}
	}
	for _, p := range a.addrArgs(cc) {
		switch pt := p.Type().Underlying().(type) {
		case *types.Pointer:
			key, fld, elem := a.locKey(p)
			if sl, isSl := pt.Elem().Underlying().(*types.Slice); isSl && name == "encoding/binary.Read" {
				// binary.Read fills the elements of *[]T and never resizes it (library contract)
				if tr := typeRange(sl.Elem(), a.sizes); tr != nil {
					st["L:"+key+"[]"] = AV{T: tr, Src: a.srcDesc(name, in)}
				}
				continue
			}
			a.noteKill(key)
			kill(st, key)
			a.seed(st, key, pt.Elem(), fld, elem, name, in)
		case *types.Slice:
			// the callee may fill the buffer: its elements are peer-derived if it reads
			if tr := typeRange(pt.Elem(), a.sizes); tr != nil {
				key, fld, _ := a.sliceKeyF(p)
				src := a.srcDesc(name, in)
				st["L:"+key+"[]"] = AV{T: tr, Src: src}
				if fld != nil && readsInto(name) {
					a.t.markElem(fld, src)
				}
			}
		}
	}
}

func readsInto(name string) bool {
	for _, s := range []string{"Read", "ReadFull", "ReadAtLeast", "ReadFrom", "Unmarshal", "Decode", "Scan"} {
		if strings.HasSuffix(name, "."+s) {
			return true
		}
	}
	return false
}

func (a *fnAn) srcDesc(callee string, in ssa.Instruction) string {
	c := callee
	if i := strings.LastIndex(c, "/"); i >= 0 {
		c = c[i+1:]
	}
	return c + " at " + a.t.c.P.Pos(in.Pos())
}

// seed makes the integer(s) stored at a location handed to a call peer-derived.
func (a *fnAn) seed(st tstate, key string, pointee types.Type, fld *types.Var, elem bool, callee string, in ssa.Instruction) {
	src := a.srcDesc(callee, in)
	if tr := typeRange(pointee, a.sizes); tr != nil {
		st["L:"+key] = AV{T: tr, Src: src}
		st["LAST"] = AV{Src: key}
		if a.t.collect {
			a.t.Sources[core.FnName(a.fn)]++
		}
		if fld != nil {
			if elem {
				a.t.markElem(fld, src)
			} else {
				a.t.markField(fld, src)
			}
		}
		return
	}
	// arrays (possibly nested) of integers, e.g. binary.Read(r, order, &r.offsets)
	t := pointee
	k := key
	for {
		arr, ok := t.Underlying().(*types.Array)
		if !ok {
			break
		}
		t = arr.Elem()
		k += "[]"
	}
	if t != pointee {
		if tr := typeRange(t, a.sizes); tr != nil {
			st["L:"+k] = AV{T: tr, Src: src}
			if fld != nil {
				a.t.markElem(fld, src)
			}
		}
	}
}

func isPureExternal(name string) bool {
	switch {
	case strings.HasPrefix(name, "reflect.(Value).") || strings.HasPrefix(name, "reflect.(Type)."):
		switch name[strings.LastIndex(name, ".")+1:] {
		case "Set", "SetInt", "SetUint", "SetLen", "SetBytes", "SetString", "SetBool", "SetFloat", "SetMapIndex", "Call":
			return false
		}
		return true
	case strings.HasPrefix(name, "errors.") || strings.HasPrefix(name, "fmt.Errorf") || strings.HasPrefix(name, "fmt.Sprint") ||
		strings.HasPrefix(name, "strconv.") || strings.HasPrefix(name, "strings.") || strings.HasPrefix(name, "math.") ||
		strings.HasPrefix(name, "math/bits.") || strings.HasPrefix(name, "reflect.TypeOf") || strings.HasPrefix(name, "reflect.ValueOf") ||
		strings.HasPrefix(name, "reflect.MakeSlice") || strings.HasPrefix(name, "reflect.New") || strings.HasPrefix(name, "unsafe."):
		return true
	}
	return false
}

// propagateParams joins peer-derived argument parts into the callee summaries.
func (a *fnAn) propagateParams(in ssa.Instruction, cc *ssa.CallCommon, st tstate) {
	site, ok := in.(ssa.CallInstruction)
	if !ok {
		return
	}
	var args []ssa.Value
	if cc.IsInvoke() {
		args = append(args, cc.Value)
	}
	args = append(args, cc.Args...)
	anyT := false
	avs := make([]AV, len(args))
	elemSrc := make([]string, len(args)) // slices whose elements are peer-derived (a buffer filled by a read)
	for i, arg := range args {
		if isIntegerType(arg.Type(), a.sizes) {
			avs[i] = a.eval(arg, st)
			if avs[i].T != nil {
				anyT = true
			}
		} else if sl, ok := arg.Type().Underlying().(*types.Slice); ok && isIntegerType(sl.Elem(), a.sizes) {
			if ev, ok := st["L:"+a.sliceKey(arg)+"[]"]; ok && ev.T != nil {
				elemSrc[i] = ev.Src
				if elemSrc[i] == "" {
					elemSrc[i] = "elements of a buffer passed by " + core.FnName(a.fn)
				}
				anyT = true
			}
		}
	}
	if !anyT {
		return
	}
	for _, g := range a.t.c.P.Callees(site) {
		g0 := core.Origin(g)
		if !a.t.c.P.InModule(g0) || len(g0.Blocks) == 0 {
			continue
		}
		for i := range args {
			if elemSrc[i] == "" || i >= len(g0.Params) {
				continue
			}
			pe := a.t.paramElemT[g0]
			if len(pe) < len(g0.Params) {
				n := make([]string, len(g0.Params))
				copy(n, pe)
				pe = n
				a.t.paramElemT[g0] = pe
			}
			if pe[i] == "" {
				pe[i] = elemSrc[i]
				a.t.changed = true
			}
		}
		pt := a.t.paramT[g0]
		if len(pt) < len(g0.Params) {
			n := make([]AV, len(g0.Params))
			copy(n, pt)
			pt = n
			a.t.paramT[g0] = pt
		}
		for i := range args {
			if i >= len(pt) || avs[i].T == nil {
				continue
			}
			nw := AV{T: hull(pt[i].T, avs[i].T), Mixed: pt[i].Mixed || avs[i].Mixed, Src: pt[i].Src}
			if a.t.round > 6 {
				nw.T = widenIv(pt[i].T, nw.T)
			}
			if nw.Src == "" {
				nw.Src = avs[i].Src
				if nw.Src == "" {
					nw.Src = "argument of " + core.FnName(a.fn)
				}
			}
			if !nw.T.Eq(pt[i].T) || nw.Mixed != pt[i].Mixed {
				pt[i] = nw
				a.t.changed = true
			}
		}
	}
}

// ---------------------------------------------------------------------- sinks

func (a *fnAn) addSink(in ssa.Instruction, kind string, av AV, ok bool, want, got string) {
	a.addSinkAt(in, in.Pos(), kind, av, ok, want, got)
}

func (a *fnAn) addSinkAt(in ssa.Instruction, pos token.Pos, kind string, av AV, ok bool, want, got string) {
	m := a.sinks[in]
	if m == nil {
		m = map[string]*Sink{}
		a.sinks[in] = m
	}
	if _, dup := m[kind]; dup {
		return
	}
	a.ords[kind]++
	s := &Sink{Fn: a.fn, Kind: kind, Ord: a.ords[kind], Pos: pos, Want: want, Got: got, OK: ok, Mixed: av.Mixed, Src: av.Src, AV: av, In: in}
	if !s.Pos.IsValid() {
		s.Pos = a.fn.Pos()
	}
	m[kind] = s
	a.t.Sinks = append(a.t.Sinks, s)
}

func nonNeg(iv *Iv) bool { return iv != nil && iv.Lo != nil && iv.Lo.Sign() >= 0 }

func (a *fnAn) sinkNonNeg(in ssa.Instruction, kind, role string, v ssa.Value, st tstate) {
	if v == nil {
		return
	}
	av := a.eval(v, st)
	if av.T == nil {
		return
	}
	a.addSink(in, kind+"("+role+")", av, nonNeg(av.T), "peer-derived "+role+" >= 0 on every path", role+" "+av.String())
}

// lenLowerBound: what is known about len/cap of the sliced/indexed operand.
// Returns (numeric lower bound of len, symbolic equalities for len).
func (a *fnAn) lenFacts(x ssa.Value, st tstate, forCap bool) (lo *big.Int, eq []Sym, key string) {
	key = a.sliceKey(x)
	t := x.Type()
	if p, ok := t.Underlying().(*types.Pointer); ok {
		t = p.Elem()
	}
	if arr, ok := t.Underlying().(*types.Array); ok {
		return bi(arr.Len()), nil, key
	}
	// MakeSlice-rooted value
	base := x
	for {
		if ct, ok := base.(*ssa.ChangeType); ok {
			base = ct.X
			continue
		}
		break
	}
	id := key
	if ms, ok := base.(*ssa.MakeSlice); ok {
		id = "v:" + ms.Name()
	}
	if av, ok := st["M:"+id]; ok {
		if l := av.all(); l != nil {
			lo = l.Lo
		}
	}
	if e, ok := st["Q:"+id]; ok {
		eq = e.UB
	}
	return lo, eq, key
}

// boundedBy: v <= len/cap of x (+off) is established.
func (a *fnAn) boundedBy(av AV, v ssa.Value, x ssa.Value, st tstate, strict bool, useCap bool) (bool, string) {
	lo, eq, key := a.lenFacts(x, st, useCap)
	d := int64(0)
	if strict {
		d = -1
	}
	if lo != nil && av.T != nil && av.T.Hi != nil {
		lim := new(big.Int).Add(lo, bi(d))
		if av.T.Hi.Cmp(lim) <= 0 {
			return true, ""
		}
	}
	for _, u := range av.UB {
		if u.Key == key && u.K <= d && (u.Kind == 'l' || (u.Kind == 'c' && useCap)) {
			return true, ""
		}
		// symbolic equality with the length the slice was made with
		for _, e := range eq {
			if u.Kind == e.Kind && u.Key == e.Key && u.K <= e.K+d {
				return true, ""
			}
		}
	}
	// one transitive step: v <= val(t)+k and val(t) <= len(x)+j, for a value t that is computed
	// once (its block lies on no cycle, so the fact recorded for it is about the same instance)
	for _, u := range av.UB {
		if u.Kind != 'v' || !strings.HasPrefix(u.Key, "v:") {
			continue
		}
		tv, ok := a.vals[u.Key[2:]]
		if !ok {
			continue
		}
		if in, ok := tv.(ssa.Instruction); !ok || in.Block() == nil || blockInCycle(in.Block()) {
			continue
		}
		for _, w := range st["V:"+u.Key[2:]].UB {
			if w.Key == key && u.K+w.K <= d && (w.Kind == 'l' || (w.Kind == 'c' && useCap)) {
				return true, ""
			}
		}
	}
	if s, ok := a.symOf(v); ok {
		for _, e := range eq {
			if s.Kind == e.Kind && s.Key == e.Key && s.K <= e.K+d {
				return true, ""
			}
		}
		if s.Key == key && s.K <= d && (s.Kind == 'l' || (s.Kind == 'c' && useCap)) {
			return true, ""
		}
	}
	what := "len"
	if useCap {
		what = "cap"
	}
	return false, fmt.Sprintf("no bound by %s(%s) established", what, key)
}

func (a *fnAn) sinkSlice(x *ssa.Slice, st tstate) {
	_, isStr := x.X.Type().Underlying().(*types.Basic)
	for _, part := range []struct {
		role string
		v    ssa.Value
	}{{"low", x.Low}, {"high", x.High}, {"max", x.Max}} {
		if part.v == nil {
			continue
		}
		av := a.eval(part.v, st)
		if av.T == nil {
			// constant bound into a peer-sized buffer (e.g. buf[8:...] of make([]byte, n))
			if c, ok := av.P.isConst(); ok && c.Sign() > 0 {
				a.constIntoPeerSized(x, x.X, c, false, st)
			}
			continue
		}
		ok := nonNeg(av.T)
		why := ""
		if ok && part.role != "low" {
			ok, why = a.boundedBy(av, part.v, x.X, st, false, !isStr)
		} else if ok && part.role == "low" && x.High == nil {
			ok, why = a.boundedBy(av, part.v, x.X, st, false, false)
		} else if ok && part.role == "low" {
			// low <= high: numeric or syntactic
			h := a.eval(x.High, st).all()
			if !(h != nil && h.Lo != nil && av.T.Hi != nil && av.T.Hi.Cmp(h.Lo) <= 0) {
				ok, why = false, "low <= high not established"
			}
		}
		got := part.role + " " + av.String()
		if why != "" {
			got += "; " + why
		}
		a.addSink(x, "slice("+part.role+")", av, ok, "0 <= peer-derived slice bound <= cap/len of the operand on every path", got)
	}
}

// constIntoPeerSized: a constant index/bound c into a slice whose length is
// peer-derived needs len >= c (+1 for an index).
func (a *fnAn) constIntoPeerSized(in ssa.Instruction, x ssa.Value, c *big.Int, isIndex bool, st tstate) {
	base := x
	for {
		if ct, ok := base.(*ssa.ChangeType); ok {
			base = ct.X
			continue
		}
		break
	}
	id := a.sliceKey(x)
	if ms, ok := base.(*ssa.MakeSlice); ok {
		id = "v:" + ms.Name()
	}
	lav, ok := st["M:"+id]
	if !ok || lav.T == nil {
		return
	}
	need := new(big.Int).Set(c)
	if isIndex {
		need.Add(need, bi(1))
	}
	good := lav.T.Lo != nil && lav.T.Lo.Cmp(need) >= 0
	kind := "constslice"
	if isIndex {
		kind = "constindex"
	}
	a.addSink(in, kind, lav, good, fmt.Sprintf("peer-derived buffer length >= %s before the constant bound is used", need), "length "+lav.String())
}

func (a *fnAn) sinkIndex(in ssa.Instruction, x, idx ssa.Value, st tstate) {
	if _, isMap := x.Type().Underlying().(*types.Map); isMap {
		return
	}
	av := a.eval(idx, st)
	if av.T == nil {
		if c, ok := av.P.isConst(); ok && c.Sign() >= 0 {
			a.constIntoPeerSized(in, x, c, true, st)
			return
		}
		// a loop variable (or other program value) whose only upper bound is a
		// peer-derived count: the container must be at least that long
		if drv, has := peerBound(av); has {
			ok := nonNeg(av.P)
			why := ""
			if ok {
				ok, why = a.boundedBy(av, idx, x, st, true, false)
			}
			got := "index " + av.String() + " is bounded by the peer-derived " + drv.String()
			if why != "" {
				got += "; " + why
			}
			a.addSink(in, "index(by-count)", av, ok, "an index bounded only by a peer-derived count stays below the length of the container it indexes", got)
		}
		return
	}
	ok := nonNeg(av.T)
	why := ""
	if ok {
		ok, why = a.boundedBy(av, idx, x, st, true, false)
	}
	got := "index " + av.String()
	if why != "" {
		got += "; " + why
	}
	a.addSink(in, "index", av, ok, "0 <= peer-derived index < len of the operand on every path", got)
}

// peerBound: the value has an upper bound by a peer-derived quantity.
func peerBound(av AV) (Sym, bool) {
	for _, s := range av.UB {
		if s.T {
			return s, true
		}
	}
	return Sym{}, false
}

func (a *fnAn) callSinks(in ssa.Instruction, cc *ssa.CallCommon, name string, st tstate) {
	arg := func(i int) ssa.Value {
		if i < len(cc.Args) {
			return cc.Args[i]
		}
		return nil
	}
	switch name {
	case "io.CopyN":
		a.sinkNonNeg(in, "copyn", "n", arg(2), st)
	case "reflect.MakeSlice":
		a.sinkNonNeg(in, "makeslice", "len", arg(1), st)
		a.sinkNonNeg(in, "makeslice", "cap", arg(2), st)
	case "strings.Repeat", "bytes.Repeat":
		a.sinkNonNeg(in, "repeat", "count", arg(1), st)
	case "bytes.(Buffer).Grow", "strings.(Builder).Grow":
		a.sinkNonNeg(in, "grow", "n", arg(1), st)
	case "compress/zlib.NewReader", "compress/zlib.NewReaderDict", "compress/flate.NewReader", "compress/gzip.NewReader":
		// start of inflation: the declared size is the most recently decoded integer
		if last, ok := st["LAST"]; ok {
			if av, ok := st["L:"+last.Src]; ok && av.T != nil {
				a.addSink(in, "inflate(declared)", av, true, "declared uncompressed size is bounded before inflating", "declared size "+av.String())
			}
		}
	case "encoding/binary.(bigEndian).PutUint16", "encoding/binary.(bigEndian).Uint16", "encoding/binary.(littleEndian).PutUint16", "encoding/binary.(littleEndian).Uint16",
		"encoding/binary.(bigEndian).PutUint32", "encoding/binary.(bigEndian).Uint32", "encoding/binary.(littleEndian).PutUint32", "encoding/binary.(littleEndian).Uint32",
		"encoding/binary.(bigEndian).PutUint64", "encoding/binary.(bigEndian).Uint64", "encoding/binary.(littleEndian).PutUint64", "encoding/binary.(littleEndian).Uint64":
		// the fixed-width accessors index their operand at width-1: a peer-sized buffer must be that long
		if v := arg(1); v != nil {
			w := int64(2)
			if strings.HasSuffix(name, "32") {
				w = 4
			} else if strings.HasSuffix(name, "64") {
				w = 8
			}
			a.constIntoPeerSized(in, v, bi(w), false, st)
		}
	case "bytes.(Buffer).Next", "bytes.(Buffer).Truncate":
		// panics on a negative argument; required for every value, not only peer-derived ones
		if v := arg(1); v != nil {
			av := a.eval(v, st)
			all := av.all()
			if all != nil && !av.PExt {
				a.addSink(in, "next(n)", av, nonNeg(all), "argument of "+name[strings.LastIndex(name, ".")+1:]+" >= 0 for every value that can reach it", "n "+av.String())
				// a pure program value with no lower bound whatever is ignorance (a count that
				// comes out of a loop is widened to the whole type), not a negative argument
				if av.T == nil && !nonNeg(all) {
					if tr := typeRange(v.Type(), a.sizes); all.Lo == nil || (tr != nil && tr.Lo != nil && all.Lo.Cmp(tr.Lo) <= 0) {
						if m := a.sinks[in]; m != nil && m["next(n)"] != nil {
							m["next(n)"].Undecided = "a program value (no peer-derived part) for which the interval analysis has no lower bound at all"
						}
					}
				}
			}
		}
	case "reflect.(Value).Index":
		if v := arg(1); v != nil {
			av := a.eval(v, st)
			rk := "v:" + arg(0).Name()
			bounded := func() bool {
				for _, u := range av.UB {
					if u.Key == rk && u.Kind == 'l' && u.K <= -1 {
						return true
					}
				}
				return false
			}
			if av.T != nil {
				ok := nonNeg(av.T) && bounded()
				a.addSink(in, "reflindex", av, ok, "0 <= peer-derived index < Len() of the reflect value", "index "+av.String())
			} else if drv, has := peerBound(av); has && a.reflHasFacts(rk, st) {
				ok := nonNeg(av.P) && bounded()
				a.addSink(in, "reflindex(by-count)", av, ok, "an index bounded only by a peer-derived count stays below Len() of the reflect value it indexes", "index "+av.String()+" is bounded by the peer-derived "+drv.String())
			}
		}
	case "reflect.(Value).Slice", "reflect.(Value).SetLen":
		recv := arg(0)
		for i := 1; i < len(cc.Args); i++ {
			av := a.eval(cc.Args[i], st)
			if av.T == nil {
				continue
			}
			ok := nonNeg(av.T)
			if ok {
				ok = false
				for _, u := range av.UB {
					if u.Key == "v:"+recv.Name() && (u.Kind == 'c' || u.Kind == 'l') && u.K <= 0 {
						ok = true
					}
				}
				if s, okk := a.symOf(cc.Args[i]); okk && s.Key == "v:"+recv.Name() && s.K <= 0 {
					ok = true
				}
			}
			a.addSink(in, fmt.Sprintf("reflslice(arg%d)", i), av, ok, "0 <= peer-derived bound <= Cap() of the reflect value", "bound "+av.String())
		}
	}
}

// reflHasFacts: something is known about the length of the reflect value rk in
// this state (it was resized here); otherwise the by-count rule cannot decide.
func (a *fnAn) reflHasFacts(rk string, st tstate) bool {
	for _, v := range st {
		for _, u := range v.UB {
			if u.Key == rk && (u.Kind == 'l' || u.Kind == 'c') {
				return true
			}
		}
	}
	return false
}

// loopSink: a loop whose bound is peer-derived must have a non-negative bound
// (a negative declared length that silently skips the loop is "accepted").
func (a *fnAn) loopSink(b *ssa.BasicBlock, iff *ssa.If, st tstate) {
	cmp, ok := iff.Cond.(*ssa.BinOp)
	if !ok {
		return
	}
	var bound ssa.Value
	switch cmp.Op {
	case token.LSS, token.LEQ:
		bound = cmp.Y
		if !isLoopVar(cmp.X, b) {
			return
		}
	case token.GTR, token.GEQ:
		bound = cmp.X
		if !isLoopVar(cmp.Y, b) {
			return
		}
	default:
		return
	}
	av := a.eval(bound, st)
	if av.T == nil {
		return
	}
	a.addSinkAt(iff, cmp.Pos(), "loop", av, nonNeg(av.T), "peer-derived loop bound >= 0 (a negative declared count must be an error, not an empty loop)", "bound "+av.String())
}

func isLoopVar(v ssa.Value, b *ssa.BasicBlock) bool {
	for {
		switch x := v.(type) {
		case *ssa.Convert:
			v = x.X
			continue
		case *ssa.ChangeType:
			v = x.X
			continue
		}
		break
	}
	phi, ok := v.(*ssa.Phi)
	if !ok || phi.Block() != b {
		return false
	}
	for _, p := range b.Preds {
		if b.Dominates(p) {
			return true
		}
	}
	return false
}

// sliceLenParams: the parameters n of fn such that result ridx is, on every
// return, a slice of length exactly n (make([]T, n), s[:n]). Syntactic, memoised.
func (t *TLG) sliceLenParams(fn *ssa.Function, ridx int) []int {
	type key struct {
		fn *ssa.Function
		i  int
	}
	if t.lenParams == nil {
		t.lenParams = map[any][]int{}
	}
	k := key{fn, ridx}
	if r, ok := t.lenParams[k]; ok {
		return r
	}
	t.lenParams[k] = nil
	sizes := t.sizesOf(fn)
	paramIdx := func(v ssa.Value) int {
		for {
			switch x := v.(type) {
			case *ssa.ChangeType:
				v = x.X
				continue
			case *ssa.Convert:
				from, to := typeRange(x.X.Type(), sizes), typeRange(x.Type(), sizes)
				if from != nil && to != nil && from.subset(to) {
					v = x.X
					continue
				}
			}
			break
		}
		for i, p := range fn.Params {
			if ssa.Value(p) == v {
				return i
			}
		}
		return -1
	}
	var of func(v ssa.Value, d int) map[int]bool
	of = func(v ssa.Value, d int) map[int]bool {
		if d > 6 {
			return nil
		}
		switch x := v.(type) {
		case *ssa.ChangeType:
			return of(x.X, d+1)
		case *ssa.MakeSlice:
			if i := paramIdx(x.Len); i >= 0 {
				return map[int]bool{i: true}
			}
		case *ssa.Slice:
			if x.Low == nil && x.High != nil {
				if i := paramIdx(x.High); i >= 0 {
					return map[int]bool{i: true}
				}
			}
		case *ssa.Phi:
			var res map[int]bool
			for _, e := range x.Edges {
				s := of(e, d+1)
				if res == nil {
					res = s
				} else {
					for i := range res {
						if !s[i] {
							delete(res, i)
						}
					}
				}
				if len(res) == 0 {
					return nil
				}
			}
			return res
		}
		return nil
	}
	var res map[int]bool
	first := true
	for _, b := range fn.Blocks {
		for _, in := range b.Instrs {
			r, ok := in.(*ssa.Return)
			if !ok || ridx >= len(r.Results) {
				continue
			}
			s := of(r.Results[ridx], 0)
			if first {
				res, first = s, false
			} else {
				for i := range res {
					if !s[i] {
						delete(res, i)
					}
				}
			}
		}
	}
	var out []int
	for i := range res {
		out = append(out, i)
	}
	sort.Ints(out)
	t.lenParams[k] = out
	return out
}

// ProbeIndexInBounds: inside a Probe callback, whether 0 <= idx < len(x) is established at the
// instruction being visited (numerically or through the symbolic bounds).
func (t *TLG) ProbeIndexInBounds(idx, x ssa.Value) (bool, string) {
	if t.curAn == nil {
		return false, "no state"
	}
	av := t.curAn.eval(idx, t.curSt)
	if !nonNeg(av.all()) {
		return false, "index " + av.String() + " not known to be non-negative"
	}
	ok, why := t.curAn.boundedBy(av, idx, x, t.curSt, true, false)
	if !ok {
		return false, "index " + av.String() + "; " + why
	}
	return true, ""
}

// localCellStableAfter: ld loads a local Alloc that is never stored to directly and whose address is
// passed only to calls that are executed before the load (they dominate it), so its value cannot
// change after the load.
func localCellStableAfter(ld *ssa.UnOp) bool {
	al, ok := ld.X.(*ssa.Alloc)
	if !ok || al.Referrers() == nil {
		return false
	}
	for _, r := range *al.Referrers() {
		switch x := r.(type) {
		case *ssa.UnOp, *ssa.DebugRef:
			// loads
		case *ssa.Store:
			if x.Addr == ssa.Value(al) {
				// the zero-initialisation / a single initial store before the load is fine
				if !(x.Block() == ld.Block() && instrBefore(x, ld)) && !(x.Block() != ld.Block() && x.Block().Dominates(ld.Block())) {
					return false
				}
			} else {
				return false // the address itself is stored somewhere
			}
		case ssa.CallInstruction:
			in := r.(ssa.Instruction)
			if _, isDefer := in.(*ssa.Defer); isDefer {
				return false
			}
			if _, isGo := in.(*ssa.Go); isGo {
				return false
			}
			if in.Block() == ld.Block() {
				if !instrBefore(in, ld) {
					return false
				}
			} else if !in.Block().Dominates(ld.Block()) {
				return false
			}
			// in a loop the call could run again after the load
			if reaches(ld.Block(), in.Block()) {
				return false
			}
		default:
			return false // address escapes in some other way (closure, conversion, field)
		}
	}
	return true
}

func instrBefore(a, b ssa.Instruction) bool {
	for _, in := range a.Block().Instrs {
		if in == a {
			return true
		}
		if in == b {
			return false
		}
	}
	return false
}
