package main

import (
	"context"
	"fmt"
	"net"
	"time"

	"github.com/Tnze/go-mc/bot"
	"github.com/Tnze/go-mc/chat"
	mcnet "github.com/Tnze/go-mc/net"
	"github.com/Tnze/go-mc/registry"
	"github.com/Tnze/go-mc/server"
	"github.com/Tnze/go-mc/yggdrasil/user"

	"github.com/google/uuid"
)

type pipeDialer struct{ srv *server.Server }

func (d pipeDialer) DialMCContext(ctx context.Context, addr string) (*mcnet.Conn, error) {
	c, s := net.Pipe()
	sc := mcnet.WrapConn(s)
	go d.srv.AcceptConn(sc)
	return mcnet.WrapConn(c), nil
}

type game struct{ joined chan string }

func (g game) AcceptPlayer(name string, id uuid.UUID, k *user.PublicKey, p []user.Property, protocol int32, conn *mcnet.Conn) {
	g.joined <- name
}

func main() {
	g := game{joined: make(chan string, 1)}
	srv := &server.Server{
		ListPingHandler: struct {
			*server.PlayerList
			*server.PingInfo
		}{server.NewPlayerList(10), server.NewPingInfo("x", 767, chat.Text("hi"), nil)},
		LoginHandler:  &server.MojangLoginHandler{OnlineMode: false, Threshold: -1},
		ConfigHandler: &server.Configurations{Registries: registry.NewNetworkCodec()},
		GamePlay:      g,
	}
	c := bot.NewClient()
	c.Auth.Name = "alice"
	errc := make(chan error, 1)
	go func() { errc <- c.JoinServerWithOptions("localhost:25565", bot.JoinOptions{MCDialer: pipeDialer{srv}}) }()
	select {
	case err := <-errc:
		fmt.Println("bot join result:", err)
	case <-time.After(3 * time.Second):
		fmt.Println("bot join: TIMEOUT")
	}
}
