#!/bin/bash
# usage: confirm_round.sh <prefix dir, e.g. /tmp/wt_out/T>  : confirms every <prefix>NN/k seed; prints one line each
set -u
pre=$1
ls -d ${pre}[0-9][0-9]/[123] | xargs -P 5 -I{} bash -c '
d={}
pkg=$(head -1 $d/README.md | sed -n "s/^demo_package:[ ]*//p" | tr -d "\`" | sed "s#^\./##; s#/\$##")
[ -z "$pkg" ] && pkg=""
out=$(/verif/tools/confirm_seed.sh $d $pkg 2>&1 | tail -1)
echo "$d :: $out"
'
