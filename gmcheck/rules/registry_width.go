package rules

// The direct ("global id") width of a paletted container is a start-up value:
// bits.Len(number of registry entries). registryWidth recovers that number from
// the source tree without running anything:
//
//   - the width variable is stored exactly once, with bits.Len*(len(X)) of a
//     package-level slice X;
//   - X is either initialised by a composite literal and never re-assigned (the
//     entries are counted in the syntax tree), or it starts empty and is appended
//     to exactly once per iteration of a loop over a local slice that is decoded
//     from the package's embedded registry file - the file is a (gzip-compressed)
//     NBT list whose element count stands in its first bytes and is read from
//     the file in the tree.
//
// Anything else is reported as not determinable; the caller decides what that
// means for its obligation.

import (
	"bytes"
	"compress/gzip"
	"encoding/binary"
	"fmt"
	"go/ast"
	"go/token"
	"go/types"
	"io"
	"math/bits"
	"os"
	"path/filepath"
	"strings"

	"gmcheck/core"

	"golang.org/x/tools/go/ssa"
)

type regWidth struct {
	bits  int64
	count int64
	how   string // how the count was obtained (for the evidence)
}

func (c *Ctx) registryWidth(g *ssa.Global) (regWidth, error) {
	var stores []*ssa.Store
	for _, fn := range c.Funcs() {
		for _, b := range fn.Blocks {
			for _, in := range b.Instrs {
				if st, ok := in.(*ssa.Store); ok && st.Addr == ssa.Value(g) {
					stores = append(stores, st)
				}
			}
		}
	}
	if g.Pkg != nil {
		if ini := g.Pkg.Func("init"); ini != nil {
			for _, b := range ini.Blocks {
				for _, in := range b.Instrs {
					if st, ok := in.(*ssa.Store); ok && st.Addr == ssa.Value(g) {
						dup := false
						for _, s := range stores {
							if s == st {
								dup = true
							}
						}
						if !dup {
							stores = append(stores, st)
						}
					}
				}
			}
		}
	}
	if len(stores) != 1 {
		return regWidth{}, fmt.Errorf("%s is assigned at %d places", g.String(), len(stores))
	}
	call, ok := stripConv(stores[0].Val).(*ssa.Call)
	if !ok || !strings.HasPrefix(calleeName(call.Common()), "math/bits.Len") || len(call.Call.Args) != 1 {
		return regWidth{}, fmt.Errorf("%s is not assigned bits.Len(..) of a length", g.String())
	}
	lenCall, ok := stripConv(call.Call.Args[0]).(*ssa.Call)
	if !ok {
		return regWidth{}, fmt.Errorf("%s: the argument of bits.Len is not a length", g.String())
	}
	if bi, isB := lenCall.Call.Value.(*ssa.Builtin); !isB || bi.Name() != "len" || len(lenCall.Call.Args) != 1 {
		return regWidth{}, fmt.Errorf("%s: the argument of bits.Len is not a length", g.String())
	}
	ld, ok := lenCall.Call.Args[0].(*ssa.UnOp)
	if !ok || ld.Op != token.MUL {
		return regWidth{}, fmt.Errorf("%s: length of something that is not a package-level slice", g.String())
	}
	x, ok := ld.X.(*ssa.Global)
	if !ok {
		return regWidth{}, fmt.Errorf("%s: length of something that is not a package-level slice", g.String())
	}
	n, how, err := c.globalSliceLen(x)
	if err != nil {
		return regWidth{}, err
	}
	return regWidth{bits: int64(bits.Len64(uint64(n))), count: n, how: how}, nil
}

// globalSliceLen: the length a package-level slice has once the package is initialised.
func (c *Ctx) globalSliceLen(x *ssa.Global) (int64, string, error) {
	type site struct {
		st *ssa.Store
		fn *ssa.Function
	}
	var sites []site
	seen := map[*ssa.Store]bool{}
	scan := func(fn *ssa.Function) {
		for _, b := range fn.Blocks {
			for _, in := range b.Instrs {
				if st, ok := in.(*ssa.Store); ok && st.Addr == ssa.Value(x) && !seen[st] {
					seen[st] = true
					sites = append(sites, site{st, fn})
				}
			}
		}
	}
	for _, fn := range c.Funcs() {
		scan(fn)
	}
	if x.Pkg != nil {
		if ini := x.Pkg.Func("init"); ini != nil {
			scan(ini)
		}
	}
	// (a) a composite literal in the declaration, never re-assigned
	if lit := c.declLiteral(x); lit != nil {
		for _, s := range sites {
			if s.fn.Synthetic == "" || s.fn.Name() != "init" {
				return 0, "", fmt.Errorf("%s is declared with a literal but re-assigned in %s", x.String(), core.FnName(s.fn))
			}
		}
		for _, e := range lit.Elts {
			if _, keyed := e.(*ast.KeyValueExpr); keyed {
				return 0, "", fmt.Errorf("%s: keyed literal", x.String())
			}
		}
		return int64(len(lit.Elts)), fmt.Sprintf("%d entries in the literal that initialises %s", len(lit.Elts), x.String()), nil
	}
	// (b) emptied once, then one append per iteration of a loop over a decoded local slice
	if len(sites) == 0 {
		return 0, "", fmt.Errorf("%s is never assigned", x.String())
	}
	fn := sites[0].fn
	for _, s := range sites {
		if s.fn != fn {
			return 0, "", fmt.Errorf("%s is assigned in several functions", x.String())
		}
	}
	loops := naturalLoops(fn)
	innermost := func(b *ssa.BasicBlock) *loopInfo {
		var best *loopInfo
		for i := range loops {
			if loops[i].body[b] && (best == nil || len(loops[i].body) < len(best.body)) {
				best = &loops[i]
			}
		}
		return best
	}
	var appendSt *ssa.Store
	var lp *loopInfo
	for _, s := range sites {
		switch v := s.st.Val.(type) {
		case *ssa.MakeSlice:
			if k, ok := constIntVal(v.Len); !ok || k != 0 || innermost(s.st.Block()) != nil {
				return 0, "", fmt.Errorf("%s: not created empty, once", x.String())
			}
		case *ssa.Call:
			bi, isB := v.Call.Value.(*ssa.Builtin)
			if !isB || bi.Name() != "append" || len(v.Call.Args) != 2 || appendSt != nil {
				return 0, "", fmt.Errorf("%s: assigned something other than one append", x.String())
			}
			if ld, ok := v.Call.Args[0].(*ssa.UnOp); !ok || ld.Op != token.MUL || ld.X != ssa.Value(x) {
				return 0, "", fmt.Errorf("%s: the append does not extend the slice itself", x.String())
			}
			// one element: the variadic part is a slice of a one-element array
			sl, ok := v.Call.Args[1].(*ssa.Slice)
			if !ok {
				return 0, "", fmt.Errorf("%s: the append adds a slice of unknown length", x.String())
			}
			arr, ok := deref(sl.X.Type()).Underlying().(*types.Array)
			if !ok || arr.Len() != 1 || sl.Low != nil || sl.High != nil {
				return 0, "", fmt.Errorf("%s: the append adds a slice of unknown length", x.String())
			}
			appendSt = s.st
			lp = innermost(s.st.Block())
		default:
			return 0, "", fmt.Errorf("%s: assigned a value of unknown length", x.String())
		}
	}
	if appendSt == nil || lp == nil {
		return 0, "", fmt.Errorf("%s: no append in a loop", x.String())
	}
	// the loop ranges over a local slice: header test `i+1 < len(s)`
	iff, ok := lp.header.Instrs[len(lp.header.Instrs)-1].(*ssa.If)
	if !ok {
		return 0, "", fmt.Errorf("%s: the filling loop has no bound test", x.String())
	}
	cmp, ok := iff.Cond.(*ssa.BinOp)
	if !ok || cmp.Op != token.LSS {
		return 0, "", fmt.Errorf("%s: the filling loop is not a range over a slice", x.String())
	}
	lc, ok := cmp.Y.(*ssa.Call)
	if !ok {
		return 0, "", fmt.Errorf("%s: the filling loop is not a range over a slice", x.String())
	}
	if bi, isB := lc.Call.Value.(*ssa.Builtin); !isB || bi.Name() != "len" {
		return 0, "", fmt.Errorf("%s: the filling loop is not a range over a slice", x.String())
	}
	inc, ok := cmp.X.(*ssa.BinOp)
	if !ok || inc.Op != token.ADD {
		return 0, "", fmt.Errorf("%s: the filling loop is not a range over a slice", x.String())
	}
	if one, ok := constIntVal(inc.Y); !ok || one != 1 {
		return 0, "", fmt.Errorf("%s: the filling loop does not step by one", x.String())
	}
	if phi, ok := inc.X.(*ssa.Phi); !ok || phi.Block() != lp.header {
		return 0, "", fmt.Errorf("%s: the filling loop is not a range over a slice", x.String())
	}
	src, ok := lc.Call.Args[0].(*ssa.UnOp)
	if !ok || src.Op != token.MUL {
		return 0, "", fmt.Errorf("%s: the filling loop ranges over something that is not a decoded local", x.String())
	}
	cell, ok := src.X.(*ssa.Alloc)
	if !ok {
		return 0, "", fmt.Errorf("%s: the filling loop ranges over something that is not a decoded local", x.String())
	}
	// every iteration appends: the back edge cannot be reached from the loop body without the append
	if !lp.header.Dominates(appendSt.Block()) {
		return 0, "", fmt.Errorf("%s: append outside the loop", x.String())
	}
	var bodyEntry *ssa.BasicBlock
	for _, s := range lp.header.Succs {
		if lp.body[s] && s != lp.header {
			bodyEntry = s
		}
	}
	if bodyEntry == nil {
		return 0, "", fmt.Errorf("%s: empty filling loop", x.String())
	}
	seenB := map[*ssa.BasicBlock]bool{}
	work := []*ssa.BasicBlock{bodyEntry}
	for len(work) > 0 {
		b := work[0]
		work = work[1:]
		if seenB[b] || b == appendSt.Block() {
			continue
		}
		seenB[b] = true
		for _, s := range b.Succs {
			if s == lp.header {
				return 0, "", fmt.Errorf("%s: an iteration of the filling loop can skip the append", x.String())
			}
			if lp.body[s] {
				work = append(work, s)
			}
		}
	}
	// leaving the loop early (not through a panic) would also shorten the slice
	for b := range lp.body {
		if b == lp.header {
			continue
		}
		for _, s := range b.Succs {
			if !lp.body[s] {
				if _, isPanic := s.Instrs[len(s.Instrs)-1].(*ssa.Panic); !isPanic {
					return 0, "", fmt.Errorf("%s: the filling loop can be left early", x.String())
				}
			}
		}
	}
	// the local is filled by a decode call that gets its address
	decoded := false
	for _, r := range *cell.Referrers() {
		switch u := r.(type) {
		case *ssa.MakeInterface:
			for _, rr := range *u.Referrers() {
				if _, isCall := rr.(ssa.CallInstruction); isCall {
					decoded = true
				}
			}
		case ssa.CallInstruction:
			decoded = true
		}
	}
	if !decoded {
		return 0, "", fmt.Errorf("%s: the slice the filling loop ranges over is not decoded from anything", x.String())
	}
	// the embedded file the function reads
	var files []string
	for _, b := range fn.Blocks {
		for _, in := range b.Instrs {
			for _, op := range in.Operands(nil) {
				if gl, ok := (*op).(*ssa.Global); ok {
					if f := c.embeddedFile(gl); f != "" {
						dup := false
						for _, o := range files {
							dup = dup || o == f
						}
						if !dup {
							files = append(files, f)
						}
					}
				}
			}
		}
	}
	if len(files) != 1 {
		return 0, "", fmt.Errorf("%s: %s reads %d embedded files", x.String(), core.FnName(fn), len(files))
	}
	n, err := nbtListCount(files[0])
	if err != nil {
		return 0, "", fmt.Errorf("%s: %v", x.String(), err)
	}
	rel, _ := filepath.Rel(c.P.Dir, files[0])
	return n, fmt.Sprintf("%d entries announced by the list header of the embedded file %s, one append per entry in %s", n, rel, core.FnName(fn)), nil
}

// declLiteral: the composite literal a package-level variable is declared with (nil if none).
func (c *Ctx) declLiteral(x *ssa.Global) *ast.CompositeLit {
	if x.Pkg == nil {
		return nil
	}
	pk := c.P.ByPth[x.Pkg.Pkg.Path()]
	if pk == nil {
		return nil
	}
	for _, f := range pk.Syntax {
		for _, d := range f.Decls {
			gd, ok := d.(*ast.GenDecl)
			if !ok || gd.Tok != token.VAR {
				continue
			}
			for _, sp := range gd.Specs {
				vs := sp.(*ast.ValueSpec)
				for i, nm := range vs.Names {
					if pk.TypesInfo.Defs[nm] == x.Object() && i < len(vs.Values) && len(vs.Names) == len(vs.Values) {
						if cl, ok := ast.Unparen(vs.Values[i]).(*ast.CompositeLit); ok {
							return cl
						}
					}
				}
			}
		}
	}
	return nil
}

// embeddedFile: the path of the single file a //go:embed directive binds to a package-level variable ("" if none).
func (c *Ctx) embeddedFile(x *ssa.Global) string {
	if x.Pkg == nil {
		return ""
	}
	pk := c.P.ByPth[x.Pkg.Pkg.Path()]
	if pk == nil {
		return ""
	}
	for _, f := range pk.Syntax {
		for _, d := range f.Decls {
			gd, ok := d.(*ast.GenDecl)
			if !ok || gd.Tok != token.VAR {
				continue
			}
			for _, sp := range gd.Specs {
				vs := sp.(*ast.ValueSpec)
				for _, nm := range vs.Names {
					if pk.TypesInfo.Defs[nm] != x.Object() {
						continue
					}
					for _, cg := range []*ast.CommentGroup{vs.Doc, gd.Doc} {
						if cg == nil {
							continue
						}
						for _, cm := range cg.List {
							if rest, ok := strings.CutPrefix(cm.Text, "//go:embed "); ok {
								fields := strings.Fields(rest)
								if len(fields) == 1 && !strings.ContainsAny(fields[0], "*?[") {
									return filepath.Join(filepath.Dir(c.P.Fset.Position(f.Pos()).Filename), fields[0])
								}
							}
						}
					}
				}
			}
		}
	}
	return ""
}

// nbtListCount: the element count in the header of a (possibly gzip-compressed) NBT file whose root tag is a list.
func nbtListCount(path string) (int64, error) {
	raw, err := os.ReadFile(path)
	if err != nil {
		return 0, err
	}
	var r io.Reader = bytes.NewReader(raw)
	if len(raw) > 2 && raw[0] == 0x1f && raw[1] == 0x8b {
		zr, err := gzip.NewReader(r)
		if err != nil {
			return 0, err
		}
		r = zr
	}
	head := make([]byte, 3)
	if _, err := io.ReadFull(r, head); err != nil {
		return 0, err
	}
	if head[0] != 9 {
		return 0, fmt.Errorf("%s: the root tag is not a list (tag %d)", filepath.Base(path), head[0])
	}
	name := make([]byte, int(binary.BigEndian.Uint16(head[1:])))
	if _, err := io.ReadFull(r, name); err != nil {
		return 0, err
	}
	rest := make([]byte, 5)
	if _, err := io.ReadFull(r, rest); err != nil {
		return 0, err
	}
	n := int32(binary.BigEndian.Uint32(rest[1:]))
	if n < 0 {
		return 0, fmt.Errorf("%s: negative list length", filepath.Base(path))
	}
	return int64(n), nil
}
