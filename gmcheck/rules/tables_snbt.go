package rules

import (
	"fmt"
	"go/ast"
	"go/constant"
	"go/token"
	"go/types"
	"math/big"
	"sort"
	"strconv"
	"strings"

	"gmcheck/core"

	"golang.org/x/tools/go/packages"
	"golang.org/x/tools/go/ssa"
)

// charTagSwitches: switch statements in fn whose cases are character constants
// and whose clauses return / assign a Tag constant: char -> tag name.
func charTagTables(info *types.Info, body ast.Node) []map[int64]string {
	var out []map[int64]string
	ast.Inspect(body, func(n ast.Node) bool {
		sw, ok := n.(*ast.SwitchStmt)
		if !ok {
			return true
		}
		tbl := map[int64]string{}
		var pending []int64
		for _, s := range sw.Body.List {
			cc := s.(*ast.CaseClause)
			tag := ""
			ast.Inspect(cc, func(x ast.Node) bool {
				if tag != "" {
					return false
				}
				switch v := x.(type) {
				case *ast.ReturnStmt:
					if len(v.Results) > 0 {
						if name, _, ok := tagConst(info, v.Results[0]); ok {
							tag = name
						}
					}
				case *ast.AssignStmt:
					for _, r := range v.Rhs {
						if name, _, ok := tagConst(info, r); ok && tag == "" && strings.HasSuffix(name, "Array") {
							tag = name
						}
					}
				}
				return true
			})
			var chars []int64
			for _, e := range cc.List {
				if tv, ok := info.Types[e]; ok && tv.Value != nil && tv.Value.Kind() == constant.Int {
					if v, ok := constant.Int64Val(tv.Value); ok {
						chars = append(chars, v)
					}
				}
			}
			if cc.List == nil {
				chars = append(chars, -1) // default clause
			}
			// a clause that only falls through shares the next clause's tag
			if len(cc.Body) == 1 {
				if br, ok := cc.Body[0].(*ast.BranchStmt); ok && br.Tok == token.FALLTHROUGH {
					pending = append(pending, chars...)
					continue
				}
			}
			if tag == "" {
				pending = nil
				continue
			}
			for _, v := range append(pending, chars...) {
				tbl[v] = tag
			}
			pending = nil
		}
		if len(tbl) >= 3 {
			out = append(out, tbl)
		}
		return true
	})
	return out
}

// SNBTSuffix implements T-SNBTSUF.
func (c *Ctx) SNBTSuffix() []core.Ob {
	mk := func(key, want string) core.Ob {
		return core.Ob{Rule: "T-SNBTSUF", Key: key, Want: want, Armed: true, Status: core.OK}
	}
	var obs []core.Ob
	plFn := c.literalParser()
	if plFn == nil {
		o := mk("anchors", "the SNBT literal classifier (a function of package nbt with the integer and float suffix switches) exists")
		o.Status, o.Got = core.Violated, "not found"
		return []core.Ob{o}
	}
	// ---- writer: per tag, suffixes and array prefix
	ws := c.dispatchOf("StringifiedMessage", false)
	if ws == nil {
		o := mk("writer-dispatch", "the text writer's tag dispatch is found")
		o.Status, o.Got = core.Violated, "not found"
		return []core.Ob{o}
	}
	type emit struct {
		suffixes []string
		prefix   string
	}
	emits := map[string]emit{}
	for tv, cc := range ws.cases {
		var e emit
		isSuffix := func(s string) bool {
			return len(s) == 1 && (s[0] >= 'A' && s[0] <= 'Z' || s[0] >= 'a' && s[0] <= 'z')
		}
		note := func(s string) {
			switch {
			case isSuffix(s):
				e.suffixes = append(e.suffixes, s)
			case strings.HasPrefix(s, "[") && strings.HasSuffix(s, ";"):
				e.prefix = s
			}
		}
		for _, hb := range c.withHelpers(ws.pkg, cc, ws.decl, 2) {
			info := hb.pk.TypesInfo
			// a string literal or a named string constant (const byteSuffix = "B")
			strOf := func(x ast.Expr) (string, bool) {
				x = ast.Unparen(x)
				switch x.(type) {
				case *ast.BasicLit, *ast.Ident, *ast.SelectorExpr:
				default:
					return "", false
				}
				tv, ok := info.Types[x]
				if !ok || tv.Value == nil || tv.Value.Kind() != constant.String {
					return "", false
				}
				return constant.StringVal(tv.Value), true
			}
			ast.Inspect(hb.node, func(n ast.Node) bool {
				switch v := n.(type) {
				case *ast.BinaryExpr:
					// number + "B"
					if v.Op == token.ADD {
						if s, ok := strOf(v.Y); ok && isSuffix(s) {
							e.suffixes = append(e.suffixes, s)
						}
					}
				case *ast.CallExpr:
					// WriteString("[B;") and the like; a one-letter literal handed to a helper or closure (putInt(v, "B", err))
					for _, a := range v.Args {
						if s, ok := strOf(a); ok {
							if sel, ok := v.Fun.(*ast.SelectorExpr); ok && sel.Sel.Name == "WriteString" && isSuffix(s) {
								continue // a separator or a letter written on its own, not a suffix
							}
							note(s)
						}
					}
				case *ast.Ident:
					// a spelling table: a package-level struct variable with string fields (prefix: "[B;", suffix: "B")
					if vr, ok := info.Uses[v].(*types.Var); ok && vr.Pkg() != nil && vr.Parent() == vr.Pkg().Scope() {
						if _, isStruct := vr.Type().Underlying().(*types.Struct); isStruct {
							for _, s := range c.structVarStrings(hb.pk, vr) {
								note(s)
							}
						}
					}
				}
				return true
			})
		}
		emits[ws.names[tv]] = e
	}
	// ---- parser tables
	_, pk := c.astFuncDecl(plFn)
	_, intTbl, floatTbl, allTbls := c.literalParsersAll()
	// what the parser's tables say about a suffix character: the tags it is mapped to (a table
	// that lists float suffixes but not this one sends it to its default)
	tagsOf := func(ch int64, float bool) map[string]bool {
		out := map[string]bool{}
		for _, tb := range allTbls {
			if t, ok := tb[ch]; ok {
				out[t] = true
			} else if _, hasF := tb['F']; float && hasF {
				if _, hasB := tb['B']; !hasB {
					if t, ok := tb[-1]; ok {
						out[t] = true
					}
				}
			}
		}
		return out
	}
	keysOf := func(m map[string]bool) []string {
		var ks []string
		for k := range m {
			ks = append(ks, k)
		}
		sort.Strings(ks)
		return ks
	}
	if intTbl == nil || floatTbl == nil {
		o := mk("parser-tables", "the literal parser's integer and float suffix tables are extractable")
		o.Status, o.Got = core.Violated, "suffix switches not recognised"
		return append(obs, o)
	}
	ev := &skelEval{c: c, sizes: pk.TypesSizes}
	// the suffix classifiers are found by behaviour among the byte predicates parseLiteral calls:
	// the integer one accepts B, S, L and rejects digits; the float one accepts F, D and rejects B
	var intClass, floatClass *ssa.Function
	for _, sc := range c.Funcs() {
		if !inPkgs(sc, "nbt") || sc.Parent() != nil || len(sc.Params) != 1 || sc.Signature.Results().Len() != 1 || sc.Signature.Recv() != nil {
			continue
		}
		if bt, ok := sc.Params[0].Type().Underlying().(*types.Basic); !ok || bt.Kind() != types.Uint8 {
			continue
		}
		if b, ok := sc.Signature.Results().At(0).Type().Underlying().(*types.Basic); !ok || b.Kind() != types.Bool {
			continue
		}
		accepts := func(chars string) (all, none bool) {
			all, none = true, true
			for _, ch := range []byte(chars) {
				r, err := ev.run(sc, []*big.Int{bi(int64(ch))})
				if err != nil {
					return false, false
				}
				if r.Sign() != 0 {
					none = false
				} else {
					all = false
				}
			}
			return
		}
		aInt, _ := accepts("BSL")
		_, nDig := accepts("09.")
		aFl, _ := accepts("FD")
		_, nB := accepts("B0")
		switch {
		case aInt && nDig:
			intClass = sc
		case aFl && nB && nDig:
			floatClass = sc
		}
	}
	class := func(kind string, ch byte) (bool, error) {
		fn := intClass
		if kind == "float" {
			fn = floatClass
		}
		if fn == nil {
			return false, fmt.Errorf("no %s-suffix classifier recognised among the byte predicates of the literal parser", kind)
		}
		r, err := ev.run(fn, []*big.Int{bi(int64(ch))})
		if err != nil {
			return false, err
		}
		return r.Sign() != 0, nil
	}
	var tags []string
	for t := range emits {
		tags = append(tags, t)
	}
	sort.Strings(tags)
	intTags := map[string]bool{"TagByte": true, "TagShort": true, "TagInt": true, "TagLong": true}
	arrElem := map[string]string{"TagByteArray": "TagByte", "TagIntArray": "TagInt", "TagLongArray": "TagLong"}
	for _, t := range tags {
		e := emits[t]
		want := t
		if et, ok := arrElem[t]; ok {
			want = et
		}
		isInt := intTags[want]
		isFloat := want == "TagFloat" || want == "TagDouble"
		if !isInt && !isFloat {
			continue
		}
		suf := ""
		if len(e.suffixes) > 0 {
			suf = e.suffixes[len(e.suffixes)-1]
		}
		o := mk("suffix:"+t, "the numeric suffix the text writer emits for "+t+" is classified back to "+want+" by the parser's literal classifier")
		o.Pos = c.P.Pos(ws.cases[tagValueByName(ws, t)].Pos())
		switch {
		case len(suf) > 1:
			o.Status, o.Got = core.Violated, "suffix "+strconv.Quote(suf)+" is longer than one character"
		case suf == "":
			if intTbl[0] != want {
				o.Status, o.Got = core.Violated, "no suffix is written, but an unsuffixed integer parses as "+intTbl[0]
			}
		default:
			ch := suf[0]
			if isInt {
				okc, err := class("int", ch)
				if err != nil {
					o.Status, o.Got = core.Violated, err.Error()
				} else if !okc {
					o.Status, o.Got = core.Violated, fmt.Sprintf("the writer emits suffix %q but the parser's integer-suffix predicate rejects %q: the literal is read as a string, not as %s", suf, suf, want)
				} else if intTbl[int64(ch)] != want {
					o.Status, o.Got = core.Violated, fmt.Sprintf("suffix %q maps to %s in the parser, the writer used it for %s", suf, intTbl[int64(ch)], want)
				}
			} else {
				okc, err := class("float", ch)
				if err != nil {
					o.Status, o.Got = core.Violated, err.Error()
				} else if !okc {
					o.Status, o.Got = core.Violated, fmt.Sprintf("the parser's float-suffix predicate rejects %q", suf)
				} else {
					if ts := tagsOf(int64(ch), true); len(ts) != 1 || !ts[want] {
						o.Status, o.Got = core.Violated, fmt.Sprintf("suffix %q maps to %v in the parser, the writer used it for %s", suf, keysOf(ts), want)
					}
				}
			}
		}
		obs = append(obs, o)
	}
	// ---- array prefix tables: writer prefix, TagType(), writeListOrArray agree
	var prefTables []map[int64]string
	for _, fn := range c.Funcs() {
		if !inPkgs(fn, "nbt") || fn.Parent() != nil {
			continue
		}
		d, p := c.astFuncDecl(fn)
		if d == nil || p == nil {
			continue
		}
		for _, tb := range charTagTables(p.TypesInfo, d.Body) {
			arr := true
			for k, v := range tb {
				if k >= 0 && !strings.HasSuffix(v, "Array") {
					arr = false
				}
			}
			// a prefix table maps at least two of the prefix characters B, I, L
			nPref := 0
			for _, ch := range []int64{'B', 'I', 'L'} {
				if _, ok := tb[ch]; ok {
					nPref++
				}
			}
			if nPref < 2 {
				arr = false
			}
			if arr {
				prefTables = append(prefTables, tb)
			}
		}
	}
	// ... or one table of rows {prefix character, array tag, ...} that a lookup helper scans
	if pk := c.P.Pkg("nbt"); pk != nil {
		for _, f := range pk.Syntax {
			ast.Inspect(f, func(n ast.Node) bool {
				cl, ok := n.(*ast.CompositeLit)
				if !ok || len(cl.Elts) < 2 {
					return true
				}
				tb := map[int64]string{}
				for _, el := range cl.Elts {
					if kv, isKV := el.(*ast.KeyValueExpr); isKV {
						// map[byte]byte{'B': TagByteArray}
						if ktv, ok := pk.TypesInfo.Types[kv.Key]; ok && ktv.Value != nil {
							if name, _, isTag := tagConst(pk.TypesInfo, kv.Value); isTag {
								if ch, ok := constant.Int64Val(ktv.Value); ok {
									tb[ch] = name
								}
							}
						}
						continue
					}
					row, ok := el.(*ast.CompositeLit)
					if !ok {
						return true
					}
					ch, tag := int64(-1), ""
					for _, fe := range row.Elts {
						if kv, isKV := fe.(*ast.KeyValueExpr); isKV {
							fe = kv.Value
						}
						if name, _, isTag := tagConst(pk.TypesInfo, fe); isTag {
							if tag == "" && strings.HasSuffix(name, "Array") {
								tag = name
							}
							continue
						}
						if bl, isLit := ast.Unparen(fe).(*ast.BasicLit); isLit && bl.Kind == token.CHAR {
							if tv, ok := pk.TypesInfo.Types[fe]; ok && tv.Value != nil {
								ch, _ = constant.Int64Val(tv.Value)
							}
						}
					}
					if ch >= 0 && tag != "" {
						tb[ch] = tag
					}
				}
				nPref := 0
				for _, ch := range []int64{'B', 'I', 'L'} {
					if v, ok := tb[ch]; ok && strings.HasSuffix(v, "Array") {
						nPref++
					}
				}
				if nPref >= 2 {
					prefTables = append(prefTables, tb)
				}
				return true
			})
		}
	}
	po := mk("array-prefix-tables", "the typed-array prefixes B/I/L mean ByteArray/IntArray/LongArray in the writer, in TagType() and in the parser alike")
	if len(prefTables) < 1 {
		po.Status, po.Got = core.Violated, fmt.Sprintf("%d prefix tables found in TagType/writeListOrArray", len(prefTables))
	} else {
		for _, t := range []string{"TagByteArray", "TagIntArray", "TagLongArray"} {
			p := emits[t].prefix
			if len(p) != 3 {
				po.Status, po.Got = core.Violated, "writer prefix for "+t+" is "+strconv.Quote(p)
				continue
			}
			for i, tb := range prefTables {
				if tb[int64(p[1])] != t {
					po.Status, po.Got = core.Violated, fmt.Sprintf("prefix %q is written for %s but table %d maps it to %s", p, t, i, tb[int64(p[1])])
				}
			}
		}
	}
	obs = append(obs, po)
	return obs
}

// literalParsers: the functions of package nbt that map numeric suffix characters
// to tags (one function holding both tables, or the pieces it was split into),
// with the integer table (has 'B') and the float table (has 'F', not 'B').
func (c *Ctx) literalParsers() (fns []*ssa.Function, intTbl, floatTbl map[int64]string) {
	fns, intTbl, floatTbl, _ = c.literalParsersAll()
	return
}

// literalParsersAll additionally returns every suffix -> tag table found.
func (c *Ctx) literalParsersAll() (fns []*ssa.Function, intTbl, floatTbl map[int64]string, all []map[int64]string) {
	for _, fn := range c.Funcs() {
		if !inPkgs(fn, "nbt") || fn.Parent() != nil {
			continue
		}
		d, p := c.astFuncDecl(fn)
		if d == nil || p == nil {
			continue
		}
		hit := false
		for _, tb := range charTagTables(p.TypesInfo, normDecl(p, d).Body) {
			_, hasB := tb['B']
			_, hasF := tb['F']
			isArr := false
			for k, v := range tb {
				if k >= 0 && strings.HasSuffix(v, "Array") {
					isArr = true
				}
			}
			if isArr {
				continue
			}
			if hasB || hasF {
				all = append(all, tb)
			}
			switch {
			case hasB && intTbl == nil:
				intTbl, hit = tb, true
			case hasF && !hasB && floatTbl == nil:
				floatTbl, hit = tb, true
			}
		}
		if hit {
			fns = append(fns, fn)
		}
	}
	return
}

// literalParser: the first of them (positions, names in messages).
func (c *Ctx) literalParser() *ssa.Function {
	fns, i, f := c.literalParsers()
	if len(fns) == 0 || i == nil || f == nil {
		return nil
	}
	return fns[0]
}

func tagValueByName(ts *tagSwitch, name string) int64 {
	for v, n := range ts.names {
		if n == name {
			return v
		}
	}
	return -1
}

// structVarStrings: the string literals in the composite-literal initialiser of a package-level struct variable.
func (c *Ctx) structVarStrings(pk *packages.Package, vr *types.Var) []string {
	var out []string
	for _, f := range pk.Syntax {
		for _, d := range f.Decls {
			gd, ok := d.(*ast.GenDecl)
			if !ok || gd.Tok != token.VAR {
				continue
			}
			for _, sp := range gd.Specs {
				vs, ok := sp.(*ast.ValueSpec)
				if !ok {
					continue
				}
				for i, nm := range vs.Names {
					if pk.TypesInfo.Defs[nm] != types.Object(vr) || i >= len(vs.Values) {
						continue
					}
					ast.Inspect(vs.Values[i], func(n ast.Node) bool {
						if bl, ok := n.(*ast.BasicLit); ok && bl.Kind == token.STRING {
							if s, err := strconv.Unquote(bl.Value); err == nil {
								out = append(out, s)
							}
						}
						return true
					})
				}
			}
		}
	}
	return out
}
