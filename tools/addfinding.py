#!/usr/bin/env python3
# usage: addfinding.py property rule key status commit what [failing_input]
import json,sys
f='/verif/known_findings.json'
d=json.load(open(f))
prop,rule,key,status,commit,what=sys.argv[1:7]
inp=sys.argv[7] if len(sys.argv)>7 else ""
e={"property":prop,"rule":rule,"key":key,"status":status,"what":("fixed: property=%s %s %s"%(prop,commit,what)) if status=="fixed" else what}
if commit: e["commit"]=commit
if inp: e["failing_input"]=inp
d["findings"]=[x for x in d["findings"] if not (x["property"]==prop and x["rule"]==rule and x["key"]==key)]
d["findings"].append(e)
json.dump(d,open(f,'w'),indent=1)
