module gmcfix

go 1.22
