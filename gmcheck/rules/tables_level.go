package rules

import (
	"fmt"
	"go/token"
	"sort"
	"strings"

	"gmcheck/core"

	"golang.org/x/tools/go/ssa"
)

// renderExpr prints an SSA integer expression with the section count
// abstracted as N (int parameters and len(...) calls).
func renderExpr(v ssa.Value, depth int) string {
	if depth > 10 {
		return "?"
	}
	switch x := v.(type) {
	case *ssa.Const:
		if n, ok := constInt(x); ok {
			return n.String()
		}
		return "const"
	case *ssa.Convert:
		return renderExpr(x.X, depth+1)
	case *ssa.ChangeType:
		return renderExpr(x.X, depth+1)
	case *ssa.Parameter:
		return "N"
	case *ssa.BinOp:
		return "(" + renderExpr(x.X, depth+1) + x.Op.String() + renderExpr(x.Y, depth+1) + ")"
	case *ssa.Call:
		n := calleeName(x.Common())
		if n == "builtin.len" {
			return "N"
		}
		var as []string
		for _, a := range x.Common().Args {
			as = append(as, renderExpr(a, depth+1))
		}
		return n[strings.LastIndex(n, "/")+1:] + "(" + strings.Join(as, ",") + ")"
	case *ssa.Phi:
		return "phi"
	}
	return "?"
}

// HeightMapBits implements T-HMBITS: every construction of a 16x16 height map
// storage derives its bit width from the section count by the same expression.
func (c *Ctx) HeightMapBits() []core.Ob {
	forms := map[string][]string{}
	var posOf = map[string]string{}
	n := 0
	for _, fn := range c.Funcs() {
		if !inPkgs(fn, "level") {
			continue
		}
		for _, ci := range callsIn(fn, func(nm string, _ *ssa.CallCommon) bool { return strings.HasSuffix(nm, "level.NewBitStorage") }) {
			args := ci.Common().Args
			if len(args) < 3 {
				continue
			}
			if k, ok := constIntVal(args[1]); !ok || k != 256 {
				continue
			}
			n++
			f := renderExpr(args[0], 0)
			forms[f] = append(forms[f], core.FnName(fn))
			posOf[f] = c.P.Pos(ci.Pos())
		}
	}
	o := core.Ob{Rule: "T-HMBITS", Key: "heightmap-bit-width", Armed: true, Status: core.OK,
		Want: "every 16x16 height-map storage (EmptyChunk, ChunkFromSave, Chunk.ReadFrom) derives its bits-per-value from the section count by one and the same expression"}
	var keys []string
	for f := range forms {
		keys = append(keys, f)
		o.Pos = posOf[f]
	}
	sort.Strings(keys)
	switch {
	case n < 10:
		o.Status, o.Got = core.Violated, fmt.Sprintf("only %d height-map constructions found", n)
	case len(keys) != 1:
		var parts []string
		for _, f := range keys {
			fs := forms[f]
			sort.Strings(fs)
			parts = append(parts, f+" in "+strings.Join(uniq(fs), ",")+" ("+posOf[f]+")")
		}
		o.Status, o.Got = core.Violated, "sites disagree: "+strings.Join(parts, "  vs  ")
	default:
		o.Got = fmt.Sprintf("%d sites: %s", n, keys[0])
	}
	return []core.Ob{o}
}

func uniq(s []string) []string {
	var out []string
	for i, x := range s {
		if i == 0 || x != s[i-1] {
			out = append(out, x)
		}
	}
	return out
}

// PaletteResizeCopiesAll: the resize branch of PaletteContainer.Set copies
// every position of the old container.
func (c *Ctx) PaletteResizeCopiesAll() []core.Ob {
	fn := c.Fn("level.(*PaletteContainer).Set")
	o := core.Ob{Rule: "R-ORDER", Key: "palette-resize:copies-every-position", Armed: true, Status: core.OK,
		Want: "when the palette grows, the copy loop runs over i = 0 .. length-1 where length is the length the new storage is created with"}
	if fn == nil {
		o.Status, o.Got = core.Violated, "level.(*PaletteContainer).Set not found"
		return []core.Ob{o}
	}
	o.Pos, o.Func = c.P.Pos(fn.Pos()), core.FnName(fn)
	news := callsIn(fn, func(nm string, _ *ssa.CallCommon) bool { return strings.HasSuffix(nm, "level.NewBitStorage") })
	if len(news) != 1 {
		o.Status, o.Got = core.Violated, fmt.Sprintf("%d NewBitStorage calls in Set", len(news))
		return []core.Ob{o}
	}
	length := stripConv(news[0].Common().Args[1])
	found := false
	for _, lp := range naturalLoops(fn) {
		// the loop must contain a recursive Set call (the copy)
		hasCopy := false
		for b := range lp.body {
			for _, in := range b.Instrs {
				if ci, ok := in.(ssa.CallInstruction); ok {
					if sc := ci.Common().StaticCallee(); sc != nil && core.Origin(sc) == fn {
						hasCopy = true
					}
				}
			}
		}
		if !hasCopy {
			continue
		}
		found = true
		iff, ok := lp.header.Instrs[len(lp.header.Instrs)-1].(*ssa.If)
		if !ok {
			o.Status, o.Got = core.Violated, "copy loop has no guard in its header"
			continue
		}
		cmp, ok := iff.Cond.(*ssa.BinOp)
		if !ok || cmp.Op != token.LSS {
			o.Status, o.Got = core.Violated, "copy loop guard is not `i < length`"
			continue
		}
		phi, isPhi := stripConv(cmp.X).(*ssa.Phi)
		if !isPhi || !isCounterPhi(phi) {
			o.Status, o.Got = core.Violated, "copy loop does not count from 0 in steps of 1"
			continue
		}
		if stripConv(cmp.Y) != length {
			o.Status, o.Got = core.Violated, "the copy loop's bound is not the length of the new storage (some positions are not copied)"
		}
	}
	if !found {
		o.Status, o.Got = core.Violated, "no copy loop found in the resize branch"
	}
	return []core.Ob{o}
}
