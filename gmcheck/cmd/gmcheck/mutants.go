package main

import (
	"encoding/json"
	"fmt"
	"io"
	"io/fs"
	"os"
	"os/exec"
	"path/filepath"
	"sort"
	"strings"
	"sync"
)

// mutantResult is one line of the thorough tier's kill matrix.
type mutantResult struct {
	Name     string `json:"name"`
	Source   string `json:"source"` // "own corpus" or "independently seeded"
	Expected string `json:"expected"`
	Result   string `json:"result"` // killed | survived | does-not-compile | patch-failed
	By       string `json:"reported_construct,omitempty"`
}

type seedMeta struct {
	Property string `json:"property"`
	Detected *bool  `json:"detected"`
}

// copyTree copies src to dst; the directories named in link (relative to src)
// are not copied but symlinked: large generated trees that the patch at hand
// does not touch are only read through the link.
func copyTree(src, dst string, link ...string) error {
	return filepath.WalkDir(src, func(p string, d fs.DirEntry, err error) error {
		if err != nil {
			return err
		}
		rel, _ := filepath.Rel(src, p)
		if rel == ".git" {
			return filepath.SkipDir
		}
		for _, l := range link {
			if rel == l && d.IsDir() {
				if err := os.Symlink(p, filepath.Join(dst, rel)); err != nil {
					return err
				}
				return filepath.SkipDir
			}
		}
		target := filepath.Join(dst, rel)
		if d.IsDir() {
			return os.MkdirAll(target, 0o755)
		}
		if !d.Type().IsRegular() {
			return nil
		}
		in, err := os.Open(p)
		if err != nil {
			return err
		}
		defer in.Close()
		out, err := os.Create(target)
		if err != nil {
			return err
		}
		defer out.Close()
		_, err = io.Copy(out, in)
		return err
	})
}

// runMutants applies every mutant registered for the property to a scratch
// copy of the repository (never to the repository itself), checks that it still
// compiles, and runs the property's quick check on the copy in a child process.
// Mutants are analysed, never executed.
func runMutants(prop, repo, verif string) []mutantResult {
	type job struct {
		name, patch, source, expected string
	}
	var jobs []job
	own, _ := filepath.Glob(filepath.Join(verif, "mutants", prop, "*.diff"))
	sort.Strings(own)
	for _, p := range own {
		jobs = append(jobs, job{name: "mutants/" + prop + "/" + filepath.Base(p), patch: p, source: "own corpus", expected: "killed"})
	}
	seeds, _ := filepath.Glob(filepath.Join(verif, "seeded", prop+"-*", "patch.diff"))
	sort.Strings(seeds)
	for _, p := range seeds {
		exp := "unknown"
		var m seedMeta
		if b, err := os.ReadFile(filepath.Join(filepath.Dir(p), "meta.json")); err == nil && json.Unmarshal(b, &m) == nil && m.Detected != nil {
			if *m.Detected {
				exp = "killed"
			} else {
				exp = "survives (outside the static rules, see DESIGN.md section 8)"
			}
		}
		jobs = append(jobs, job{name: "seeded/" + filepath.Base(filepath.Dir(p)), patch: p, source: "independently seeded", expected: exp})
	}
	// behaviour-preserving refactorings (written by independent agents, each verified against the
	// test suite and by differential testing): the check must stay silent on every one of them
	// (only those that touch a directory the property's rules look at: the directories of the
	// property's anchor files plus the packages its rules are bound to; a refactoring of chat/ says
	// nothing about the region file)
	scope := propertyScope(prop, verif)
	refs, _ := filepath.Glob(filepath.Join(verif, "refactors", "*", "patch.diff"))
	sort.Strings(refs)
	for _, p := range refs {
		if !patchTouches(p, scope) {
			continue
		}
		jobs = append(jobs, job{name: "refactors/" + filepath.Base(filepath.Dir(p)), patch: p, source: "behaviour-preserving refactoring", expected: "silent"})
	}
	if len(jobs) == 0 {
		return nil
	}
	self, err := os.Executable()
	if err != nil {
		self = "/verif/bin/gmcheck"
	}
	env := append(os.Environ(), "GOFLAGS=-mod=mod", "GOPROXY=off", "GOSUMDB=off", "GOTOOLCHAIN=local", "GOWORK=off")
	results := make([]mutantResult, len(jobs))
	sem := make(chan struct{}, 6)
	var wg sync.WaitGroup
	for i, j := range jobs {
		wg.Add(1)
		go func(i int, j job) {
			defer wg.Done()
			sem <- struct{}{}
			defer func() { <-sem }()
			res := mutantResult{Name: j.name, Source: j.source, Expected: j.expected}
			defer func() { results[i] = res }()
			scratch, err := os.MkdirTemp("", "gmcmut")
			if err != nil {
				res.Result = "scratch-failed"
				return
			}
			defer os.RemoveAll(scratch)
			r, v := filepath.Join(scratch, "repo"), filepath.Join(scratch, "verif")
			// the generated data tree (62 MB) is symlinked unless the patch touches it
			var link []string
			if pb, err := os.ReadFile(j.patch); err == nil && !strings.Contains(string(pb), " a/data/") && !strings.Contains(string(pb), " b/data/") {
				link = []string{"data"}
			}
			if err := copyTree(repo, r, link...); err != nil {
				res.Result = "scratch-failed"
				return
			}
			_ = os.MkdirAll(v, 0o755)
			_ = copyTree(filepath.Join(verif, "rules"), filepath.Join(v, "rules"))
			if b, err := os.ReadFile(filepath.Join(verif, "known_findings.json")); err == nil {
				_ = os.WriteFile(filepath.Join(v, "known_findings.json"), b, 0o644)
			}
			patch := exec.Command("patch", "-p1", "-s", "-i", j.patch)
			patch.Dir = r
			if out, err := patch.CombinedOutput(); err != nil {
				res.Result = "patch-failed"
				res.By = strings.TrimSpace(string(out))
				return
			}
			// no `go build` of the copy: the child type-checks the whole module from
			// source and reports a load failure on any type error (building every
			// scratch copy would fill the build cache)
			chk := exec.Command(self, "-property", prop, "-tier", "quick", "-repo", r, "-verif", v, "-nofixtures")
			chk.Env = env
			out, _ := chk.CombinedOutput()
			if strings.Contains(string(out), "gmcheck: load:") {
				res.Result = "does-not-compile"
				res.By = firstLine(string(out))
				return
			}
			if strings.Contains(string(out), "VIOLATION property="+prop) {
				res.Result = "killed"
				for _, ln := range strings.Split(string(out), "\n") {
					if strings.Contains(ln, "] ") && strings.Contains(ln, " [") && !strings.HasPrefix(ln, " ") {
						res.By = strings.TrimSpace(ln)
						break
					}
				}
			} else {
				res.Result = "survived"
			}
		}(i, j)
	}
	wg.Wait()
	return results
}

func firstLine(s string) string {
	if i := strings.Index(s, "\n"); i >= 0 {
		return s[:i]
	}
	return s
}

func summarizeMutants(rs []mutantResult) (killed, total, regress int, lines []string) {
	for _, r := range rs {
		if r.Expected != "silent" {
			total++
			if r.Result == "killed" {
				killed++
			}
		}
		if r.Expected == "killed" && r.Result != "killed" {
			regress++
			lines = append(lines, fmt.Sprintf("CHECKER-REGRESSION: %s was expected to be reported and is %s", r.Name, r.Result))
		}
		if r.Expected == "silent" && r.Result == "killed" {
			regress++
			lines = append(lines, fmt.Sprintf("CHECKER-REGRESSION: false alarm on the behaviour-preserving %s: %s", r.Name, r.By))
		}
	}
	return
}

// propertyScope: directory prefixes whose files the checks of a property read. nil = everything.
func propertyScope(prop, verif string) []string {
	extra := map[string][]string{
		"C01": {"nbt/"}, "C02": {"nbt/"}, "C03": {"nbt/"}, "C04": {"nbt/"},
		"C05": {"net/"}, "C06": {"net/", "nbt/"}, "C07": {"net/"},
		"C08": nil, "C09": nil,
		"C10": {"net/"}, "C11": {"level/", "save/"}, "C12": {"level/", "save/"}, "C13": {"level/", "save/", "net/packet/", "nbt/"},
		"C14": {"save/"}, "C15": {"save/"}, "C16": {"net/"}, "C17": {"chat/", "net/packet/", "nbt/"},
		"C18": {"offline/", "bot/", "server/", "yggdrasil/"},
		"C19": {"bot/", "server/", "net/", "data/", "chat/", "offline/", "registry/"},
		"C20": {"net/", "nbt/", "level/", "server/", "bot/"},
	}
	sc, ok := extra[prop]
	if !ok || sc == nil {
		return nil
	}
	// the directories of the anchor files named by the property itself
	if b, err := os.ReadFile(filepath.Join(verif, "properties.jsonl")); err == nil {
		for _, ln := range strings.Split(string(b), "\n") {
			var p struct {
				ID      string `json:"id"`
				Anchors struct {
					Files []string `json:"files"`
				} `json:"anchors"`
			}
			if json.Unmarshal([]byte(ln), &p) == nil && p.ID == prop {
				for _, f := range p.Anchors.Files {
					sc = append(sc, filepath.Dir(f)+"/")
				}
			}
		}
	}
	return sc
}

// patchTouches: the patch changes a file under one of the prefixes (nil = any).
func patchTouches(patch string, prefixes []string) bool {
	if prefixes == nil {
		return true
	}
	b, err := os.ReadFile(patch)
	if err != nil {
		return true
	}
	for _, ln := range strings.Split(string(b), "\n") {
		for _, mark := range []string{"+++ b/", "--- a/"} {
			if strings.HasPrefix(ln, mark) {
				f := strings.TrimPrefix(ln, mark)
				for _, pre := range prefixes {
					if strings.HasPrefix(f, pre) {
						return true
					}
				}
			}
		}
	}
	return false
}
